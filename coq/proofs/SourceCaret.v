(* SourceCaret.v — the caret methods of depth_collector.DepthCollector AS TRANSLATED FROM THE
   SOURCE TEXT with the heap embedding (gen/SourceHeap.v, model/PyHeap.v) refine the functional
   model of model/Collector.v.

   In Python `_rightmost_branches` is a stack of ALIASES into the nested list `tree`; the model
   keeps only the caret depth and appends along the rightmost spine (spine_app).  The model is
   exact only if the alias stack always IS the rightmost spine of the tree.  This file states
   that as an abstraction function [rep] from heap states to model states, defined on exactly
   the well-formed heaps (the k-th branch is the last item of the (k-1)-th; the finished
   subtrees contain no branch, no bookkeeping list and no dangling address), and proves that
   every translated method maps represented states to represented states, with the model's
   result.  (DESIGN.md section 3 recorded this as an argument; it is now a theorem about the
   source text.) *)
From Coq Require Import List NArith ZArith Bool Arith Lia.
From D2P Require Import Str Err Xml TableTypes Tables Fmt Bullets Merge Collector PyVal PyHeap SourceHeap.
Import ListNotations.

(* field names *)
Definition f_branches : str := [95;114;105;103;104;116;109;111;115;116;95;98;114;97;110;99;104;101;115]%N.
Definition f_open_pars : str := [95;111;112;101;110;95;112;97;114;115]%N.
Definition f_lineage : str := [95;108;105;110;101;97;103;101]%N.
Definition f_par_depth : str := [95;112;97;114;95;100;101;112;116;104]%N.
Definition s_document : str := [100;111;99;117;109;101;110;116]%N.
Definition f_localname : str := [108;111;99;97;108;110;97;109;101]%N.

Section Rep.
  (* how a paragraph record (a reference to a Par object, opaque to the caret methods) is read *)
  Variable leaf_of : pv -> option par.

  Fixpoint mapo {A B} (f : A -> option B) (l : list A) : option (list B) :=
    match l with
    | [] => Some []
    | x :: r => match f x, mapo f r with Some y, Some ys => Some (y :: ys) | _, _ => None end
    end.

  (* a FINISHED subtree: a reference to a list of finished subtrees, or a record.  [avoid] are
     the addresses it must not contain (the branches and the bookkeeping objects); lists in the
     model are newest-first.  fuel bounds the nesting depth (the tree is 4 deep). *)
  Fixpoint abs_node (fuel : nat) (h : heap) (avoid : list nat) (v : pv) : option node :=
    match fuel with
    | O => None
    | S f =>
        match v with
        | VRef a =>
            match h_get a h with
            | Some (HList l) =>
                if existsb (Nat.eqb a) avoid then None
                else match mapo (abs_node f h avoid) l with
                     | Some ns => Some (NL (rev ns))
                     | None => None
                     end
            | Some (HObj _ _) => match leaf_of v with Some p => Some (NP p) | None => None end
            | None => None
            end
        | _ => None
        end
    end.

  (* the spine: branches bs (outermost first).  The list at the head branch consists of finished
     items followed - unless it is the innermost branch - by the reference to the next branch.
     Result: the model's (newest-first) list for the head branch.  The fuel for reading the
     finished items DECREASES by one per level, so that a branch list that stops being a branch
     (_raise_caret) is read, as a finished item of its parent, with exactly the fuel its own items
     were read with before. *)
  Fixpoint abs_spine (fuel : nat) (h : heap) (avoid : list nat) (bs : list nat) : option (list node) :=
    match bs with
    | [] => None
    | b :: rest =>
        match h_get b h with
        | Some (HList l) =>
            match rest with
            | [] => match mapo (abs_node fuel h avoid) l with Some ns => Some (rev ns) | None => None end
            | b' :: _ =>
                match rev l with
                | VRef x :: olds_rev =>
                    if Nat.eqb x b' then
                      match mapo (abs_node fuel h avoid) (rev olds_rev), abs_spine (pred fuel) h avoid rest with
                      | Some ns, Some inner => Some (NL inner :: rev ns)
                      | _, _ => None
                      end
                    else None
                | _ => None
                end
            end
        | _ => None
        end
    end.

  (* an open paragraph record: a reference to an object *)
  Definition abs_leaf (h : heap) (v : pv) : option par :=
    match abs_node 1 h [] v with Some (NP p) => Some p | _ => None end.

  Fixpoint refs_of (l : list pv) : option (list nat) :=
    match l with
    | [] => Some []
    | VRef a :: r => match refs_of r with Some rs => Some (a :: rs) | None => None end
    | _ :: _ => None
    end.

  Definition dec_ostr (v : pv) : option (option str) :=
    match v with VNone => Some None | VStr s => Some (Some s) | _ => None end.
  Definition dec_lineage (v : pv) : option lineage :=
    match v with
    | VTuple [VStr d; a; b; c; e] =>
        if str_eqb d s_document then
          match dec_ostr a, dec_ostr b, dec_ostr c, dec_ostr e with
          | Some a', Some b', Some c', Some e' => Some (a', b', c', e')
          | _, _, _, _ => None
          end
        else None
    | _ => None
    end.

  Fixpoint nodupb (l : list nat) : bool :=
    match l with [] => true | x :: r => negb (existsb (Nat.eqb x) r) && nodupb r end.

  (* the part of the collector state the caret methods read and write *)
  Record core := { k_depth : nat; k_lineage : lineage; k_tree : list node; k_open : list par }.
  Definition core_of (s : cst) : core :=
    {| k_depth := c_depth s; k_lineage := c_lineage s; k_tree := c_tree s; k_open := c_open s |}.

  (* the abstraction function: defined exactly on well-formed heaps *)
  Definition rep (h : heap) (self : pv) : option core :=
    match self with
    | VRef sa =>
        match h_get sa h with
        | Some (HObj _ fs) =>
            match field_get f_branches fs, field_get f_open_pars fs, field_get f_lineage fs,
                  field_get f_par_depth fs with
            | Some (VRef rb), Some (VRef op), Some lin, Some (VInt 4) =>
                match h_get rb h, h_get op h, dec_lineage lin with
                | Some (HList brs), Some (HList ops), Some lg =>
                    match refs_of brs with
                    | Some bs =>
                        let special := sa :: rb :: op :: bs in
                        if nodupb special && Nat.leb (length bs) 4 then   (* caret depth within 1..4 (C01) *)
                          match abs_spine 6 h special bs, mapo (abs_leaf h) ops with
                          | Some t, Some ps =>
                              Some {| k_depth := length bs; k_lineage := lg; k_tree := t; k_open := rev ps |}
                          | _, _ => None
                          end
                        else None
                    | None => None
                    end
                | _, _, _ => None
                end
            | _, _, _, _ => None
            end
        | _ => None
        end
    | _ => None
    end.
End Rep.

(* ================================================================== *)
(* Statements                                                           *)
(* ================================================================== *)
Definition enc_ostr (o : option str) : pv := match o with Some s => VStr s | None => VNone end.
Definition enc_depth_arg (d : option nat) : pv :=
  match d with None => VNone | Some n => VInt (Z.of_nat n) end.
(* the element argument of set_caret: None, or an element whose local name is read *)
Definition enc_elem (name : option str) : pv :=
  match name with None => VNone | Some n => VObj [] [(f_localname, VStr n)] end.
(* objects stay objects (the caret methods never turn a record into something else) *)
Definition objs_kept (h h' : heap) : Prop :=
  forall a c fs, h_get a h = Some (HObj c fs) -> exists fs', h_get a h' = Some (HObj c fs').
(* what a method does to a represented state, against the model's function *)
Definition refines (leaf_of : pv -> option par) (m : hm pv) (self : pv) (h : heap) (r : res cst) : Prop :=
  match r with
  | Ok s' => exists h', m h = HOk VNone h' /\ rep leaf_of h' self = Some (core_of s') /\ objs_kept h h'
  | Err e => exists h', m h = HErr e h'
  end.

(* ================================================================== *)
(* General lemmas: heap, fields, lists                                  *)
(* ================================================================== *)
Local Open Scope nat_scope.
Lemma h_get_lt : forall a h o, h_get a h = Some o -> a < length h.
Proof. unfold h_get; intros a h o H. apply nth_error_Some. rewrite H; discriminate. Qed.

Lemma h_get_ge : forall a h, length h <= a -> h_get a h = None.
Proof. unfold h_get; intros. apply nth_error_None; assumption. Qed.

Lemma h_set_length : forall h a o, length (h_set a o h) = length h.
Proof. induction h as [|x r IH]; intros [|a] o; simpl; auto. Qed.

Lemma h_get_set_same : forall h a o, a < length h -> h_get a (h_set a o h) = Some o.
Proof.
  unfold h_get. induction h as [|x r IH]; intros [|a] o L; simpl in *; try lia; auto.
  apply IH; lia.
Qed.

Lemma h_get_set_other : forall h a b o, a <> b -> h_get a (h_set b o h) = h_get a h.
Proof.
  unfold h_get. induction h as [|x r IH]; intros [|a] [|b] o N; simpl in *; auto; try congruence.
Qed.

Lemma h_get_app_old : forall h a o x, h_get a h = Some x -> h_get a (h ++ [o]) = Some x.
Proof.
  unfold h_get; intros h a o x H. rewrite nth_error_app1; auto.
  apply nth_error_Some. rewrite H; discriminate.
Qed.

Lemma h_get_app_lt : forall h a o, a < length h -> h_get a (h ++ [o]) = h_get a h.
Proof. unfold h_get; intros. apply nth_error_app1; assumption. Qed.

Lemma h_get_app_new : forall h o, h_get (length h) (h ++ [o]) = Some o.
Proof.
  unfold h_get; intros. rewrite nth_error_app2 by lia. rewrite Nat.sub_diag. reflexivity.
Qed.

Lemma str_eqb_refl : forall s, str_eqb s s = true.
Proof. induction s; simpl; auto. rewrite N.eqb_refl; auto. Qed.

Lemma str_eqb_sym : forall a b, str_eqb a b = str_eqb b a.
Proof.
  induction a as [|x a IH]; intros [|y b]; simpl; auto.
  rewrite N.eqb_sym, IH; reflexivity.
Qed.

Lemma str_eqb_eq : forall a b, str_eqb a b = true -> a = b.
Proof.
  induction a as [|x a IH]; intros [|y b]; simpl; intros H; auto; try discriminate.
  apply andb_true_iff in H. destruct H as [E1 E2]. apply N.eqb_eq in E1. subst y.
  f_equal; auto.
Qed.

Lemma field_get_set_same : forall k v fs, field_get k (field_set k v fs) = Some v.
Proof.
  induction fs as [|[k' v'] r IH]; simpl.
  - rewrite str_eqb_refl; reflexivity.
  - destruct (str_eqb k k') eqn:E; simpl; rewrite E; auto.
Qed.

Lemma field_get_set_other : forall k k' v fs,
  str_eqb k k' = false -> field_get k (field_set k' v fs) = field_get k fs.
Proof.
  induction fs as [|[k2 v2] r IH]; simpl; intros N.
  - rewrite N; reflexivity.
  - destruct (str_eqb k' k2) eqn:E; simpl.
    + apply str_eqb_eq in E. subst k2. rewrite N. reflexivity.
    + destruct (str_eqb k k2); auto.
Qed.

Lemma existsb_eqb_In : forall a l, existsb (Nat.eqb a) l = true <-> In a l.
Proof.
  intros a l. rewrite existsb_exists. split.
  - intros (x & I & E). apply Nat.eqb_eq in E. subst; auto.
  - intros I. exists a. split; auto. apply Nat.eqb_refl.
Qed.

Lemma existsb_eqb_notIn : forall a l, existsb (Nat.eqb a) l = false <-> ~ In a l.
Proof.
  intros a l. rewrite <- existsb_eqb_In. destruct (existsb (Nat.eqb a) l); split; intros; congruence.
Qed.

Lemma nodupb_NoDup : forall l, nodupb l = true <-> NoDup l.
Proof.
  induction l as [|x r IH]; simpl.
  - split; auto. constructor.
  - rewrite andb_true_iff, negb_true_iff, existsb_eqb_notIn, IH. split.
    + intros [A B]; constructor; auto.
    + intros H; inversion H; auto.
Qed.

Lemma NoDup_snoc : forall (l : list nat) n, NoDup l -> ~ In n l -> NoDup (l ++ [n]).
Proof.
  induction l as [|x r IH]; simpl; intros n H N.
  - constructor; [simpl; tauto | constructor].
  - inversion H; subst. constructor.
    + rewrite in_app_iff. simpl. intuition.
    + apply IH; auto.
Qed.

Lemma mapo_impl : forall {A B} (f g : A -> option B) l ys,
  mapo f l = Some ys -> (forall x y, In x l -> f x = Some y -> g x = Some y) -> mapo g l = Some ys.
Proof.
  induction l as [|x r IH]; simpl; intros ys H K; auto.
  destruct (f x) eqn:E; try discriminate. destruct (mapo f r) eqn:M; try discriminate.
  rewrite (K x b) by auto. rewrite (IH l) by auto. assumption.
Qed.

Lemma mapo_app : forall {A B} (f : A -> option B) l1 l2,
  mapo f (l1 ++ l2) = match mapo f l1, mapo f l2 with Some a, Some b => Some (a ++ b) | _, _ => None end.
Proof.
  induction l1 as [|x r IH]; simpl; intros l2.
  - destruct (mapo f l2); reflexivity.
  - rewrite IH. destruct (f x); auto. destruct (mapo f r); auto. destruct (mapo f l2); auto.
Qed.

Lemma mapo_one : forall {A B} (f : A -> option B) x,
  mapo f [x] = match f x with Some y => Some [y] | None => None end.
Proof. intros. simpl. destruct (f x); reflexivity. Qed.

Lemma mapo_app_inv : forall {A B} (f : A -> option B) l1 l2 ys,
  mapo f (l1 ++ l2) = Some ys ->
  exists a b, mapo f l1 = Some a /\ mapo f l2 = Some b /\ ys = a ++ b.
Proof.
  intros A B f l1 l2 ys H. rewrite mapo_app in H.
  destruct (mapo f l1); try discriminate. destruct (mapo f l2); try discriminate.
  inversion H; eauto.
Qed.

Lemma norm_index_last : forall n, norm_index (S n) (-1) = Some n.
Proof.
  intros n. unfold norm_index. change (0 <=? -1)%Z with false. cbv iota.
  destruct (0 <=? Z.of_nat (S n) + -1)%Z eqn:E.
  - f_equal. lia.
  - apply Z.leb_gt in E. lia.
Qed.

Lemma nth_error_snoc : forall {A} (l : list A) x, nth_error (l ++ [x]) (length l) = Some x.
Proof. intros. rewrite nth_error_app2 by lia. rewrite Nat.sub_diag. reflexivity. Qed.

Lemma hy_index_last : forall a h l x,
  h_get a h = Some (HList (l ++ [x])) -> hy_index (VRef a) (VInt (-1)) h = HOk x h.
Proof.
  intros a h l x H. unfold hy_index, hbind, hy_items. rewrite H. change (int_like (VInt (-1))) with (Some (-1)%Z). cbv iota.
  rewrite app_length. simpl length. rewrite Nat.add_1_r. rewrite norm_index_last.
  rewrite nth_error_snoc. reflexivity.
Qed.

Lemma hy_getattr_ref : forall a h c fs nm v,
  h_get a h = Some (HObj c fs) -> field_get nm fs = Some v -> hy_getattr (VRef a) nm h = HOk v h.
Proof. intros a h c fs nm v H F. unfold hy_getattr. rewrite H, F. reflexivity. Qed.

Lemma objs_kept_refl : forall h, objs_kept h h.
Proof. intros h a c fs H. eauto. Qed.

Lemma objs_kept_trans : forall h1 h2 h3, objs_kept h1 h2 -> objs_kept h2 h3 -> objs_kept h1 h3.
Proof. intros h1 h2 h3 A B a c fs H. destruct (A _ _ _ H) as [fs' H']. eauto. Qed.

Lemma objs_kept_app : forall h o, objs_kept h (h ++ [o]).
Proof. intros h o a c fs H. exists fs. apply h_get_app_old; assumption. Qed.

Lemma objs_kept_set_obj : forall h a c fs fs',
  h_get a h = Some (HObj c fs) -> objs_kept h (h_set a (HObj c fs') h).
Proof.
  intros h a c fs fs' H b c' fs2 G. destruct (Nat.eq_dec b a) as [->|N].
  - rewrite H in G. inversion G; subst. exists fs'. apply h_get_set_same. eapply h_get_lt; eauto.
  - exists fs2. rewrite h_get_set_other; auto.
Qed.

Lemma objs_kept_set_list : forall h a l l',
  h_get a h = Some (HList l) -> objs_kept h (h_set a (HList l') h).
Proof.
  intros h a l l' H b c' fs2 G. destruct (Nat.eq_dec b a) as [->|N].
  - rewrite H in G. discriminate.
  - exists fs2. rewrite h_get_set_other; auto.
Qed.

Lemma refs_of_map : forall brs bs, refs_of brs = Some bs -> brs = map VRef bs.
Proof.
  induction brs as [|x r IH]; simpl; intros bs H.
  - inversion H; reflexivity.
  - destruct x; try discriminate. destruct (refs_of r) eqn:E; try discriminate.
    inversion H; subst. simpl. f_equal. auto.
Qed.

Lemma refs_of_map_id : forall bs, refs_of (map VRef bs) = Some bs.
Proof. induction bs; simpl; auto. rewrite IHbs; reflexivity. Qed.

Lemma NoDup3 : forall (a b c : nat) l, NoDup (a :: b :: c :: l) ->
  a <> b /\ a <> c /\ b <> c /\ ~ In a l /\ ~ In b l /\ ~ In c l /\ NoDup l.
Proof.
  intros a b c l H.
  apply NoDup_cons_iff in H. destruct H as [Na H].
  apply NoDup_cons_iff in H. destruct H as [Nb H].
  apply NoDup_cons_iff in H. destruct H as [Nc H].
  simpl in *. intuition.
Qed.

Local Arguments h_get : simpl never.
Local Arguments h_set : simpl never.
Local Arguments field_get : simpl never.
Local Arguments field_set : simpl never.
Local Arguments hy_getattr : simpl never.
Local Arguments hy_setattr : simpl never.

Ltac fold_fields := fold f_branches f_open_pars f_lineage f_par_depth s_document.

Section Caret.
  Variable leaf_of : pv -> option par.

  (* ---------- rep as a relation ---------- *)
  Inductive Rep (h : heap) : pv -> core -> Prop :=
  | Rep_intro : forall sa cls fs rb op lin brs ops lg bs t ps,
      h_get sa h = Some (HObj cls fs) ->
      field_get f_branches fs = Some (VRef rb) ->
      field_get f_open_pars fs = Some (VRef op) ->
      field_get f_lineage fs = Some lin ->
      field_get f_par_depth fs = Some (VInt 4) ->
      h_get rb h = Some (HList brs) ->
      h_get op h = Some (HList ops) ->
      dec_lineage lin = Some lg ->
      refs_of brs = Some bs ->
      NoDup (sa :: rb :: op :: bs) ->
      length bs <= 4 ->
      abs_spine leaf_of 6 h (sa :: rb :: op :: bs) bs = Some t ->
      mapo (abs_leaf leaf_of h) ops = Some ps ->
      Rep h (VRef sa) {| k_depth := length bs; k_lineage := lg; k_tree := t; k_open := rev ps |}.

  Lemma rep_Rep : forall h self k, rep leaf_of h self = Some k -> Rep h self k.
  Proof.
    intros h self k H. unfold rep in H.
    repeat match type of H with
           | match ?x with _ => _ end = Some _ => destruct x eqn:?; cbv beta iota zeta in H; try discriminate H
           | (if ?x then _ else _) = Some _ => destruct x eqn:?; cbv beta iota zeta in H; try discriminate H
           end.
    inversion H; subst.
    match goal with E : (_ && _)%bool = true |- _ => apply andb_true_iff in E; destruct E as [E1 E2] end.
    apply nodupb_NoDup in E1. apply Nat.leb_le in E2.
    econstructor; eauto.
  Qed.

  Lemma Rep_rep : forall h self k, Rep h self k -> rep leaf_of h self = Some k.
  Proof.
    intros h self k H. destruct H as [sa cls fs rb op lin brs ops lg bs t ps H1 H2 H3 H4 H5 H6 H7 H8 H9 H10 H11 H12 H13].
    unfold rep. rewrite H1, H2, H3, H4, H5, H6, H7, H8, H9. cbv zeta.
    apply nodupb_NoDup in H10. rewrite H10. apply Nat.leb_le in H11. rewrite H11.
    simpl andb. cbv iota. rewrite H12, H13. reflexivity.
  Qed.

  (* ---------- frame lemmas for the abstraction ---------- *)
  (* what must hold between (h, avoid) and (h', avoid') for every finished subtree to be read
     the same: non-avoided lists are unchanged and stay non-avoided; objects stay objects *)
  Definition frame_ok (h : heap) (avoid : list nat) (h' : heap) (avoid' : list nat) : Prop :=
    (forall a l, h_get a h = Some (HList l) -> ~ In a avoid ->
                 h_get a h' = Some (HList l) /\ ~ In a avoid')
    /\ (forall a c fs, h_get a h = Some (HObj c fs) -> exists c' fs', h_get a h' = Some (HObj c' fs')).

  Lemma abs_node_frame : forall h avoid h' avoid', frame_ok h avoid h' avoid' ->
    forall fuel v n, abs_node leaf_of fuel h avoid v = Some n -> abs_node leaf_of fuel h' avoid' v = Some n.
  Proof.
    intros h avoid h' avoid' [Hl Ho]. induction fuel as [|f IH]; intros v n H; simpl in *; try discriminate.
    destruct v; try discriminate.
    destruct (h_get a h) as [[l|c fs]|] eqn:E; try discriminate.
    - destruct (existsb (Nat.eqb a) avoid) eqn:Ea; try discriminate.
      apply existsb_eqb_notIn in Ea. destruct (Hl _ _ E Ea) as [E' Ea'].
      apply existsb_eqb_notIn in Ea'. rewrite E', Ea'.
      destruct (mapo (abs_node leaf_of f h avoid) l) eqn:M; try discriminate.
      rewrite (mapo_impl _ (abs_node leaf_of f h' avoid') _ _ M (fun x y _ => IH x y)). exact H.
    - destruct (Ho _ _ _ E) as (c' & fs' & E'). rewrite E'. exact H.
  Qed.

  Lemma mapo_node_frame : forall h avoid h' avoid', frame_ok h avoid h' avoid' ->
    forall fuel l ns, mapo (abs_node leaf_of fuel h avoid) l = Some ns ->
                      mapo (abs_node leaf_of fuel h' avoid') l = Some ns.
  Proof.
    intros h avoid h' avoid' F fuel l ns M.
    apply (mapo_impl _ _ _ _ M). intros x y _. apply abs_node_frame; assumption.
  Qed.

  Lemma abs_spine_frame : forall h avoid h' avoid', frame_ok h avoid h' avoid' ->
    forall bs fuel t, (forall b, In b bs -> h_get b h' = h_get b h) ->
      abs_spine leaf_of fuel h avoid bs = Some t -> abs_spine leaf_of fuel h' avoid' bs = Some t.
  Proof.
    intros h avoid h' avoid' F. induction bs as [|b rest IH]; intros fuel t Hb H; [discriminate|].
    simpl in H |- *. rewrite (Hb b (or_introl eq_refl)).
    destruct (h_get b h) as [[l|]|]; try discriminate. destruct rest as [|b' rest'].
    - destruct (mapo (abs_node leaf_of fuel h avoid) l) eqn:M; try discriminate.
      rewrite (mapo_node_frame _ _ _ _ F _ _ _ M). exact H.
    - destruct (rev l) as [|[] olds_rev]; try discriminate.
      destruct (Nat.eqb a b'); try discriminate.
      destruct (mapo (abs_node leaf_of fuel h avoid) (rev olds_rev)) eqn:M; try discriminate.
      destruct (abs_spine leaf_of (pred fuel) h avoid (b' :: rest')) eqn:S; try discriminate.
      rewrite (mapo_node_frame _ _ _ _ F _ _ _ M).
      rewrite (IH _ _ (fun x I => Hb x (or_intror I)) S). exact H.
  Qed.

  Lemma frame_ok_trans : forall h1 a1 h2 a2 h3 a3,
    frame_ok h1 a1 h2 a2 -> frame_ok h2 a2 h3 a3 -> frame_ok h1 a1 h3 a3.
  Proof.
    intros h1 a1 h2 a2 h3 a3 [L1 O1] [L2 O2]. split.
    - intros a l G N. destruct (L1 _ _ G N) as [G' N']. apply (L2 _ _ G' N').
    - intros a c fs G. destruct (O1 _ _ _ G) as (c' & fs' & G'). apply (O2 _ _ _ G').
  Qed.

  Lemma frame_ok_app : forall h avoid o, frame_ok h avoid (h ++ [o]) avoid.
  Proof.
    intros h avoid o. split.
    - intros a l G N. split; auto. apply h_get_app_old; assumption.
    - intros a c fs G. exists c, fs. apply h_get_app_old; assumption.
  Qed.

  Lemma frame_ok_set_obj : forall h avoid b c fs c' fs',
    h_get b h = Some (HObj c fs) -> frame_ok h avoid (h_set b (HObj c' fs') h) avoid.
  Proof.
    intros h avoid b c fs c' fs' H. split.
    - intros a l G N. split; auto. rewrite h_get_set_other; auto. intros ->. congruence.
    - intros a c2 fs2 G. destruct (Nat.eq_dec a b) as [->|N].
      + exists c', fs'. apply h_get_set_same. eapply h_get_lt; eauto.
      + exists c2, fs2. rewrite h_get_set_other; auto.
  Qed.

  Lemma frame_ok_set_list : forall h avoid b l l',
    h_get b h = Some (HList l) -> In b avoid -> frame_ok h avoid (h_set b (HList l') h) avoid.
  Proof.
    intros h avoid b l l' H I. split.
    - intros a l2 G N. split; auto. rewrite h_get_set_other; auto. intros ->. auto.
    - intros a c2 fs2 G. exists c2, fs2. rewrite h_get_set_other; auto. intros ->. congruence.
  Qed.

  Lemma frame_ok_avoid : forall h avoid avoid',
    (forall a, In a avoid' -> In a avoid \/ h_get a h = None) -> frame_ok h avoid h avoid'.
  Proof.
    intros h avoid avoid' K. split.
    - intros a l G N. split; auto. intros I. destruct (K _ I) as [I'|E]; auto. congruence.
    - intros a c fs G. eauto.
  Qed.

  Lemma abs_spine_valid : forall h avoid bs fuel t,
    abs_spine leaf_of fuel h avoid bs = Some t ->
    forall b, In b bs -> exists l, h_get b h = Some (HList l).
  Proof.
    induction bs as [|b0 rest IH]; intros fuel t H b I; [destruct I|].
    simpl in H. destruct (h_get b0 h) as [[l|]|] eqn:E; try discriminate.
    destruct I as [<-|I]; [eauto|].
    destruct rest as [|b' rest']; [destruct I|].
    destruct (rev l) as [|[] olds_rev]; try discriminate.
    destruct (Nat.eqb a b'); try discriminate.
    destruct (mapo (abs_node leaf_of fuel h avoid) (rev olds_rev)); try discriminate.
    destruct (abs_spine leaf_of (pred fuel) h avoid (b' :: rest')) eqn:S; try discriminate.
    eapply IH; eauto.
  Qed.

  (* ---------- the spine, level by level ---------- *)
  Lemma abs_spine_one_inv : forall fuel h avoid b t,
    abs_spine leaf_of fuel h avoid [b] = Some t ->
    exists l ns, h_get b h = Some (HList l) /\ mapo (abs_node leaf_of fuel h avoid) l = Some ns /\ t = rev ns.
  Proof.
    intros fuel h avoid b t H. simpl in H.
    destruct (h_get b h) as [[l|]|]; try discriminate.
    destruct (mapo (abs_node leaf_of fuel h avoid) l) as [ns|] eqn:M; try discriminate.
    inversion H. eauto.
  Qed.

  Lemma abs_spine_one_intro : forall fuel h avoid b l ns,
    h_get b h = Some (HList l) -> mapo (abs_node leaf_of fuel h avoid) l = Some ns ->
    abs_spine leaf_of fuel h avoid [b] = Some (rev ns).
  Proof. intros fuel h avoid b l ns G M. simpl. rewrite G, M. reflexivity. Qed.

  Lemma abs_spine_cons2_inv : forall fuel h avoid b b' rest t,
    abs_spine leaf_of fuel h avoid (b :: b' :: rest) = Some t ->
    exists olds ns inner,
      h_get b h = Some (HList (olds ++ [VRef b']))
      /\ mapo (abs_node leaf_of fuel h avoid) olds = Some ns
      /\ abs_spine leaf_of (pred fuel) h avoid (b' :: rest) = Some inner
      /\ t = NL inner :: rev ns.
  Proof.
    intros fuel h avoid b b' rest t H. remember (b' :: rest) as R eqn:ER. simpl in H.
    destruct (h_get b h) as [[l|]|]; try discriminate. subst R. cbv beta iota in H.
    destruct (rev l) as [|[] olds_rev] eqn:EL; try discriminate.
    destruct (Nat.eqb a b') eqn:EA; try discriminate. apply Nat.eqb_eq in EA. subst a.
    destruct (mapo (abs_node leaf_of fuel h avoid) (rev olds_rev)) as [ns|] eqn:M; try discriminate.
    destruct (abs_spine leaf_of (pred fuel) h avoid (b' :: rest)) as [inner|] eqn:HS; try discriminate.
    inversion H. exists (rev olds_rev), ns, inner. repeat split; auto.
    rewrite <- (rev_involutive l), EL. reflexivity.
  Qed.

  Lemma abs_spine_cons2_intro : forall fuel h avoid b b' rest olds ns inner,
    h_get b h = Some (HList (olds ++ [VRef b'])) ->
    mapo (abs_node leaf_of fuel h avoid) olds = Some ns ->
    abs_spine leaf_of (pred fuel) h avoid (b' :: rest) = Some inner ->
    abs_spine leaf_of fuel h avoid (b :: b' :: rest) = Some (NL inner :: rev ns).
  Proof.
    intros fuel h avoid b b' rest olds ns inner G M HS. remember (b' :: rest) as R eqn:ER. simpl.
    rewrite G. subst R. cbv beta iota. rewrite rev_app_distr.
    change (rev [VRef b'] ++ rev olds) with (VRef b' :: rev olds). cbv beta iota.
    rewrite Nat.eqb_refl, rev_involutive, M, HS. reflexivity.
  Qed.

  Lemma spine_app_SS : forall d x l' rest,
    spine_app (S (S d)) x (NL l' :: rest) = (l'' <- spine_app (S d) x l' ;; Ok (NL l'' :: rest)).
  Proof. reflexivity. Qed.

  (* a represented spine is as deep as the alias stack *)
  Lemma abs_spine_app_ok : forall h avoid x bs fuel t,
    abs_spine leaf_of fuel h avoid bs = Some t -> exists t', spine_app (length bs) x t = Ok t'.
  Proof.
    induction bs as [|b rest IH]; intros fuel t H; [discriminate|].
    destruct rest as [|b' rest'].
    - simpl. eauto.
    - apply abs_spine_cons2_inv in H. destruct H as (olds & ns & inner & G & M & HS & ->).
      destruct (IH _ _ HS) as [t' A]. exists (NL t' :: rev ns).
      change (length (b :: b' :: rest')) with (S (length (b' :: rest'))).
      change (length (b' :: rest')) with (S (length rest')) in *.
      rewrite spine_app_SS, A. reflexivity.
  Qed.

  (* _drop_caret on the spine: the innermost branch bl gets the new empty list n as its last item,
     and n becomes the innermost branch *)
  Lemma abs_spine_drop : forall h avoid h' avoid' n bl l,
    frame_ok h avoid h' avoid' -> h_get n h' = Some (HList []) ->
    h_get bl h = Some (HList l) -> h_get bl h' = Some (HList (l ++ [VRef n])) ->
    forall bs' fuel t,
      abs_spine leaf_of fuel h avoid (bs' ++ [bl]) = Some t -> ~ In bl bs' ->
      (forall b, In b bs' -> h_get b h' = h_get b h) ->
      exists t', spine_app (length (bs' ++ [bl])) (NL []) t = Ok t'
                 /\ abs_spine leaf_of fuel h' avoid' ((bs' ++ [bl]) ++ [n]) = Some t'.
  Proof.
    intros h avoid h' avoid' n bl l F Hn Hbl Hbl'.
    induction bs' as [|b r IH]; intros fuel t H Nbl Hb.
    - simpl app in *. apply abs_spine_one_inv in H. destruct H as (l0 & ns & G & M & ->).
      rewrite Hbl in G. inversion G; subst l0.
      exists (NL [] :: rev ns). split; [reflexivity|].
      apply abs_spine_cons2_intro with (olds := l); auto.
      + eapply mapo_node_frame; eauto.
      + apply (abs_spine_one_intro _ _ _ _ [] []); auto.
    - assert (Nr : ~ In bl r) by (intros I; apply Nbl; right; exact I).
      assert (Hr : forall b0, In b0 r -> h_get b0 h' = h_get b0 h) by (intros b0 I; apply Hb; right; exact I).
      assert (Hb0 : h_get b h' = h_get b h) by (apply Hb; left; reflexivity).
      destruct r as [|b' r']; simpl app in *;
        apply abs_spine_cons2_inv in H; destruct H as (olds & ns & inner & G & M & HS & ->);
        destruct (IH _ _ HS Nr Hr) as (t' & A & B);
        exists (NL t' :: rev ns); (split;
        [ simpl length in *; rewrite spine_app_SS, A; reflexivity
        | apply abs_spine_cons2_intro with (olds := olds);
          [ rewrite Hb0; exact G | eapply mapo_node_frame; eauto | exact B ] ]).
  Qed.

  (* _raise_caret on the spine: the innermost branch bl stops being a branch and is read as a
     finished item of its parent - with the fuel its own items were read with *)
  Lemma abs_spine_raise : forall h avoid h' avoid' bl,
    frame_ok h avoid h' avoid' -> h_get bl h' = h_get bl h -> ~ In bl avoid' ->
    forall bs' fuel t,
      bs' <> [] -> length bs' <= fuel ->
      abs_spine leaf_of fuel h avoid (bs' ++ [bl]) = Some t ->
      (forall b, In b bs' -> h_get b h' = h_get b h) ->
      abs_spine leaf_of fuel h' avoid' bs' = Some t.
  Proof.
    intros h avoid h' avoid' bl F Hbl Nbl.
    induction bs' as [|b r IH]; intros fuel t Hne Hlen H Hb; [congruence|].
    assert (Hr : forall b0, In b0 r -> h_get b0 h' = h_get b0 h) by (intros b0 I; apply Hb; right; exact I).
    assert (Hb0 : h_get b h' = h_get b h) by (apply Hb; left; reflexivity).
    destruct r as [|b' r']; simpl app in *.
    - apply abs_spine_cons2_inv in H. destruct H as (olds & ns & inner & G & M & HS & ->).
      apply abs_spine_one_inv in HS. destruct HS as (l1 & ns1 & G1 & M1 & ->).
      replace (NL (rev ns1) :: rev ns) with (rev (ns ++ [NL (rev ns1)]))
        by (rewrite rev_app_distr; reflexivity).
      apply abs_spine_one_intro with (l := olds ++ [VRef bl]); [rewrite Hb0; exact G|].
      rewrite mapo_app. rewrite (mapo_node_frame _ _ _ _ F _ _ _ M).
      destruct fuel as [|f]; [simpl in Hlen; lia|]. simpl pred in M1.
      simpl. rewrite Hbl, G1. apply existsb_eqb_notIn in Nbl. rewrite Nbl.
      rewrite (mapo_node_frame _ _ _ _ F _ _ _ M1). reflexivity.
    - apply abs_spine_cons2_inv in H. destruct H as (olds & ns & inner & G & M & HS & ->).
      apply abs_spine_cons2_intro with (olds := olds).
      + rewrite Hb0; exact G.
      + eapply mapo_node_frame; eauto.
      + apply IH; auto; [discriminate | simpl length in *; lia].
  Qed.

  (* appending an item (read as the finished node x) to the innermost branch bl *)
  Lemma abs_spine_append : forall h avoid h' avoid' bl l v x,
    frame_ok h avoid h' avoid' ->
    h_get bl h = Some (HList l) -> h_get bl h' = Some (HList (l ++ [v])) ->
    (forall f, abs_node leaf_of (S f) h' avoid' v = Some x) ->
    forall bs' fuel t,
      length (bs' ++ [bl]) <= fuel ->
      abs_spine leaf_of fuel h avoid (bs' ++ [bl]) = Some t -> ~ In bl bs' ->
      (forall b, In b bs' -> h_get b h' = h_get b h) ->
      exists t', spine_app (length (bs' ++ [bl])) x t = Ok t'
                 /\ abs_spine leaf_of fuel h' avoid' (bs' ++ [bl]) = Some t'.
  Proof.
    intros h avoid h' avoid' bl l v x F Hbl Hbl' Hv.
    induction bs' as [|b r IH]; intros fuel t Hlen H Nbl Hb.
    - simpl app in *. apply abs_spine_one_inv in H. destruct H as (l0 & ns & G & M & ->).
      rewrite Hbl in G. inversion G; subst l0.
      exists (x :: rev ns). split; [reflexivity|].
      replace (x :: rev ns) with (rev (ns ++ [x])) by (rewrite rev_app_distr; reflexivity).
      apply abs_spine_one_intro with (l := l ++ [v]); [exact Hbl'|].
      rewrite mapo_app. rewrite (mapo_node_frame _ _ _ _ F _ _ _ M).
      destruct fuel as [|f]; [simpl in Hlen; lia|]. rewrite mapo_one, Hv. reflexivity.
    - assert (Nr : ~ In bl r) by (intros I; apply Nbl; right; exact I).
      assert (Hr : forall b0, In b0 r -> h_get b0 h' = h_get b0 h) by (intros b0 I; apply Hb; right; exact I).
      assert (Hb0 : h_get b h' = h_get b h) by (apply Hb; left; reflexivity).
      assert (Hlen' : length (r ++ [bl]) <= pred fuel) by (simpl length in Hlen; lia).
      destruct r as [|b' r']; simpl app in *;
        apply abs_spine_cons2_inv in H; destruct H as (olds & ns & inner & G & M & HS & ->);
        destruct (IH _ _ Hlen' HS Nr Hr) as (t' & A & B);
        exists (NL t' :: rev ns); (split;
        [ simpl length in *; rewrite spine_app_SS, A; reflexivity
        | apply abs_spine_cons2_intro with (olds := olds);
          [ rewrite Hb0; exact G | eapply mapo_node_frame; eauto | exact B ] ]).
  Qed.

  (* ---------- records ---------- *)
  Lemma abs_leaf_inv : forall h v p, abs_leaf leaf_of h v = Some p ->
    exists a c fs, v = VRef a /\ h_get a h = Some (HObj c fs) /\ leaf_of v = Some p.
  Proof.
    unfold abs_leaf; simpl; intros h v p H. destruct v; try discriminate.
    destruct (h_get a h) as [[l|c fs]|] eqn:E; try discriminate.
    - match type of H with context[mapo ?f ?l] => destruct (mapo f l) end; discriminate.
    - destruct (leaf_of (VRef a)) eqn:L; try discriminate. inversion H; subst. exists a, c, fs. auto.
  Qed.

  Lemma abs_node_leaf : forall f h avoid a c fs p,
    h_get a h = Some (HObj c fs) -> leaf_of (VRef a) = Some p ->
    abs_node leaf_of (S f) h avoid (VRef a) = Some (NP p).
  Proof. intros f h avoid a c fs p H L. simpl. rewrite H, L. reflexivity. Qed.

  Lemma abs_leaf_intro : forall h a c fs p,
    h_get a h = Some (HObj c fs) -> leaf_of (VRef a) = Some p -> abs_leaf leaf_of h (VRef a) = Some p.
  Proof. intros h a c fs p H L. unfold abs_leaf. rewrite (abs_node_leaf _ _ _ _ _ _ _ H L). reflexivity. Qed.

  Lemma abs_leaf_kept' : forall h h' v p,
    objs_kept h h' -> abs_leaf leaf_of h v = Some p -> abs_leaf leaf_of h' v = Some p.
  Proof.
    intros h h' v p K H. destruct (abs_leaf_inv _ _ _ H) as (a & c & fs & -> & G & L).
    destruct (K _ _ _ G) as [fs' G']. eapply abs_leaf_intro; eauto.
  Qed.

  Lemma mapo_leaf_kept : forall h h' l ps,
    objs_kept h h' -> mapo (abs_leaf leaf_of h) l = Some ps -> mapo (abs_leaf leaf_of h') l = Some ps.
  Proof.
    intros h h' l ps K M. apply (mapo_impl _ _ _ _ M). intros x y _. apply abs_leaf_kept'; assumption.
  Qed.

  (* ---------- the lineage register ---------- *)
  Lemma dec_ostr_enc : forall v o, dec_ostr v = Some o -> v = enc_ostr o.
  Proof. intros [] o H; simpl in H; try discriminate; inversion H; reflexivity. Qed.

  Lemma dec_enc_ostr : forall o, dec_ostr (enc_ostr o) = Some o.
  Proof. intros [s|]; reflexivity. Qed.

  Lemma dec_lineage_inv : forall lin a b c d, dec_lineage lin = Some (a, b, c, d) ->
    lin = VTuple [VStr s_document; enc_ostr a; enc_ostr b; enc_ostr c; enc_ostr d].
  Proof.
    intros lin a b c d H. unfold dec_lineage in H.
    destruct lin; try discriminate.
    destruct l as [|x0 [|x1 [|x2 [|x3 [|x4 [|]]]]]]; try discriminate; destruct x0; try discriminate.
    destruct (str_eqb s s_document) eqn:E; try discriminate. apply str_eqb_eq in E. subst s.
    destruct (dec_ostr x1) eqn:E1; try discriminate.
    destruct (dec_ostr x2) eqn:E2; try discriminate.
    destruct (dec_ostr x3) eqn:E3; try discriminate.
    destruct (dec_ostr x4) eqn:E4; try discriminate.
    inversion H; subst.
    rewrite (dec_ostr_enc _ _ E1), (dec_ostr_enc _ _ E2), (dec_ostr_enc _ _ E3), (dec_ostr_enc _ _ E4).
    reflexivity.
  Qed.

  Lemma dec_lineage_enc : forall a b c d,
    dec_lineage (VTuple [VStr s_document; enc_ostr a; enc_ostr b; enc_ostr c; enc_ostr d]) = Some (a, b, c, d).
  Proof.
    intros. unfold dec_lineage. rewrite str_eqb_refl. rewrite !dec_enc_ostr. reflexivity.
  Qed.

  (* caret_depth = len(_rightmost_branches) is the model's caret depth *)
  Theorem src_caret_depth : forall h self k,
    rep leaf_of h self = Some k ->
    S_H_caret_depth self h = HOk (VInt (Z.of_nat (k_depth k))) h.
  Proof.
    intros h self k H. apply rep_Rep in H.
    destruct H as [sa cls fs rb op lin brs ops lg bs t ps H1 H2 H3 H4 H5 H6 H7 H8 H9 H10 H11 H12 H13].
    unfold S_H_caret_depth, hfn_result, hbinde. fold_fields.
    rewrite (hy_getattr_ref _ _ _ _ _ _ H1 H2).
    unfold hy_len, hbind, hy_items. rewrite H6. unfold hret, hrt. simpl k_depth.
    rewrite (refs_of_map _ _ H9), map_length. reflexivity.
  Qed.

  (* tree is the outermost branch *)
  Theorem src_tree : forall h self k,
    rep leaf_of h self = Some k -> exists b, S_H_tree self h = HOk (VRef b) h.
  Proof.
    intros h self k H. apply rep_Rep in H.
    destruct H as [sa cls fs rb op lin brs ops lg bs t ps H1 H2 H3 H4 H5 H6 H7 H8 H9 H10 H11 H12 H13].
    destruct bs as [|b bs']; [simpl in H12; discriminate|].
    exists b. unfold S_H_tree, hfn_result, hbinde. fold_fields.
    rewrite (hy_getattr_ref _ _ _ _ _ _ H1 H2).
    unfold hy_index, hbind, hy_items. rewrite H6.
    rewrite (refs_of_map _ _ H9). reflexivity.
  Qed.

  Lemma hy_new_list_eq : forall l h, hy_new_list l h = HOk (VRef (length h)) (h ++ [HList l]).
  Proof. reflexivity. Qed.

  Lemma hy_chain3 : forall p a q h l, h_get a h = Some (HList l) ->
    hy_chain [VTuple p; VRef a; VTuple q] h = HOk (p ++ l ++ q) h.
  Proof.
    intros p a q h l H. unfold hy_chain, hbind, hy_items, hret. rewrite H. rewrite app_nil_r. reflexivity.
  Qed.

  Ltac ev_slice :=
    match goal with |- context[hy_slice ?a ?b ?c ?h] =>
      let r := eval cbv in (hy_slice a b c h) in change (hy_slice a b c h) with r end; cbv beta iota.
  Ltac ev_lift :=
    match goal with |- context[hlift ?a ?h] =>
      let r := eval cbv in (hlift a h) in change (hlift a h) with r end; cbv beta iota.
  Ltac run_sil Hsa Hlin :=
    unfold S_H_set_in_lineage, hfn_result, hbinde; fold_fields;
    rewrite (hy_getattr_ref _ _ _ _ _ _ Hsa Hlin); cbv beta iota;
    ev_slice;
    rewrite (hy_getattr_ref _ _ _ _ _ _ Hsa Hlin); cbv beta iota;
    ev_lift; ev_slice;
    rewrite hy_new_list_eq; cbv beta iota;
    rewrite (hy_chain3 _ _ _ _ _ (h_get_app_new _ _)); cbv beta iota;
    cbn [app hy_unpack4 hret]; cbv beta iota;
    unfold hy_setattr; rewrite (h_get_app_old _ _ _ _ Hsa); cbv beta iota; reflexivity.

  Lemma set_in_lineage_run : forall h sa cls fs x1 x2 x3 x4 idx v,
    h_get sa h = Some (HObj cls fs) ->
    field_get f_lineage fs = Some (VTuple [VStr s_document; x1; x2; x3; x4]) ->
    (1 <= idx <= 4)%nat ->
    exists y1 y2 y3 y4,
      S_H_set_in_lineage (VRef sa) (VInt (Z.of_nat idx)) v h
      = HOk VNone (h_set sa (HObj cls (field_set f_lineage (VTuple [VStr s_document; y1; y2; y3; y4]) fs))
                         (h ++ [HList [v]]))
      /\ (y1, y2, y3, y4) = match idx with
                            | 1 => (v, x2, x3, x4) | 2 => (x1, v, x3, x4)
                            | 3 => (x1, x2, v, x4) | _ => (x1, x2, x3, v) end.
  Proof.
    intros h sa cls fs x1 x2 x3 x4 idx v Hsa Hlin Hidx.
    destruct idx as [|[|[|[|[|?]]]]]; try lia; do 4 eexists; (split; [run_sil Hsa Hlin | reflexivity]).
  Qed.

  (* _set_in_lineage(index, value): slot index of the lineage register, nothing else *)
  Theorem src_set_in_lineage : forall h self s idx v l,
    rep leaf_of h self = Some (core_of s) -> (1 <= idx <= 4)%nat ->
    set_in_lineage idx v (c_lineage s) = Ok l ->
    exists h', S_H_set_in_lineage self (VInt (Z.of_nat idx)) (enc_ostr v) h = HOk VNone h'
               /\ rep leaf_of h' self = Some (core_of (set_lin l s)) /\ objs_kept h h'.
  Proof.
    intros h self s idx v l H Hidx Hset. apply rep_Rep in H.
    remember (core_of s) as k eqn:Hk.
    destruct H as [sa cls fs rb op lin brs ops lg bs t ps H1 H2 H3 H4 H5 H6 H7 H8 H9 H10 H11 H12 H13].
    unfold core_of in Hk. inversion Hk as [[Kd Kl Kt Ko]]. clear Hk.
    destruct lg as [[[la lb] lc] ld]. rewrite (dec_lineage_inv _ _ _ _ _ H8) in H4.
    destruct (set_in_lineage_run h sa cls fs _ _ _ _ idx (enc_ostr v) H1 H4 Hidx)
      as (y1 & y2 & y3 & y4 & Hrun & Hy).
    destruct (NoDup3 _ _ _ _ H10) as (Nab & Nac & Nbc & Nsa & Nrb & Nop & Nbs).
    assert (Lsa : sa < length h) by (eapply h_get_lt; eauto).
    assert (K : objs_kept h (h_set sa (HObj cls (field_set f_lineage
                 (VTuple [VStr s_document; y1; y2; y3; y4]) fs)) (h ++ [HList [enc_ostr v]]))).
    { eapply objs_kept_trans; [apply objs_kept_app|].
      eapply objs_kept_set_obj. apply h_get_app_old; eassumption. }
    eexists. split; [exact Hrun|]. split; [|exact K].
    apply Rep_rep.
    replace (core_of (set_lin l s)) with
      {| k_depth := length bs; k_lineage := l; k_tree := t; k_open := rev ps |}
      by (unfold core_of, set_lin; simpl; congruence).
    eapply Rep_intro with (rb := rb) (op := op) (brs := brs) (ops := ops).
    + apply h_get_set_same. rewrite app_length. lia.
    + rewrite field_get_set_other by reflexivity. exact H2.
    + rewrite field_get_set_other by reflexivity. exact H3.
    + apply field_get_set_same.
    + rewrite field_get_set_other by reflexivity. exact H5.
    + rewrite h_get_set_other by auto. apply h_get_app_old; assumption.
    + rewrite h_get_set_other by auto. apply h_get_app_old; assumption.
    + rewrite <- Kl in Hset.
      destruct idx as [|[|[|[|[|?]]]]]; try lia; inversion Hy; subst y1 y2 y3 y4; simpl in Hset;
        inversion Hset; apply dec_lineage_enc.
    + exact H9.
    + exact H10.
    + exact H11.
    + eapply abs_spine_frame; [| |exact H12].
      * eapply frame_ok_trans; [apply frame_ok_app|].
        eapply frame_ok_set_obj. apply h_get_app_old; eassumption.
      * intros b Ib. rewrite h_get_set_other by (intros ->; auto).
        destruct (abs_spine_valid _ _ _ _ _ H12 b Ib) as [lb' Hb].
        rewrite Hb. apply h_get_app_old; assumption.
    + eapply mapo_leaf_kept; eauto.
  Qed.

  (* _drop_caret: appending a new list to the innermost branch and pushing that very list on the
     alias stack IS the model's spine_app at the caret depth; CaretDepthError at paragraph depth *)
  Lemma py_ge_int : forall x y, py_ge (VInt x) (VInt y) = Ok (VBool (negb (x <? y)%Z)).
  Proof. reflexivity. Qed.

  Lemma ge_par_depth : forall n, negb (Z.of_nat n <? 4)%Z = Nat.leb 4 n.
  Proof.
    intros n. destruct (Nat.leb 4 n) eqn:E.
    - apply Nat.leb_le in E. apply negb_true_iff, Z.ltb_ge. lia.
    - apply Nat.leb_gt in E. apply negb_false_iff, Z.ltb_lt. lia.
  Qed.

  Lemma hy_append_ref : forall a h l v,
    h_get a h = Some (HList l) -> hy_append (VRef a) v h = HOk tt (h_set a (HList (l ++ [v])) h).
  Proof. intros a h l v H. unfold hy_append. rewrite H. reflexivity. Qed.

  Theorem src_drop_caret : forall h self s,
    rep leaf_of h self = Some (core_of s) ->
    refines leaf_of (S_H_drop_caret self) self h (drop_caret s).
  Proof.
    intros h self s H. pose proof (src_caret_depth _ _ _ H) as Hcd. apply rep_Rep in H.
    remember (core_of s) as k eqn:Hk.
    destruct H as [sa cls fs rb op lin brs ops lg bs t ps H1 H2 H3 H4 H5 H6 H7 H8 H9 H10 H11 H12 H13].
    unfold core_of in Hk. inversion Hk as [[Kd Kl Kt Ko]]. clear Hk. simpl k_depth in Hcd.
    unfold refines, drop_caret, par_depth. rewrite <- Kd.
    destruct (Nat.leb 4 (length bs)) eqn:E.
    - exists h. unfold S_H_drop_caret, hfn_result, hbinde. rewrite Hcd. cbv beta iota. fold_fields.
      rewrite (hy_getattr_ref _ _ _ _ _ _ H1 H5). cbv beta iota.
      rewrite py_ge_int. unfold hlift, hy_truth, py_truth. cbv beta iota.
      rewrite ge_par_depth, E. reflexivity.
    - assert (Hne : bs <> []) by (intros ->; discriminate).
      destruct (exists_last Hne) as (bs' & bl & ->).
      destruct (NoDup3 _ _ _ _ H10) as (Nab & Nac & Nbc & Nsa & Nrb & Nop & Nbs).
      assert (Nbl : ~ In bl bs').
      { apply NoDup_remove_2 in Nbs. rewrite app_nil_r in Nbs. exact Nbs. }
      assert (Hval : forall b, In b (bs' ++ [bl]) -> exists l, h_get b h = Some (HList l))
        by (eapply abs_spine_valid; eauto).
      destruct (Hval bl) as [l Hbl]; [apply in_or_app; right; left; reflexivity|].
      pose proof (refs_of_map _ _ H9) as Hbrs. rewrite map_app in Hbrs. simpl map in Hbrs. subst brs.
      assert (Lsa : sa < length h) by (eapply h_get_lt; eauto).
      assert (Lrb : rb < length h) by (eapply h_get_lt; eauto).
      assert (Lop : op < length h) by (eapply h_get_lt; eauto).
      assert (Lbl : bl < length h) by (eapply h_get_lt; eauto).
      assert (Lbs : forall b, In b (bs' ++ [bl]) -> b < length h).
      { intros b I. destruct (Hval b I) as [lb G]. eapply h_get_lt; eauto. }
      assert (Nrbbl : rb <> bl) by (intros ->; apply Nrb; apply in_or_app; right; left; reflexivity).
      assert (Nsabl : sa <> bl) by (intros ->; apply Nsa; apply in_or_app; right; left; reflexivity).
      assert (Nopbl : op <> bl) by (intros ->; apply Nop; apply in_or_app; right; left; reflexivity).
      set (n := length h) in *.
      set (h1 := h ++ [HList []]).
      set (h2 := h_set bl (HList (l ++ [VRef n])) h1).
      set (h3 := h_set rb (HList ((map VRef bs' ++ [VRef bl]) ++ [VRef n])) h2).
      assert (L1 : length h1 = S n) by (unfold h1; rewrite app_length; simpl; lia).
      assert (L2 : length h2 = S n) by (unfold h2; rewrite h_set_length; exact L1).
      assert (Hbl1 : h_get bl h1 = Some (HList l)) by (apply h_get_app_old; exact Hbl).
      assert (Hsa2 : h_get sa h2 = Some (HObj cls fs)).
      { unfold h2. rewrite h_get_set_other by exact Nsabl. apply h_get_app_old; exact H1. }
      assert (Hrb2 : h_get rb h2 = Some (HList (map VRef bs' ++ [VRef bl]))).
      { unfold h2. rewrite h_get_set_other by exact Nrbbl. apply h_get_app_old; exact H6. }
      assert (Hbl2 : h_get bl h2 = Some (HList (l ++ [VRef n]))).
      { unfold h2. apply h_get_set_same. lia. }
      set (avoid := sa :: rb :: op :: bs' ++ [bl]) in *.
      set (avoid' := sa :: rb :: op :: (bs' ++ [bl]) ++ [n]).
      assert (Iav : forall a, In a avoid' -> In a avoid \/ a = n).
      { intros a I. change avoid' with (avoid ++ [n]) in I. apply in_app_or in I.
        destruct I as [I|[<-|[]]]; auto. }
      assert (Irb : In rb avoid') by (right; left; reflexivity).
      assert (Ibl : In bl avoid').
      { right; right; right. apply in_or_app; left. apply in_or_app; right; left; reflexivity. }
      assert (F : frame_ok h avoid h3 avoid').
      { eapply frame_ok_trans.
        { apply frame_ok_avoid. intros a I. destruct (Iav a I) as [I'| ->]; auto.
          right. apply h_get_ge. unfold n. lia. }
        eapply frame_ok_trans; [apply frame_ok_app|].
        eapply frame_ok_trans; [eapply frame_ok_set_list; [exact Hbl1|exact Ibl]|].
        eapply frame_ok_set_list; [exact Hrb2|exact Irb]. }
      assert (K : objs_kept h h3).
      { eapply objs_kept_trans; [apply objs_kept_app|].
        eapply objs_kept_trans; [eapply objs_kept_set_list; exact Hbl1|].
        eapply objs_kept_set_list; exact Hrb2. }
      assert (Hn3 : h_get n h3 = Some (HList [])).
      { unfold h3, h2. rewrite h_get_set_other by lia. rewrite h_get_set_other by lia.
        apply h_get_app_new. }
      assert (Hbl3 : h_get bl h3 = Some (HList (l ++ [VRef n]))).
      { unfold h3. rewrite h_get_set_other by auto. exact Hbl2. }
      assert (Hb3 : forall b, In b bs' -> h_get b h3 = h_get b h).
      { intros b I. assert (I' : In b (bs' ++ [bl])) by (apply in_or_app; left; exact I).
        unfold h3, h2. rewrite h_get_set_other by (intros ->; apply Nrb; exact I').
        rewrite h_get_set_other by (intros ->; apply Nbl; exact I).
        apply h_get_app_lt. apply Lbs; exact I'. }
      destruct (abs_spine_drop h avoid h3 avoid' n bl l F Hn3 Hbl Hbl3 bs' 6 t H12 Nbl Hb3)
        as (t' & A & B).
      rewrite <- Kt, A. simpl bind.
      exists h3. split; [|split; [|exact K]].
      + unfold S_H_drop_caret, hfn_result, hbinde. rewrite Hcd. cbv beta iota. fold_fields.
        rewrite (hy_getattr_ref _ _ _ _ _ _ H1 H5). cbv beta iota.
        rewrite py_ge_int. unfold hlift, hy_truth, py_truth. cbv beta iota.
        rewrite ge_par_depth, E. cbv beta iota.
        rewrite (hy_getattr_ref _ _ _ _ _ _ H1 H2). cbv beta iota.
        rewrite (hy_index_last _ _ _ _ H6). cbv beta iota.
        rewrite hy_new_list_eq. cbv beta iota. fold n. fold h1.
        rewrite (hy_append_ref _ _ _ _ Hbl1). cbv beta iota. fold h2.
        rewrite (hy_getattr_ref _ _ _ _ _ _ Hsa2 H2). cbv beta iota.
        rewrite (hy_getattr_ref _ _ _ _ _ _ Hsa2 H2). cbv beta iota.
        rewrite (hy_index_last _ _ _ _ Hrb2). cbv beta iota.
        rewrite (hy_index_last _ _ _ _ Hbl2). cbv beta iota.
        rewrite (hy_append_ref _ _ _ _ Hrb2). cbv beta iota. reflexivity.
      + apply Rep_rep.
        replace (core_of (set_depth (S (length (bs' ++ [bl]))) (set_tree t' s))) with
          {| k_depth := length ((bs' ++ [bl]) ++ [n]); k_lineage := lg; k_tree := t'; k_open := rev ps |}.
        2:{ unfold core_of, set_depth, set_tree; simpl. rewrite <- Kl, <- Ko.
            rewrite (app_length _ [n]). simpl length. rewrite Nat.add_1_r. reflexivity. }
        eapply Rep_intro with (rb := rb) (op := op) (ops := ops)
                              (brs := (map VRef bs' ++ [VRef bl]) ++ [VRef n]).
        * unfold h3. rewrite h_get_set_other by auto. exact Hsa2.
        * exact H2.
        * exact H3.
        * exact H4.
        * exact H5.
        * unfold h3. apply h_get_set_same. lia.
        * unfold h3, h2. rewrite h_get_set_other by auto. rewrite h_get_set_other by auto.
          apply h_get_app_old; exact H7.
        * exact H8.
        * replace ((map VRef bs' ++ [VRef bl]) ++ [VRef n]) with (map VRef ((bs' ++ [bl]) ++ [n]))
            by (rewrite !map_app; reflexivity).
          apply refs_of_map_id.
        * change (NoDup ((sa :: rb :: op :: bs' ++ [bl]) ++ [n])). apply NoDup_snoc; [exact H10|].
          intros I. destruct I as [I|[I|[I|I]]]; try (unfold n in *; lia).
          apply Lbs in I. unfold n in I. lia.
        * apply Nat.leb_gt in E. rewrite (app_length _ [n]). simpl length. lia.
        * exact B.
        * eapply mapo_leaf_kept; eauto.
  Qed.

  (* _raise_caret: dropping the last alias (a NEW stack list is made by the slice) *)
  Lemma py_eq_int : forall x y, py_eq (VInt x) (VInt y) = Ok (VBool (x =? y)%Z).
  Proof. reflexivity. Qed.

  Lemma slice_of_init : forall {A} (l : list A) x, slice_of (l ++ [x]) None (Some (-1)%Z) = l.
  Proof.
    intros A l x. unfold slice_of, clamp. change (-1 <? 0)%Z with true. cbv iota.
    rewrite app_length. simpl length.
    replace (Z.to_nat (Z.max 0 (Z.of_nat (length l + 1) + -1))) with (length l) by lia.
    rewrite Nat.sub_0_r. simpl skipn. rewrite firstn_app, Nat.sub_diag, firstn_all. simpl.
    apply app_nil_r.
  Qed.

  Lemma hy_slice_init : forall a h l x,
    h_get a h = Some (HList (l ++ [x])) ->
    hy_slice (VRef a) VNone (VInt (-1)) h = HOk (VRef (length h)) (h ++ [HList l]).
  Proof.
    intros a h l x H. unfold hy_slice.
    change (opt_int VNone) with (Some (@None Z)).
    change (opt_int (VInt (-1))) with (Some (Some (-1)%Z)). cbv beta iota.
    unfold hbind, hy_items. rewrite H. rewrite slice_of_init. reflexivity.
  Qed.

  Lemma hy_setattr_ref : forall a h c fs nm v,
    h_get a h = Some (HObj c fs) ->
    hy_setattr (VRef a) nm v h = HOk tt (h_set a (HObj c (field_set nm v fs)) h).
  Proof. intros a h c fs nm v H. unfold hy_setattr. rewrite H. reflexivity. Qed.

  Theorem src_raise_caret : forall h self s,
    rep leaf_of h self = Some (core_of s) ->
    refines leaf_of (S_H_raise_caret self) self h (raise_caret s).
  Proof.
    intros h self s H. pose proof (src_caret_depth _ _ _ H) as Hcd. apply rep_Rep in H.
    remember (core_of s) as k eqn:Hk.
    destruct H as [sa cls fs rb op lin brs ops lg bs t ps H1 H2 H3 H4 H5 H6 H7 H8 H9 H10 H11 H12 H13].
    unfold core_of in Hk. inversion Hk as [[Kd Kl Kt Ko]]. clear Hk. simpl k_depth in Hcd.
    unfold refines, raise_caret. rewrite <- Kd.
    assert (Hne : bs <> []) by (intros ->; discriminate).
    destruct (exists_last Hne) as (bs' & bl & ->).
    assert (Hlen : length (bs' ++ [bl]) = S (length bs')) by (rewrite app_length; simpl; lia).
    assert (Etest : (Z.of_nat (length (bs' ++ [bl])) =? 1)%Z = Nat.leb (length (bs' ++ [bl])) 1).
    { rewrite Hlen. destruct (length bs') as [|m]; [reflexivity|].
      transitivity false; [apply Z.eqb_neq; lia | symmetry; apply Nat.leb_gt; lia]. }
    destruct (Nat.leb (length (bs' ++ [bl])) 1) eqn:E.
    - exists h. unfold S_H_raise_caret, hfn_result, hbinde. rewrite Hcd. cbv beta iota.
      rewrite py_eq_int. unfold hlift, hy_truth, py_truth. cbv beta iota.
      rewrite Etest. reflexivity.
    - apply Nat.leb_gt in E.
      assert (Hne' : bs' <> []) by (intros ->; simpl in E; lia).
      destruct (NoDup3 _ _ _ _ H10) as (Nab & Nac & Nbc & Nsa & Nrb & Nop & Nbs).
      assert (Nbl : ~ In bl bs').
      { apply NoDup_remove_2 in Nbs. rewrite app_nil_r in Nbs. exact Nbs. }
      assert (Hval : forall b, In b (bs' ++ [bl]) -> exists l, h_get b h = Some (HList l))
        by (eapply abs_spine_valid; eauto).
      assert (Ibl : In bl (bs' ++ [bl])) by (apply in_or_app; right; left; reflexivity).
      destruct (Hval bl Ibl) as [l Hbl].
      pose proof (refs_of_map _ _ H9) as Hbrs. rewrite map_app in Hbrs. simpl map in Hbrs. subst brs.
      assert (Lsa : sa < length h) by (eapply h_get_lt; eauto).
      assert (Lop : op < length h) by (eapply h_get_lt; eauto).
      assert (Lbs : forall b, In b (bs' ++ [bl]) -> b < length h).
      { intros b I. destruct (Hval b I) as [lb G]. eapply h_get_lt; eauto. }
      assert (Nsabl : sa <> bl) by (intros ->; apply Nsa; exact Ibl).
      assert (Nopbl : op <> bl) by (intros ->; apply Nop; exact Ibl).
      set (n := length h) in *.
      set (h1 := h ++ [HList (map VRef bs')]).
      set (h2 := h_set sa (HObj cls (field_set f_branches (VRef n) fs)) h1).
      assert (L1 : length h1 = S n) by (unfold h1; rewrite app_length; simpl; lia).
      assert (Hsa1 : h_get sa h1 = Some (HObj cls fs)) by (apply h_get_app_old; exact H1).
      set (avoid := sa :: rb :: op :: bs' ++ [bl]) in *.
      set (avoid' := sa :: n :: op :: bs').
      assert (F : frame_ok h avoid h2 avoid').
      { eapply (frame_ok_trans h avoid h avoid').
        { apply frame_ok_avoid. intros a I. unfold avoid' in I. unfold avoid.
          destruct I as [<-|[<-|[<-|I]]].
          - left; left; reflexivity.
          - right. apply h_get_ge. unfold n. lia.
          - left; right; right; left; reflexivity.
          - left; right; right; right. apply in_or_app; left; exact I. }
        eapply frame_ok_trans; [apply frame_ok_app|].
        eapply frame_ok_set_obj. exact Hsa1. }
      assert (K : objs_kept h h2).
      { eapply objs_kept_trans; [apply objs_kept_app|].
        eapply objs_kept_set_obj. exact Hsa1. }
      assert (Hb2 : forall b, In b (bs' ++ [bl]) -> h_get b h2 = h_get b h).
      { intros b I. unfold h2. rewrite h_get_set_other by (intros ->; apply Nsa; exact I).
        apply h_get_app_lt. apply Lbs; exact I. }
      assert (Nbl' : ~ In bl avoid').
      { intros I. unfold avoid' in I. destruct I as [I|[I|[I|I]]]; auto.
        apply Lbs in Ibl. unfold n in I. lia. }
      assert (B : abs_spine leaf_of 6 h2 avoid' bs' = Some t).
      { apply (abs_spine_raise h avoid h2 avoid' bl F (Hb2 bl Ibl) Nbl' bs' 6 t Hne'); auto.
        - lia.
        - intros b I. apply Hb2. apply in_or_app; left; exact I. }
      exists h2. split; [|split; [|exact K]].
      + unfold S_H_raise_caret, hfn_result, hbinde. rewrite Hcd. cbv beta iota.
        rewrite py_eq_int. unfold hlift, hy_truth, py_truth. cbv beta iota.
        rewrite Etest. cbv beta iota. fold_fields.
        rewrite (hy_getattr_ref _ _ _ _ _ _ H1 H2). cbv beta iota.
        rewrite (hy_slice_init _ _ _ _ H6). cbv beta iota. fold n. fold h1.
        rewrite (hy_setattr_ref _ _ _ _ _ _ Hsa1). cbv beta iota. reflexivity.
      + apply Rep_rep.
        replace (core_of (set_depth (pred (length (bs' ++ [bl]))) s)) with
          {| k_depth := length bs'; k_lineage := lg; k_tree := t; k_open := rev ps |}.
        2:{ unfold core_of, set_depth; simpl. rewrite <- Kl, <- Ko, <- Kt. rewrite Hlen. reflexivity. }
        eapply Rep_intro with (rb := n) (op := op) (ops := ops) (brs := map VRef bs').
        * unfold h2. apply h_get_set_same. lia.
        * apply field_get_set_same.
        * rewrite field_get_set_other by reflexivity. exact H3.
        * rewrite field_get_set_other by reflexivity. exact H4.
        * rewrite field_get_set_other by reflexivity. exact H5.
        * unfold h2. rewrite h_get_set_other by (unfold n; lia). apply h_get_app_new.
        * unfold h2. rewrite h_get_set_other by auto. apply h_get_app_old; exact H7.
        * exact H8.
        * apply refs_of_map_id.
        * assert (Nbs' : NoDup bs') by (apply NoDup_remove_1 in Nbs; rewrite app_nil_r in Nbs; exact Nbs).
          constructor; [|constructor; [|constructor; [|exact Nbs']]].
          -- intros I. destruct I as [I|[I|I]]; [unfold n in I; lia | auto |].
             apply Nsa. apply in_or_app; left; exact I.
          -- intros I. destruct I as [I|I]; [unfold n in I; lia|].
             assert (I' : In n (bs' ++ [bl])) by (apply in_or_app; left; exact I).
             apply Lbs in I'. unfold n in I'. lia.
          -- intros I. apply Nop. apply in_or_app; left; exact I.
        * lia.
        * exact B.
        * eapply mapo_leaf_kept; eauto.
  Qed.

  (* a record stays readable as long as objects stay objects *)
  Theorem abs_leaf_kept : forall h h' v p,
    objs_kept h h' -> abs_leaf leaf_of h v = Some p -> abs_leaf leaf_of h' v = Some p.
  Proof. exact abs_leaf_kept'. Qed.

  (* the two heap steps of conclude_paragraph around its set_caret call *)
  (* old_par = self._open_pars.pop() *)
  Theorem src_pop_open : forall h self s,
    rep leaf_of h self = Some (core_of s) ->
    match c_open s with
    | [] => hbind (hy_getattr self f_open_pars) hy_pop h = HErr IndexError h
    | p :: rest =>
        exists v h', hbind (hy_getattr self f_open_pars) hy_pop h = HOk v h'
                     /\ abs_leaf leaf_of h' v = Some p
                     /\ rep leaf_of h' self = Some (core_of (set_open rest s))
                     /\ objs_kept h h'
    end.
  Proof.
    intros h self s H. apply rep_Rep in H.
    remember (core_of s) as k eqn:Hk.
    destruct H as [sa cls fs rb op lin brs ops lg bs t ps H1 H2 H3 H4 H5 H6 H7 H8 H9 H10 H11 H12 H13].
    unfold core_of in Hk. inversion Hk as [[Kd Kl Kt Ko]]. clear Hk.
    destruct ops as [|o0 r] eqn:Eops.
    - simpl in H13. inversion H13; subst ps. simpl rev.
      unfold hbind. rewrite (hy_getattr_ref _ _ _ _ _ _ H1 H3). unfold hy_pop. rewrite H7. reflexivity.
    - assert (Hne : o0 :: r <> []) by discriminate.
      destruct (exists_last Hne) as (ops' & v & E). rewrite E in *. clear E Hne Eops o0 r.
      destruct (mapo_app_inv _ _ _ _ H13) as (ps' & pl & M1 & M2 & ->).
      simpl in M2. destruct (abs_leaf leaf_of h v) as [p0|] eqn:Ev; try discriminate.
      inversion M2; subst pl. rewrite rev_app_distr. simpl app.
      destruct (NoDup3 _ _ _ _ H10) as (Nab & Nac & Nbc & Nsa & Nrb & Nop & Nbs).
      set (h' := h_set op (HList ops') h).
      assert (K : objs_kept h h') by (eapply objs_kept_set_list; exact H7).
      assert (Lop : op < length h) by (eapply h_get_lt; eauto).
      exists v, h'. split; [|split; [|split; [|exact K]]].
      + unfold hbind. rewrite (hy_getattr_ref _ _ _ _ _ _ H1 H3). unfold hy_pop. rewrite H7.
        rewrite rev_app_distr. simpl app. cbv beta iota. rewrite rev_involutive. reflexivity.
      + eapply abs_leaf_kept'; eauto.
      + apply Rep_rep.
        replace (core_of (set_open (rev ps') s)) with
          {| k_depth := length bs; k_lineage := lg; k_tree := t; k_open := rev ps' |}
          by (unfold core_of, set_open; simpl; congruence).
        eapply Rep_intro with (rb := rb) (op := op) (ops := ops') (brs := brs).
        * unfold h'. rewrite h_get_set_other by auto. exact H1.
        * exact H2.
        * exact H3.
        * exact H4.
        * exact H5.
        * unfold h'. rewrite h_get_set_other by auto. exact H6.
        * unfold h'. apply h_get_set_same. exact Lop.
        * exact H8.
        * exact H9.
        * exact H10.
        * exact H11.
        * eapply abs_spine_frame; [| |exact H12].
          -- eapply frame_ok_set_list; [exact H7|]. right; right; left; reflexivity.
          -- intros b I. unfold h'. rewrite h_get_set_other by (intros ->; auto). reflexivity.
        * eapply mapo_leaf_kept; eauto.
  Qed.

  (* self._rightmost_branches[-1].append(old_par) at paragraph depth *)
  Theorem src_append_par : forall h self s v p t,
    rep leaf_of h self = Some (core_of s) -> c_depth s = 4%nat ->
    abs_leaf leaf_of h v = Some p -> spine_app 4 (NP p) (c_tree s) = Ok t ->
    exists h', hbind (hy_getattr self f_branches)
                 (fun rb => hbind (hy_index rb (VInt (-1))) (fun b => hy_append b v)) h = HOk tt h'
               /\ rep leaf_of h' self = Some (core_of (set_tree t s)) /\ objs_kept h h'.
  Proof.
    intros h self s v p t0 H Hd Hv Happ. apply rep_Rep in H.
    remember (core_of s) as k eqn:Hk.
    destruct H as [sa cls fs rb op lin brs ops lg bs t ps H1 H2 H3 H4 H5 H6 H7 H8 H9 H10 H11 H12 H13].
    unfold core_of in Hk. inversion Hk as [[Kd Kl Kt Ko]]. clear Hk.
    assert (Hne : bs <> []) by (intros ->; discriminate).
    destruct (exists_last Hne) as (bs' & bl & ->).
    destruct (NoDup3 _ _ _ _ H10) as (Nab & Nac & Nbc & Nsa & Nrb & Nop & Nbs).
    assert (Nbl : ~ In bl bs').
    { apply NoDup_remove_2 in Nbs. rewrite app_nil_r in Nbs. exact Nbs. }
    assert (Hval : forall b, In b (bs' ++ [bl]) -> exists l, h_get b h = Some (HList l))
      by (eapply abs_spine_valid; eauto).
    assert (Ibl : In bl (bs' ++ [bl])) by (apply in_or_app; right; left; reflexivity).
    destruct (Hval bl Ibl) as [l Hbl].
    pose proof (refs_of_map _ _ H9) as Hbrs. rewrite map_app in Hbrs. simpl map in Hbrs. subst brs.
    assert (Lbl : bl < length h) by (eapply h_get_lt; eauto).
    assert (Nsabl : sa <> bl) by (intros ->; apply Nsa; exact Ibl).
    assert (Nrbbl : rb <> bl) by (intros ->; apply Nrb; exact Ibl).
    assert (Nopbl : op <> bl) by (intros ->; apply Nop; exact Ibl).
    set (h' := h_set bl (HList (l ++ [v])) h).
    set (avoid := sa :: rb :: op :: bs' ++ [bl]) in *.
    assert (Iav : In bl avoid) by (right; right; right; exact Ibl).
    assert (F : frame_ok h avoid h' avoid) by (eapply frame_ok_set_list; eauto).
    assert (K : objs_kept h h') by (eapply objs_kept_set_list; eauto).
    assert (Hbl' : h_get bl h' = Some (HList (l ++ [v]))) by (apply h_get_set_same; exact Lbl).
    assert (Hv' : forall f, abs_node leaf_of (S f) h' avoid v = Some (NP p)).
    { intros f. destruct (abs_leaf_inv _ _ _ Hv) as (a & c & fs0 & -> & G & L).
      destruct (K _ _ _ G) as [fs1 G']. eapply abs_node_leaf; eauto. }
    assert (Hb' : forall b, In b bs' -> h_get b h' = h_get b h).
    { intros b I. unfold h'. rewrite h_get_set_other by (intros ->; auto). reflexivity. }
    destruct (abs_spine_append h avoid h' avoid bl l v (NP p) F Hbl Hbl' Hv' bs' 6 t) as (t' & A & B); auto; try lia.
    assert (t' = t0).
    { rewrite <- ?Kt in Happ. rewrite <- ?Kd in Hd. rewrite Hd in A. congruence. }
    subst t'.
    exists h'. split; [|split; [|exact K]].
    - unfold hbind. rewrite (hy_getattr_ref _ _ _ _ _ _ H1 H2).
      rewrite (hy_index_last _ _ _ _ H6). rewrite (hy_append_ref _ _ _ _ Hbl). reflexivity.
    - apply Rep_rep.
      replace (core_of (set_tree t0 s)) with
        {| k_depth := length (bs' ++ [bl]); k_lineage := lg; k_tree := t0; k_open := rev ps |}
        by (unfold core_of, set_tree; simpl; congruence).
      eapply Rep_intro with (rb := rb) (op := op) (ops := ops) (brs := map VRef bs' ++ [VRef bl]).
      + unfold h'. rewrite h_get_set_other by auto. exact H1.
      + exact H2.
      + exact H3.
      + exact H4.
      + exact H5.
      + unfold h'. rewrite h_get_set_other by auto. exact H6.
      + unfold h'. rewrite h_get_set_other by auto. exact H7.
      + exact H8.
      + exact H9.
      + exact H10.
      + exact H11.
      + exact B.
      + eapply mapo_leaf_kept; eauto.
  Qed.

  (* a represented state always has a spine as deep as the caret: spine_app cannot fail *)
  Theorem src_spine_ok : forall h self s x,
    rep leaf_of h self = Some (core_of s) ->
    exists t, spine_app (c_depth s) x (c_tree s) = Ok t.
  Proof.
    intros h self s x H. apply rep_Rep in H.
    remember (core_of s) as k eqn:Hk.
    destruct H as [sa cls fs rb op lin brs ops lg bs t ps H1 H2 H3 H4 H5 H6 H7 H8 H9 H10 H11 H12 H13].
    unfold core_of in Hk. inversion Hk as [[Kd Kl Kt Ko]]. clear Hk.
    rewrite <- ?Kd, <- ?Kt. eapply abs_spine_app_ok; eauto.
  Qed.

  (* __init__: a fresh collector represents the model's initial state *)
  Lemma hy_new_obj_eq : forall c fs h, hy_new_obj c fs h = HOk (VRef (length h)) (h ++ [HObj c fs]).
  Proof. reflexivity. Qed.

  Lemma h_get_app_at : forall h a o, a = length h -> h_get a (h ++ [o]) = Some o.
  Proof. intros h a o ->. apply h_get_app_new. Qed.

  Lemma hy_getattr_obj : forall c fs nm v h,
    field_get nm fs = Some v -> hy_getattr (VObj c fs) nm h = HOk v h.
  Proof. intros c fs nm v h F. unfold hy_getattr. rewrite F. reflexivity. Qed.

  Ltac hlen := repeat (rewrite h_set_length || rewrite app_length); simpl length; lia.
  Ltac fget := repeat (rewrite field_get_set_other by reflexivity); rewrite field_get_set_same; reflexivity.
  Ltac hget := repeat first
    [ rewrite h_get_set_same by hlen
    | rewrite h_get_set_other by hlen
    | rewrite h_get_app_at by hlen
    | rewrite h_get_app_lt by hlen ].

  Theorem src_init : forall h a cls fs c1 c2 fmt,
    h_get a h = Some (HObj cls fs) ->
    let file := VObj c1 [([99;111;110;116;101;120;116]%N,
                          VObj c2 [([120;109;108;50;104;116;109;108;95;102;111;114;109;97;116]%N, fmt)])] in
    exists h', S_H_init (VRef a) file h = HOk VNone h'
               /\ rep leaf_of h' (VRef a) = Some (core_of init_cst).
  Proof.
    intros h a cls fs c1 c2 fmt Ha file. unfold file. clear file.
    assert (La : a < length h) by (eapply h_get_lt; eauto).
    unfold S_H_init, hfn_result, hbinde.
    erewrite hy_getattr_obj by reflexivity. cbv beta iota.
    erewrite hy_getattr_obj by reflexivity. cbv beta iota.
    repeat (first [ erewrite hy_setattr_ref by (hget; try eassumption; reflexivity)
                  | rewrite hy_new_list_eq | rewrite hy_new_obj_eq ]; cbv beta iota;
            repeat (rewrite h_set_length || rewrite app_length); simpl length).
    unfold hrt. eexists. split; [reflexivity|].
    apply Rep_rep.
    change (core_of init_cst) with
      {| k_depth := length [length h]; k_lineage := (None, None, None, None);
         k_tree := []; k_open := rev [] |}.
    eapply Rep_intro with (rb := length h + 1) (op := length h + 1 + 1) (ops := [])
                          (brs := [VRef (length h)]).
    - hget. reflexivity.
    - fget.
    - fget.
    - fget.
    - fget.
    - hget. reflexivity.
    - hget. reflexivity.
    - reflexivity.
    - reflexivity.
    - repeat constructor; simpl; lia.
    - simpl; lia.
    - apply (abs_spine_one_intro _ _ _ _ [] []); [hget; reflexivity | reflexivity].
    - reflexivity.
  Qed.


End Caret.

Print Assumptions src_caret_depth.
Print Assumptions src_tree.
Print Assumptions src_set_in_lineage.
Print Assumptions src_drop_caret.
Print Assumptions src_raise_caret.
Print Assumptions abs_leaf_kept.
Print Assumptions src_pop_open.
Print Assumptions src_append_par.
Print Assumptions src_spine_ok.
Print Assumptions src_init.
