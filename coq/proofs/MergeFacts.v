(* MergeFacts.v — facts about model/Merge.v (has_content, merge_elems).

   Proved as stated:
     merge_fuel_enough, merge_has_content, merge_root_tag
   False as stated (counterexamples below, checked by vm_compute), proved
   with extra hypotheses:
     merge_sibs_atoms_partial, merge_sibs_wf_partial, merge_atoms_partial,
     merge_wf_partial          — need [wf_ptag pt]: the prefixed tag is a
                                 function of the Clark name (elem_key compares
                                 Clark names, is_mergeable/is_text_like/
                                 has_content compare prefixed tags)
     merge_idempotent_partial  — needs [wf_ptag pt], [wf_pr] (<tag>Pr children
                                 carry no content) and [rels_ok] (no empty
                                 relationship Target); does not need wf_text.
                                 Each of the three is shown to be necessary. *)
From Coq Require Import List NArith Bool Lia Arith.
From D2P Require Import Str Err Xml TableTypes Tables Fmt Merge BulletsFacts.
Import ListNotations.
Open Scope N_scope.

(* ------------------------------------------------------------------ *)
(* Definitions                                                         *)
(* ------------------------------------------------------------------ *)

(* the visible "atoms" of a tree in document (pre-)order: characters of
   text-like elements, and a mark for every other content element that is
   never fused *)
Inductive atom := AChr (c : N) | AMark (ptag : str).
Fixpoint atoms (t : anode) : list atom :=
  match t with
  | AX _ => []
  | AE e ks =>
      (if is_text_like e then map AChr (ostr (e_text e))
       else if mem_str (e_ptag e) content_tags && negb (is_mergeable e) then [AMark (e_ptag e)]
       else [])
      ++ (fix go (l : list anode) : list atom := match l with [] => [] | k :: r => atoms k ++ go r end) ks
  end.
(* text-like elements carry no content-bearing children (w:t and m:t are
   simple-content elements in the schema) *)
Fixpoint wf_text (t : anode) : bool :=
  match t with
  | AX _ => true
  | AE e ks =>
      (if is_text_like e then negb (existsb has_content ks) else true)
      && forallb wf_text ks
  end.

(* EXTRA HYPOTHESIS needed by the atom lemmas (see the counterexample
   below): the prefixed tag of every element is a function [pt] of its Clark
   name (uri, local), i.e. every namespace is bound to one prefix throughout
   the tree.  elem_key compares Clark names while is_mergeable / is_text_like
   / has_content look at the prefixed tag. *)
Fixpoint wf_ptag (pt : aname -> str) (t : anode) : bool :=
  match t with
  | AX _ => true
  | AE e ks => str_eqb (e_ptag e) (pt (e_uri e, e_local e)) && forallb (wf_ptag pt) ks
  end.

(* ------------------------------------------------------------------ *)
(* Unfolding equations for the nested fixpoints                        *)
(* ------------------------------------------------------------------ *)

Definition head_atoms (e : einfo) : list atom :=
  if is_text_like e then map AChr (ostr (e_text e))
  else if mem_str (e_ptag e) content_tags && negb (is_mergeable e) then [AMark (e_ptag e)]
  else [].
Definition atoms_l (ks : list anode) : list atom := concat (map atoms ks).
Definition maxh (ks : list anode) : nat :=
  fold_right (fun k m => Nat.max (height k) m) 0%nat ks.

Lemma atoms_AE : forall e ks, atoms (AE e ks) = head_atoms e ++ atoms_l ks.
Proof.
  intros e ks. unfold head_atoms, atoms_l. cbn [atoms]. f_equal.
  induction ks as [|k r IH]; [reflexivity|]. cbn [map concat]. rewrite <- IH. reflexivity.
Qed.

Lemma has_content_AE : forall e ks,
  has_content (AE e ks) = mem_str (e_ptag e) content_tags || existsb has_content ks.
Proof.
  intros e ks. reflexivity.
Qed.

Lemma height_AE : forall e ks, height (AE e ks) = S (maxh ks).
Proof. reflexivity. Qed.

Lemma wf_text_AE : forall e ks,
  wf_text (AE e ks) =
  (if is_text_like e then negb (existsb has_content ks) else true) && forallb wf_text ks.
Proof. reflexivity. Qed.

Lemma wf_ptag_AE : forall pt e ks,
  wf_ptag pt (AE e ks) =
  str_eqb (e_ptag e) (pt (e_uri e, e_local e)) && forallb (wf_ptag pt) ks.
Proof. reflexivity. Qed.

Lemma atoms_l_app : forall a b, atoms_l (a ++ b) = atoms_l a ++ atoms_l b.
Proof. intros. unfold atoms_l. rewrite map_app, concat_app. reflexivity. Qed.

Lemma atoms_l_cons : forall k r, atoms_l (k :: r) = atoms k ++ atoms_l r.
Proof. reflexivity. Qed.

Lemma atoms_l_one : forall k, atoms_l [k] = atoms k.
Proof. intros. unfold atoms_l. cbn. apply app_nil_r. Qed.

(* induction principle for the nested type *)
Lemma anode_ind2 : forall (P : anode -> Prop),
  (forall tl, P (AX tl)) ->
  (forall e ks, Forall P ks -> P (AE e ks)) ->
  forall t, P t.
Proof.
  intros P HX HE.
  exact (fix IH (t : anode) : P t :=
           match t with
           | AX tl => HX tl
           | AE e ks =>
               HE e ks ((fix go (l : list anode) : Forall P l :=
                           match l with
                           | [] => Forall_nil P
                           | k :: r => Forall_cons k (IH k) (go r)
                           end) ks)
           end).
Qed.

(* ------------------------------------------------------------------ *)
(* Small facts about strings, keys and the generated tables            *)
(* ------------------------------------------------------------------ *)

Lemma ostr_eqb_eq : forall a b, ostr_eqb a b = true -> a = b.
Proof.
  intros [a|] [b|] H; cbn in H; try discriminate; try reflexivity.
  apply str_eqb_eq in H. subst. reflexivity.
Qed.

Lemma ostr_eqb_refl : forall a, ostr_eqb a a = true.
Proof. intros [a|]; cbn; [apply str_eqb_refl|reflexivity]. Qed.

Lemma aname_eqb_eq : forall a b, aname_eqb a b = true -> a = b.
Proof.
  intros [a1 a2] [b1 b2] H. unfold aname_eqb in H. cbn [fst snd] in H.
  apply andb_true_iff in H. destruct H as [H1 H2].
  apply ostr_eqb_eq in H1. apply str_eqb_eq in H2. subst. reflexivity.
Qed.

Lemma aname_eqb_refl : forall a, aname_eqb a a = true.
Proof. intros [a1 a2]. unfold aname_eqb. cbn [fst snd]. rewrite ostr_eqb_refl, str_eqb_refl. reflexivity. Qed.

Lemma strs_eqb_eq : forall a b, strs_eqb a b = true -> a = b.
Proof.
  induction a as [|x a IH]; destruct b as [|y b]; cbn [strs_eqb]; intro H;
    try reflexivity; try discriminate.
  apply andb_true_iff in H. destruct H as [H1 H2].
  apply str_eqb_eq in H1. apply IH in H2. subst. reflexivity.
Qed.

Lemma strs_eqb_refl : forall a, strs_eqb a a = true.
Proof. induction a as [|x a IH]; cbn [strs_eqb]; [reflexivity|]. rewrite str_eqb_refl, IH. reflexivity. Qed.

Lemma ekey_eqb_eq : forall a b, ekey_eqb a b = true -> a = b.
Proof.
  intros [[t1 g1] f1] [[t2 g2] f2] H. unfold ekey_eqb in H.
  apply andb_true_iff in H. destruct H as [H H3].
  apply andb_true_iff in H. destruct H as [H1 H2].
  apply aname_eqb_eq in H1. apply str_eqb_eq in H2. apply strs_eqb_eq in H3.
  subst. reflexivity.
Qed.

Lemma ekey_eqb_refl : forall a, ekey_eqb a a = true.
Proof.
  intros [[t g] f]. unfold ekey_eqb. rewrite aname_eqb_refl, str_eqb_refl, strs_eqb_refl. reflexivity.
Qed.

Lemma mem_str_In : forall s l, mem_str s l = true <-> In s l.
Proof.
  intros s l. induction l as [|x r IH]; cbn [mem_str In].
  - split; [discriminate|tauto].
  - rewrite orb_true_iff, IH, str_eqb_eq. split; intros [H|H]; auto.
Qed.

(* text tags are content tags and mergeable tags *)
Lemma text_tag_content : forall p, mem_str p text_tags = true -> mem_str p content_tags = true.
Proof.
  intros p H. apply mem_str_In in H. cbn in H.
  destruct H as [H|[H|[]]]; subst p; vm_compute; reflexivity.
Qed.

Lemma text_tag_mergeable : forall p, mem_str p text_tags = true -> mem_str p mergeable_tags = true.
Proof.
  intros p H. apply mem_str_In in H. cbn in H.
  destruct H as [H|[H|[]]]; subst p; vm_compute; reflexivity.
Qed.

Lemma text_like_content : forall e, is_text_like e = true -> mem_str (e_ptag e) content_tags = true.
Proof. intros e. apply text_tag_content. Qed.

Lemma text_like_mergeable : forall e, is_text_like e = true -> is_mergeable e = true.
Proof. intros e. apply text_tag_mergeable. Qed.

Lemma head_atoms_nil : forall e,
  is_text_like e = false -> is_mergeable e = true -> head_atoms e = [].
Proof.
  intros e H1 H2. unfold head_atoms. rewrite H1, H2. rewrite andb_false_r. reflexivity.
Qed.

Lemma existsb_false_Forall : forall A (f : A -> bool) l,
  existsb f l = false <-> Forall (fun x => f x = false) l.
Proof.
  intros A f l. induction l as [|x r IH]; cbn [existsb].
  - split; auto.
  - rewrite orb_false_iff, IH. split.
    + intros [H1 H2]. constructor; auto.
    + intro H. inversion H; auto.
Qed.

Lemma existsb_rev : forall A (f : A -> bool) l, existsb f (rev l) = existsb f l.
Proof.
  intros A f l. induction l as [|x r IH]; [reflexivity|].
  cbn [rev existsb]. rewrite existsb_app, IH. cbn [existsb]. rewrite orb_false_r. apply orb_comm.
Qed.

(* a sibling without content has no atoms *)
Lemma nocontent_atoms : forall t, has_content t = false -> atoms t = [].
Proof.
  induction t as [tl|e ks IH] using anode_ind2; intro H; [reflexivity|].
  rewrite has_content_AE in H. apply orb_false_iff in H. destruct H as [Hm Hk].
  rewrite atoms_AE.
  assert (Hh : head_atoms e = []).
  { unfold head_atoms. destruct (is_text_like e) eqn:Et.
    - apply text_like_content in Et. rewrite Et in Hm. discriminate.
    - rewrite Hm. reflexivity. }
  rewrite Hh. cbn [app].
  apply existsb_false_Forall in Hk.
  induction ks as [|k r IHr]; [reflexivity|].
  inversion IH; subst. inversion Hk; subst.
  rewrite atoms_l_cons. rewrite H1 by assumption. cbn [app]. apply IHr; assumption.
Qed.

Lemma nocontent_atoms_l : forall ks,
  Forall (fun k => has_content k = false) ks -> atoms_l ks = [].
Proof.
  induction 1 as [|k r Hk _ IH]; [reflexivity|].
  rewrite atoms_l_cons, IH, nocontent_atoms by assumption. reflexivity.
Qed.

(* ------------------------------------------------------------------ *)
(* merge_sibs_go as the iteration of a step function                   *)
(* ------------------------------------------------------------------ *)

Definition fresh_g (key : ekey) (e : einfo) (eks : list anode) : group :=
  {| g_key := key; g_merge := is_mergeable e; g_e := e; g_kids := eks; g_n := 1;
     g_texts := [ostr (e_text e)]; g_pending := [] |}.
Definition pend_g (k : anode) (g0 : group) : group :=
  {| g_key := g_key g0; g_merge := g_merge g0; g_e := g_e g0;
     g_kids := g_kids g0; g_n := g_n g0; g_texts := g_texts g0;
     g_pending := k :: g_pending g0 |}.
Definition join_g (g0 : group) (e : einfo) (eks : list anode) : group :=
  {| g_key := g_key g0; g_merge := true; g_e := g_e g0;
     g_kids := g_kids g0 ++ eks; g_n := S (g_n g0);
     g_texts := g_texts g0 ++ [ostr (e_text e)];
     g_pending := g_pending g0 |}.

Definition set_text (e : einfo) (t : option str) : einfo :=
  {| e_ptag := e_ptag e; e_uri := e_uri e; e_local := e_local e;
     e_wuri := e_wuri e; e_ruri := e_ruri e; e_attrs := e_attrs e;
     e_text := t; e_tail := e_tail e |}.
Definition lead_e (g0 : group) : einfo :=
  if (is_text_like (g_e g0) && Nat.ltb 1 (g_n g0))%bool
  then set_text (g_e g0) (Some (concat (g_texts g0)))
  else g_e g0.
Definition leader (g0 : group) : anode := AE (lead_e g0) (g_kids g0).

Lemma flush_None : forall out, flush None out = out.
Proof. reflexivity. Qed.

Lemma flush_Some : forall g0 out, flush (Some g0) out = g_pending g0 ++ leader g0 :: out.
Proof. reflexivity. Qed.

Definition step (v : env) (k : anode) (g : option group) (out : list anode)
  : res (option group * list anode) :=
  if negb (has_content k) then
    match g with
    | None => Ok (None, k :: out)
    | Some g0 => Ok (Some (pend_g k g0), out)
    end
  else
    match k with
    | AX _ => Err ModelError
    | AE e eks =>
        key <- elem_key v e eks ;;
        match g with
        | None => Ok (Some (fresh_g key e eks), out)
        | Some g0 =>
            if (ekey_eqb (g_key g0) key && g_merge g0)%bool
            then Ok (Some (join_g g0 e eks), out)
            else Ok (Some (fresh_g key e eks), flush g out)
        end
    end.

Lemma go_step : forall v k r g out,
  merge_sibs_go v (k :: r) g out =
  bind (step v k g out) (fun st => merge_sibs_go v r (fst st) (snd st)).
Proof.
  intros v k r g out. cbn [merge_sibs_go]. unfold step.
  destruct (negb (has_content k)).
  - destruct g; reflexivity.
  - destruct k as [e eks|tl]; [|reflexivity].
    destruct (elem_key v e eks) as [key|x]; [|reflexivity].
    cbn [bind]. destruct g as [g0|]; [|reflexivity].
    destruct (ekey_eqb (g_key g0) key && g_merge g0)%bool; reflexivity.
Qed.

(* the five ways a step can succeed *)
Inductive step_spec (v : env) (k : anode) (g : option group) (out : list anode)
  : option group -> list anode -> Prop :=
| SS_nc_none : has_content k = false -> g = None ->
    step_spec v k g out None (k :: out)
| SS_nc_some : forall g0, has_content k = false -> g = Some g0 ->
    step_spec v k g out (Some (pend_g k g0)) out
| SS_c_none : forall e eks key, k = AE e eks -> has_content k = true ->
    elem_key v e eks = Ok key -> g = None ->
    step_spec v k g out (Some (fresh_g key e eks)) out
| SS_c_join : forall e eks key g0, k = AE e eks -> has_content k = true ->
    elem_key v e eks = Ok key -> g = Some g0 ->
    ekey_eqb (g_key g0) key = true -> g_merge g0 = true ->
    step_spec v k g out (Some (join_g g0 e eks)) out
| SS_c_fresh : forall e eks key g0, k = AE e eks -> has_content k = true ->
    elem_key v e eks = Ok key -> g = Some g0 ->
    (ekey_eqb (g_key g0) key && g_merge g0)%bool = false ->
    step_spec v k g out (Some (fresh_g key e eks)) (flush g out).

Lemma step_cases : forall v k g out g' out',
  step v k g out = Ok (g', out') -> step_spec v k g out g' out'.
Proof.
  intros v k g out g' out' H. unfold step in H.
  destruct (has_content k) eqn:Hc; cbn [negb] in H.
  - destruct k as [e eks|tl]; [|discriminate].
    destruct (elem_key v e eks) as [key|x] eqn:Ek; [|discriminate].
    cbn [bind] in H. destruct g as [g0|].
    + destruct (ekey_eqb (g_key g0) key && g_merge g0)%bool eqn:Ec.
      * injection H as <- <-. apply andb_true_iff in Ec. destruct Ec.
        eapply SS_c_join; eauto.
      * injection H as <- <-. eapply SS_c_fresh; eauto.
    + injection H as <- <-. eapply SS_c_none; eauto.
  - destruct g as [g0|]; injection H as <- <-.
    + apply SS_nc_some; auto.
    + apply SS_nc_none; auto.
Qed.

(* generic invariant rule: [I c g out] — [c] is the input consumed so far *)
Lemma go_inv : forall v (Pk : anode -> Prop)
    (I : list anode -> option group -> list anode -> Prop),
  (forall c k g out g' out', Pk k -> I c g out ->
     step_spec v k g out g' out' -> I (c ++ [k]) g' out') ->
  forall ks c g out res, Forall Pk ks -> I c g out ->
    merge_sibs_go v ks g out = Ok res ->
    exists g' out', res = rev (flush g' out') /\ I (c ++ ks) g' out'.
Proof.
  intros v Pk I Hstep. induction ks as [|k r IH]; intros c g out res HP HI H.
  - cbn [merge_sibs_go] in H. injection H as <-. exists g, out. rewrite app_nil_r. auto.
  - rewrite go_step in H. destruct (step v k g out) as [[g1 out1]|x] eqn:Es; [|discriminate].
    cbn [bind fst snd] in H. inversion HP; subst.
    apply step_cases in Es.
    specialize (Hstep c k g out g1 out1 H2 HI Es).
    destruct (IH (c ++ [k]) g1 out1 res H3 Hstep H) as (g' & out' & E & HI').
    exists g', out'. split; [assumption|]. rewrite <- app_assoc in HI'. exact HI'.
Qed.

Lemma merge_sibs_inv : forall v (Pk : anode -> Prop)
    (I : list anode -> option group -> list anode -> Prop),
  (forall c k g out g' out', Pk k -> I c g out ->
     step_spec v k g out g' out' -> I (c ++ [k]) g' out') ->
  I [] None [] ->
  forall ks res, Forall Pk ks -> merge_sibs v ks = Ok res ->
    exists g' out', res = rev (flush g' out') /\ I ks g' out'.
Proof.
  intros v Pk I Hstep H0 ks res HP H.
  exact (go_inv v Pk I Hstep ks [] None [] res HP H0 H).
Qed.

(* ------------------------------------------------------------------ *)
(* lead_e facts                                                        *)
(* ------------------------------------------------------------------ *)

Lemma lead_e_ptag : forall g0, e_ptag (lead_e g0) = e_ptag (g_e g0).
Proof. intro g0. unfold lead_e. destruct (_ && _)%bool; reflexivity. Qed.
Lemma lead_e_uri : forall g0, e_uri (lead_e g0) = e_uri (g_e g0).
Proof. intro g0. unfold lead_e. destruct (_ && _)%bool; reflexivity. Qed.
Lemma lead_e_local : forall g0, e_local (lead_e g0) = e_local (g_e g0).
Proof. intro g0. unfold lead_e. destruct (_ && _)%bool; reflexivity. Qed.
Lemma lead_e_text_like : forall g0, is_text_like (lead_e g0) = is_text_like (g_e g0).
Proof. intro g0. unfold is_text_like. rewrite lead_e_ptag. reflexivity. Qed.
Lemma lead_e_mergeable : forall g0, is_mergeable (lead_e g0) = is_mergeable (g_e g0).
Proof. intro g0. unfold is_mergeable. rewrite lead_e_ptag. reflexivity. Qed.

Lemma leader_fresh : forall key e eks, leader (fresh_g key e eks) = AE e eks.
Proof.
  intros. unfold leader, lead_e. cbn [fresh_g g_e g_n g_kids Nat.ltb Nat.leb].
  rewrite andb_false_r. reflexivity.
Qed.

Lemma leader_pend : forall k g0, leader (pend_g k g0) = leader g0.
Proof. reflexivity. Qed.

Lemma flush_fresh : forall key e eks out,
  flush (Some (fresh_g key e eks)) out = AE e eks :: out.
Proof. intros. rewrite flush_Some, leader_fresh. reflexivity. Qed.

Lemma flush_pend : forall k g0 out,
  flush (Some (pend_g k g0)) out = k :: flush (Some g0) out.
Proof. reflexivity. Qed.

Lemma flush_join : forall g0 e eks out,
  flush (Some (join_g g0 e eks)) out = g_pending g0 ++ leader (join_g g0 e eks) :: out.
Proof. reflexivity. Qed.

(* ------------------------------------------------------------------ *)
(* 1. the fuel is never exhausted                                      *)
(* ------------------------------------------------------------------ *)

Definition nme {A} (r : res A) : Prop := r <> Err ModelError.

Lemma nme_ok : forall A (a : A), nme (Ok a).
Proof. intros. unfold nme. discriminate. Qed.

Lemma nme_err : forall A x, x <> ModelError -> nme (@Err A x).
Proof. intros A x H E. injection E as E. contradiction. Qed.

Lemma nme_bind : forall A B (r : res A) (k : A -> res B),
  nme r -> (forall a, r = Ok a -> nme (k a)) -> nme (bind r k).
Proof.
  intros A B [a|x] k H1 H2; cbn [bind].
  - apply H2. reflexivity.
  - intro E. apply H1. injection E as ->. reflexivity.
Qed.

Lemma nme_mapM : forall A B (f : A -> res B) l,
  Forall (fun x => nme (f x)) l -> nme (mapM f l).
Proof.
  intros A B f l H. induction H as [|x r Hx _ IH]; cbn [mapM].
  - apply nme_ok.
  - apply nme_bind; [assumption|]. intros y _.
    apply nme_bind; [assumption|]. intros ys _. apply nme_ok.
Qed.

Lemma nme_foldM : forall A S (f : S -> A -> res S),
  (forall s x, nme (f s x)) -> forall l s, nme (foldM f l s).
Proof.
  intros A S f H. induction l as [|x r IH]; intro s; cbn [foldM].
  - apply nme_ok.
  - apply nme_bind; [apply H|]. intros s' _. apply IH.
Qed.

Lemma nme_attr_r : forall e n, nme (attr_r e n).
Proof.
  intros. unfold attr_r. destruct (e_ruri e); [apply nme_ok|apply nme_err; discriminate].
Qed.

Lemma nme_attr_w : forall e n, nme (attr_w e n).
Proof.
  intros. unfold attr_w. destruct (e_wuri e); [apply nme_ok|apply nme_err; discriminate].
Qed.

Lemma nme_sub_val_of : forall k, nme (sub_val_of k).
Proof.
  intros [e ks|tl]; unfold sub_val_of.
  - apply nme_bind; [apply nme_attr_w|]. intros. apply nme_ok.
  - apply nme_err; discriminate.
Qed.

Lemma nme_gather_Pr : forall e ks, nme (gather_Pr e ks).
Proof.
  intros. unfold gather_Pr. destruct (find_child _ _ ks); [|apply nme_ok].
  apply nme_foldM. intros d k. destruct k as [ke kks|tl]; [|apply nme_ok].
  apply nme_bind; [apply nme_sub_val_of|].
  intros [n x] _. apply nme_ok.
Qed.

Lemma nme_eval_fpart : forall tag val p, nme (eval_fpart tag val p).
Proof.
  intros tag val p. destruct p; cbn [eval_fpart]; try apply nme_ok.
  destruct (last_opt tag); [apply nme_ok|apply nme_err; discriminate].
Qed.

Lemma nme_eval_fexpr : forall f tag val, nme (eval_fexpr f tag val).
Proof.
  intros. unfold eval_fexpr. apply nme_bind.
  - apply nme_mapM. apply Forall_forall. intros. apply nme_eval_fpart.
  - intros. apply nme_ok.
Qed.

Lemma nme_format_Pr : forall pr x, nme (format_Pr_into_html pr x).
Proof.
  intros. unfold format_Pr_into_html. apply nme_bind.
  - apply nme_foldM. intros d kv. destruct (dict_get (fst kv) x); [|apply nme_ok].
    destruct (is_off (snd kv)); [apply nme_ok|].
    apply nme_bind; [apply nme_eval_fexpr|]. intros. apply nme_ok.
  - intros. apply nme_ok.
Qed.

Lemma nme_get_html_formatting : forall e ks x, nme (get_html_formatting e ks x).
Proof.
  intros. unfold get_html_formatting.
  destruct (str_eqb (e_ptag e) tag_RUN).
  - unfold get_run_formatting. apply nme_bind; [apply nme_gather_Pr|].
    intros. apply nme_format_Pr.
  - destruct (str_eqb (e_ptag e) tag_PARAGRAPH); [|apply nme_ok].
    unfold get_paragraph_formatting, get_pStyle.
    apply nme_bind.
    + apply nme_bind; [apply nme_gather_Pr|]. intros. apply nme_ok.
    + intros. apply nme_format_Pr.
Qed.

(* the relationship id of an element and the target it resolves to: elem_key
   uses the target when there is one, and the formatting otherwise *)
Definition rid_of (e : einfo) : option str :=
  match e_ruri e with
  | None => None
  | Some u => alookup (Some u, s_id) (e_attrs e)
  end.
Definition tgt_of (v : env) (e : einfo) : option str :=
  match rid_of e with
  | Some (c :: r) => dict_get (c :: r) (env_rels v)
  | _ => None
  end.

Lemma elem_key_eq : forall v e ks,
  elem_key v e ks =
  if negb (is_mergeable e) then Ok ((e_uri e, e_local e), [], [])
  else match tgt_of v e with
       | Some tgt => Ok ((e_uri e, e_local e), tgt, [])
       | None => f <- get_html_formatting e ks (env_x2h v) ;; Ok ((e_uri e, e_local e), [], f)
       end.
Proof.
  intros v e ks. unfold elem_key, tgt_of, rid_of. cbv zeta.
  destruct (negb (is_mergeable e)); [reflexivity|].
  destruct (match e_ruri e with
            | Some u => alookup (Some u, s_id) (e_attrs e)
            | None => None
            end) as [[|c r]|]; reflexivity.
Qed.

Lemma nme_elem_key : forall v e ks, nme (elem_key v e ks).
Proof.
  intros. rewrite elem_key_eq. destruct (negb (is_mergeable e)); [apply nme_ok|].
  destruct (tgt_of v e); [apply nme_ok|].
  apply nme_bind; [apply nme_get_html_formatting|]. intros. apply nme_ok.
Qed.

Lemma nme_step : forall v k g out, nme (step v k g out).
Proof.
  intros. unfold step. destruct (has_content k) eqn:Hc; cbn [negb].
  - destruct k as [e eks|tl]; [|cbn in Hc; discriminate].
    apply nme_bind; [apply nme_elem_key|]. intros key _.
    destruct g as [g0|]; [destruct (_ && _)%bool|]; apply nme_ok.
  - destruct g; apply nme_ok.
Qed.

Lemma nme_go : forall v ks g out, nme (merge_sibs_go v ks g out).
Proof.
  intros v ks. induction ks as [|k r IH]; intros g out.
  - cbn [merge_sibs_go]. apply nme_ok.
  - rewrite go_step. apply nme_bind; [apply nme_step|]. intros [g1 o1] _. apply IH.
Qed.

Lemma merge_sibs_nme : forall v ks, merge_sibs v ks <> Err ModelError.
Proof. intros. apply nme_go. Qed.

(* heights *)
Definition hle (n : nat) (k : anode) : Prop := (height k <= n)%nat.

Lemma maxh_le : forall ks n, (maxh ks <= n)%nat <-> Forall (hle n) ks.
Proof.
  intros ks n. induction ks as [|k r IH]; cbn [maxh fold_right].
  - split; [constructor|lia].
  - fold (maxh r). split.
    + intro H. constructor; [unfold hle; lia|]. apply IH. lia.
    + intro H. inversion H; subst. apply IH in H3. unfold hle in H2. lia.
Qed.

Lemma hle_AE : forall n e ks, hle (S n) (AE e ks) <-> Forall (hle n) ks.
Proof.
  intros. unfold hle at 1. rewrite height_AE, <- maxh_le. lia.
Qed.

Lemma height_pos : forall t, (1 <= height t)%nat.
Proof. intros [e ks|tl]; [rewrite height_AE|cbn]; lia. Qed.

Lemma hle_leader_join : forall n g0 e eks,
  hle n (leader g0) -> hle n (AE e eks) -> hle n (leader (join_g g0 e eks)).
Proof.
  intros n g0 e eks H1 H2. unfold leader in *. cbn [join_g g_kids].
  destruct n as [|n].
  - unfold hle in H1. rewrite height_AE in H1. lia.
  - apply hle_AE in H1. apply hle_AE in H2. apply hle_AE. apply Forall_app. auto.
Qed.

Lemma step_hle : forall v n k g out g' out',
  hle n k -> Forall (hle n) (flush g out) -> step_spec v k g out g' out' ->
  Forall (hle n) (flush g' out').
Proof.
  intros v n k g out g' out' Hk HI Hs. destruct Hs; subst.
  - constructor; assumption.
  - rewrite flush_pend. constructor; assumption.
  - rewrite flush_fresh. constructor; assumption.
  - rewrite flush_join. rewrite flush_Some in HI.
    apply Forall_app in HI. destruct HI as [Hp HI]. inversion HI; subst.
    apply Forall_app. split; [assumption|]. constructor; [|assumption].
    apply hle_leader_join; assumption.
  - rewrite flush_fresh. constructor; assumption.
Qed.

(* merging siblings never increases height *)
Lemma merge_sibs_height : forall v n ks ks',
  Forall (hle n) ks -> merge_sibs v ks = Ok ks' -> Forall (hle n) ks'.
Proof.
  intros v n ks ks' HP H.
  destruct (merge_sibs_inv v (hle n) (fun _ g out => Forall (hle n) (flush g out)))
    with (ks := ks) (res := ks') as (g' & out' & E & HI); auto.
  - intros c k g out g' out' Hk HI Hs. eapply step_hle; eauto.
  - constructor.
  - subst. apply Forall_rev. assumption.
Qed.

Lemma merge_fuel_nme : forall v fuel t,
  (height t <= fuel)%nat -> merge_fuel fuel v t <> Err ModelError.
Proof.
  intros v fuel. induction fuel as [|f IH]; intros t Ht.
  - pose proof (height_pos t). lia.
  - destruct t as [e ks|tl]; cbn [merge_fuel]; [|apply nme_ok].
    apply nme_bind; [apply merge_sibs_nme|]. intros ks' Hs.
    apply nme_bind; [|intros; apply nme_ok].
    apply nme_mapM.
    assert (Hks : Forall (hle f) ks) by (apply (hle_AE f e ks); exact Ht).
    pose proof (merge_sibs_height v f ks ks' Hks Hs) as Hks'.
    eapply Forall_impl; [|exact Hks']. intros k Hk. apply IH. exact Hk.
Qed.

Lemma merge_fuel_enough : forall v t, merge_elems v t <> Err ModelError.
Proof. intros. unfold merge_elems. apply merge_fuel_nme. lia. Qed.

(* ------------------------------------------------------------------ *)
(* group invariants                                                    *)
(* ------------------------------------------------------------------ *)

Definition nc (k : anode) : Prop := has_content k = false.

Definition ginv (g0 : group) : Prop :=
  g_merge g0 = is_mergeable (g_e g0) /\
  fst (fst (g_key g0)) = (e_uri (g_e g0), e_local (g_e g0)) /\
  (1 <= g_n g0)%nat /\
  Forall nc (g_pending g0) /\
  (Nat.ltb 1 (g_n g0) = false -> g_texts g0 = [ostr (e_text (g_e g0))]).

Definition oginv (g : option group) : Prop :=
  match g with Some g0 => ginv g0 | None => True end.

Lemma elem_key_name : forall v e ks key,
  elem_key v e ks = Ok key -> fst (fst key) = (e_uri e, e_local e).
Proof.
  intros v e ks key H. rewrite elem_key_eq in H.
  destruct (negb (is_mergeable e)); [injection H as <-; reflexivity|].
  destruct (tgt_of v e); [injection H as <-; reflexivity|].
  destruct (get_html_formatting e ks (env_x2h v)); cbn [bind] in H; [|discriminate].
  injection H as <-. reflexivity.
Qed.

Lemma ginv_fresh : forall v key e eks,
  elem_key v e eks = Ok key -> ginv (fresh_g key e eks).
Proof.
  intros v key e eks H. unfold ginv. cbn [fresh_g g_merge g_key g_e g_n g_pending g_texts].
  repeat split; auto. eapply elem_key_name; eauto.
Qed.

Lemma ginv_pend : forall k g0, nc k -> ginv g0 -> ginv (pend_g k g0).
Proof.
  intros k g0 Hk (H1 & H2 & H3 & H4 & H5). unfold ginv.
  cbn [pend_g g_merge g_key g_e g_n g_pending g_texts]. repeat split; auto.
Qed.

Lemma ginv_join : forall g0 e eks, g_merge g0 = true -> ginv g0 -> ginv (join_g g0 e eks).
Proof.
  intros g0 e eks Hm (H1 & H2 & H3 & H4 & H5). unfold ginv.
  cbn [join_g g_merge g_key g_e g_n g_pending g_texts]. repeat split; auto.
  - rewrite <- H1. symmetry. exact Hm.
  - intro H. apply Nat.ltb_ge in H. lia.
Qed.

Lemma step_oginv : forall v k g out g' out',
  oginv g -> step_spec v k g out g' out' -> oginv g'.
Proof.
  intros v k g out g' out' HI Hs. destruct Hs; subst; cbn [oginv] in *.
  - exact I.
  - apply ginv_pend; assumption.
  - eapply ginv_fresh; eauto.
  - apply ginv_join; assumption.
  - eapply ginv_fresh; eauto.
Qed.

(* ------------------------------------------------------------------ *)
(* 2./3. atoms are preserved; wf_text and wf_ptag are preserved        *)
(* ------------------------------------------------------------------ *)

Definition Pk (pt : aname -> str) (k : anode) : Prop :=
  wf_text k = true /\ wf_ptag pt k = true.

Lemma head_lead : forall g0, ginv g0 -> is_text_like (g_e g0) = true ->
  head_atoms (lead_e g0) = map AChr (concat (g_texts g0)).
Proof.
  intros g0 (_ & _ & _ & _ & H5) Ht. unfold lead_e. rewrite Ht. cbn [andb].
  destruct (Nat.ltb 1 (g_n g0)) eqn:En.
  - unfold head_atoms. change (is_text_like (set_text (g_e g0) (Some (concat (g_texts g0)))))
      with (is_text_like (g_e g0)). rewrite Ht. reflexivity.
  - rewrite (H5 eq_refl). unfold head_atoms. rewrite Ht. cbn [concat]. rewrite app_nil_r. reflexivity.
Qed.

Lemma same_ptag : forall pt v g0 e eks key,
  ginv g0 -> wf_ptag pt (leader g0) = true -> wf_ptag pt (AE e eks) = true ->
  elem_key v e eks = Ok key -> ekey_eqb (g_key g0) key = true ->
  e_ptag e = e_ptag (g_e g0).
Proof.
  intros pt v g0 e eks key (_ & H2 & _) HL Hk Ek Eq.
  apply ekey_eqb_eq in Eq. apply elem_key_name in Ek. rewrite <- Eq, H2 in Ek.
  unfold leader in HL. rewrite wf_ptag_AE in HL, Hk.
  apply andb_true_iff in HL. destruct HL as [HL _].
  apply andb_true_iff in Hk. destruct Hk as [Hk _].
  apply str_eqb_eq in HL. apply str_eqb_eq in Hk.
  rewrite lead_e_ptag, lead_e_uri, lead_e_local in HL.
  rewrite Hk, HL, Ek. reflexivity.
Qed.

Lemma leader_join : forall pt v g0 e eks key,
  ginv g0 -> Pk pt (leader g0) -> Pk pt (AE e eks) ->
  elem_key v e eks = Ok key -> ekey_eqb (g_key g0) key = true -> g_merge g0 = true ->
  Pk pt (leader (join_g g0 e eks)) /\
  atoms (leader (join_g g0 e eks)) = atoms (leader g0) ++ atoms (AE e eks).
Proof.
  intros pt v g0 e eks key Hg [HLt HLp] [Hkt Hkp] Ek Eq Hm.
  pose proof (same_ptag pt v g0 e eks key Hg HLp Hkp Ek Eq) as Hptag.
  assert (Htl : is_text_like e = is_text_like (g_e g0)) by (unfold is_text_like; rewrite Hptag; reflexivity).
  assert (Hmg : is_mergeable e = true).
  { destruct Hg as (H1 & _). unfold is_mergeable. rewrite Hptag. fold (is_mergeable (g_e g0)).
    rewrite <- H1. exact Hm. }
  pose proof Hg as (_ & _ & Hn & _ & _).
  unfold leader in HLt, HLp. rewrite wf_text_AE in HLt, Hkt. rewrite wf_ptag_AE in HLp, Hkp.
  rewrite lead_e_text_like in HLt. rewrite lead_e_ptag, lead_e_uri, lead_e_local in HLp.
  apply andb_true_iff in HLt. destruct HLt as [HLt1 HLt2].
  apply andb_true_iff in Hkt. destruct Hkt as [Hkt1 Hkt2].
  apply andb_true_iff in HLp. destruct HLp as [HLp1 HLp2].
  apply andb_true_iff in Hkp. destruct Hkp as [Hkp1 Hkp2].
  rewrite Htl in Hkt1.
  unfold leader at 1 3. rewrite (atoms_AE (lead_e g0)), (atoms_AE e).
  cbn [join_g g_kids].
  destruct (is_text_like (g_e g0)) eqn:Et.
  - (* text-like leader *)
    assert (El : lead_e (join_g g0 e eks)
                 = set_text (g_e g0) (Some (concat (g_texts g0 ++ [ostr (e_text e)])))).
    { unfold lead_e. cbn [join_g g_e g_n g_texts]. rewrite Et.
      assert (E1 : Nat.ltb 1 (S (g_n g0)) = true) by (apply Nat.ltb_lt; lia).
      rewrite E1. reflexivity. }
    unfold leader. rewrite El. cbn [join_g g_kids].
    apply negb_true_iff in HLt1. apply negb_true_iff in Hkt1.
    split.
    + split.
      * rewrite wf_text_AE.
        change (is_text_like (set_text (g_e g0) (Some (concat (g_texts g0 ++ [ostr (e_text e)])))))
          with (is_text_like (g_e g0)).
        rewrite Et, existsb_app, HLt1, Hkt1, forallb_app, HLt2, Hkt2. reflexivity.
      * rewrite wf_ptag_AE. cbn [set_text e_ptag e_uri e_local].
        rewrite HLp1, forallb_app, HLp2, Hkp2. reflexivity.
    + rewrite atoms_AE, head_lead by assumption.
      unfold head_atoms at 1.
      change (is_text_like (set_text (g_e g0) (Some (concat (g_texts g0 ++ [ostr (e_text e)])))))
        with (is_text_like (g_e g0)).
      rewrite Et. cbn [set_text e_text ostr].
      unfold head_atoms. rewrite Htl.
      apply existsb_false_Forall in HLt1. apply existsb_false_Forall in Hkt1.
      rewrite atoms_l_app, !nocontent_atoms_l by assumption.
      rewrite concat_app. cbn [concat]. rewrite !app_nil_r, map_app. reflexivity.
  - (* run / hyperlink leader *)
    assert (El : lead_e (join_g g0 e eks) = g_e g0).
    { unfold lead_e. cbn [join_g g_e g_n g_texts]. rewrite Et. reflexivity. }
    assert (El0 : lead_e g0 = g_e g0).
    { unfold lead_e. rewrite Et. reflexivity. }
    unfold leader. rewrite El, El0. cbn [join_g g_kids].
    split.
    + split.
      * rewrite wf_text_AE, Et, forallb_app, HLt2, Hkt2. reflexivity.
      * rewrite wf_ptag_AE, HLp1, forallb_app, HLp2, Hkp2. reflexivity.
    + rewrite atoms_AE, atoms_l_app. rewrite (head_atoms_nil e) by assumption.
      cbn [app]. rewrite app_assoc. reflexivity.
Qed.

Lemma atoms_l_flush : forall p L out,
  Forall nc p -> atoms_l (rev (p ++ L :: out)) = atoms_l (rev out) ++ atoms L.
Proof.
  intros p L out Hp. rewrite rev_app_distr. cbn [rev].
  rewrite !atoms_l_app, atoms_l_one.
  rewrite (nocontent_atoms_l (rev p)) by (apply Forall_rev; exact Hp).
  rewrite app_nil_r. reflexivity.
Qed.

Definition coreI (pt : aname -> str) (c : list anode) (g : option group) (out : list anode) : Prop :=
  oginv g /\ Forall (Pk pt) (flush g out) /\ atoms_l (rev (flush g out)) = atoms_l c.

Lemma step_core : forall pt v c k g out g' out',
  Pk pt k -> coreI pt c g out -> step_spec v k g out g' out' -> coreI pt (c ++ [k]) g' out'.
Proof.
  intros pt v c k g out g' out' Hk (Hg & HP & HA) Hs.
  split; [eapply step_oginv; eauto|].
  rewrite atoms_l_app, atoms_l_one.
  destruct Hs; subst; cbn [oginv] in Hg.
  - rewrite flush_None in *. split; [constructor; assumption|].
    cbn [rev]. rewrite atoms_l_app, atoms_l_one, HA. reflexivity.
  - rewrite flush_pend. split; [constructor; assumption|].
    cbn [rev]. rewrite atoms_l_app, atoms_l_one, HA. reflexivity.
  - rewrite flush_None in *. rewrite flush_fresh. split; [constructor; assumption|].
    cbn [rev]. rewrite atoms_l_app, atoms_l_one, HA. reflexivity.
  - rewrite flush_Some in HP, HA. rewrite flush_join.
    apply Forall_app in HP. destruct HP as [HPp HP]. inversion HP as [|? ? HL HO]; subst.
    destruct (leader_join pt v g0 e eks key Hg HL Hk H1 H3 H4) as [HL' HA'].
    pose proof Hg as (_ & _ & _ & Hpend & _).
    split.
    + apply Forall_app. split; [assumption|]. constructor; assumption.
    + rewrite atoms_l_flush in * by assumption. rewrite HA', <- HA, app_assoc. reflexivity.
  - rewrite flush_fresh. split; [constructor; assumption|].
    cbn [rev]. rewrite atoms_l_app, atoms_l_one, HA. reflexivity.
Qed.

Lemma merge_sibs_core : forall pt v ks ks',
  Forall (Pk pt) ks -> merge_sibs v ks = Ok ks' ->
  Forall (Pk pt) ks' /\ atoms_l ks' = atoms_l ks.
Proof.
  intros pt v ks ks' HP H.
  destruct (merge_sibs_inv v (Pk pt) (coreI pt)) with (ks := ks) (res := ks')
    as (g' & out' & E & (Hg & HP' & HA)); auto.
  - intros. eapply step_core; eauto.
  - repeat split. constructor.
  - subst. split; [apply Forall_rev; assumption|assumption].
Qed.

(* ------------------------------------------------------------------ *)
(* 4. has_content is preserved                                         *)
(* ------------------------------------------------------------------ *)

Definition hcI (c : list anode) (g : option group) (out : list anode) : Prop :=
  match g with Some g0 => has_content (leader g0) = true | None => True end /\
  existsb has_content (flush g out) = existsb has_content c.

Lemma leader_join_content : forall g0 e eks,
  has_content (leader g0) = true -> has_content (leader (join_g g0 e eks)) = true.
Proof.
  intros g0 e eks H. unfold leader in *. rewrite has_content_AE in *.
  rewrite lead_e_ptag in *. cbn [join_g g_e g_kids]. rewrite existsb_app.
  apply orb_true_iff in H. destruct H as [H|H]; rewrite H; cbn [orb]; auto using orb_true_r.
Qed.

Lemma step_hc : forall v c k g out g' out',
  hcI c g out -> step_spec v k g out g' out' -> hcI (c ++ [k]) g' out'.
Proof.
  intros v c k g out g' out' [HL HE] Hs. unfold hcI.
  rewrite existsb_app. cbn [existsb]. rewrite orb_false_r.
  destruct Hs; subst.
  - rewrite flush_None in *. split; [exact I|]. cbn [existsb]. rewrite H, HE. cbn. rewrite orb_false_r. reflexivity.
  - rewrite flush_pend. split; [exact HL|]. cbn [existsb]. rewrite H, HE. cbn. rewrite orb_false_r. reflexivity.
  - rewrite flush_fresh, leader_fresh. split; [assumption|]. cbn [existsb]. rewrite H0.
    rewrite orb_true_r. reflexivity.
  - rewrite flush_join. pose proof (leader_join_content g0 e eks HL) as HL'.
    split; [assumption|]. rewrite existsb_app. cbn [existsb]. rewrite HL', H0.
    rewrite !orb_true_r. reflexivity.
  - rewrite flush_fresh, leader_fresh. split; [assumption|]. cbn [existsb]. rewrite H0.
    rewrite orb_true_r. reflexivity.
Qed.

Lemma merge_sibs_has_content : forall v ks ks',
  merge_sibs v ks = Ok ks' -> existsb has_content ks' = existsb has_content ks.
Proof.
  intros v ks ks' H.
  destruct (merge_sibs_inv v (fun _ => True) hcI) with (ks := ks) (res := ks')
    as (g' & out' & E & (_ & HE)); auto.
  - intros. eapply step_hc; eauto.
  - split; [exact I|reflexivity].
  - apply Forall_forall. auto.
  - subst. rewrite existsb_rev. exact HE.
Qed.

Lemma mapM_Forall2 : forall A B (f : A -> res B) l l',
  mapM f l = Ok l' -> Forall2 (fun a b => f a = Ok b) l l'.
Proof.
  intros A B f. induction l as [|x r IH]; intros l' H; cbn [mapM] in H.
  - injection H as <-. constructor.
  - destruct (f x) as [y|] eqn:Ex; cbn [bind] in H; [|discriminate].
    destruct (mapM f r) as [ys|] eqn:Er; cbn [bind] in H; [|discriminate].
    injection H as <-. constructor; auto.
Qed.

Lemma merge_fuel_has_content : forall v fuel t t',
  merge_fuel fuel v t = Ok t' -> has_content t' = has_content t.
Proof.
  intros v fuel. induction fuel as [|f IH]; intros t t' H; [discriminate|].
  destruct t as [e ks|tl]; cbn [merge_fuel] in H; [|injection H as <-; reflexivity].
  destruct (merge_sibs v ks) as [ks1|] eqn:E1; cbn [bind] in H; [|discriminate].
  destruct (mapM (merge_fuel f v) ks1) as [ks2|] eqn:E2; cbn [bind] in H; [|discriminate].
  injection H as <-. rewrite !has_content_AE. f_equal.
  rewrite <- (merge_sibs_has_content v ks ks1 E1).
  apply mapM_Forall2 in E2. clear E1.
  induction E2 as [|a b l l' Hab _ IH2]; [reflexivity|].
  cbn [existsb]. rewrite (IH _ _ Hab), IH2. reflexivity.
Qed.

Lemma merge_has_content : forall v t t',
  merge_elems v t = Ok t' -> has_content t' = has_content t.
Proof. intros v t t'. unfold merge_elems. apply merge_fuel_has_content. Qed.

(* ------------------------------------------------------------------ *)
(* 5. the root element is untouched                                    *)
(* ------------------------------------------------------------------ *)

Lemma merge_root_tag : forall v e ks t',
  merge_elems v (AE e ks) = Ok t' -> exists ks', t' = AE e ks'.
Proof.
  intros v e ks t' H. unfold merge_elems in H. cbn [merge_fuel] in H.
  destruct (merge_sibs v ks) as [ks1|]; cbn [bind] in H; [|discriminate].
  destruct (mapM _ ks1) as [ks2|]; cbn [bind] in H; [|discriminate].
  injection H as <-. exists ks2. reflexivity.
Qed.

(* ------------------------------------------------------------------ *)
(* 2./3. statements                                                    *)
(* ------------------------------------------------------------------ *)

Lemma Pk_AE : forall pt e ks,
  Pk pt (AE e ks) <->
  (if is_text_like e then negb (existsb has_content ks) else true) = true /\
  str_eqb (e_ptag e) (pt (e_uri e, e_local e)) = true /\
  Forall (Pk pt) ks.
Proof.
  intros pt e ks. unfold Pk at 1. rewrite wf_text_AE, wf_ptag_AE, !andb_true_iff, !forallb_forall.
  rewrite Forall_forall. unfold Pk. split.
  - intros [[H1 H2] [H3 H4]]. repeat split; auto.
  - intros (H1 & H2 & H3). repeat split; auto; intros x Hx; apply H3; exact Hx.
Qed.

Lemma Forall_Pk_split : forall pt ks,
  Forall (Pk pt) ks <->
  Forall (fun k => wf_text k = true) ks /\ Forall (fun k => wf_ptag pt k = true) ks.
Proof.
  intros. rewrite !Forall_forall. unfold Pk. split.
  - intro H. split; intros x Hx; apply H; exact Hx.
  - intros [H1 H2] x Hx. split; auto.
Qed.

(* FALSE AS STATED (see merge_sibs_atoms_counterexample): holds when prefixes
   are used consistently *)
Lemma merge_sibs_atoms_partial : forall pt v ks ks',
  Forall (fun k => wf_ptag pt k = true) ks ->
  Forall (fun k => wf_text k = true) ks ->
  merge_sibs v ks = Ok ks' -> concat (map atoms ks') = concat (map atoms ks).
Proof.
  intros pt v ks ks' Hp Ht H.
  apply (merge_sibs_core pt v ks ks'); [|exact H]. apply Forall_Pk_split. auto.
Qed.

Lemma merge_sibs_wf_partial : forall pt v ks ks',
  Forall (fun k => wf_ptag pt k = true) ks ->
  Forall (fun k => wf_text k = true) ks ->
  merge_sibs v ks = Ok ks' ->
  Forall (fun k => wf_text k = true) ks' /\ Forall (fun k => wf_ptag pt k = true) ks'.
Proof.
  intros pt v ks ks' Hp Ht H. apply Forall_Pk_split.
  apply (merge_sibs_core pt v ks ks'); [|exact H]. apply Forall_Pk_split. auto.
Qed.

Lemma merge_fuel_core : forall pt v fuel t t',
  Pk pt t -> merge_fuel fuel v t = Ok t' -> Pk pt t' /\ atoms t' = atoms t.
Proof.
  intros pt v fuel. induction fuel as [|f IH]; intros t t' HP H; [discriminate|].
  destruct t as [e ks|tl]; cbn [merge_fuel] in H; [|injection H as <-; auto].
  destruct (merge_sibs v ks) as [ks1|] eqn:E1; cbn [bind] in H; [|discriminate].
  destruct (mapM (merge_fuel f v) ks1) as [ks2|] eqn:E2; cbn [bind] in H; [|discriminate].
  injection H as <-.
  apply Pk_AE in HP. destruct HP as (Ht & Hp & Hks).
  destruct (merge_sibs_core pt v ks ks1 Hks E1) as [Hks1 HA1].
  pose proof (merge_sibs_has_content v ks ks1 E1) as HC1.
  apply mapM_Forall2 in E2.
  assert (H2 : Forall (Pk pt) ks2 /\ atoms_l ks2 = atoms_l ks1 /\
               existsb has_content ks2 = existsb has_content ks1).
  { clear E1 HA1 HC1. induction E2 as [|a b l l' Hab _ IH2]; [repeat split; constructor|].
    inversion Hks1; subst. destruct (IH a b H1 Hab) as [Hb1 Hb2].
    destruct (IH2 H2) as (I1 & I2 & I3). repeat split.
    - constructor; assumption.
    - rewrite !atoms_l_cons, Hb2, I2. reflexivity.
    - cbn [existsb]. rewrite (merge_fuel_has_content v f a b Hab), I3. reflexivity. }
  destruct H2 as (Hks2 & HA2 & HC2). split.
  - apply Pk_AE. repeat split; auto. rewrite HC2, HC1. exact Ht.
  - rewrite !atoms_AE, HA2, HA1. reflexivity.
Qed.

(* FALSE AS STATED (see merge_atoms_counterexample) *)
Lemma merge_atoms_partial : forall pt v t t',
  wf_ptag pt t = true -> wf_text t = true ->
  merge_elems v t = Ok t' -> atoms t' = atoms t.
Proof.
  intros pt v t t' Hp Ht H. unfold merge_elems in H.
  apply (merge_fuel_core pt v (S (height t)) t t'); [split; assumption|exact H].
Qed.

Lemma merge_wf_partial : forall pt v t t',
  wf_ptag pt t = true -> wf_text t = true ->
  merge_elems v t = Ok t' -> wf_text t' = true /\ wf_ptag pt t' = true.
Proof.
  intros pt v t t' Hp Ht H. unfold merge_elems in H.
  apply (merge_fuel_core pt v (S (height t)) t t'); [split; assumption|exact H].
Qed.

(* ------------------------------------------------------------------ *)
(* Counterexample to the unconditional statements:                     *)
(*   <w:p><w:t>a</w:t><x:t>b<w:br/></x:t></w:p>                        *)
(* with xmlns:w = xmlns:x.  The two children have the same Clark name  *)
(* {U}t, hence the same key; the leader w:t is mergeable, so x:t is    *)
(* fused into it: its text "b" (not an atom before: x:t is not a text  *)
(* tag) becomes part of the text of w:t, and w:t receives the content  *)
(* child w:br.                                                         *)
(* ------------------------------------------------------------------ *)

Definition cx_ns : list (option str * str) :=
  [(Some [119], [85]); (Some [120], [85]); (Some [114], [82])].
Definition cx_r1 : rnode := RE (Some [119]) (Some [85]) [116] cx_ns [] (Some [97]) None [].
Definition cx_br : rnode := RE (Some [119]) (Some [85]) [98; 114] cx_ns [] None None [].
Definition cx_r2 : rnode := RE (Some [120]) (Some [85]) [116] cx_ns [] (Some [98]) None [cx_br].
Definition cx_p : rnode := RE (Some [119]) (Some [85]) [112] cx_ns [] None None [cx_r1; cx_r2].
Definition cx_env : env :=
  {| env_x2h := []; env_rels := []; env_dup := false; env_numtbl := [] |}.

Eval vm_compute in (map atoms (map view [cx_r1; cx_r2])).
Eval vm_compute in (merge_sibs cx_env (map view [cx_r1; cx_r2])).
Eval vm_compute in
  (match merge_sibs cx_env (map view [cx_r1; cx_r2]) with
   | Ok ks' => Some (map atoms ks', map wf_text ks') | Err _ => None end).

Lemma merge_sibs_atoms_counterexample :
  exists v ks ks',
    Forall (fun k => wf_text k = true) ks /\ merge_sibs v ks = Ok ks' /\
    concat (map atoms ks') <> concat (map atoms ks) /\
    ~ Forall (fun k => wf_text k = true) ks'.
Proof.
  exists cx_env, (map view [cx_r1; cx_r2]).
  eexists. split; [|split; [vm_compute; reflexivity|split]].
  - repeat constructor.
  - vm_compute. discriminate.
  - intro H. inversion H as [|? ? H1 _]. vm_compute in H1. discriminate.
Qed.

Lemma merge_atoms_counterexample :
  exists v t t',
    wf_text t = true /\ merge_elems v t = Ok t' /\ atoms t' <> atoms t /\ wf_text t' = false.
Proof.
  exists cx_env, (view cx_p). eexists.
  split; [vm_compute; reflexivity|].
  split; [vm_compute; reflexivity|].
  split; [vm_compute; discriminate|vm_compute; reflexivity].
Qed.

(* ================================================================== *)
(* 6. BONUS: idempotence                                               *)
(* ================================================================== *)

(* property children (<tag>Pr) carry no content *)
Definition pr_ok (u : option str) (l : str) (ks : list anode) : bool :=
  forallb (fun k => negb (is_elem_named u (l ++ s_Pr) k) || negb (has_content k)) ks.
Fixpoint wf_pr (t : anode) : bool :=
  match t with
  | AX _ => true
  | AE e ks => pr_ok (e_uri e) (e_local e) ks && forallb wf_pr ks
  end.
(* no relationship has an empty Target *)
Definition rels_ok (v : env) : Prop :=
  forall k t, dict_get k (env_rels v) = Some t -> t <> [].

Lemma wf_pr_AE : forall e ks,
  wf_pr (AE e ks) = pr_ok (e_uri e) (e_local e) ks && forallb wf_pr ks.
Proof. reflexivity. Qed.

Lemma pr_ok_app : forall u l a b, pr_ok u l (a ++ b) = pr_ok u l a && pr_ok u l b.
Proof. intros. unfold pr_ok. apply forallb_app. Qed.

(* --- elem_key depends on the children only through the first <tag>Pr --- *)

Definition pr_child (e : einfo) (ks : list anode) : option anode :=
  find_child (e_uri e) (e_local e ++ s_Pr) ks.

Lemma ghf_dep : forall e ks1 ks2 x,
  pr_child e ks1 = pr_child e ks2 ->
  get_html_formatting e ks1 x = get_html_formatting e ks2 x.
Proof.
  intros e ks1 ks2 x H.
  unfold get_html_formatting, get_run_formatting, get_paragraph_formatting, get_pStyle, gather_Pr.
  unfold pr_child in H. rewrite H. reflexivity.
Qed.

Definition same_tag (e1 e2 : einfo) : Prop :=
  e_ptag e1 = e_ptag e2 /\ e_uri e1 = e_uri e2 /\ e_local e1 = e_local e2.

Lemma ghf_same_tag : forall e1 e2 ks x, same_tag e1 e2 ->
  get_html_formatting e1 ks x = get_html_formatting e2 ks x.
Proof.
  intros e1 e2 ks x (H1 & H2 & H3).
  unfold get_html_formatting, get_run_formatting, get_paragraph_formatting, get_pStyle, gather_Pr.
  rewrite H1, H2, H3. reflexivity.
Qed.

Lemma elem_key_dep : forall v e ks1 ks2,
  pr_child e ks1 = pr_child e ks2 -> elem_key v e ks1 = elem_key v e ks2.
Proof.
  intros v e ks1 ks2 H. rewrite !elem_key_eq.
  rewrite (ghf_dep e ks1 ks2 _ H). reflexivity.
Qed.

Lemma find_child_app : forall u l a b,
  find_child u l (a ++ b) =
  match find_child u l a with Some x => Some x | None => find_child u l b end.
Proof.
  intros. unfold find_child, find_children. rewrite filter_app.
  destruct (filter (is_elem_named u l) a); reflexivity.
Qed.

Lemma elem_key_cases : forall v e ks K,
  is_mergeable e = true -> elem_key v e ks = Ok K ->
  (exists tgt, tgt_of v e = Some tgt /\ K = ((e_uri e, e_local e), tgt, []))
  \/ (exists f, tgt_of v e = None /\
      get_html_formatting e ks (env_x2h v) = Ok f /\ K = ((e_uri e, e_local e), [], f)).
Proof.
  intros v e ks K Hm H. rewrite elem_key_eq in H. rewrite Hm in H. cbn [negb] in H.
  destruct (tgt_of v e) as [tgt|] eqn:Et.
  - left. injection H as <-. exists tgt. auto.
  - right. destruct (get_html_formatting e ks (env_x2h v)) as [f|] eqn:Ef; cbn [bind] in H; [|discriminate].
    injection H as <-. exists f. auto.
Qed.

Lemma elem_key_rid : forall v e ks tgt,
  is_mergeable e = true -> tgt_of v e = Some tgt ->
  elem_key v e ks = Ok ((e_uri e, e_local e), tgt, []).
Proof.
  intros v e ks tgt Hm Ht. rewrite elem_key_eq. rewrite Hm. cbn [negb].
  rewrite Ht. reflexivity.
Qed.

Lemma elem_key_fmt : forall v e ks f,
  is_mergeable e = true -> tgt_of v e = None ->
  get_html_formatting e ks (env_x2h v) = Ok f ->
  elem_key v e ks = Ok ((e_uri e, e_local e), [], f).
Proof.
  intros v e ks f Hm Ht Hf. rewrite elem_key_eq. rewrite Hm. cbn [negb].
  rewrite Ht, Hf. reflexivity.
Qed.

Lemma tgt_of_In : forall v e tgt, tgt_of v e = Some tgt ->
  exists k, dict_get k (env_rels v) = Some tgt.
Proof.
  intros v e tgt H. unfold tgt_of in H.
  destruct (rid_of e) as [[|c r]|]; try discriminate. exists (c :: r). exact H.
Qed.

(* the key of a fused leader is the key of the group *)
Lemma key_join : forall v e0 kids e eks K,
  rels_ok v -> same_tag e e0 -> is_mergeable e0 = true ->
  elem_key v e0 kids = Ok K -> elem_key v e eks = Ok K ->
  elem_key v e0 (kids ++ eks) = Ok K.
Proof.
  intros v e0 kids e eks K Hrels Hst Hm0 H0 H1.
  assert (Hm : is_mergeable e = true).
  { destruct Hst as (Hp & _). unfold is_mergeable. rewrite Hp. exact Hm0. }
  destruct (elem_key_cases v e0 kids K Hm0 H0)
    as [(tgt & Ha & HK) | (f & Ha & Hf & HK)]; subst K.
  - apply (elem_key_rid v e0 _ tgt); assumption.
  - apply (elem_key_fmt v e0 _ f); try assumption.
    destruct (pr_child e0 kids) as [x|] eqn:Epr.
    + rewrite <- Hf. apply ghf_dep. unfold pr_child in *. rewrite find_child_app, Epr. reflexivity.
    + assert (E : get_html_formatting e0 (kids ++ eks) (env_x2h v)
                  = get_html_formatting e0 eks (env_x2h v)).
      { apply ghf_dep. unfold pr_child in *. rewrite find_child_app, Epr. reflexivity. }
      rewrite E. rewrite <- (ghf_same_tag e e0 eks _ Hst).
      destruct (elem_key_cases v e eks _ Hm H1)
        as [(tgt & Ha' & HK') | (f' & Ha' & Hf' & HK')].
      * assert (Ht : tgt = []) by (inversion HK'; reflexivity).
        subst tgt. exfalso. destruct (tgt_of_In v e [] Ha') as [k Hk].
        eapply Hrels; eauto.
      * assert (Hff : f' = f) by (inversion HK'; reflexivity).
        rewrite Hf', Hff. reflexivity.
Qed.

Lemma elem_key_lead : forall v g0 ks, elem_key v (lead_e g0) ks = elem_key v (g_e g0) ks.
Proof. intros. unfold lead_e. destruct (_ && _)%bool; reflexivity. Qed.

(* --- merging leaves content-free subtrees alone --- *)

Lemma go_all_nc : forall v ks out, Forall nc ks ->
  merge_sibs_go v ks None out = Ok (rev out ++ ks).
Proof.
  intros v ks. induction ks as [|k r IH]; intros out H; cbn [merge_sibs_go].
  - rewrite app_nil_r. reflexivity.
  - inversion H as [|? ? Hk Hr]; subst. unfold nc in Hk. rewrite Hk. cbn [negb].
    rewrite IH by assumption. cbn [rev]. rewrite <- app_assoc. reflexivity.
Qed.

Lemma merge_fuel_root : forall v f e ks t',
  merge_fuel f v (AE e ks) = Ok t' -> exists ks', t' = AE e ks'.
Proof.
  intros v f e ks t' H. destruct f as [|f]; [discriminate|]. cbn [merge_fuel] in H.
  destruct (merge_sibs v ks) as [ks1|]; cbn [bind] in H; [|discriminate].
  destruct (mapM _ ks1) as [ks2|]; cbn [bind] in H; [|discriminate].
  injection H as <-. exists ks2. reflexivity.
Qed.

Lemma merge_fuel_AX : forall v f tl t', merge_fuel f v (AX tl) = Ok t' -> t' = AX tl.
Proof. intros v [|f] tl t' H; [discriminate|]. cbn in H. injection H as <-. reflexivity. Qed.

Lemma merge_fuel_nc : forall v f t t', merge_fuel f v t = Ok t' -> nc t -> t' = t.
Proof.
  intros v f. induction f as [|f IH]; intros t t' H Hn; [discriminate|].
  destruct t as [e ks|tl]; cbn [merge_fuel] in H; [|injection H as <-; reflexivity].
  unfold nc in Hn. rewrite has_content_AE in Hn. apply orb_false_iff in Hn. destruct Hn as [_ Hn].
  apply existsb_false_Forall in Hn.
  unfold merge_sibs in H. rewrite (go_all_nc v ks [] Hn) in H. cbn [rev app bind] in H.
  destruct (mapM (merge_fuel f v) ks) as [ks2|] eqn:E2; cbn [bind] in H; [|discriminate].
  injection H as <-. f_equal. apply mapM_Forall2 in E2.
  induction E2 as [|a b l l' Hab _ IH2]; [reflexivity|].
  inversion Hn; subst. f_equal; [eapply IH; eauto|apply IH2; assumption].
Qed.

(* --- merge_sibs keeps the sub-list of children with a given name when these
       carry no content --- *)

Definition namedI (u : option str) (l : str) (c : list anode) (g : option group) (out : list anode) : Prop :=
  match g with Some g0 => is_elem_named u l (leader g0) = false | None => True end /\
  filter (is_elem_named u l) (rev (flush g out)) = filter (is_elem_named u l) c.

Lemma filter_snoc_no : forall A (f : A -> bool) l x, f x = false -> filter f (l ++ [x]) = filter f l.
Proof. intros. rewrite filter_app. cbn [filter]. rewrite H. apply app_nil_r. Qed.

Lemma filter_flush : forall u l p L out, is_elem_named u l L = false ->
  filter (is_elem_named u l) (rev (p ++ L :: out)) =
  filter (is_elem_named u l) (rev out) ++ filter (is_elem_named u l) (rev p).
Proof.
  intros. rewrite rev_app_distr. cbn [rev]. rewrite filter_app, filter_snoc_no by assumption.
  reflexivity.
Qed.

Lemma named_leader_join : forall u l g0 e eks,
  is_elem_named u l (leader (join_g g0 e eks)) = is_elem_named u l (leader g0).
Proof.
  intros. unfold leader, is_elem_named. rewrite !lead_e_uri, !lead_e_local. reflexivity.
Qed.

Lemma step_named : forall v u l c k g out g' out',
  (is_elem_named u l k = true -> nc k) -> namedI u l c g out ->
  step_spec v k g out g' out' -> namedI u l (c ++ [k]) g' out'.
Proof.
  intros v u l c k g out g' out' Hk [HL HF] Hs. unfold namedI.
  assert (Hcn : has_content k = true -> is_elem_named u l k = false).
  { intro Hc. destruct (is_elem_named u l k) eqn:En; [|reflexivity].
    specialize (Hk eq_refl). unfold nc in Hk. congruence. }
  destruct Hs; subst.
  - rewrite flush_None in *. split; [exact I|]. cbn [rev]. rewrite !filter_app, HF. reflexivity.
  - rewrite flush_pend. split; [exact HL|]. cbn [rev]. rewrite !filter_app, HF. reflexivity.
  - rewrite flush_None in *. rewrite flush_fresh, leader_fresh. specialize (Hcn H0).
    split; [exact Hcn|]. cbn [rev]. rewrite !filter_snoc_no by assumption. exact HF.
  - rewrite flush_join. rewrite flush_Some in HF. specialize (Hcn H0).
    rewrite named_leader_join. split; [exact HL|].
    rewrite filter_flush in * by (try rewrite named_leader_join; assumption).
    rewrite filter_snoc_no by assumption. exact HF.
  - rewrite flush_fresh, leader_fresh. specialize (Hcn H0).
    split; [exact Hcn|]. cbn [rev]. rewrite !filter_snoc_no by assumption. exact HF.
Qed.

Lemma merge_sibs_filter_named : forall v u l ks ks1,
  Forall (fun k => is_elem_named u l k = true -> nc k) ks ->
  merge_sibs v ks = Ok ks1 ->
  filter (is_elem_named u l) ks1 = filter (is_elem_named u l) ks.
Proof.
  intros v u l ks ks1 HP H.
  destruct (merge_sibs_inv v (fun k => is_elem_named u l k = true -> nc k) (namedI u l))
    with (ks := ks) (res := ks1) as (g' & out' & E & (_ & HF)); auto.
  - intros. eapply step_named; eauto.
  - split; [exact I|reflexivity].
  - subst. exact HF.
Qed.

Lemma named_merge : forall v f u l a b,
  merge_fuel f v a = Ok b -> is_elem_named u l b = is_elem_named u l a.
Proof.
  intros v f u l [e ks|tl] b H.
  - apply merge_fuel_root in H. destruct H as [ks' ->]. reflexivity.
  - apply merge_fuel_AX in H. subst. reflexivity.
Qed.

Lemma mapM_filter_named : forall v f u l l1 l2,
  Forall2 (fun a b => merge_fuel f v a = Ok b) l1 l2 ->
  Forall (fun k => is_elem_named u l k = true -> nc k) l1 ->
  filter (is_elem_named u l) l2 = filter (is_elem_named u l) l1.
Proof.
  intros v f u l l1 l2 H. induction H as [|a b l1 l2 Hab _ IH]; intro HP; [reflexivity|].
  inversion HP as [|? ? Ha Hr]; subst. cbn [filter].
  rewrite (named_merge v f u l a b Hab).
  destruct (is_elem_named u l a) eqn:En.
  - rewrite (merge_fuel_nc v f a b Hab (Ha eq_refl)). f_equal. apply IH. assumption.
  - apply IH. assumption.
Qed.

Lemma pr_ok_Forall : forall u l ks, pr_ok u l ks = true ->
  Forall (fun k => is_elem_named u (l ++ s_Pr) k = true -> nc k) ks.
Proof.
  intros u l ks H. unfold pr_ok in H. rewrite forallb_forall in H.
  apply Forall_forall. intros k Hk Hn. specialize (H k Hk). rewrite Hn in H.
  cbn [negb orb] in H. apply negb_true_iff in H. exact H.
Qed.

(* the key of an element is not changed by merging its children *)
Lemma key_rec : forall v f e kids k2,
  wf_pr (AE e kids) = true -> merge_fuel f v (AE e kids) = Ok (AE e k2) ->
  elem_key v e k2 = elem_key v e kids.
Proof.
  intros v f e kids k2 Hw H. destruct f as [|f]; [discriminate|]. cbn [merge_fuel] in H.
  destruct (merge_sibs v kids) as [k1|] eqn:E1; cbn [bind] in H; [|discriminate].
  destruct (mapM (merge_fuel f v) k1) as [k2'|] eqn:E2; cbn [bind] in H; [|discriminate].
  injection H as <-.
  rewrite wf_pr_AE in Hw. apply andb_true_iff in Hw. destruct Hw as [Hw _].
  apply pr_ok_Forall in Hw.
  pose proof (merge_sibs_filter_named v _ _ kids k1 Hw E1) as F1.
  assert (Hw1 : Forall (fun k => is_elem_named (e_uri e) (e_local e ++ s_Pr) k = true -> nc k) k1).
  { apply Forall_forall. intros a Ha Hn.
    assert (Hin : In a (filter (is_elem_named (e_uri e) (e_local e ++ s_Pr)) k1))
      by (apply filter_In; auto).
    rewrite F1 in Hin. apply filter_In in Hin. destruct Hin as [Hin _].
    rewrite Forall_forall in Hw. exact (Hw a Hin Hn). }
  apply mapM_Forall2 in E2.
  pose proof (mapM_filter_named v f _ _ k1 k2' E2 Hw1) as F2.
  apply elem_key_dep. unfold pr_child, find_child, find_children. rewrite F2, F1. reflexivity.
Qed.

(* --- wf_ptag and wf_pr are preserved by merge_sibs --- *)

Definition Qk (pt : aname -> str) (k : anode) : Prop :=
  wf_ptag pt k = true /\ wf_pr k = true.

Lemma Qk_AE : forall pt e ks,
  Qk pt (AE e ks) <->
  str_eqb (e_ptag e) (pt (e_uri e, e_local e)) = true /\
  pr_ok (e_uri e) (e_local e) ks = true /\
  Forall (Qk pt) ks.
Proof.
  intros pt e ks. unfold Qk at 1. rewrite wf_pr_AE, wf_ptag_AE, !andb_true_iff, !forallb_forall.
  rewrite Forall_forall. unfold Qk. split.
  - intros [[H1 H2] [H3 H4]]. repeat split; auto.
  - intros (H1 & H2 & H3). repeat split; auto; intros x Hx; apply H3; exact Hx.
Qed.

Lemma leader_join_Q : forall pt v g0 e eks key,
  ginv g0 -> Qk pt (leader g0) -> Qk pt (AE e eks) ->
  elem_key v e eks = Ok key -> ekey_eqb (g_key g0) key = true ->
  Qk pt (leader (join_g g0 e eks)) /\ same_tag e (g_e g0).
Proof.
  intros pt v g0 e eks key Hg HL Hk Ek Eq.
  pose proof (same_ptag pt v g0 e eks key Hg (proj1 HL) (proj1 Hk) Ek Eq) as Hptag.
  assert (Hname : (e_uri e, e_local e) = (e_uri (g_e g0), e_local (g_e g0))).
  { destruct Hg as (_ & H2 & _). apply ekey_eqb_eq in Eq.
    apply elem_key_name in Ek. rewrite <- Eq, H2 in Ek. symmetry. exact Ek. }
  injection Hname as Hu Hl.
  split; [|repeat split; assumption].
  unfold leader in *. apply Qk_AE in HL. apply Qk_AE in Hk. apply Qk_AE.
  destruct HL as (L1 & L2 & L3). destruct Hk as (K1 & K2 & K3).
  rewrite lead_e_ptag, lead_e_uri, lead_e_local in *.
  cbn [join_g g_e g_kids]. repeat split.
  - exact L1.
  - rewrite pr_ok_app, L2. rewrite <- Hu, <- Hl, K2. reflexivity.
  - apply Forall_app. auto.
Qed.

(* --- lists on which merge_sibs does nothing --- *)

Definition kstate := option (ekey * bool).
Definition compat (p : kstate) (key : ekey) : Prop :=
  match p with None => True | Some (pk, pm) => (ekey_eqb pk key && pm)%bool = false end.

Inductive stab (v : env) : kstate -> list anode -> kstate -> Prop :=
| stab_nil : forall p, stab v p [] p
| stab_nc : forall p k l q, nc k -> stab v p l q -> stab v p (k :: l) q
| stab_c : forall p e eks key l q,
    has_content (AE e eks) = true -> elem_key v e eks = Ok key -> compat p key ->
    stab v (Some (key, is_mergeable e)) l q -> stab v p (AE e eks :: l) q.

Lemma stab_app : forall v p l1 q l2 r,
  stab v p l1 q -> stab v q l2 r -> stab v p (l1 ++ l2) r.
Proof.
  intros v p l1 q l2 r H1 H2. induction H1; cbn [app].
  - exact H2.
  - apply stab_nc; auto.
  - eapply stab_c; eauto.
Qed.

Lemma stab_all_nc : forall v p l, Forall nc l -> stab v p l p.
Proof. intros v p l H. induction H; [apply stab_nil|apply stab_nc; assumption]. Qed.

Definition gp (g : option group) : kstate :=
  match g with Some g0 => Some (g_key g0, g_merge g0) | None => None end.

Lemma go_stab : forall v l p q, stab v p l q ->
  forall g out, gp g = p -> merge_sibs_go v l g out = Ok (rev (flush g out) ++ l).
Proof.
  intros v l p q H. induction H as [p|p k l q Hk _ IH|p e eks key l q Hc Ek Hp _ IH]; intros g out Hg.
  - cbn [merge_sibs_go]. rewrite app_nil_r. reflexivity.
  - rewrite go_step. unfold step. unfold nc in Hk. rewrite Hk. cbn [negb].
    destruct g as [g0|]; cbn [bind fst snd].
    + rewrite IH by exact Hg. rewrite flush_pend. cbn [rev]. rewrite <- app_assoc. reflexivity.
    + rewrite IH by exact Hg. rewrite !flush_None. cbn [rev]. rewrite <- app_assoc. reflexivity.
  - rewrite go_step. unfold step. rewrite Hc. cbn [negb]. rewrite Ek. cbn [bind].
    destruct g as [g0|]; cbn [gp] in Hg; subst p.
    + cbn [compat] in Hp. rewrite Hp. cbn [bind fst snd].
      rewrite IH by reflexivity. rewrite flush_fresh. cbn [rev]. rewrite <- app_assoc. reflexivity.
    + cbn [bind fst snd]. rewrite IH by reflexivity. rewrite flush_fresh, flush_None. cbn [rev].
      rewrite <- app_assoc. reflexivity.
Qed.

(* elementwise changes that do not matter to merge_sibs *)
Definition simk (v : env) (a b : anode) : Prop :=
  has_content b = has_content a /\
  match a with
  | AX _ => True
  | AE e eks => exists eks', b = AE e eks' /\ elem_key v e eks' = elem_key v e eks
  end.

Lemma stab_transfer : forall v p l1 q, stab v p l1 q ->
  forall l2, Forall2 (simk v) l1 l2 -> stab v p l2 q.
Proof.
  intros v p l1 q H. induction H as [p|p k l q Hk _ IH|p e eks key l q Hc Ek Hp _ IH];
    intros l2 HF; inversion HF as [|a b l1' l2' Hab Hr]; subst.
  - apply stab_nil.
  - apply stab_nc; [|apply IH; assumption]. destruct Hab as [Hh _]. unfold nc in *. congruence.
  - destruct Hab as [Hh (eks' & -> & Hkey)].
    eapply stab_c; [congruence|rewrite Hkey; exact Ek|exact Hp|apply IH; assumption].
Qed.

(* --- the invariant of the first pass --- *)

Definition idI (pt : aname -> str) (v : env)
    (c : list anode) (g : option group) (out : list anode) : Prop :=
  oginv g /\ Forall (Qk pt) (flush g out) /\
  exists q, stab v None (rev out) q /\
    match g with
    | None => q = None
    | Some g0 => compat q (g_key g0) /\
                 elem_key v (g_e g0) (g_kids g0) = Ok (g_key g0) /\
                 has_content (leader g0) = true
    end.

Lemma stab_flush : forall v g0 out q,
  ginv g0 -> stab v None (rev out) q -> compat q (g_key g0) ->
  elem_key v (g_e g0) (g_kids g0) = Ok (g_key g0) -> has_content (leader g0) = true ->
  stab v None (rev (flush (Some g0) out)) (Some (g_key g0, g_merge g0)).
Proof.
  intros v g0 out q Hg Hq Hc Hk Hh. rewrite flush_Some, rev_app_distr. cbn [rev].
  destruct Hg as (H1 & _ & _ & H4 & _).
  eapply stab_app; [eapply stab_app; [exact Hq|]|].
  - unfold leader in *. eapply stab_c; [exact Hh|rewrite elem_key_lead; exact Hk|exact Hc|].
    rewrite lead_e_mergeable, <- H1. apply stab_nil.
  - apply stab_all_nc. apply Forall_rev. exact H4.
Qed.

Lemma step_id : forall pt v c k g out g' out',
  rels_ok v -> Qk pt k -> idI pt v c g out -> step_spec v k g out g' out' ->
  idI pt v (c ++ [k]) g' out'.
Proof.
  intros pt v c k g out g' out' Hrels Hk (Hg & HQ & q & Hq & Hm) Hs.
  split; [eapply step_oginv; eauto|].
  destruct Hs; subst; cbn [oginv] in Hg.
  - subst q. rewrite flush_None in *. split; [constructor; assumption|]. exists None. split; [|reflexivity].
    cbn [rev]. eapply stab_app; [exact Hq|]. apply stab_nc; [assumption|apply stab_nil].
  - rewrite flush_pend. split; [constructor; assumption|]. exists q. split; [exact Hq|exact Hm].
  - subst q. rewrite flush_None in *. rewrite flush_fresh. split; [constructor; assumption|].
    exists None. split; [exact Hq|]. rewrite leader_fresh.
    cbn [fresh_g g_key g_e g_kids compat]. auto.
  - destruct Hm as (Hc & Hkey & Hh).
    rewrite flush_Some in HQ. rewrite flush_join.
    apply Forall_app in HQ. destruct HQ as [HQp HQ]. inversion HQ as [|? ? HL HO]; subst.
    destruct (leader_join_Q pt v g0 e eks key Hg HL Hk H1 H3) as [HL' Hst].
    split; [apply Forall_app; split; [assumption|constructor; assumption]|].
    exists q. split; [exact Hq|]. cbn [join_g g_key g_e g_kids]. split; [exact Hc|]. split.
    + apply (key_join v (g_e g0) (g_kids g0) e eks); auto.
      * destruct Hg as (Hg1 & _). rewrite <- Hg1. exact H4.
      * apply ekey_eqb_eq in H3. rewrite H3. exact H1.
    + apply leader_join_content. exact Hh.
  - destruct Hm as (Hc & Hkey & Hh). rewrite flush_fresh.
    split; [constructor; assumption|].
    exists (Some (g_key g0, g_merge g0)). split.
    + eapply stab_flush; eauto.
    + rewrite leader_fresh. cbn [fresh_g g_key g_e g_kids compat]. auto.
Qed.

Lemma merge_sibs_stab : forall pt v ks ks1,
  rels_ok v -> Forall (Qk pt) ks -> merge_sibs v ks = Ok ks1 ->
  Forall (Qk pt) ks1 /\ exists q, stab v None ks1 q.
Proof.
  intros pt v ks ks1 Hrels HP H.
  destruct (merge_sibs_inv v (Qk pt) (idI pt v)) with (ks := ks) (res := ks1)
    as (g' & out' & E & (Hg & HQ & q & Hq & Hm)); auto.
  - intros. eapply step_id; eauto.
  - repeat split; [constructor|]. exists None. split; [apply stab_nil|reflexivity].
  - subst. split; [apply Forall_rev; assumption|].
    destruct g' as [g0|].
    + destruct Hm as (Hc & Hkey & Hh). eexists. eapply stab_flush; eauto.
    + exists q. rewrite flush_None. exact Hq.
Qed.

(* --- idempotence for a fixed fuel --- *)

Lemma merge_simk : forall pt v f a b,
  Qk pt a -> merge_fuel f v a = Ok b -> simk v a b.
Proof.
  intros pt v f a b [_ Hw] H. split; [eapply merge_fuel_has_content; eauto|].
  destruct a as [e eks|tl]; [|exact I].
  destruct (merge_fuel_root v f e eks b H) as [eks' ->].
  exists eks'. split; [reflexivity|]. eapply key_rec; eauto.
Qed.

Lemma merge_fuel_idem : forall pt v, rels_ok v -> forall f t t',
  Qk pt t -> merge_fuel f v t = Ok t' -> merge_fuel f v t' = Ok t'.
Proof.
  intros pt v Hrels f. induction f as [|f IH]; intros t t' HQ H; [discriminate|].
  destruct t as [e ks|tl]; cbn [merge_fuel] in H; [|injection H as <-; reflexivity].
  destruct (merge_sibs v ks) as [ks1|] eqn:E1; cbn [bind] in H; [|discriminate].
  destruct (mapM (merge_fuel f v) ks1) as [ks2|] eqn:E2; cbn [bind] in H; [|discriminate].
  injection H as <-.
  apply Qk_AE in HQ. destruct HQ as (_ & _ & Hks).
  destruct (merge_sibs_stab pt v ks ks1 Hrels Hks E1) as [Hks1 [q Hst]].
  apply mapM_Forall2 in E2.
  assert (Hsim : Forall2 (simk v) ks1 ks2).
  { clear E1 Hst. induction E2 as [|a b l l' Hab _ IH2]; [constructor|].
    inversion Hks1; subst. constructor; [eapply merge_simk; eauto|apply IH2; assumption]. }
  assert (HB : mapM (merge_fuel f v) ks2 = Ok ks2).
  { clear E1 Hst Hsim. induction E2 as [|a b l l' Hab _ IH2]; [reflexivity|].
    inversion Hks1; subst. cbn [mapM]. rewrite (IH a b H1 Hab). cbn [bind].
    rewrite IH2 by assumption. reflexivity. }
  cbn [merge_fuel]. unfold merge_sibs.
  rewrite (go_stab v ks2 None q (stab_transfer v None ks1 q Hst ks2 Hsim) None [] eq_refl).
  cbn [flush rev app bind]. rewrite HB. reflexivity.
Qed.

(* --- the result does not depend on the fuel once it exceeds the height --- *)

Lemma merge_fuel_less : forall v f1 f2 t r,
  merge_fuel f1 v t = Ok r -> (height t <= f2)%nat -> merge_fuel f2 v t = Ok r.
Proof.
  intros v f1. induction f1 as [|f1 IH]; intros f2 t r H Hh; [discriminate|].
  destruct f2 as [|f2]; [pose proof (height_pos t); lia|].
  destruct t as [e ks|tl]; cbn [merge_fuel] in *; [|exact H].
  destruct (merge_sibs v ks) as [ks1|] eqn:E1; cbn [bind] in *; [|discriminate].
  destruct (mapM (merge_fuel f1 v) ks1) as [ks2|] eqn:E2; cbn [bind] in H; [|discriminate].
  injection H as <-.
  assert (Hks : Forall (hle f2) ks) by (apply (hle_AE f2 e ks); exact Hh).
  pose proof (merge_sibs_height v f2 ks ks1 Hks E1) as Hks1.
  apply mapM_Forall2 in E2.
  assert (E2' : mapM (merge_fuel f2 v) ks1 = Ok ks2).
  { clear E1. induction E2 as [|a b l l' Hab _ IH2]; [reflexivity|].
    inversion Hks1; subst. cbn [mapM]. rewrite (IH f2 a b Hab H1). cbn [bind].
    rewrite IH2 by assumption. reflexivity. }
  rewrite E2'. reflexivity.
Qed.

(* FALSE under wf_text alone (see merge_idempotent_counterexample); wf_text
   itself is not needed *)
Lemma merge_idempotent_partial : forall pt v t t',
  rels_ok v -> wf_ptag pt t = true -> wf_pr t = true ->
  merge_elems v t = Ok t' -> merge_elems v t' = Ok t'.
Proof.
  intros pt v t t' Hrels Hp Hw H. unfold merge_elems in *.
  pose proof (merge_fuel_idem pt v Hrels _ t t' (conj Hp Hw) H) as H2.
  eapply merge_fuel_less; [exact H2|lia].
Qed.

(* --- counterexamples: each extra hypothesis of merge_idempotent_partial is
       needed (wf_text holds in all three) --- *)

Definition cxe (p l : str) (attrs : list (aname * str)) (tx : option str) (ks : list rnode) : rnode :=
  RE (Some p) (Some [85]) l cx_ns attrs tx None ks.
Definition cx_t (s : str) : rnode := cxe [119] [116] [] (Some s) [].
Definition cx_tv (val s : str) : rnode := cxe [119] [116] [((Some [85], s_val), val)] (Some s) [].
Definition cx_b : rnode := cxe [119] [98] [] None [].
Definition cx_rPr (ks : list rnode) : rnode := cxe [119] [114; 80; 114] [] None ks.
Definition cx_r (p : str) (attrs : list (aname * str)) (ks : list rnode) : rnode :=
  cxe p [114] attrs None ks.
Definition cx_par (ks : list rnode) : rnode := cxe [119] [112] [] None ks.
Definition cx_pt (p : str) : aname -> str := fun n => p ++ 58 :: snd n.

(* (a) a relationship with an empty Target:
   <w:p><w:r><w:t>a</w:t></w:r>
        <w:r r:id="x"><w:rPr><w:b/></w:rPr><w:t>b</w:t></w:r>
        <w:r><w:rPr><w:b/></w:rPr><w:t>c</w:t></w:r></w:p>,  rels = {x: ""}.
   Pass 1 fuses runs 1,2 (both keys are ({U}r, "", [])); the fused run now owns
   an rPr with <w:b/>, so pass 2 fuses it with run 3. *)
Definition cx1_env : env :=
  {| env_x2h := xml2html_table; env_rels := [([120], [])]; env_dup := false; env_numtbl := [] |}.
Definition cx1_t : anode :=
  view (cx_par [cx_r [119] [] [cx_t [97]];
                cx_r [119] [((Some [82], s_id), [120])] [cx_rPr [cx_b]; cx_t [98]];
                cx_r [119] [] [cx_rPr [cx_b]; cx_t [99]]]).

Eval vm_compute in (option_map itertext_inner
  (match merge_elems cx1_env cx1_t with Ok t => Some t | Err _ => None end)).

Lemma merge_idempotent_counterexample :
  exists v t t',
    wf_text t = true /\ wf_ptag (cx_pt [119]) t = true /\ wf_pr t = true /\
    merge_elems v t = Ok t' /\ merge_elems v t' <> Ok t'.
Proof.
  exists cx1_env, cx1_t. eexists.
  split; [vm_compute; reflexivity|]. split; [vm_compute; reflexivity|].
  split; [vm_compute; reflexivity|]. split; [vm_compute; reflexivity|].
  intro H. vm_compute in H. discriminate H.
Qed.

(* (b) two prefixes for one namespace: the middle run is x:r (not mergeable,
   key ({U}r, "", [])), rels = {} *)
Definition cx2_env : env :=
  {| env_x2h := xml2html_table; env_rels := []; env_dup := false; env_numtbl := [] |}.
Definition cx2_t : anode :=
  view (cx_par [cx_r [119] [] [cx_t [97]];
                cx_r [120] [] [cx_rPr [cx_b]; cx_t [98]];
                cx_r [119] [] [cx_rPr [cx_b]; cx_t [99]]]).

Lemma merge_idempotent_counterexample_prefix :
  exists v t t',
    rels_ok v /\ wf_text t = true /\ wf_pr t = true /\
    merge_elems v t = Ok t' /\ merge_elems v t' <> Ok t'.
Proof.
  exists cx2_env, cx2_t. eexists.
  split; [intros k t H; discriminate H|].
  split; [vm_compute; reflexivity|]. split; [vm_compute; reflexivity|].
  split; [vm_compute; reflexivity|].
  intro H. vm_compute in H. discriminate H.
Qed.

(* (c) an rPr with content children, and a formatter table that knows "t":
   <w:r><w:rPr><w:t w:val="A"/><w:t w:val="B"/></w:rPr><w:t>x</w:t></w:r>
   <w:r><w:rPr><w:t w:val="A"/></w:rPr><w:t>y</w:t></w:r>
   Pass 1 fuses the two w:t inside the first rPr, which changes the formatting
   of the first run from [B] to [A]. *)
Definition cx3_env : env :=
  {| env_x2h := [([116], {| hf_expr := [FVal]; hf_container := None; hf_property := None |})];
     env_rels := []; env_dup := false; env_numtbl := [] |}.
Definition cx3_t : anode :=
  view (cx_par [cx_r [119] [] [cx_rPr [cx_tv [65] []; cx_tv [66] []]; cx_t [120]];
                cx_r [119] [] [cx_rPr [cx_tv [65] []]; cx_t [121]]]).

Lemma merge_idempotent_counterexample_pr :
  exists v t t',
    rels_ok v /\ wf_text t = true /\ wf_ptag (cx_pt [119]) t = true /\
    merge_elems v t = Ok t' /\ merge_elems v t' <> Ok t'.
Proof.
  exists cx3_env, cx3_t. eexists.
  split; [intros k t H; discriminate H|].
  split; [vm_compute; reflexivity|]. split; [vm_compute; reflexivity|].
  split; [vm_compute; reflexivity|].
  intro H. vm_compute in H. discriminate H.
Qed.

(* ==== ASSUMPTIONS ==== *)
Print Assumptions merge_fuel_enough.
Print Assumptions merge_sibs_atoms_partial.
Print Assumptions merge_sibs_wf_partial.
Print Assumptions merge_atoms_partial.
Print Assumptions merge_wf_partial.
Print Assumptions merge_has_content.
Print Assumptions merge_root_tag.
Print Assumptions merge_idempotent_partial.
Print Assumptions merge_sibs_atoms_counterexample.
Print Assumptions merge_atoms_counterexample.
Print Assumptions merge_idempotent_counterexample.
Print Assumptions merge_idempotent_counterexample_prefix.
Print Assumptions merge_idempotent_counterexample_pr.
