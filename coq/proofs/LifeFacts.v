(* LifeFacts.v — C14/C15: close() and with-blocks release the archive for
   every usage history (facts about model/Lifecycle.v).

   Proved as stated: init_ok, step_ok, run_ok, never_reopened,
   open_read_returns (+ open_saveimages_returns, open_save_returns),
   closed_read_outcome, history_outcomes, close_idempotent, exit_is_close,
   close_outcome, acquire_cache_mono, acquire_all_cached,
   read_after_close_cached (+ its converse read_after_close_needs), read_twice.

   False as stated: closed_stays.  In a state with the closed flag set while
   the handle is still ZOpen (unreachable: it violates ok_state) OpClose /
   OpExit turn ZOpen into ZClosed, so l_zip changes
   (closed_stays_counterexample).  Proved instead: closed_stays_flag (the flag
   part, unconditionally) and closed_stays_partial (both parts under
   [ok_state st], which every reachable state satisfies).

   L6 (File identity: resources RRoot i / RColl i name DocxReader.files[i]):
   ifiles_of_types_snd / _In / _stable (the indexed file lists are the lists of
   Package.files_of_types, stable for equal paths), rels_file_of_snd,
   rels_demand_unique, rels_demand_not_unique (File.rels_element),
   isave_by_path_snd, save_files_last, save_files_paths_NoDup,
   save_caches_roots (save touches the LAST File of each path),
   shared_part_save_then_closed_read. *)
From Coq Require Import List NArith ZArith Bool Arith Lia Sorted.
From Coq Require String.
From D2P Require Import Str Err Xml TableTypes Tables Fmt Bullets Merge Collector Walk Iter
     Output Paths Package Content Save.
From D2P Require Import BulletsFacts SaveFacts.
From D2P Require Import Lifecycle.   (* last: Lifecycle.step shadows Bullets.step *)
Import ListNotations.
Open Scope N_scope.

(* ================================================================== *)
(* L1. the invariant                                                    *)
(* ================================================================== *)
Definition ok_state (st : lstate) : Prop := l_closed st = true -> l_zip st <> ZOpen.

Lemma init_ok : ok_state l_init.
Proof. unfold ok_state, l_init; simpl; discriminate. Qed.

(* acquire on a closed object changes neither flag nor handle *)
Lemma acquire_closed : forall ds st st' e,
  l_closed st = true -> acquire st ds = (st', e) ->
  l_closed st' = true /\ l_zip st' = l_zip st.
Proof.
  induction ds as [|r rest IH]; intros st st' e Hc H; simpl in H.
  - inversion H; subst; auto.
  - destruct (cached r (l_cache st)).
    + eapply IH; eauto.
    + destruct (needs_zip r).
      * rewrite Hc in H. inversion H; subst; auto.
      * apply IH in H; simpl in *; auto.
  Qed.

(* acquire on an open object never fails and leaves it open *)
Lemma acquire_open : forall ds st st' e,
  l_closed st = false -> acquire st ds = (st', e) ->
  e = None /\ l_closed st' = false.
Proof.
  induction ds as [|r rest IH]; intros st st' e Hc H; simpl in H.
  - inversion H; subst; auto.
  - destruct (cached r (l_cache st)).
    + eapply IH; eauto.
    + destruct (needs_zip r).
      * rewrite Hc in H. apply IH in H; simpl; auto.
      * apply IH in H; simpl; auto.
Qed.

Lemma acquire_ok : forall ds st st' e,
  ok_state st -> acquire st ds = (st', e) -> ok_state st'.
Proof.
  induction ds as [|r rest IH]; intros st st' e Hok H; simpl in H.
  - inversion H; subst; auto.
  - destruct (cached r (l_cache st)).
    + eapply IH; eauto.
    + destruct (needs_zip r).
      * destruct (l_closed st) eqn:Hc.
        -- inversion H; subst; auto.
        -- eapply IH; [|exact H]. unfold ok_state; simpl; discriminate.
      * eapply IH; [|exact H]. unfold ok_state in *; simpl; auto.
Qed.

(* the only exception acquire raises is ValueError *)
Lemma acquire_err : forall ds st st' ex,
  acquire st ds = (st', Some ex) -> ex = ValueError.
Proof.
  induction ds as [|r rest IH]; intros st st' ex H; simpl in H.
  - inversion H.
  - destruct (cached r (l_cache st)).
    + eapply IH; eauto.
    + destruct (needs_zip r).
      * destruct (l_closed st).
        -- inversion H; auto.
        -- eapply IH; eauto.
      * eapply IH; eauto.
Qed.

Lemma touch_closed : forall st st' e,
  l_closed st = true -> touch_zip st = (st', e) -> st' = st /\ e = Some ValueError.
Proof. unfold touch_zip; intros st st' e Hc H. rewrite Hc in H. inversion H; auto. Qed.

Lemma touch_open : forall st st' e,
  l_closed st = false -> touch_zip st = (st', e) -> e = None /\ l_closed st' = false.
Proof. unfold touch_zip; intros st st' e Hc H. rewrite Hc in H. inversion H; auto. Qed.

Lemma touch_ok : forall st st' e, ok_state st -> touch_zip st = (st', e) -> ok_state st'.
Proof.
  unfold touch_zip; intros st st' e Hok H. destruct (l_closed st) eqn:Hc; inversion H; subst; auto.
  unfold ok_state; simpl; discriminate.
Qed.

Lemma touch_err : forall st st' ex, touch_zip st = (st', Some ex) -> ex = ValueError.
Proof. unfold touch_zip; intros st st' ex H. destruct (l_closed st); inversion H; auto. Qed.

Lemma close_ok : forall st, ok_state (close st).
Proof. intros st _. unfold close; simpl. destruct (l_zip st); discriminate. Qed.

Lemma step_ok : forall a o fs st x st' out,
  ok_state st -> step a o fs st x = (st', out) -> ok_state st'.
Proof.
  intros a o fs st x st' out Hok H. destruct x as [at_| | | |b]; cbn [step] in H.
  - destruct (acquire st (attr_demands a o fs at_)) as [st1 e] eqn:Ha.
    pose proof (acquire_ok _ _ _ _ Hok Ha) as Hok1.
    destruct e as [ex|].
    + inversion H; subst; auto.
    + destruct (direct_zip fs at_).
      * destruct (touch_zip st1) as [st2 e2] eqn:Ht. inversion H; subst.
        eapply touch_ok; eauto.
      * inversion H; subst; auto.
  - destruct (acquire st [RFiles]) as [st1 e] eqn:Ha.
    pose proof (acquire_ok _ _ _ _ Hok Ha) as Hok1.
    destruct e as [ex|].
    + inversion H; subst; auto.
    + destruct (direct_zip fs AImages).
      * destruct (touch_zip st1) as [st2 e2] eqn:Ht. inversion H; subst.
        eapply touch_ok; eauto.
      * inversion H; subst; auto.
  - destruct (acquire st [RFiles]) as [st1 e] eqn:Ha.
    pose proof (acquire_ok _ _ _ _ Hok Ha) as Hok1.
    destruct e as [ex|].
    + inversion H; subst; auto.
    + destruct (touch_zip st1) as [st2 e2] eqn:Ht.
      pose proof (touch_ok _ _ _ Hok1 Ht) as Hok2.
      destruct e2 as [ex|].
      * inversion H; subst; auto.
      * match type of H with context [acquire st2 ?ds] =>
          destruct (acquire st2 ds) as [st3 e3] eqn:Ha3 end.
        inversion H; subst. eapply acquire_ok; eauto.
  - inversion H; subst. apply close_ok.
  - inversion H; subst. apply close_ok.
Qed.

Lemma run_ok : forall a o fs xs st st' outs,
  ok_state st -> run_ops a o fs st xs = (st', outs) -> ok_state st'.
Proof.
  intros a o fs xs; induction xs as [|x r IH]; intros st st' outs Hok H; simpl in H.
  - inversion H; subst; auto.
  - destruct (step a o fs st x) as [st1 out] eqn:Hs.
    destruct (run_ops a o fs st1 r) as [st2 outs2] eqn:Hr.
    inversion H; subst.
    eapply IH; [|exact Hr]. eapply step_ok; eauto.
Qed.

(* ================================================================== *)
(* L2. once closed, always closed; the archive is never reopened        *)
(* ================================================================== *)
(* As stated (without [ok_state st]) the handle equation fails for exactly one
   kind of state, which no history reaches: closed flag set while the handle is
   still open.  There close() / __exit__ turn ZOpen into ZClosed. *)
Definition bad_state : lstate := {| l_closed := true; l_zip := ZOpen; l_cache := [] |}.
Lemma closed_stays_counterexample :
  l_closed bad_state = true /\
  l_zip (fst (step [] {| o_html := false; o_dup := false |} [] bad_state OpClose)) <> l_zip bad_state.
Proof. vm_compute. split; [reflexivity|discriminate]. Qed.

(* the flag part holds unconditionally *)
Lemma closed_stays_flag : forall a o fs x st st' out,
  l_closed st = true -> step a o fs st x = (st', out) -> l_closed st' = true.
Proof.
  intros a o fs x st st' out Hc H. destruct x as [at_| | | |b]; cbn [step] in H.
  - destruct (acquire st (attr_demands a o fs at_)) as [st1 e] eqn:Ha.
    destruct (acquire_closed _ _ _ _ Hc Ha) as [Hc1 Hz1].
    destruct e as [ex|].
    + inversion H; subst; auto.
    + destruct (direct_zip fs at_).
      * destruct (touch_zip st1) as [st2 e2] eqn:Ht.
        destruct (touch_closed _ _ _ Hc1 Ht) as [-> _]. inversion H; subst; auto.
      * inversion H; subst; auto.
  - destruct (acquire st [RFiles]) as [st1 e] eqn:Ha.
    destruct (acquire_closed _ _ _ _ Hc Ha) as [Hc1 Hz1].
    destruct e as [ex|].
    + inversion H; subst; auto.
    + destruct (direct_zip fs AImages).
      * destruct (touch_zip st1) as [st2 e2] eqn:Ht.
        destruct (touch_closed _ _ _ Hc1 Ht) as [-> _]. inversion H; subst; auto.
      * inversion H; subst; auto.
  - destruct (acquire st [RFiles]) as [st1 e] eqn:Ha.
    destruct (acquire_closed _ _ _ _ Hc Ha) as [Hc1 Hz1].
    destruct e as [ex|].
    + inversion H; subst; auto.
    + destruct (touch_zip st1) as [st2 e2] eqn:Ht.
      destruct (touch_closed _ _ _ Hc1 Ht) as [-> ->]. inversion H; subst; auto.
  - inversion H; subst. reflexivity.
  - inversion H; subst. reflexivity.
Qed.

(* strongest true variant: for states satisfying the invariant (all reachable
   states do: init_ok, run_ok) *)
Lemma closed_stays_partial : forall a o fs x st st' out,
  ok_state st ->
  l_closed st = true -> step a o fs st x = (st', out) ->
  l_closed st' = true /\ l_zip st' = l_zip st.
Proof.
  intros a o fs x st st' out Hok Hc H. split.
  - eapply closed_stays_flag; eauto.
  - destruct x as [at_| | | |b]; cbn [step] in H.
    + destruct (acquire st (attr_demands a o fs at_)) as [st1 e] eqn:Ha.
      destruct (acquire_closed _ _ _ _ Hc Ha) as [Hc1 Hz1].
      destruct e as [ex|].
      * inversion H; subst; auto.
      * destruct (direct_zip fs at_).
        -- destruct (touch_zip st1) as [st2 e2] eqn:Ht.
           destruct (touch_closed _ _ _ Hc1 Ht) as [-> _]. inversion H; subst; auto.
        -- inversion H; subst; auto.
    + destruct (acquire st [RFiles]) as [st1 e] eqn:Ha.
      destruct (acquire_closed _ _ _ _ Hc Ha) as [Hc1 Hz1].
      destruct e as [ex|].
      * inversion H; subst; auto.
      * destruct (direct_zip fs AImages).
        -- destruct (touch_zip st1) as [st2 e2] eqn:Ht.
           destruct (touch_closed _ _ _ Hc1 Ht) as [-> _]. inversion H; subst; auto.
        -- inversion H; subst; auto.
    + destruct (acquire st [RFiles]) as [st1 e] eqn:Ha.
      destruct (acquire_closed _ _ _ _ Hc Ha) as [Hc1 Hz1].
      destruct e as [ex|].
      * inversion H; subst; auto.
      * destruct (touch_zip st1) as [st2 e2] eqn:Ht.
        destruct (touch_closed _ _ _ Hc1 Ht) as [-> ->]. inversion H; subst; auto.
    + inversion H; subst. unfold close; simpl.
      specialize (Hok Hc). destruct (l_zip st); auto. congruence.
    + inversion H; subst. unfold close; simpl.
      specialize (Hok Hc). destruct (l_zip st); auto. congruence.
Qed.

Lemma never_reopened : forall a o fs xs st st' outs,
  ok_state st -> l_closed st = true -> run_ops a o fs st xs = (st', outs) ->
  l_zip st' <> ZOpen /\ l_closed st' = true.
Proof.
  intros a o fs xs; induction xs as [|x r IH]; intros st st' outs Hok Hc H; simpl in H.
  - inversion H; subst; auto.
  - destruct (step a o fs st x) as [st1 out] eqn:Hs.
    destruct (run_ops a o fs st1 r) as [st2 outs2] eqn:Hr.
    inversion H; subst.
    eapply IH; [| |exact Hr].
    + eapply step_ok; eauto.
    + eapply closed_stays_flag; eauto.
Qed.

(* ================================================================== *)
(* L3. outcomes                                                         *)
(* ================================================================== *)
Lemma open_read_returns : forall a o fs st at_ st' out,
  l_closed st = false -> step a o fs st (OpRead at_) = (st', out) -> out = OVal.
Proof.
  intros a o fs st at_ st' out Hc H; cbn [step] in H.
  destruct (acquire st (attr_demands a o fs at_)) as [st1 e] eqn:Ha.
  destruct (acquire_open _ _ _ _ Hc Ha) as [-> Hc1].
  destruct (direct_zip fs at_).
  - destruct (touch_zip st1) as [st2 e2] eqn:Ht.
    destruct (touch_open _ _ _ Hc1 Ht) as [-> _]. inversion H; auto.
  - inversion H; auto.
Qed.

Lemma open_saveimages_returns : forall a o fs st st' out,
  l_closed st = false -> step a o fs st OpSaveImages = (st', out) -> out = OVal.
Proof.
  intros a o fs st st' out Hc H; cbn [step] in H.
  destruct (acquire st [RFiles]) as [st1 e] eqn:Ha.
  destruct (acquire_open _ _ _ _ Hc Ha) as [-> Hc1].
  destruct (direct_zip fs AImages).
  - destruct (touch_zip st1) as [st2 e2] eqn:Ht.
    destruct (touch_open _ _ _ Hc1 Ht) as [-> _]. inversion H; auto.
  - inversion H; auto.
Qed.

Lemma open_save_returns : forall a o fs st st' out,
  l_closed st = false -> step a o fs st OpSave = (st', out) -> out = OVal.
Proof.
  intros a o fs st st' out Hc H; cbn [step] in H.
  destruct (acquire st [RFiles]) as [st1 e] eqn:Ha.
  destruct (acquire_open _ _ _ _ Hc Ha) as [-> Hc1].
  destruct (touch_zip st1) as [st2 e2] eqn:Ht.
  destruct (touch_open _ _ _ Hc1 Ht) as [-> Hc2].
  match type of H with context [acquire st2 ?ds] =>
    destruct (acquire st2 ds) as [st3 e3] eqn:Ha3 end.
  destruct (acquire_open _ _ _ _ Hc2 Ha3) as [-> _]. inversion H; auto.
Qed.

Definition good_outcome (out : outcome) : Prop :=
  out = OVal \/ out = OErr ValueError \/ out = ONone.

(* in any state whatsoever *)
Lemma step_outcome : forall a o fs st x st' out,
  step a o fs st x = (st', out) -> good_outcome out.
Proof.
  unfold good_outcome.
  intros a o fs st x st' out H. destruct x as [at_| | | |b]; cbn [step] in H.
  - destruct (acquire st (attr_demands a o fs at_)) as [st1 e] eqn:Ha.
    destruct e as [ex|].
    + apply acquire_err in Ha; subst. inversion H; auto.
    + destruct (direct_zip fs at_).
      * destruct (touch_zip st1) as [st2 e2] eqn:Ht. destruct e2 as [ex|].
        -- apply touch_err in Ht; subst. inversion H; auto.
        -- inversion H; auto.
      * inversion H; auto.
  - destruct (acquire st [RFiles]) as [st1 e] eqn:Ha.
    destruct e as [ex|].
    + apply acquire_err in Ha; subst. inversion H; auto.
    + destruct (direct_zip fs AImages).
      * destruct (touch_zip st1) as [st2 e2] eqn:Ht. destruct e2 as [ex|].
        -- apply touch_err in Ht; subst. inversion H; auto.
        -- inversion H; auto.
      * inversion H; auto.
  - destruct (acquire st [RFiles]) as [st1 e] eqn:Ha.
    destruct e as [ex|].
    + apply acquire_err in Ha; subst. inversion H; auto.
    + destruct (touch_zip st1) as [st2 e2] eqn:Ht. destruct e2 as [ex|].
      * apply touch_err in Ht; subst. inversion H; auto.
      * match type of H with context [acquire st2 ?ds] =>
          destruct (acquire st2 ds) as [st3 e3] eqn:Ha3 end.
        destruct e3 as [ex|].
        -- apply acquire_err in Ha3; subst. inversion H; auto.
        -- inversion H; auto.
  - inversion H; auto.
  - inversion H; auto.
Qed.

Lemma closed_read_outcome : forall a o fs st x st' out,
  l_closed st = true -> step a o fs st x = (st', out) ->
  out = OVal \/ out = OErr ValueError \/ out = ONone.
Proof. intros a o fs st x st' out _ H. exact (step_outcome _ _ _ _ _ _ _ H). Qed.

Lemma run_outcomes : forall a o fs xs st st' outs,
  run_ops a o fs st xs = (st', outs) -> Forall good_outcome outs.
Proof.
  intros a o fs xs; induction xs as [|x r IH]; intros st st' outs H; simpl in H.
  - inversion H; subst; constructor.
  - destruct (step a o fs st x) as [st1 out] eqn:Hs.
    destruct (run_ops a o fs st1 r) as [st2 outs2] eqn:Hr.
    inversion H; subst. constructor.
    + eapply step_outcome; eauto.
    + eapply IH; eauto.
Qed.

Lemma history_outcomes : forall a o fs xs st' outs,
  run_ops a o fs l_init xs = (st', outs) ->
  Forall (fun out => out = OVal \/ out = OErr ValueError \/ out = ONone) outs.
Proof. intros a o fs xs st' outs H. exact (run_outcomes _ _ _ _ _ _ _ H). Qed.

(* ================================================================== *)
(* L4. close / exit                                                     *)
(* ================================================================== *)
Lemma close_idempotent : forall st, close (close st) = close st.
Proof. intros st. unfold close; simpl. destruct (l_zip st); reflexivity. Qed.

Lemma exit_is_close : forall a o fs st b,
  step a o fs st (OpExit b) = step a o fs st OpClose.
Proof. reflexivity. Qed.

Lemma close_outcome : forall a o fs st, snd (step a o fs st OpClose) = ONone.
Proof. reflexivity. Qed.

(* ================================================================== *)
(* L5. cache monotonicity, purity of cached reads                       *)
(* ================================================================== *)
Lemma resource_eqb_refl : forall r, resource_eqb r r = true.
Proof. destruct r; simpl; auto using Nat.eqb_refl. Qed.

Lemma resource_eqb_eq : forall r s, resource_eqb r s = true -> r = s.
Proof.
  destruct r, s; simpl; intros H; try discriminate; auto;
    apply Nat.eqb_eq in H; subst; auto.
Qed.

Lemma acquire_cache_mono : forall ds st st' e,
  acquire st ds = (st', e) ->
  forall r, cached r (l_cache st) = true -> cached r (l_cache st') = true.
Proof.
  induction ds as [|d rest IH]; intros st st' e H r Hr; simpl in H.
  - inversion H; subst; auto.
  - destruct (cached d (l_cache st)).
    + eapply IH; eauto.
    + destruct (needs_zip d).
      * destruct (l_closed st).
        -- inversion H; subst; auto.
        -- eapply IH; [exact H|]. simpl. rewrite Hr. apply orb_true_r.
      * eapply IH; [exact H|]. simpl. rewrite Hr. apply orb_true_r.
Qed.

Lemma acquire_all_cached : forall ds st,
  (forall r, In r ds -> cached r (l_cache st) = true) -> acquire st ds = (st, None).
Proof.
  induction ds as [|d rest IH]; intros st H; simpl.
  - reflexivity.
  - rewrite (H d (or_introl eq_refl)). apply IH. intros r Hr. apply H. right; auto.
Qed.

(* a successful acquire leaves everything it was asked for in the cache *)
Lemma acquire_caches : forall ds st st',
  acquire st ds = (st', None) ->
  forall r, In r ds -> cached r (l_cache st') = true.
Proof.
  induction ds as [|d rest IH]; intros st st' H r Hr; simpl in H.
  - destruct Hr.
  - destruct Hr as [->|Hr].
    + destruct (cached r (l_cache st)) eqn:Hcr.
      * eapply acquire_cache_mono; eauto.
      * destruct (needs_zip r).
        -- destruct (l_closed st).
           ++ inversion H.
           ++ eapply acquire_cache_mono; [exact H|]. simpl.
              rewrite resource_eqb_refl; reflexivity.
        -- eapply acquire_cache_mono; [exact H|]. simpl.
           rewrite resource_eqb_refl; reflexivity.
    + destruct (cached d (l_cache st)).
      * eapply IH; eauto.
      * destruct (needs_zip d).
        -- destruct (l_closed st).
           ++ inversion H.
           ++ eapply IH; eauto.
        -- eapply IH; eauto.
Qed.

(* on a closed object, acquire succeeds when (and only when) whatever needs
   the archive is cached *)
Lemma acquire_closed_cached : forall ds st,
  l_closed st = true ->
  (forall r, In r ds -> needs_zip r = true -> cached r (l_cache st) = true) ->
  snd (acquire st ds) = None.
Proof.
  induction ds as [|d rest IH]; intros st Hc H; simpl.
  - reflexivity.
  - destruct (cached d (l_cache st)) eqn:Hcd.
    + apply IH; auto. intros r Hr. apply H. right; auto.
    + destruct (needs_zip d) eqn:Hn.
      * rewrite (H d (or_introl eq_refl) Hn) in Hcd. discriminate.
      * apply IH; simpl; auto.
        intros r Hr Hnr. rewrite (H r (or_intror Hr) Hnr). apply orb_true_r.
Qed.

Lemma acquire_closed_needs : forall ds st,
  l_closed st = true ->
  snd (acquire st ds) = None ->
  forall r, In r ds -> needs_zip r = true -> cached r (l_cache st) = true.
Proof.
  induction ds as [|d rest IH]; intros st Hc H r Hr Hn; simpl in H.
  - destruct Hr.
  - destruct (cached d (l_cache st)) eqn:Hcd.
    + destruct Hr as [->|Hr]; eauto.
    + destruct (needs_zip d) eqn:Hnd.
      * rewrite Hc in H. discriminate.
      * destruct Hr as [->|Hr]; [congruence|].
        specialize (IH {| l_closed := l_closed st; l_zip := l_zip st; l_cache := d :: l_cache st |} Hc H r Hr Hn). simpl in IH.
        apply orb_true_iff in IH. destruct IH as [E|]; auto.
        apply resource_eqb_eq in E; subst. congruence.
Qed.

Lemma read_after_close_cached : forall a o fs st at_,
  l_closed st = true ->
  (forall r, In r (attr_demands a o fs at_) -> needs_zip r = true -> cached r (l_cache st) = true) ->
  direct_zip fs at_ = false ->
  snd (step a o fs st (OpRead at_)) = OVal.
Proof.
  intros a o fs st at_ Hc H Hd. cbn [step].
  pose proof (acquire_closed_cached _ _ Hc H) as Ha.
  destruct (acquire st (attr_demands a o fs at_)) as [st1 e]. simpl in Ha; subst e.
  rewrite Hd. reflexivity.
Qed.

(* the converse: "exactly when" *)
Lemma read_after_close_needs : forall a o fs st at_,
  l_closed st = true ->
  snd (step a o fs st (OpRead at_)) = OVal ->
  forall r, In r (attr_demands a o fs at_) -> needs_zip r = true -> cached r (l_cache st) = true.
Proof.
  intros a o fs st at_ Hc H. cbn [step] in H.
  apply acquire_closed_needs; auto.
  destruct (acquire st (attr_demands a o fs at_)) as [st1 e]. simpl.
  destruct e as [ex|]; auto. simpl in H. discriminate.
Qed.

Lemma read_twice : forall a o fs st at_ st1 out1,
  l_closed st = false -> step a o fs st (OpRead at_) = (st1, out1) ->
  direct_zip fs at_ = false ->
  forall st2 out2, step a o fs (close st1) (OpRead at_) = (st2, out2) -> out2 = OVal.
Proof.
  intros a o fs st at_ st1 out1 Hc H Hd st2 out2 H2. cbn [step] in H, H2.
  rewrite Hd in H, H2.
  destruct (acquire st (attr_demands a o fs at_)) as [s1 e] eqn:Ha.
  destruct (acquire_open _ _ _ _ Hc Ha) as [-> _].
  inversion H; subst s1 out1.
  rewrite (acquire_all_cached (attr_demands a o fs at_) (close st1)) in H2.
  - inversion H2; auto.
  - intros r Hr. unfold close; simpl. eapply acquire_caches; eauto.
Qed.

(* ================================================================== *)
(* L6. File objects: the indexed file list                              *)
(* ================================================================== *)
Lemma combine_seq_snd : forall (fs : list frec) k, map snd (combine (seq k (length fs)) fs) = fs.
Proof.
  induction fs as [|f r IH]; intros k; cbn [length seq combine map snd]; [reflexivity|].
  rewrite IH. reflexivity.
Qed.

Lemma combine_seq_fst : forall (fs : list frec) k,
  map fst (combine (seq k (length fs)) fs) = seq k (length fs).
Proof.
  induction fs as [|f r IH]; intros k; cbn [length seq combine map fst]; [reflexivity|].
  rewrite IH. reflexivity.
Qed.

Lemma indexed_snd : forall fs, map snd (indexed fs) = fs.
Proof. intros fs. apply combine_seq_snd. Qed.

Lemma indexed_fst : forall fs, map fst (indexed fs) = seq 0 (length fs).
Proof. intros fs. apply combine_seq_fst. Qed.

Lemma combine_seq_In : forall (fs : list frec) k i f,
  In (i, f) (combine (seq k (length fs)) fs) <-> (k <= i)%nat /\ nth_error fs (i - k) = Some f.
Proof.
  induction fs as [|g r IH]; intros k i f; cbn [length seq combine In].
  - split; [intros []|]. intros [_ H]. destruct (i - k)%nat; discriminate.
  - rewrite IH. split.
    + intros [E|[Hle Hn]].
      * inversion E; subst. split; [lia|]. rewrite Nat.sub_diag. reflexivity.
      * split; [lia|]. replace (i - k)%nat with (S (i - S k)) by lia. exact Hn.
    + intros [Hle Hn]. destruct (Nat.eq_dec i k) as [->|Hne].
      * rewrite Nat.sub_diag in Hn. cbn [nth_error] in Hn. inversion Hn; subst. left; reflexivity.
      * right. split; [lia|]. replace (i - k)%nat with (S (i - S k)) in Hn by lia. exact Hn.
Qed.

(* the index names the File: files[i] *)
Lemma indexed_In : forall fs i f, In (i, f) (indexed fs) <-> nth_error fs i = Some f.
Proof.
  intros fs i f. unfold indexed. rewrite combine_seq_In, Nat.sub_0_r. split.
  - intros [_ H]; exact H.
  - intros H; split; [lia|exact H].
Qed.

Definition by_index (x y : nat * frec) : Prop := (fst x < fst y)%nat.

Lemma combine_seq_sorted : forall (fs : list frec) k,
  StronglySorted by_index (combine (seq k (length fs)) fs).
Proof.
  induction fs as [|f r IH]; intros k; cbn [length seq combine]; constructor; [apply IH|].
  apply Forall_forall. intros [j g] Hin. apply combine_seq_In in Hin. unfold by_index; simpl. lia.
Qed.

Lemma filter_sorted : forall (p : nat * frec -> bool) l,
  StronglySorted by_index l -> StronglySorted by_index (filter p l).
Proof.
  induction l as [|x r IH]; intros H; cbn [filter]; [constructor|].
  inversion H as [|? ? Hs Hf]; subst. destruct (p x); [|apply IH; exact Hs].
  constructor; [apply IH; exact Hs|]. apply Forall_forall. intros y Hy.
  apply filter_In in Hy. destruct Hy as [Hy _]. rewrite Forall_forall in Hf. apply Hf. exact Hy.
Qed.

Lemma sorted_app_before : forall l1 (x : nat * frec) l2,
  StronglySorted by_index (l1 ++ x :: l2) -> forall y, In y l1 -> by_index y x.
Proof.
  induction l1 as [|a r IH]; intros x l2 H y Hy; [destruct Hy|].
  cbn [app] in H. inversion H as [|? ? Hs Hf]; subst. destruct Hy as [<-|Hy].
  - rewrite Forall_forall in Hf. apply Hf. apply in_or_app. right; left; reflexivity.
  - eapply IH; eauto.
Qed.

Lemma filter_map_snd : forall (p : frec -> bool) (l : list (nat * frec)),
  map snd (filter (fun x => p (snd x)) l) = filter p (map snd l).
Proof.
  induction l as [|x r IH]; cbn [filter map]; [reflexivity|].
  destruct (p (snd x)); cbn [map]; rewrite IH; reflexivity.
Qed.

Section SortSnd.
  Variable leb : frec -> frec -> bool.
  Let ileb (x y : nat * frec) : bool := leb (snd x) (snd y).

  Lemma insert_sorted_snd : forall x l,
    map snd (insert_sorted ileb x l) = insert_sorted leb (snd x) (map snd l).
  Proof.
    induction l as [|y r IH]; cbn [insert_sorted map]; [reflexivity|].
    unfold ileb at 1. destruct (leb (snd x) (snd y)); cbn [map]; [reflexivity|].
    rewrite IH. reflexivity.
  Qed.

  Lemma sort_by_snd : forall l, map snd (sort_by ileb l) = sort_by leb (map snd l).
  Proof.
    induction l as [|x r IH]; cbn [sort_by map]; [reflexivity|].
    rewrite insert_sorted_snd, IH. reflexivity.
  Qed.

  Lemma insert_sorted_In : forall (x y : nat * frec) l,
    In y (insert_sorted ileb x l) <-> y = x \/ In y l.
  Proof.
    induction l as [|z r IH]; cbn [insert_sorted].
    - simpl. intuition.
    - destruct (ileb x z); cbn [In]; [intuition|]. rewrite IH. intuition.
  Qed.

  Lemma sort_by_In_idx : forall (y : nat * frec) l, In y (sort_by ileb l) <-> In y l.
  Proof.
    induction l as [|x r IH]; cbn [sort_by]; [reflexivity|].
    rewrite insert_sorted_In, IH. simpl. intuition.
  Qed.
End SortSnd.

(* the indexed lists are the lists of the pure model, with identities *)
Theorem ifiles_of_types_snd : forall fs tys,
  map snd (ifiles_of_types fs tys) = files_of_types fs tys.
Proof.
  intros fs tys. unfold ifiles_of_types, files_of_types.
  rewrite (sort_by_snd (fun x y => str_leb (f_path x) (f_path y))).
  rewrite (filter_map_snd (fun f => mem_str (f_type f) tys)), indexed_snd. reflexivity.
Qed.

Theorem ifiles_of_type_snd : forall fs ty, map snd (ifiles_of_type fs ty) = files_of_type fs ty.
Proof. intros fs ty. apply ifiles_of_types_snd. Qed.

Theorem ifiles_of_types_In : forall fs tys i f,
  In (i, f) (ifiles_of_types fs tys) <-> nth_error fs i = Some f /\ mem_str (f_type f) tys = true.
Proof.
  intros fs tys i f. unfold ifiles_of_types.
  rewrite (sort_by_In_idx (fun x y => str_leb (f_path x) (f_path y))).
  rewrite filter_In, indexed_In. reflexivity.
Qed.

(* stability: File objects with equal paths stay in DocxReader.files order *)
Lemma str_ltb_irrefl : forall s, str_ltb s s = false.
Proof.
  induction s as [|c r IH]; cbn [str_ltb]; [reflexivity|]. rewrite N.ltb_irrefl. exact IH.
Qed.

Definition same_path_in_order (x y : nat * frec) : Prop :=
  f_path (snd x) = f_path (snd y) -> (fst x < fst y)%nat.

Lemma insert_sorted_stable : forall x l,
  Forall (by_index x) l -> StronglySorted same_path_in_order l ->
  StronglySorted same_path_in_order
    (insert_sorted (fun x y => str_leb (f_path (snd x)) (f_path (snd y))) x l).
Proof.
  induction l as [|y r IH]; intros Hidx Hs; cbn [insert_sorted].
  - constructor; constructor.
  - inversion Hidx as [|? ? Hxy Hidx']; subst. inversion Hs as [|? ? Hs' Hf]; subst.
    destruct (str_leb (f_path (snd x)) (f_path (snd y))) eqn:E.
    + constructor; [exact Hs|]. apply Forall_forall. intros z Hz _.
      rewrite Forall_forall in Hidx. apply (Hidx z Hz).
    + constructor; [apply IH; assumption|]. apply Forall_forall. intros z Hz.
      apply (proj1 (insert_sorted_In (fun a b => str_leb (f_path a) (f_path b)) x z r)) in Hz.
      destruct Hz as [->|Hz].
      * intros Hp. exfalso. unfold str_leb in E. rewrite Hp, str_ltb_irrefl in E. discriminate.
      * rewrite Forall_forall in Hf. apply Hf. exact Hz.
Qed.

Lemma sort_by_stable : forall l,
  StronglySorted by_index l ->
  StronglySorted same_path_in_order
    (sort_by (fun x y => str_leb (f_path (snd x)) (f_path (snd y))) l).
Proof.
  induction l as [|x r IH]; intros Hs; cbn [sort_by]; [constructor|].
  inversion Hs as [|? ? Hs' Hf]; subst. apply insert_sorted_stable; [|apply IH; exact Hs'].
  apply Forall_forall. intros z Hz.
  apply (proj1 (sort_by_In_idx (fun a b => str_leb (f_path a) (f_path b)) z r)) in Hz.
  rewrite Forall_forall in Hf. apply Hf. exact Hz.
Qed.

Theorem ifiles_of_types_stable : forall fs tys,
  StronglySorted same_path_in_order (ifiles_of_types fs tys).
Proof.
  intros fs tys. unfold ifiles_of_types. apply sort_by_stable. apply filter_sorted.
  apply combine_seq_sorted.
Qed.

(* ---------- File.rels_element: which File object is read ---------- *)
Theorem rels_file_of_snd : forall fs f,
  map snd (rels_file_of fs f)
  = filter (fun x => str_eqb (f_target x) (rels_path (f_path f))) fs.
Proof.
  intros fs f. unfold rels_file_of.
  rewrite (filter_map_snd (fun x => str_eqb (f_target x) (rels_path (f_path f)))), indexed_snd.
  reflexivity.
Qed.

(* exactly one File has that Target: its root is demanded, and it is the File
   Package.file_rels reads *)
Theorem rels_demand_unique : forall fs f j rf,
  rels_file_of fs f = [(j, rf)] ->
  rels_demand fs f true = [RRoot j]
  /\ nth_error fs j = Some rf
  /\ f_target rf = rels_path (f_path f)
  /\ filter (fun x => str_eqb (f_target x) (rels_path (f_path f))) fs = [rf].
Proof.
  intros fs f j rf H. split; [unfold rels_demand; rewrite H; reflexivity|].
  assert (Hin : In (j, rf) (rels_file_of fs f)) by (rewrite H; left; reflexivity).
  unfold rels_file_of in Hin. apply filter_In in Hin. destruct Hin as [Hin Ht].
  split; [apply indexed_In; exact Hin|]. split; [apply str_eqb_eq; exact Ht|].
  rewrite <- rels_file_of_snd, H. reflexivity.
Qed.

(* none or several: rels_element is None, nothing is read *)
Theorem rels_demand_not_unique : forall fs f b,
  length (filter (fun x => str_eqb (f_target x) (rels_path (f_path f))) fs) <> 1%nat ->
  rels_demand fs f b = [].
Proof.
  intros fs f b H. rewrite <- rels_file_of_snd, map_length in H. unfold rels_demand.
  destruct b; [|reflexivity]. destruct (rels_file_of fs f) as [|x [|y r]]; try reflexivity.
  exfalso. apply H. reflexivity.
Qed.

(* ---------- DocxReader.save: the LAST File of each path ---------- *)
Lemma dict_set_map_val : forall {V W} (g : V -> W) k v (d : list (str * V)),
  map (fun kv => (fst kv, g (snd kv))) (dict_set k v d)
  = dict_set k (g v) (map (fun kv => (fst kv, g (snd kv))) d).
Proof.
  intros V W g k v. induction d as [|[k0 v0] r IH]; cbn [dict_set map fst snd]; [reflexivity|].
  destruct (str_eqb k k0); cbn [map fst snd]; [reflexivity|]. rewrite IH. reflexivity.
Qed.

Lemma isave_fold_snd : forall (l : list (nat * frec)) d,
  map (fun kv => (fst kv, snd (snd kv)))
      (fold_left (fun d x => dict_set (f_path (snd x)) x d) l d)
  = fold_left (fun d f => dict_set (f_path f) f d) (map snd l)
              (map (fun kv => (fst kv, snd (snd kv))) d).
Proof.
  induction l as [|x r IH]; intros d; cbn [fold_left map]; [reflexivity|].
  rewrite IH, (dict_set_map_val snd). reflexivity.
Qed.

(* forgetting the identities gives the by_path dict of Save.save_with *)
Theorem isave_by_path_snd : forall fs,
  map (fun kv => (fst kv, snd (snd kv))) (isave_by_path fs) = by_path (filter is_overwritten fs).
Proof.
  intros fs. unfold isave_by_path, by_path. rewrite isave_fold_snd. cbn [map].
  unfold is_overwritten.
  rewrite (filter_map_snd (fun f => mem_str (f_type f) save_overwrite_types)), indexed_snd.
  reflexivity.
Qed.

Theorem save_files_paths : forall fs,
  map (fun x => f_path (snd x)) (save_files fs)
  = map (fun pf => f_path (snd pf)) (by_path (filter is_overwritten fs)).
Proof.
  intros fs. rewrite <- isave_by_path_snd. unfold save_files. rewrite !map_map. reflexivity.
Qed.

Lemma isave_by_path_NoDup : forall fs, NoDup (map fst (isave_by_path fs)).
Proof.
  intros fs. pose proof (by_path_NoDup (filter is_overwritten fs)) as H.
  rewrite <- isave_by_path_snd, map_map in H. cbn [fst] in H. exact H.
Qed.

Fixpoint ilast_with_path (p : str) (l : list (nat * frec)) : option (nat * frec) :=
  match l with
  | [] => None
  | x :: r =>
      match ilast_with_path p r with
      | Some f => Some f
      | None => if str_eqb (f_path (snd x)) p then Some x else None
      end
  end.

Lemma ilast_with_path_None : forall p l,
  ilast_with_path p l = None -> forall g, In g l -> f_path (snd g) <> p.
Proof.
  induction l as [|x r IH]; intros H g Hg; [destruct Hg|]. cbn [ilast_with_path] in H.
  destruct (ilast_with_path p r) as [g'|] eqn:Hr; [discriminate|].
  destruct (str_eqb (f_path (snd x)) p) eqn:E; [discriminate|].
  destruct Hg as [<-|Hg]; [apply str_eqb_neq; exact E|apply IH; auto].
Qed.

Lemma ilast_with_path_spec : forall p l x,
  ilast_with_path p l = Some x ->
  exists l1 l2, l = l1 ++ x :: l2 /\ f_path (snd x) = p
                /\ forall g, In g l2 -> f_path (snd g) <> p.
Proof.
  induction l as [|y r IH]; intros x H; cbn [ilast_with_path] in H; [discriminate|].
  destruct (ilast_with_path p r) as [g|] eqn:Hr.
  - inversion H; subst g. destruct (IH _ eq_refl) as [l1 [l2 [-> [Hp Hl2]]]].
    exists (y :: l1), l2. split; [reflexivity|]. split; assumption.
  - destruct (str_eqb (f_path (snd y)) p) eqn:E; [|discriminate]. inversion H; subst y.
    exists [], r. split; [reflexivity|]. split; [apply str_eqb_eq; exact E|].
    apply ilast_with_path_None. exact Hr.
Qed.

Lemma isave_get_gen : forall l (d : list (str * (nat * frec))) p,
  dict_get p (fold_left (fun d x => dict_set (f_path (snd x)) x d) l d)
  = match ilast_with_path p l with Some f => Some f | None => dict_get p d end.
Proof.
  induction l as [|x r IH]; intros d p; cbn [fold_left ilast_with_path]; [reflexivity|].
  rewrite IH. destruct (ilast_with_path p r) as [g|]; [reflexivity|].
  rewrite dict_get_set, (str_eqb_sym p (f_path (snd x))).
  destruct (str_eqb (f_path (snd x)) p); reflexivity.
Qed.

(* save evaluates root_element of files[i] only if files[i] is an overwritten
   part and no later overwritten File has the same path *)
Theorem save_files_last : forall fs i f,
  In (i, f) (save_files fs) ->
  nth_error fs i = Some f /\ is_overwritten f = true
  /\ forall j g, nth_error fs j = Some g -> is_overwritten g = true ->
                 f_path g = f_path f -> (j <= i)%nat.
Proof.
  intros fs i f Hin. unfold save_files in Hin. apply in_map_iff in Hin.
  destruct Hin as [[p x] [E Hin]]. cbn [snd] in E. subst x.
  apply (in_nodup_dict_get _ _ _ (isave_by_path_NoDup fs)) in Hin.
  unfold isave_by_path in Hin. rewrite isave_get_gen in Hin. cbn [dict_get] in Hin.
  set (content := filter (fun x => mem_str (f_type (snd x)) save_overwrite_types) (indexed fs)) in *.
  destruct (ilast_with_path p content) as [y|] eqn:Hl; [|discriminate]. inversion Hin; subst y.
  destruct (ilast_with_path_spec _ _ _ Hl) as [l1 [l2 [Hc [Hp Hl2]]]]. cbn [snd] in Hp.
  assert (Hmem : In (i, f) content) by (rewrite Hc; apply in_or_app; right; left; reflexivity).
  unfold content in Hmem. apply filter_In in Hmem. destruct Hmem as [Hidx Hov]. cbn [snd] in Hov.
  split; [apply indexed_In; exact Hidx|]. split; [exact Hov|].
  intros j g Hj Hg Hpath.
  assert (Hjg : In (j, g) content).
  { unfold content. apply filter_In. split; [apply indexed_In; exact Hj|exact Hg]. }
  assert (Hs : StronglySorted by_index content).
  { unfold content. apply filter_sorted. apply combine_seq_sorted. }
  rewrite Hc in Hjg, Hs. apply in_app_or in Hjg. destruct Hjg as [H1|[H2|H3]].
  - pose proof (sorted_app_before _ _ _ Hs _ H1) as Hlt. unfold by_index in Hlt; simpl in Hlt. lia.
  - inversion H2; subst. lia.
  - exfalso. apply (Hl2 _ H3). cbn [snd]. congruence.
Qed.

(* one File per path *)
Theorem save_files_paths_NoDup : forall fs, NoDup (map (fun x => f_path (snd x)) (save_files fs)).
Proof.
  intros fs. pose proof (isave_by_path_NoDup fs) as H.
  assert (E : map fst (isave_by_path fs) = map (fun x => f_path (snd x)) (save_files fs)).
  { unfold save_files. rewrite map_map. apply map_ext_in. intros [p [i f]] Hin. cbn [fst snd].
    apply (in_nodup_dict_get _ _ _ H) in Hin.
    unfold isave_by_path in Hin. rewrite isave_get_gen in Hin. cbn [dict_get] in Hin.
    match type of Hin with context [ilast_with_path p ?l] =>
      destruct (ilast_with_path p l) as [y|] eqn:Hl; [|discriminate] end.
    inversion Hin; subst y. destruct (ilast_with_path_spec _ _ _ Hl) as [_ [_ [_ [Hp _]]]].
    cbn [snd] in Hp. symmetry; exact Hp. }
  rewrite <- E. exact H.
Qed.

(* the root of every File save writes is cached afterwards *)
Theorem save_caches_roots : forall a o fs st st' i f,
  step a o fs st OpSave = (st', OVal) -> In (i, f) (save_files fs) ->
  cached (RRoot i) (l_cache st') = true.
Proof.
  intros a o fs st st' i f H Hin. cbn [step] in H.
  destruct (acquire st [RFiles]) as [st1 e] eqn:Ha. destruct e as [ex|]; [inversion H|].
  destruct (touch_zip st1) as [st2 e2] eqn:Ht. destruct e2 as [ex|]; [inversion H|].
  destruct (acquire st2 (save_demands a fs)) as [st3 e3] eqn:Ha3.
  destruct e3 as [ex|]; inversion H; subst st3.
  eapply acquire_caches; [exact Ha3|]. unfold save_demands. apply in_concat.
  exists (root_demands a fs (i, f)). split; [apply in_map; exact Hin|].
  unfold root_demands. left. reflexivity.
Qed.

(* ---------- a header part related twice ---------- *)
Section SharedPart.
  Import String.StringSyntax.
  Local Open Scope string_scope.
  Let W : str := s2l "W".
  Let wel (l : String.string) (text : option String.string) (kids : list rnode) : rnode :=
    RE (Some s_w) (Some W) (s2l l) [(Some s_w, W)] [] (option_map s2l text) None kids.
  Let rel (id ty tg : String.string) : rnode :=
    RE None None (s2l "Relationship") []
       [((None, s_Id), s2l id); ((None, s_Type), s2l ty); ((None, s_Target), s2l tg)]
       None None [].
  Let rels (ks : list rnode) : rnode :=
    RE None (Some (s2l "t/relationships")) (s2l "Relationships") [] [] None None ks.
  Let par (t : String.string) : rnode :=
    wel "p" None [wel "r" None [wel "t" (Some t) []]].
  (* word/header1.xml is the target of rId7 and of rId8 *)
  Definition sp_archive : archive :=
    [(s2l "_rels/.rels", MXml (rels [rel "rId1" "t/officeDocument" "word/document.xml"]));
     (s2l "word/_rels/document.xml.rels",
        MXml (rels [rel "rId7" "t/header" "header1.xml";
                    rel "rId8" "t/header" "header1.xml"]));
     (s2l "word/document.xml", MXml (wel "document" None [wel "body" None [par "body"]]));
     (s2l "word/header1.xml", MXml (wel "hdr" None [par "head"]))].
  Definition sp_opts : opts := {| o_html := false; o_dup := true |}.
  Definition sp_header_path : str := s2l "word/header1.xml".
End SharedPart.

(* two File objects (files[2], files[3]) with the path of the header; save
   evaluates the root of the second only.  After save(); close() a read of the
   header goes through files[2] first, whose root was never parsed: ValueError.
   When the header was read before, both collectors are cached and nothing is
   needed from the archive. *)
Example shared_part_save_then_closed_read :
  exists fs,
    files sp_archive = Ok fs
    /\ map fst (filter (fun x => str_eqb (f_path (snd x)) sp_header_path) (indexed fs)) = [2; 3]%nat
    /\ map fst (ifiles_of_type fs s_header) = [2; 3]%nat
    /\ map fst (save_files fs) = [0; 1; 3; 4]%nat
    /\ snd (run_ops sp_archive sp_opts fs l_init [OpSave; OpClose; OpRead (ARuns s_header)])
       = [OVal; ONone; OErr ValueError]
    /\ snd (run_ops sp_archive sp_opts fs l_init
              [OpRead (ARuns s_header); OpSave; OpClose; OpRead (ARuns s_header)])
       = [OVal; OVal; ONone; OVal].
Proof. eexists. repeat split; vm_compute; reflexivity. Qed.

Print Assumptions init_ok.
Print Assumptions step_ok.
Print Assumptions run_ok.
Print Assumptions closed_stays_counterexample.
Print Assumptions closed_stays_flag.
Print Assumptions closed_stays_partial.
Print Assumptions never_reopened.
Print Assumptions open_read_returns.
Print Assumptions open_saveimages_returns.
Print Assumptions open_save_returns.
Print Assumptions closed_read_outcome.
Print Assumptions history_outcomes.
Print Assumptions close_idempotent.
Print Assumptions exit_is_close.
Print Assumptions close_outcome.
Print Assumptions acquire_cache_mono.
Print Assumptions acquire_all_cached.
Print Assumptions read_after_close_cached.
Print Assumptions read_after_close_needs.
Print Assumptions read_twice.
Print Assumptions ifiles_of_types_snd.
Print Assumptions ifiles_of_types_In.
Print Assumptions ifiles_of_types_stable.
Print Assumptions rels_file_of_snd.
Print Assumptions rels_demand_unique.
Print Assumptions rels_demand_not_unique.
Print Assumptions isave_by_path_snd.
Print Assumptions save_files_last.
Print Assumptions save_files_paths_NoDup.
Print Assumptions save_caches_roots.
Print Assumptions shared_part_save_then_closed_read.
