(* LifeFacts.v — C14/C15: close() and with-blocks release the archive for
   every usage history (facts about model/Lifecycle.v).

   Proved as stated: init_ok, step_ok, run_ok, never_reopened,
   open_read_returns (+ open_saveimages_returns, open_save_returns),
   closed_read_outcome, history_outcomes, close_idempotent, exit_is_close,
   close_outcome, acquire_cache_mono, acquire_all_cached,
   read_after_close_cached (+ its converse read_after_close_needs), read_twice.

   False as stated: closed_stays.  In a state with the closed flag set while
   the handle is still ZOpen (unreachable: it violates ok_state) OpClose /
   OpExit turn ZOpen into ZClosed, so l_zip changes
   (closed_stays_counterexample).  Proved instead: closed_stays_flag (the flag
   part, unconditionally) and closed_stays_partial (both parts under
   [ok_state st], which every reachable state satisfies). *)
From Coq Require Import List NArith ZArith Bool Arith Lia.
From D2P Require Import Str Err Xml TableTypes Tables Fmt Bullets Merge Collector Walk Iter
     Output Paths Package Content.
From D2P Require Import BulletsFacts.
From D2P Require Import Lifecycle.   (* last: Lifecycle.step shadows Bullets.step *)
Import ListNotations.
Open Scope N_scope.

(* ================================================================== *)
(* L1. the invariant                                                    *)
(* ================================================================== *)
Definition ok_state (st : lstate) : Prop := l_closed st = true -> l_zip st <> ZOpen.

Lemma init_ok : ok_state l_init.
Proof. unfold ok_state, l_init; simpl; discriminate. Qed.

(* acquire on a closed object changes neither flag nor handle *)
Lemma acquire_closed : forall ds st st' e,
  l_closed st = true -> acquire st ds = (st', e) ->
  l_closed st' = true /\ l_zip st' = l_zip st.
Proof.
  induction ds as [|r rest IH]; intros st st' e Hc H; simpl in H.
  - inversion H; subst; auto.
  - destruct (cached r (l_cache st)).
    + eapply IH; eauto.
    + destruct (needs_zip r).
      * rewrite Hc in H. inversion H; subst; auto.
      * apply IH in H; simpl in *; auto.
  Qed.

(* acquire on an open object never fails and leaves it open *)
Lemma acquire_open : forall ds st st' e,
  l_closed st = false -> acquire st ds = (st', e) ->
  e = None /\ l_closed st' = false.
Proof.
  induction ds as [|r rest IH]; intros st st' e Hc H; simpl in H.
  - inversion H; subst; auto.
  - destruct (cached r (l_cache st)).
    + eapply IH; eauto.
    + destruct (needs_zip r).
      * rewrite Hc in H. apply IH in H; simpl; auto.
      * apply IH in H; simpl; auto.
Qed.

Lemma acquire_ok : forall ds st st' e,
  ok_state st -> acquire st ds = (st', e) -> ok_state st'.
Proof.
  induction ds as [|r rest IH]; intros st st' e Hok H; simpl in H.
  - inversion H; subst; auto.
  - destruct (cached r (l_cache st)).
    + eapply IH; eauto.
    + destruct (needs_zip r).
      * destruct (l_closed st) eqn:Hc.
        -- inversion H; subst; auto.
        -- eapply IH; [|exact H]. unfold ok_state; simpl; discriminate.
      * eapply IH; [|exact H]. unfold ok_state in *; simpl; auto.
Qed.

(* the only exception acquire raises is ValueError *)
Lemma acquire_err : forall ds st st' ex,
  acquire st ds = (st', Some ex) -> ex = ValueError.
Proof.
  induction ds as [|r rest IH]; intros st st' ex H; simpl in H.
  - inversion H.
  - destruct (cached r (l_cache st)).
    + eapply IH; eauto.
    + destruct (needs_zip r).
      * destruct (l_closed st).
        -- inversion H; auto.
        -- eapply IH; eauto.
      * eapply IH; eauto.
Qed.

Lemma touch_closed : forall st st' e,
  l_closed st = true -> touch_zip st = (st', e) -> st' = st /\ e = Some ValueError.
Proof. unfold touch_zip; intros st st' e Hc H. rewrite Hc in H. inversion H; auto. Qed.

Lemma touch_open : forall st st' e,
  l_closed st = false -> touch_zip st = (st', e) -> e = None /\ l_closed st' = false.
Proof. unfold touch_zip; intros st st' e Hc H. rewrite Hc in H. inversion H; auto. Qed.

Lemma touch_ok : forall st st' e, ok_state st -> touch_zip st = (st', e) -> ok_state st'.
Proof.
  unfold touch_zip; intros st st' e Hok H. destruct (l_closed st) eqn:Hc; inversion H; subst; auto.
  unfold ok_state; simpl; discriminate.
Qed.

Lemma touch_err : forall st st' ex, touch_zip st = (st', Some ex) -> ex = ValueError.
Proof. unfold touch_zip; intros st st' ex H. destruct (l_closed st); inversion H; auto. Qed.

Lemma close_ok : forall st, ok_state (close st).
Proof. intros st _. unfold close; simpl. destruct (l_zip st); discriminate. Qed.

Lemma step_ok : forall a o fs st x st' out,
  ok_state st -> step a o fs st x = (st', out) -> ok_state st'.
Proof.
  intros a o fs st x st' out Hok H. destruct x as [at_| | | |b]; cbn [step] in H.
  - destruct (acquire st (attr_demands a o fs at_)) as [st1 e] eqn:Ha.
    pose proof (acquire_ok _ _ _ _ Hok Ha) as Hok1.
    destruct e as [ex|].
    + inversion H; subst; auto.
    + destruct (direct_zip fs at_).
      * destruct (touch_zip st1) as [st2 e2] eqn:Ht. inversion H; subst.
        eapply touch_ok; eauto.
      * inversion H; subst; auto.
  - destruct (acquire st [RFiles]) as [st1 e] eqn:Ha.
    pose proof (acquire_ok _ _ _ _ Hok Ha) as Hok1.
    destruct e as [ex|].
    + inversion H; subst; auto.
    + destruct (direct_zip fs AImages).
      * destruct (touch_zip st1) as [st2 e2] eqn:Ht. inversion H; subst.
        eapply touch_ok; eauto.
      * inversion H; subst; auto.
  - destruct (acquire st [RFiles]) as [st1 e] eqn:Ha.
    pose proof (acquire_ok _ _ _ _ Hok Ha) as Hok1.
    destruct e as [ex|].
    + inversion H; subst; auto.
    + destruct (touch_zip st1) as [st2 e2] eqn:Ht.
      pose proof (touch_ok _ _ _ Hok1 Ht) as Hok2.
      destruct e2 as [ex|].
      * inversion H; subst; auto.
      * match type of H with context [acquire st2 ?ds] =>
          destruct (acquire st2 ds) as [st3 e3] eqn:Ha3 end.
        inversion H; subst. eapply acquire_ok; eauto.
  - inversion H; subst. apply close_ok.
  - inversion H; subst. apply close_ok.
Qed.

Lemma run_ok : forall a o fs xs st st' outs,
  ok_state st -> run_ops a o fs st xs = (st', outs) -> ok_state st'.
Proof.
  intros a o fs xs; induction xs as [|x r IH]; intros st st' outs Hok H; simpl in H.
  - inversion H; subst; auto.
  - destruct (step a o fs st x) as [st1 out] eqn:Hs.
    destruct (run_ops a o fs st1 r) as [st2 outs2] eqn:Hr.
    inversion H; subst.
    eapply IH; [|exact Hr]. eapply step_ok; eauto.
Qed.

(* ================================================================== *)
(* L2. once closed, always closed; the archive is never reopened        *)
(* ================================================================== *)
(* As stated (without [ok_state st]) the handle equation fails for exactly one
   kind of state, which no history reaches: closed flag set while the handle is
   still open.  There close() / __exit__ turn ZOpen into ZClosed. *)
Definition bad_state : lstate := {| l_closed := true; l_zip := ZOpen; l_cache := [] |}.
Lemma closed_stays_counterexample :
  l_closed bad_state = true /\
  l_zip (fst (step [] {| o_html := false; o_dup := false |} [] bad_state OpClose)) <> l_zip bad_state.
Proof. vm_compute. split; [reflexivity|discriminate]. Qed.

(* the flag part holds unconditionally *)
Lemma closed_stays_flag : forall a o fs x st st' out,
  l_closed st = true -> step a o fs st x = (st', out) -> l_closed st' = true.
Proof.
  intros a o fs x st st' out Hc H. destruct x as [at_| | | |b]; cbn [step] in H.
  - destruct (acquire st (attr_demands a o fs at_)) as [st1 e] eqn:Ha.
    destruct (acquire_closed _ _ _ _ Hc Ha) as [Hc1 Hz1].
    destruct e as [ex|].
    + inversion H; subst; auto.
    + destruct (direct_zip fs at_).
      * destruct (touch_zip st1) as [st2 e2] eqn:Ht.
        destruct (touch_closed _ _ _ Hc1 Ht) as [-> _]. inversion H; subst; auto.
      * inversion H; subst; auto.
  - destruct (acquire st [RFiles]) as [st1 e] eqn:Ha.
    destruct (acquire_closed _ _ _ _ Hc Ha) as [Hc1 Hz1].
    destruct e as [ex|].
    + inversion H; subst; auto.
    + destruct (direct_zip fs AImages).
      * destruct (touch_zip st1) as [st2 e2] eqn:Ht.
        destruct (touch_closed _ _ _ Hc1 Ht) as [-> _]. inversion H; subst; auto.
      * inversion H; subst; auto.
  - destruct (acquire st [RFiles]) as [st1 e] eqn:Ha.
    destruct (acquire_closed _ _ _ _ Hc Ha) as [Hc1 Hz1].
    destruct e as [ex|].
    + inversion H; subst; auto.
    + destruct (touch_zip st1) as [st2 e2] eqn:Ht.
      destruct (touch_closed _ _ _ Hc1 Ht) as [-> ->]. inversion H; subst; auto.
  - inversion H; subst. reflexivity.
  - inversion H; subst. reflexivity.
Qed.

(* strongest true variant: for states satisfying the invariant (all reachable
   states do: init_ok, run_ok) *)
Lemma closed_stays_partial : forall a o fs x st st' out,
  ok_state st ->
  l_closed st = true -> step a o fs st x = (st', out) ->
  l_closed st' = true /\ l_zip st' = l_zip st.
Proof.
  intros a o fs x st st' out Hok Hc H. split.
  - eapply closed_stays_flag; eauto.
  - destruct x as [at_| | | |b]; cbn [step] in H.
    + destruct (acquire st (attr_demands a o fs at_)) as [st1 e] eqn:Ha.
      destruct (acquire_closed _ _ _ _ Hc Ha) as [Hc1 Hz1].
      destruct e as [ex|].
      * inversion H; subst; auto.
      * destruct (direct_zip fs at_).
        -- destruct (touch_zip st1) as [st2 e2] eqn:Ht.
           destruct (touch_closed _ _ _ Hc1 Ht) as [-> _]. inversion H; subst; auto.
        -- inversion H; subst; auto.
    + destruct (acquire st [RFiles]) as [st1 e] eqn:Ha.
      destruct (acquire_closed _ _ _ _ Hc Ha) as [Hc1 Hz1].
      destruct e as [ex|].
      * inversion H; subst; auto.
      * destruct (direct_zip fs AImages).
        -- destruct (touch_zip st1) as [st2 e2] eqn:Ht.
           destruct (touch_closed _ _ _ Hc1 Ht) as [-> _]. inversion H; subst; auto.
        -- inversion H; subst; auto.
    + destruct (acquire st [RFiles]) as [st1 e] eqn:Ha.
      destruct (acquire_closed _ _ _ _ Hc Ha) as [Hc1 Hz1].
      destruct e as [ex|].
      * inversion H; subst; auto.
      * destruct (touch_zip st1) as [st2 e2] eqn:Ht.
        destruct (touch_closed _ _ _ Hc1 Ht) as [-> ->]. inversion H; subst; auto.
    + inversion H; subst. unfold close; simpl.
      specialize (Hok Hc). destruct (l_zip st); auto. congruence.
    + inversion H; subst. unfold close; simpl.
      specialize (Hok Hc). destruct (l_zip st); auto. congruence.
Qed.

Lemma never_reopened : forall a o fs xs st st' outs,
  ok_state st -> l_closed st = true -> run_ops a o fs st xs = (st', outs) ->
  l_zip st' <> ZOpen /\ l_closed st' = true.
Proof.
  intros a o fs xs; induction xs as [|x r IH]; intros st st' outs Hok Hc H; simpl in H.
  - inversion H; subst; auto.
  - destruct (step a o fs st x) as [st1 out] eqn:Hs.
    destruct (run_ops a o fs st1 r) as [st2 outs2] eqn:Hr.
    inversion H; subst.
    eapply IH; [| |exact Hr].
    + eapply step_ok; eauto.
    + eapply closed_stays_flag; eauto.
Qed.

(* ================================================================== *)
(* L3. outcomes                                                         *)
(* ================================================================== *)
Lemma open_read_returns : forall a o fs st at_ st' out,
  l_closed st = false -> step a o fs st (OpRead at_) = (st', out) -> out = OVal.
Proof.
  intros a o fs st at_ st' out Hc H; cbn [step] in H.
  destruct (acquire st (attr_demands a o fs at_)) as [st1 e] eqn:Ha.
  destruct (acquire_open _ _ _ _ Hc Ha) as [-> Hc1].
  destruct (direct_zip fs at_).
  - destruct (touch_zip st1) as [st2 e2] eqn:Ht.
    destruct (touch_open _ _ _ Hc1 Ht) as [-> _]. inversion H; auto.
  - inversion H; auto.
Qed.

Lemma open_saveimages_returns : forall a o fs st st' out,
  l_closed st = false -> step a o fs st OpSaveImages = (st', out) -> out = OVal.
Proof.
  intros a o fs st st' out Hc H; cbn [step] in H.
  destruct (acquire st [RFiles]) as [st1 e] eqn:Ha.
  destruct (acquire_open _ _ _ _ Hc Ha) as [-> Hc1].
  destruct (direct_zip fs AImages).
  - destruct (touch_zip st1) as [st2 e2] eqn:Ht.
    destruct (touch_open _ _ _ Hc1 Ht) as [-> _]. inversion H; auto.
  - inversion H; auto.
Qed.

Lemma open_save_returns : forall a o fs st st' out,
  l_closed st = false -> step a o fs st OpSave = (st', out) -> out = OVal.
Proof.
  intros a o fs st st' out Hc H; cbn [step] in H.
  destruct (acquire st [RFiles]) as [st1 e] eqn:Ha.
  destruct (acquire_open _ _ _ _ Hc Ha) as [-> Hc1].
  destruct (touch_zip st1) as [st2 e2] eqn:Ht.
  destruct (touch_open _ _ _ Hc1 Ht) as [-> Hc2].
  match type of H with context [acquire st2 ?ds] =>
    destruct (acquire st2 ds) as [st3 e3] eqn:Ha3 end.
  destruct (acquire_open _ _ _ _ Hc2 Ha3) as [-> _]. inversion H; auto.
Qed.

Definition good_outcome (out : outcome) : Prop :=
  out = OVal \/ out = OErr ValueError \/ out = ONone.

(* in any state whatsoever *)
Lemma step_outcome : forall a o fs st x st' out,
  step a o fs st x = (st', out) -> good_outcome out.
Proof.
  unfold good_outcome.
  intros a o fs st x st' out H. destruct x as [at_| | | |b]; cbn [step] in H.
  - destruct (acquire st (attr_demands a o fs at_)) as [st1 e] eqn:Ha.
    destruct e as [ex|].
    + apply acquire_err in Ha; subst. inversion H; auto.
    + destruct (direct_zip fs at_).
      * destruct (touch_zip st1) as [st2 e2] eqn:Ht. destruct e2 as [ex|].
        -- apply touch_err in Ht; subst. inversion H; auto.
        -- inversion H; auto.
      * inversion H; auto.
  - destruct (acquire st [RFiles]) as [st1 e] eqn:Ha.
    destruct e as [ex|].
    + apply acquire_err in Ha; subst. inversion H; auto.
    + destruct (direct_zip fs AImages).
      * destruct (touch_zip st1) as [st2 e2] eqn:Ht. destruct e2 as [ex|].
        -- apply touch_err in Ht; subst. inversion H; auto.
        -- inversion H; auto.
      * inversion H; auto.
  - destruct (acquire st [RFiles]) as [st1 e] eqn:Ha.
    destruct e as [ex|].
    + apply acquire_err in Ha; subst. inversion H; auto.
    + destruct (touch_zip st1) as [st2 e2] eqn:Ht. destruct e2 as [ex|].
      * apply touch_err in Ht; subst. inversion H; auto.
      * match type of H with context [acquire st2 ?ds] =>
          destruct (acquire st2 ds) as [st3 e3] eqn:Ha3 end.
        destruct e3 as [ex|].
        -- apply acquire_err in Ha3; subst. inversion H; auto.
        -- inversion H; auto.
  - inversion H; auto.
  - inversion H; auto.
Qed.

Lemma closed_read_outcome : forall a o fs st x st' out,
  l_closed st = true -> step a o fs st x = (st', out) ->
  out = OVal \/ out = OErr ValueError \/ out = ONone.
Proof. intros a o fs st x st' out _ H. exact (step_outcome _ _ _ _ _ _ _ H). Qed.

Lemma run_outcomes : forall a o fs xs st st' outs,
  run_ops a o fs st xs = (st', outs) -> Forall good_outcome outs.
Proof.
  intros a o fs xs; induction xs as [|x r IH]; intros st st' outs H; simpl in H.
  - inversion H; subst; constructor.
  - destruct (step a o fs st x) as [st1 out] eqn:Hs.
    destruct (run_ops a o fs st1 r) as [st2 outs2] eqn:Hr.
    inversion H; subst. constructor.
    + eapply step_outcome; eauto.
    + eapply IH; eauto.
Qed.

Lemma history_outcomes : forall a o fs xs st' outs,
  run_ops a o fs l_init xs = (st', outs) ->
  Forall (fun out => out = OVal \/ out = OErr ValueError \/ out = ONone) outs.
Proof. intros a o fs xs st' outs H. exact (run_outcomes _ _ _ _ _ _ _ H). Qed.

(* ================================================================== *)
(* L4. close / exit                                                     *)
(* ================================================================== *)
Lemma close_idempotent : forall st, close (close st) = close st.
Proof. intros st. unfold close; simpl. destruct (l_zip st); reflexivity. Qed.

Lemma exit_is_close : forall a o fs st b,
  step a o fs st (OpExit b) = step a o fs st OpClose.
Proof. reflexivity. Qed.

Lemma close_outcome : forall a o fs st, snd (step a o fs st OpClose) = ONone.
Proof. reflexivity. Qed.

(* ================================================================== *)
(* L5. cache monotonicity, purity of cached reads                       *)
(* ================================================================== *)
Lemma resource_eqb_refl : forall r, resource_eqb r r = true.
Proof. destruct r; simpl; auto using str_eqb_refl. Qed.

Lemma resource_eqb_eq : forall r s, resource_eqb r s = true -> r = s.
Proof.
  destruct r, s; simpl; intros H; try discriminate; auto;
    apply str_eqb_eq in H; subst; auto.
Qed.

Lemma acquire_cache_mono : forall ds st st' e,
  acquire st ds = (st', e) ->
  forall r, cached r (l_cache st) = true -> cached r (l_cache st') = true.
Proof.
  induction ds as [|d rest IH]; intros st st' e H r Hr; simpl in H.
  - inversion H; subst; auto.
  - destruct (cached d (l_cache st)).
    + eapply IH; eauto.
    + destruct (needs_zip d).
      * destruct (l_closed st).
        -- inversion H; subst; auto.
        -- eapply IH; [exact H|]. simpl. rewrite Hr. apply orb_true_r.
      * eapply IH; [exact H|]. simpl. rewrite Hr. apply orb_true_r.
Qed.

Lemma acquire_all_cached : forall ds st,
  (forall r, In r ds -> cached r (l_cache st) = true) -> acquire st ds = (st, None).
Proof.
  induction ds as [|d rest IH]; intros st H; simpl.
  - reflexivity.
  - rewrite (H d (or_introl eq_refl)). apply IH. intros r Hr. apply H. right; auto.
Qed.

(* a successful acquire leaves everything it was asked for in the cache *)
Lemma acquire_caches : forall ds st st',
  acquire st ds = (st', None) ->
  forall r, In r ds -> cached r (l_cache st') = true.
Proof.
  induction ds as [|d rest IH]; intros st st' H r Hr; simpl in H.
  - destruct Hr.
  - destruct Hr as [->|Hr].
    + destruct (cached r (l_cache st)) eqn:Hcr.
      * eapply acquire_cache_mono; eauto.
      * destruct (needs_zip r).
        -- destruct (l_closed st).
           ++ inversion H.
           ++ eapply acquire_cache_mono; [exact H|]. simpl.
              rewrite resource_eqb_refl; reflexivity.
        -- eapply acquire_cache_mono; [exact H|]. simpl.
           rewrite resource_eqb_refl; reflexivity.
    + destruct (cached d (l_cache st)).
      * eapply IH; eauto.
      * destruct (needs_zip d).
        -- destruct (l_closed st).
           ++ inversion H.
           ++ eapply IH; eauto.
        -- eapply IH; eauto.
Qed.

(* on a closed object, acquire succeeds when (and only when) whatever needs
   the archive is cached *)
Lemma acquire_closed_cached : forall ds st,
  l_closed st = true ->
  (forall r, In r ds -> needs_zip r = true -> cached r (l_cache st) = true) ->
  snd (acquire st ds) = None.
Proof.
  induction ds as [|d rest IH]; intros st Hc H; simpl.
  - reflexivity.
  - destruct (cached d (l_cache st)) eqn:Hcd.
    + apply IH; auto. intros r Hr. apply H. right; auto.
    + destruct (needs_zip d) eqn:Hn.
      * rewrite (H d (or_introl eq_refl) Hn) in Hcd. discriminate.
      * apply IH; simpl; auto.
        intros r Hr Hnr. rewrite (H r (or_intror Hr) Hnr). apply orb_true_r.
Qed.

Lemma acquire_closed_needs : forall ds st,
  l_closed st = true ->
  snd (acquire st ds) = None ->
  forall r, In r ds -> needs_zip r = true -> cached r (l_cache st) = true.
Proof.
  induction ds as [|d rest IH]; intros st Hc H r Hr Hn; simpl in H.
  - destruct Hr.
  - destruct (cached d (l_cache st)) eqn:Hcd.
    + destruct Hr as [->|Hr]; eauto.
    + destruct (needs_zip d) eqn:Hnd.
      * rewrite Hc in H. discriminate.
      * destruct Hr as [->|Hr]; [congruence|].
        specialize (IH {| l_closed := l_closed st; l_zip := l_zip st; l_cache := d :: l_cache st |} Hc H r Hr Hn). simpl in IH.
        apply orb_true_iff in IH. destruct IH as [E|]; auto.
        apply resource_eqb_eq in E; subst. congruence.
Qed.

Lemma read_after_close_cached : forall a o fs st at_,
  l_closed st = true ->
  (forall r, In r (attr_demands a o fs at_) -> needs_zip r = true -> cached r (l_cache st) = true) ->
  direct_zip fs at_ = false ->
  snd (step a o fs st (OpRead at_)) = OVal.
Proof.
  intros a o fs st at_ Hc H Hd. cbn [step].
  pose proof (acquire_closed_cached _ _ Hc H) as Ha.
  destruct (acquire st (attr_demands a o fs at_)) as [st1 e]. simpl in Ha; subst e.
  rewrite Hd. reflexivity.
Qed.

(* the converse: "exactly when" *)
Lemma read_after_close_needs : forall a o fs st at_,
  l_closed st = true ->
  snd (step a o fs st (OpRead at_)) = OVal ->
  forall r, In r (attr_demands a o fs at_) -> needs_zip r = true -> cached r (l_cache st) = true.
Proof.
  intros a o fs st at_ Hc H. cbn [step] in H.
  apply acquire_closed_needs; auto.
  destruct (acquire st (attr_demands a o fs at_)) as [st1 e]. simpl.
  destruct e as [ex|]; auto. simpl in H. discriminate.
Qed.

Lemma read_twice : forall a o fs st at_ st1 out1,
  l_closed st = false -> step a o fs st (OpRead at_) = (st1, out1) ->
  direct_zip fs at_ = false ->
  forall st2 out2, step a o fs (close st1) (OpRead at_) = (st2, out2) -> out2 = OVal.
Proof.
  intros a o fs st at_ st1 out1 Hc H Hd st2 out2 H2. cbn [step] in H, H2.
  rewrite Hd in H, H2.
  destruct (acquire st (attr_demands a o fs at_)) as [s1 e] eqn:Ha.
  destruct (acquire_open _ _ _ _ Hc Ha) as [-> _].
  inversion H; subst s1 out1.
  rewrite (acquire_all_cached (attr_demands a o fs at_) (close st1)) in H2.
  - inversion H2; auto.
  - intros r Hr. unfold close; simpl. eapply acquire_caches; eauto.
Qed.

Print Assumptions init_ok.
Print Assumptions step_ok.
Print Assumptions run_ok.
Print Assumptions closed_stays_counterexample.
Print Assumptions closed_stays_flag.
Print Assumptions closed_stays_partial.
Print Assumptions never_reopened.
Print Assumptions open_read_returns.
Print Assumptions open_saveimages_returns.
Print Assumptions open_save_returns.
Print Assumptions closed_read_outcome.
Print Assumptions history_outcomes.
Print Assumptions close_idempotent.
Print Assumptions exit_is_close.
Print Assumptions close_outcome.
Print Assumptions acquire_cache_mono.
Print Assumptions acquire_all_cached.
Print Assumptions read_after_close_cached.
Print Assumptions read_after_close_needs.
Print Assumptions read_twice.
