(* FsFacts.v — what pull_image_files / save_images write (model/Fs.v): exactly the images,
   byte-identical, into the folder (created with its parents), nothing else written or changed;
   the returned mapping does not depend on the folder (C11, C19). *)
From Coq Require Import List NArith Bool Arith Lia.
From D2P Require Import Str Err Fs.
Import ListNotations.

(* ---------- equality tests ---------- *)
Lemma str_eqb_eq : forall a b : str, str_eqb a b = true <-> a = b.
Proof.
  induction a as [|x a IH]; destruct b as [|y b]; simpl; split; intro H;
    try reflexivity; try discriminate.
  - apply andb_true_iff in H. destruct H as [H1 H2].
    apply N.eqb_eq in H1. apply IH in H2. subst. reflexivity.
  - inversion H; subst. apply andb_true_iff. split.
    + apply N.eqb_refl.
    + apply IH. reflexivity.
Qed.

Lemma fpath_eqb_eq : forall a b : fpath, fpath_eqb a b = true <-> a = b.
Proof.
  induction a as [|x a IH]; destruct b as [|y b]; simpl; split; intro H;
    try reflexivity; try discriminate.
  - apply andb_true_iff in H. destruct H as [H1 H2].
    apply str_eqb_eq in H1. apply IH in H2. subst. reflexivity.
  - inversion H; subst. apply andb_true_iff. split.
    + apply str_eqb_eq. reflexivity.
    + apply IH. reflexivity.
Qed.

Lemma fpath_eqb_refl : forall a, fpath_eqb a a = true.
Proof. intro a. apply fpath_eqb_eq. reflexivity. Qed.

Lemma fpath_eqb_neq : forall a b, a <> b -> fpath_eqb a b = false.
Proof.
  intros a b H. destruct (fpath_eqb a b) eqn:E; [|reflexivity].
  apply fpath_eqb_eq in E. contradiction.
Qed.

Lemma existsb_eqb_false : forall (q : fpath) l, ~ In q l -> existsb (fpath_eqb q) l = false.
Proof.
  intros q l H. destruct (existsb (fpath_eqb q) l) eqn:E; [|reflexivity].
  apply existsb_exists in E. destruct E as [x [Hin Hx]].
  apply fpath_eqb_eq in Hx. subst. contradiction.
Qed.

Lemma existsb_eqb_true : forall (q : fpath) l, In q l -> existsb (fpath_eqb q) l = true.
Proof.
  intros q l H. apply existsb_exists. exists q. split; [assumption|apply fpath_eqb_refl].
Qed.

(* ---------- file_get / file_set ---------- *)
Lemma file_get_set : forall p q b l,
  file_get p (file_set q b l) = if fpath_eqb p q then Some b else file_get p l.
Proof.
  intros p q b l. induction l as [|[r c] l IH]; simpl.
  - reflexivity.
  - destruct (fpath_eqb q r) eqn:Eqr; simpl.
    + apply fpath_eqb_eq in Eqr. subst r.
      destruct (fpath_eqb p q); reflexivity.
    + rewrite IH. destruct (fpath_eqb p r) eqn:Epr; [|reflexivity].
      apply fpath_eqb_eq in Epr. subst r.
      rewrite fpath_eqb_neq; [reflexivity|].
      intro H. subst q. rewrite fpath_eqb_refl in Eqr. discriminate.
Qed.

(* ---------- prefixes ---------- *)
Lemma prefixes_from_length : forall p done q,
  In q (prefixes_from done p) -> (length q <= length done + length p)%nat.
Proof.
  induction p as [|x r IH]; simpl; intros done q H.
  - contradiction.
  - destruct H as [H|H].
    + subst q. rewrite app_length. simpl. lia.
    + apply IH in H. rewrite app_length in H. simpl in H. lia.
Qed.

Lemma prefixes_from_last : forall p done,
  p <> [] -> In (done ++ p) (prefixes_from done p).
Proof.
  induction p as [|x r IH]; intros done H.
  - contradiction.
  - simpl. destruct r as [|y r'].
    + left. reflexivity.
    + right. replace (done ++ x :: y :: r') with ((done ++ [x]) ++ y :: r').
      * apply IH. discriminate.
      * rewrite <- app_assoc. reflexivity.
Qed.

Lemma child_not_prefix : forall d n, ~ In (d ++ [n]) (prefixes d).
Proof.
  intros d n H. apply prefixes_from_length in H.
  rewrite app_length in H. simpl in H. lia.
Qed.

Lemma child_nonempty : forall (d : fpath) n, d ++ [n] <> [].
Proof. intros d n H. destruct d; discriminate. Qed.

(* ---------- is_dir depends on the directories only ---------- *)
Lemma is_dir_ext : forall a b p, fs_dirs a = fs_dirs b -> is_dir a p = is_dir b p.
Proof. intros a b p H. unfold is_dir. rewrite H. reflexivity. Qed.

(* ---------- write_file ---------- *)
Lemma write_file_some : forall p b fs fs',
  write_file p b fs = Some fs' ->
  fs_dirs fs' = fs_dirs fs /\ fs_files fs' = file_set p b (fs_files fs).
Proof.
  intros p b fs fs' H. unfold write_file in H. destruct p as [|x p'].
  - discriminate.
  - destruct (negb (is_dir fs (parent (x :: p')))); [discriminate|].
    destruct (is_dir fs (x :: p')); [discriminate|].
    inversion H; subst; simpl. split; reflexivity.
Qed.

Lemma write_file_ok : forall p b fs,
  p <> [] -> is_dir fs (parent p) = true -> is_dir fs p = false ->
  write_file p b fs = Some {| fs_dirs := fs_dirs fs; fs_files := file_set p b (fs_files fs) |}.
Proof.
  intros p b fs Hne Hpar Hnd. unfold write_file. destruct p as [|x p'].
  - contradiction.
  - rewrite Hpar, Hnd. reflexivity.
Qed.

(* ---------- write_all: the invariant ---------- *)
(* what is at path p after writing imgs into d, if [dflt] was there before: the last entry of
   the name, if p is d/name for a name of the list *)
Fixpoint img_get (d p : fpath) (imgs : list (str * N)) (dflt : option N) : option N :=
  match imgs with
  | [] => dflt
  | (n, b) :: r => img_get d p r (if fpath_eqb p (d ++ [n]) then Some b else dflt)
  end.

Lemma write_all_inv : forall d imgs fs fs',
  write_all d imgs fs = Some fs' ->
  fs_dirs fs' = fs_dirs fs /\
  forall p, file_get p (fs_files fs') = img_get d p imgs (file_get p (fs_files fs)).
Proof.
  intros d imgs. induction imgs as [|[n b] r IH]; simpl; intros fs fs' H.
  - inversion H; subst. split; reflexivity.
  - destruct (write_file (d ++ [n]) b fs) as [fs1|] eqn:E; [|discriminate].
    apply write_file_some in E. destruct E as [Ed Ef].
    apply IH in H. destruct H as [Hd Hf]. split.
    + rewrite Hd. exact Ed.
    + intro p. rewrite Hf, Ef, file_get_set. reflexivity.
Qed.

Lemma img_get_frame : forall d p imgs dflt,
  (forall n, In n (map fst imgs) -> p <> d ++ [n]) -> img_get d p imgs dflt = dflt.
Proof.
  intros d p imgs. induction imgs as [|[n b] r IH]; simpl; intros dflt H.
  - reflexivity.
  - rewrite IH.
    + rewrite fpath_eqb_neq; [reflexivity|]. apply H. left. reflexivity.
    + intros m Hm. apply H. right. exact Hm.
Qed.

Lemma img_get_nodup : forall d imgs n b dflt,
  NoDup (map fst imgs) -> In (n, b) imgs -> img_get d (d ++ [n]) imgs dflt = Some b.
Proof.
  intros d imgs. induction imgs as [|[m c] r IH]; simpl; intros n b dflt Hnd Hin.
  - contradiction.
  - inversion Hnd as [|? ? Hnotin Hnd']; subst. destruct Hin as [Heq|Hin].
    + inversion Heq; subst. rewrite fpath_eqb_refl. apply img_get_frame.
      intros k Hk Habs. apply app_inv_head in Habs. inversion Habs; subst. contradiction.
    + apply IH; assumption.
Qed.

Lemma write_all_succeeds : forall d imgs fs,
  is_dir fs d = true ->
  (forall n, In n (map fst imgs) -> is_dir fs (d ++ [n]) = false) ->
  exists fs', write_all d imgs fs = Some fs'.
Proof.
  intros d imgs. induction imgs as [|[n b] r IH]; simpl; intros fs Hd Hn.
  - exists fs. reflexivity.
  - rewrite write_file_ok.
    + apply IH.
      * rewrite <- Hd. apply is_dir_ext. reflexivity.
      * intros m Hm. rewrite <- (Hn m (or_intror Hm)). apply is_dir_ext. reflexivity.
    + apply child_nonempty.
    + unfold parent. rewrite removelast_last. exact Hd.
    + apply Hn. left. reflexivity.
Qed.

(* ---------- mkdir_parents ---------- *)
Lemma mkdir_parents_some : forall d fs fs1,
  mkdir_parents d fs = Some fs1 ->
  fs_files fs1 = fs_files fs /\
  fs_dirs fs1 = fs_dirs fs ++ filter (fun q => negb (is_dir fs q)) (prefixes d).
Proof.
  intros d fs fs1 H. unfold mkdir_parents in H.
  destruct (existsb (is_file fs) (prefixes d)); [discriminate|].
  inversion H; subst; simpl. split; reflexivity.
Qed.

Lemma existsb_filter_notdir : forall fs q l,
  is_dir fs q = false ->
  existsb (fpath_eqb q) (filter (fun x => negb (is_dir fs x)) l) = existsb (fpath_eqb q) l.
Proof.
  intros fs q l Hq. induction l as [|x l IH]; simpl.
  - reflexivity.
  - destruct (is_dir fs x) eqn:Ex; simpl.
    + rewrite IH. rewrite fpath_eqb_neq; [reflexivity|].
      intro Hqx. subst x. rewrite Ex in Hq. discriminate.
    + rewrite IH. reflexivity.
Qed.

Lemma mkdir_parents_is_dir : forall d fs fs1,
  mkdir_parents d fs = Some fs1 ->
  forall q, is_dir fs1 q = is_dir fs q || existsb (fpath_eqb q) (prefixes d).
Proof.
  intros d fs fs1 H q. apply mkdir_parents_some in H. destruct H as [_ Hd].
  destruct q as [|x q'].
  - reflexivity.
  - assert (Hdef : forall fs0, is_dir fs0 (x :: q') = existsb (fpath_eqb (x :: q')) (fs_dirs fs0))
      by reflexivity.
    rewrite (Hdef fs1), Hd, existsb_app, <- Hdef.
    destruct (is_dir fs (x :: q')) eqn:E.
    + reflexivity.
    + rewrite (existsb_filter_notdir fs (x :: q') (prefixes d) E). reflexivity.
Qed.

Lemma write_images_some : forall imgs d fs fs',
  write_images imgs (Some d) fs = Some fs' ->
  exists fs1, mkdir_parents d fs = Some fs1 /\ write_all d imgs fs1 = Some fs'.
Proof.
  intros imgs d fs fs' H. unfold write_images in H.
  destruct (mkdir_parents d fs) as [fs1|]; [|discriminate].
  exists fs1. split; [reflexivity|exact H].
Qed.


(* every image is there afterwards, with its bytes (distinct names, as C11 assumes) *)
Theorem write_images_writes : forall imgs d fs fs',
  NoDup (map fst imgs) -> write_images imgs (Some d) fs = Some fs' ->
  forall n b, In (n, b) imgs -> file_get (d ++ [n]) (fs_files fs') = Some b.
Proof.
  intros imgs d fs fs' Hnd H n b Hin.
  apply write_images_some in H. destruct H as [fs1 [_ Hw]].
  apply write_all_inv in Hw. destruct Hw as [_ Hf].
  rewrite Hf. apply img_get_nodup; assumption.
Qed.

(* without the distinctness: the LAST entry of a name wins (a dict cannot hold two anyway) *)

(* nothing else is written, nothing else changes: every other path has the content it had *)
Theorem write_images_frame : forall imgs d fs fs',
  write_images imgs (Some d) fs = Some fs' ->
  forall p, (forall n, In n (map fst imgs) -> p <> d ++ [n]) ->
  file_get p (fs_files fs') = file_get p (fs_files fs).
Proof.
  intros imgs d fs fs' H p Hp.
  apply write_images_some in H. destruct H as [fs1 [Hm Hw]].
  apply write_all_inv in Hw. destruct Hw as [_ Hf].
  apply mkdir_parents_some in Hm. destruct Hm as [Hfiles _].
  rewrite Hf, img_get_frame by exact Hp. rewrite Hfiles. reflexivity.
Qed.

(* the folder exists afterwards *)
Theorem write_images_folder_created : forall imgs d fs fs',
  write_images imgs (Some d) fs = Some fs' -> is_dir fs' d = true.
Proof.
  intros imgs d fs fs' H.
  apply write_images_some in H. destruct H as [fs1 [Hm Hw]].
  apply write_all_inv in Hw. destruct Hw as [Hd _].
  rewrite (is_dir_ext fs' fs1 d Hd), (mkdir_parents_is_dir d fs fs1 Hm).
  destruct d as [|x d'].
  - reflexivity.
  - apply orb_true_iff. right. apply existsb_eqb_true.
    apply (prefixes_from_last (x :: d') []). discriminate.
Qed.

(* and the only directories created are the folder and its missing ancestors *)
Theorem write_images_dirs : forall imgs d fs fs',
  write_images imgs (Some d) fs = Some fs' ->
  forall q, is_dir fs' q = is_dir fs q || existsb (fpath_eqb q) (prefixes d).
Proof.
  intros imgs d fs fs' H q.
  apply write_images_some in H. destruct H as [fs1 [Hm Hw]].
  apply write_all_inv in Hw. destruct Hw as [Hd _].
  rewrite (is_dir_ext fs' fs1 q Hd). apply mkdir_parents_is_dir. exact Hm.
Qed.

(* no folder: the file system is untouched *)
Theorem write_images_no_folder : forall imgs fs, write_images imgs None fs = Some fs.
Proof. intros imgs fs. reflexivity. Qed.

(* it succeeds whenever no ancestor of the folder is a file and no image name is a directory
   in the folder *)
Theorem write_images_succeeds : forall imgs d fs,
  (forall q, In q (prefixes d) -> is_file fs q = false) ->
  (forall n, In n (map fst imgs) -> is_dir fs (d ++ [n]) = false) ->
  exists fs', write_images imgs (Some d) fs = Some fs'.
Proof.
  intros imgs d fs Hfile Hname. unfold write_images.
  destruct (mkdir_parents d fs) as [fs1|] eqn:Em.
  - apply write_all_succeeds.
    + rewrite (mkdir_parents_is_dir d fs fs1 Em). destruct d as [|x d'].
      * reflexivity.
      * apply orb_true_iff. right. apply existsb_eqb_true.
        apply (prefixes_from_last (x :: d') []). discriminate.
    + intros n Hn. rewrite (mkdir_parents_is_dir d fs fs1 Em), (Hname n Hn).
      simpl. apply existsb_eqb_false. apply child_not_prefix.
  - exfalso. unfold mkdir_parents in Em.
    destruct (existsb (is_file fs) (prefixes d)) eqn:E; [|discriminate].
    apply existsb_exists in E. destruct E as [q [Hin Hq]].
    rewrite (Hfile q Hin) in Hq. discriminate.
Qed.

(* the returned mapping is Content.images, whatever the folder and the file system (C19:
   passing an image folder changes nothing in the returned values) *)
Theorem pull_returns_images : forall images folder fs r fs',
  pull_image_files images folder fs = Ok (r, fs') -> images = Ok r.
Proof.
  intros images folder fs r fs' H. unfold pull_image_files in H.
  destruct images as [imgs|e]; simpl in H.
  - inversion H; subst. reflexivity.
  - discriminate.
Qed.

Theorem pull_folder_irrelevant : forall images f1 f2 fs1 fs2,
  (r <- pull_image_files images f1 fs1 ;; Ok (fst r)) = (r <- pull_image_files images f2 fs2 ;; Ok (fst r)).
Proof.
  intros images f1 f2 fs1 fs2. unfold pull_image_files.
  destruct images as [imgs|e]; reflexivity.
Qed.

(* an existing file of the same name is replaced (stale files do not survive), others stay *)
Example write_images_example :
  let fs := {| fs_dirs := [[[116]]]; fs_files := [([[116]; [97]], 7%N); ([[116]; [122]], 9%N)] |} in
  write_images [([97], 1%N); ([98], 2%N)] (Some [[116]]) fs
  = Some {| fs_dirs := [[[116]]];
            fs_files := [([[116]; [97]], 1%N); ([[116]; [122]], 9%N); ([[116]; [98]], 2%N)] |}.
Proof. vm_compute. reflexivity. Qed.

Print Assumptions write_images_writes.
Print Assumptions write_images_frame.
Print Assumptions write_images_dirs.
Print Assumptions write_images_folder_created.
Print Assumptions write_images_no_folder.
Print Assumptions write_images_succeeds.
Print Assumptions pull_returns_images.
Print Assumptions pull_folder_irrelevant.
Print Assumptions write_images_example.
