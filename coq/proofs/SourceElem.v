(* SourceElem.v — how an lxml element is read by the translated code (shared by SourceFmt / SourceForms /
   SourceBullets / SourceNumbering): an object with the fields `tag` (Clark notation; a comment's or processing
   instruction's tag is not a str), `localname`, `nsmap` (the bindings of w and r), `attrib` (Clark names) and
   its children (iteration; element.iterfind(q) = the children whose tag is q).  namespace.qn AS TRANSLATED
   FROM THE SOURCE TEXT resolves "w:NAME" under the element's binding of w (src_qn_w).  Clark notation is
   injective on names without braces (a parsed local name is an NCName), which makes iterfind("{uri}local")
   the model's find_children (sf_iterfind) and the attribute lookup the model's alookup (sf_assoc_attrs). *)
From Coq Require Import List NArith ZArith Bool Arith Lia.
From D2P Require Import Str Err Xml TableTypes Tables Fmt PyVal Source SourceBase.
Import ListNotations.

Definition f_Element : str := [69;108;101;109;101;110;116]%N.
Definition f_tag : str := [116;97;103]%N.
Definition f_localname : str := [108;111;99;97;108;110;97;109;101]%N.
Definition f_nsmap : str := [110;115;109;97;112]%N.
Definition f_attrib : str := [97;116;116;114;105;98]%N.

Definition fclark (a : aname) : str :=
  match fst a with Some u => (123 :: u ++ 125 :: snd a)%N | None => snd a end.

Definition enc_nsmap (e : einfo) : pv :=
  VDict None ((match e_wuri e with Some u => [(VStr [119]%N, VStr u)] | None => [] end)
              ++ (match e_ruri e with Some u => [(VStr [114]%N, VStr u)] | None => [] end)).

Fixpoint enc_fel (t : anode) : pv :=
  match t with
  | AX _ => VObj f_Element [(f_tag, VNone); (f_localname, VNone); (f_nsmap, VDict None []);
                            (f_attrib, VDict None []); (k_iter, VList [])]
  | AE e ks =>
      VObj f_Element
        [(f_tag, VStr (fclark (e_uri e, e_local e)));
         (f_localname, VStr (e_local e));
         (f_nsmap, enc_nsmap e);
         (f_attrib, VDict None (map (fun kv => (VStr (fclark (fst kv)), VStr (snd kv))) (e_attrs e)));
         (k_iter, VList (map enc_fel ks))]
  end.

(* no brace in a name (XML NCName) *)
Definition braceless (s : str) : Prop := ~ In 123%N s /\ ~ In 125%N s.
Definition kid_names_ok (ks : list anode) : Prop :=
  forall e ks', In (AE e ks') ks -> braceless (e_local e).
(* attribute names: local parts braceless, so that a Clark name determines the attribute *)
Definition attr_names_ok (e : einfo) : Prop :=
  forall k x, In (k, x) (e_attrs e) -> braceless (snd k).

Definition enc_opt (o : option str) : pv := match o with Some s => VStr s | None => VNone end.
Definition enc_prd (d : list (str * option str)) : pv :=
  VDict None (map (fun kv => (VStr (fst kv), enc_opt (snd kv))) d).
Definition lift_prd (r : res (list (str * option str))) : res pv :=
  match r with Ok d => Ok (enc_prd d) | Err e => Err e end.


(* ---------- helper lemmas ---------- *)
Lemma sf_str_eqb_eq : forall a b, str_eqb a b = true <-> a = b.
Proof.
  induction a as [|x a IH]; destruct b as [|y b]; cbn [str_eqb]; split; intro H;
    try reflexivity; try discriminate.
  - apply andb_true_iff in H. destruct H as [H1 H2]. apply N.eqb_eq in H1.
    apply IH in H2. subst. reflexivity.
  - inversion H; subst. rewrite N.eqb_refl. apply IH. reflexivity.
Qed.
Lemma sf_str_eqb_refl : forall a, str_eqb a a = true.
Proof. intro a. apply sf_str_eqb_eq. reflexivity. Qed.

Lemma sf_aname_eqb_eq : forall a b, aname_eqb a b = true <-> a = b.
Proof.
  intros [u l] [u' l']. unfold aname_eqb. cbn [fst snd]. split; intro H.
  - apply andb_true_iff in H. destruct H as [H1 H2]. apply sf_str_eqb_eq in H2. subst.
    destruct u as [u|], u' as [u'|]; cbn [ostr_eqb] in H1; try discriminate; [|reflexivity].
    apply sf_str_eqb_eq in H1. subst. reflexivity.
  - inversion H; subst. rewrite sf_str_eqb_refl.
    destruct u' as [u'|]; cbn [ostr_eqb]; [rewrite sf_str_eqb_refl|]; reflexivity.
Qed.

Lemma sf_pv_eqb_str : forall a b, pv_eqb (VStr a) (VStr b) = str_eqb a b.
Proof. reflexivity. Qed.

(* the fields of an encoded element *)
Lemma sf_attr_tag : forall e ks,
  py_attr (enc_fel (AE e ks)) [116;97;103]%N = Ok (VStr (fclark (e_uri e, e_local e))).
Proof. reflexivity. Qed.
Lemma sf_attr_tag_AX : forall tl, py_attr (enc_fel (AX tl)) [116;97;103]%N = Ok VNone.
Proof. reflexivity. Qed.
Lemma sf_attr_localname : forall e ks,
  py_attr (enc_fel (AE e ks)) [108;111;99;97;108;110;97;109;101]%N = Ok (VStr (e_local e)).
Proof. reflexivity. Qed.
Lemma sf_attr_nsmap : forall e ks,
  py_attr (enc_fel (AE e ks)) [110;115;109;97;112]%N = Ok (enc_nsmap e).
Proof. reflexivity. Qed.
Lemma sf_attr_attrib : forall e ks,
  py_attr (enc_fel (AE e ks)) [97;116;116;114;105;98]%N
  = Ok (VDict None (map (fun kv => (VStr (fclark (fst kv)), VStr (snd kv))) (e_attrs e))).
Proof. reflexivity. Qed.
Lemma sf_iter_el : forall e ks, py_iter (enc_fel (AE e ks)) = Ok (map enc_fel ks).
Proof. reflexivity. Qed.

(* "w:NAME".split(":") *)
Lemma sf_split_no : forall c s, ~ In c s -> split_chr c s = [s].
Proof.
  induction s as [|x s IH]; intro H; cbn [split_chr]; [reflexivity|].
  destruct (N.eqb x c) eqn:E.
  - apply N.eqb_eq in E. exfalso. apply H. left. exact E.
  - rewrite IH; [reflexivity|]. intro Hi. apply H. right. exact Hi.
Qed.
Lemma sf_split_w : forall name, ~ In 58%N name ->
  split_chr 58%N ([119; 58]%N ++ name) = [[119]%N; name].
Proof.
  intros name H. cbn [app split_chr].
  change (N.eqb 119 58) with false. change (N.eqb 58 58) with true. cbv iota.
  rewrite (sf_split_no _ _ H). reflexivity.
Qed.

(* qn(elem, "w:NAME") = "{" + nsmap["w"] + "}NAME"; KeyError when w is unbound *)
Theorem src_qn_w : forall e ks name, ~ In 58%N name ->
  S_qn (enc_fel (AE e ks)) (VStr ([119; 58]%N ++ name))
  = match e_wuri e with
    | Some u => Ok (VStr (fclark (Some u, name)))
    | None => Err KeyError
    end.
Proof.
  intros e ks name Hn. unfold S_qn, py_split_on. rewrite (sf_split_w name Hn).
  cbn [binde map py_unpack2 py_iter bind]. rewrite sf_attr_nsmap. cbn [binde].
  unfold enc_nsmap. destruct (e_wuri e) as [u|].
  - cbn [app py_index assoc]. rewrite sf_pv_eqb_str, sf_str_eqb_refl.
    cbn [binde S_str_1 py_str py_add fn_result]. unfold fclark. cbn [fst snd].
    rewrite <- app_assoc. reflexivity.
  - destruct (e_ruri e) as [r|]; reflexivity.
Qed.

Lemma sf_qn_w_val : forall e ks,
  S_qn (enc_fel (AE e ks)) (VStr [119;58;118;97;108]%N)
  = match e_wuri e with
    | Some u => Ok (VStr (fclark (Some u, s_val)))
    | None => Err KeyError
    end.
Proof.
  intros e ks. apply (src_qn_w e ks s_val).
  unfold s_val. cbn [In]. intros [H|[H|[H|[]]]]; discriminate H.
Qed.

(* ---------- Clark notation is injective on braceless local names ---------- *)
Lemma sf_app125_inj : forall u u' l l', ~ In 125%N l -> ~ In 125%N l' ->
  u ++ 125%N :: l = u' ++ 125%N :: l' -> u = u' /\ l = l'.
Proof.
  induction u as [|x u IH]; intros [|y u'] l l' Hl Hl' H; cbn [app] in H.
  - inversion H. split; reflexivity.
  - inversion H as [[Hy Ht]]. exfalso. apply Hl. rewrite Ht. apply in_or_app. right. left. reflexivity.
  - inversion H as [[Hy Ht]]. exfalso. apply Hl'. rewrite <- Ht. apply in_or_app. right. left. reflexivity.
  - inversion H as [[Hy Ht]]. destruct (IH u' l l' Hl Hl' Ht) as [A B]. subst. split; reflexivity.
Qed.

Lemma sf_fclark_inj : forall a b, braceless (snd a) -> braceless (snd b) ->
  fclark a = fclark b -> a = b.
Proof.
  intros [[u|] l] [[u'|] l'] [Ha1 Ha2] [Hb1 Hb2] H; unfold fclark in H; cbn [fst snd] in *.
  - inversion H as [H1]. destruct (sf_app125_inj _ _ _ _ Ha2 Hb2 H1). subst. reflexivity.
  - exfalso. apply Hb1. rewrite <- H. left. reflexivity.
  - exfalso. apply Ha1. rewrite H. left. reflexivity.
  - subst. reflexivity.
Qed.

Lemma sf_fclark_eqb : forall a b, braceless (snd a) -> braceless (snd b) ->
  str_eqb (fclark a) (fclark b) = aname_eqb a b.
Proof.
  intros a b Ha Hb. destruct (aname_eqb a b) eqn:E.
  - apply sf_aname_eqb_eq in E. subst. apply sf_str_eqb_refl.
  - destruct (str_eqb (fclark a) (fclark b)) eqn:E2; [|reflexivity].
    apply sf_str_eqb_eq in E2. apply (sf_fclark_inj a b Ha Hb) in E2. subst.
    rewrite (proj2 (sf_aname_eqb_eq b b) eq_refl) in E. discriminate.
Qed.

Lemma sf_fclark_Pr : forall u l, fclark (u, l) ++ s_Pr = fclark (u, l ++ s_Pr).
Proof.
  intros [u|] l; unfold fclark; cbn [fst snd]; [|reflexivity].
  cbn [app]. rewrite <- app_assoc. reflexivity.
Qed.

Lemma sf_braceless_Pr : forall l, braceless l -> braceless (l ++ s_Pr).
Proof.
  intros l [H1 H2]. split; intro H; apply in_app_or in H; destruct H as [H|H];
    try (apply H1; exact H); try (apply H2; exact H);
    unfold s_Pr in H; cbn [In] in H; destruct H as [H|[H|[]]]; discriminate H.
Qed.

(* element.iterfind("{uri}local") = the model's find_children *)
Definition sf_tagp (q : pv) (k : pv) : bool :=
  match k with
  | VObj _ fs => match field_get k_tag_field fs with
                 | Some t => pv_eqb t q
                 | None => false
                 end
  | _ => false
  end.

Lemma sf_filter_kids : forall u l ks, braceless l -> kid_names_ok ks ->
  filter (sf_tagp (VStr (fclark (u, l)))) (map enc_fel ks) = map enc_fel (find_children u l ks).
Proof.
  intros u l ks Hl. unfold find_children. induction ks as [|k r IH]; intro Hk; [reflexivity|].
  cbn [map filter].
  assert (Hr : kid_names_ok r) by (intros e0 ks0 Hin; apply (Hk e0 ks0); right; exact Hin).
  destruct k as [e' ks'|tl].
  - change (sf_tagp (VStr (fclark (u, l))) (enc_fel (AE e' ks')))
      with (str_eqb (fclark (e_uri e', e_local e')) (fclark (u, l))).
    rewrite sf_fclark_eqb; [|exact (Hk e' ks' (or_introl eq_refl))|exact Hl].
    unfold aname_eqb, is_elem_named. cbn [fst snd].
    destruct (ostr_eqb (e_uri e') u && str_eqb (e_local e') l); cbn [map]; rewrite (IH Hr); reflexivity.
  - change (sf_tagp (VStr (fclark (u, l))) (enc_fel (AX tl))) with false.
    cbn [is_elem_named]. exact (IH Hr).
Qed.

Lemma sf_iterfind : forall e ks u l, braceless l -> kid_names_ok ks ->
  py_iterfind (enc_fel (AE e ks)) (VStr (fclark (u, l)))
  = Ok (VList (map enc_fel (find_children u l ks))).
Proof.
  intros e ks u l Hl Hk. unfold py_iterfind. rewrite sf_iter_el. cbn [bind].
  rewrite <- (sf_filter_kids u l ks Hl Hk). reflexivity.
Qed.

(* attrib.get(Clark name) = the model's alookup *)
Lemma sf_assoc_attrs : forall a (l : list (aname * str)),
  braceless (snd a) -> (forall k x, In (k, x) l -> braceless (snd k)) ->
  assoc (VStr (fclark a)) (map (fun kv => (VStr (fclark (fst kv)), VStr (snd kv))) l)
  = option_map VStr (alookup a l).
Proof.
  intros a l Ha. induction l as [|[k x] r IH]; intro H; cbn [map assoc alookup fst snd]; [reflexivity|].
  rewrite sf_pv_eqb_str, sf_fclark_eqb; [|exact Ha|exact (H k x (or_introl eq_refl))].
  destruct (aname_eqb a k); [reflexivity|].
  apply IH. intros k0 x0 Hin. apply (H k0 x0). right. exact Hin.
Qed.

(* the dict of sub-values *)
Lemma sf_assoc_set : forall k v (d : list (str * option str)),
  assoc_set (VStr k) (enc_opt v) (map (fun kv => (VStr (fst kv), enc_opt (snd kv))) d)
  = map (fun kv => (VStr (fst kv), enc_opt (snd kv))) (dict_set k v d).
Proof.
  intros k v d. induction d as [|[k' v'] r IH]; cbn [map assoc_set dict_set fst snd]; [reflexivity|].
  rewrite sf_pv_eqb_str. destruct (str_eqb k k') eqn:E.
  - apply sf_str_eqb_eq in E. subst. reflexivity.
  - cbn [map fst snd]. rewrite IH. reflexivity.
Qed.
Lemma sf_setitem : forall d k v,
  py_setitem (enc_prd d) (VStr k) (enc_opt v) = Ok (enc_prd (dict_set k v d)).
Proof. intros d k v. unfold enc_prd. cbn [py_setitem]. rewrite sf_assoc_set. reflexivity. Qed.
Lemma sf_assoc_prd : forall k (d : list (str * option str)),
  assoc (VStr k) (map (fun kv => (VStr (fst kv), enc_opt (snd kv))) d)
  = option_map enc_opt (dict_get k d).
Proof.
  intros k d. induction d as [|[k' v'] r IH]; cbn [map assoc dict_get fst snd]; [reflexivity|].
  rewrite sf_pv_eqb_str. destruct (str_eqb k k'); [reflexivity|exact IH].
Qed.

Lemma sf_find_children_in : forall u l ks k, In k (find_children u l ks) ->
  In k ks /\ exists pe pks, k = AE pe pks.
Proof.
  intros u l ks k H. unfold find_children in H. apply filter_In in H. destruct H as [H1 H2].
  split; [exact H1|]. destruct k as [pe pks|tl]; [|discriminate H2]. exists pe, pks. reflexivity.
Qed.

Print Assumptions src_qn_w.

