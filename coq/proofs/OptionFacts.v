(* OptionFacts.v — C19: options change only what they document;
   C11: the images attribute.

   `images a` and `core_properties a` (Content.v) are defined inside
   `Section Content` with the section variables `a : archive` and `o : opts`,
   but neither mentions `o`: after the section is closed their types are
   `images : archive -> res (list (str * N))` and
   `core_properties : archive -> res (option (list (str * option str)))`.
   They are functions of the archive alone BY THEIR TYPE, so no lemma is
   needed to state that the options do not influence them. *)
From Coq Require Import List NArith ZArith Bool Arith Lia.
From D2P Require Import Str Err Xml TableTypes Tables Fmt NumFmt Bullets Merge Collector Walk
     Iter Output Paths Package Content.
From D2P Require Import BulletsFacts TokFacts ShapeFacts FrameFacts.
Import ListNotations.
Open Scope N_scope.

(* ================================================================== *)
(* O3 (C11): images                                                     *)
(* ================================================================== *)
Definition img_key (f : frec) : str := path_name (f_target f).

(* the step function of the fold in [images] *)
Definition img_step (a : archive) (d : list (str * N)) (f : frec) : res (list (str * N)) :=
  match zread a (f_path f) with
  | None => Ok d
  | Some (MRaw id) => Ok (dict_set (path_name (f_target f)) id d)
  | Some (MXml _) => Err ModelError
  end.

Lemma images_unfold a :
  images a = (fs <- files a ;; foldM (img_step a) (files_of_type fs s_image) []).
Proof. reflexivity. Qed.

Lemma img_fold_sound a : forall L d r name id,
  foldM (img_step a) L d = Ok r -> dict_get name r = Some id ->
  dict_get name d = Some id
  \/ exists f, In f L /\ name = img_key f /\ zread a (f_path f) = Some (MRaw id).
Proof.
  induction L as [|f L IH]; intros d r name id H G.
  - cbn [foldM] in H. injection H as <-. left. exact G.
  - cbn [foldM] in H. bind_inv H as d1 E1.
    destruct (IH _ _ _ _ H G) as [G1|(f' & I' & K' & Z')].
    + unfold img_step in E1. destruct (zread a (f_path f)) as [[x|i]|] eqn:Z.
      * discriminate E1.
      * injection E1 as <-. rewrite dict_get_set in G1.
        destruct (str_eqb name (path_name (f_target f))) eqn:Ek.
        -- injection G1 as ->. right. exists f. split; [left; reflexivity|].
           split; [apply (proj1 (BulletsFacts.str_eqb_eq _ _) Ek)|exact Z].
        -- left. exact G1.
      * injection E1 as <-. left. exact G1.
    + right. exists f'. split; [right; exact I'|]. auto.
Qed.

(* every entry of the mapping is the payload of an existing member that an
   image relationship points to, under the base name of the target *)
Lemma images_sound : forall a fs r, files a = Ok fs -> images a = Ok r ->
  forall name id, dict_get name r = Some id ->
  exists f, In f (files_of_type fs s_image) /\ name = path_name (f_target f)
            /\ zread a (f_path f) = Some (MRaw id).
Proof.
  intros a fs r Hf Hi name id G. rewrite images_unfold, Hf in Hi. cbn [bind] in Hi.
  destruct (img_fold_sound a _ _ _ _ _ Hi G) as [G0|H]; [discriminate G0|exact H].
Qed.

Lemma img_fold_other a : forall L d r k,
  (forall f, In f L -> img_key f <> k) ->
  foldM (img_step a) L d = Ok r -> dict_get k r = dict_get k d.
Proof.
  induction L as [|f L IH]; intros d r k Hk H.
  - cbn [foldM] in H. injection H as <-. reflexivity.
  - cbn [foldM] in H. bind_inv H as d1 E1.
    rewrite (IH _ _ k (fun f' I' => Hk f' (or_intror I')) H).
    unfold img_step in E1. destruct (zread a (f_path f)) as [[x|i]|].
    + discriminate E1.
    + injection E1 as <-. rewrite dict_get_set.
      destruct (str_eqb k (path_name (f_target f))) eqn:Ek; [|reflexivity].
      apply BulletsFacts.str_eqb_eq in Ek. exfalso. apply (Hk f (or_introl eq_refl)).
      symmetry. exact Ek.
    + injection E1 as <-. reflexivity.
Qed.

Lemma img_fold_complete a : forall L d r f id,
  NoDup (map img_key L) -> In f L -> zread a (f_path f) = Some (MRaw id) ->
  foldM (img_step a) L d = Ok r -> dict_get (img_key f) r = Some id.
Proof.
  induction L as [|f0 L IH]; intros d r f id ND I Z H; [destruct I|].
  cbn [map] in ND. inversion ND as [|x l Hnot ND']; subst.
  cbn [foldM] in H. bind_inv H as d1 E1. destruct I as [->|I].
  - rewrite (img_fold_other a L d1 r (img_key f)); [| |exact H].
    + unfold img_step in E1. rewrite Z in E1. injection E1 as <-.
      rewrite dict_get_set. unfold img_key. rewrite BulletsFacts.str_eqb_refl. reflexivity.
    + intros f' I' Ek. apply Hnot. rewrite <- Ek. apply in_map. exact I'.
  - exact (IH _ _ _ _ ND' I Z H).
Qed.

(* when the base names are pairwise distinct, every image relationship whose
   member exists appears under its base name with that member's payload *)
Lemma images_complete : forall a fs r, files a = Ok fs -> images a = Ok r ->
  NoDup (map (fun f => path_name (f_target f)) (files_of_type fs s_image)) ->
  forall f id, In f (files_of_type fs s_image) -> zread a (f_path f) = Some (MRaw id) ->
  dict_get (path_name (f_target f)) r = Some id.
Proof.
  intros a fs r Hf Hi ND f id I Z. rewrite images_unfold, Hf in Hi. cbn [bind] in Hi.
  exact (img_fold_complete a _ _ _ f id ND I Z Hi).
Qed.

(* without the distinctness hypothesis: the LAST existing member with a given
   base name wins (dict_set keeps the first position but the last value) *)
Lemma img_fold_keep a : forall L d r k id,
  foldM (img_step a) L d = Ok r -> dict_get k d = Some id ->
  (forall f, In f L -> img_key f = k -> zread a (f_path f) = None) ->
  dict_get k r = Some id.
Proof.
  induction L as [|g L IH]; intros d r k id H G Hl.
  - cbn [foldM] in H. injection H as <-. exact G.
  - cbn [foldM] in H. bind_inv H as d2 E2.
    apply (IH d2 r k id H); [|intros f' I'; apply Hl; right; exact I'].
    unfold img_step in E2. destruct (zread a (f_path g)) as [[x|i]|] eqn:Zg.
    + discriminate E2.
    + injection E2 as <-. rewrite dict_get_set.
      destruct (str_eqb k (path_name (f_target g))) eqn:Ek; [|exact G].
      apply BulletsFacts.str_eqb_eq in Ek.
      rewrite (Hl g (or_introl eq_refl) (eq_sym Ek)) in Zg. discriminate Zg.
    + injection E2 as <-. exact G.
Qed.

Lemma img_fold_last a : forall L1 L2 d r f id,
  foldM (img_step a) (L1 ++ f :: L2) d = Ok r ->
  zread a (f_path f) = Some (MRaw id) ->
  (forall f', In f' L2 -> img_key f' = img_key f -> zread a (f_path f') = None) ->
  dict_get (img_key f) r = Some id.
Proof.
  induction L1 as [|f0 L1 IH]; intros L2 d r f id H Z Hl.
  - cbn [app foldM] in H. bind_inv H as d1 E1.
    unfold img_step in E1. rewrite Z in E1. injection E1 as <-.
    apply (img_fold_keep a L2 _ r (img_key f) id H); [|exact Hl].
    rewrite dict_get_set. unfold img_key. rewrite BulletsFacts.str_eqb_refl. reflexivity.
  - cbn [app foldM] in H. bind_inv H as d1 E1. exact (IH _ _ _ _ _ H Z Hl).
Qed.

Lemma images_last_wins : forall a fs r L1 f L2 id, files a = Ok fs -> images a = Ok r ->
  files_of_type fs s_image = L1 ++ f :: L2 ->
  zread a (f_path f) = Some (MRaw id) ->
  (forall f', In f' L2 -> path_name (f_target f') = path_name (f_target f) ->
              zread a (f_path f') = None) ->
  dict_get (path_name (f_target f)) r = Some id.
Proof.
  intros a fs r L1 f L2 id Hf Hi HL Z Hl. rewrite images_unfold, Hf in Hi. cbn [bind] in Hi.
  rewrite HL in Hi. exact (img_fold_last a L1 L2 [] r f id Hi Z Hl).
Qed.

(* image relationships whose member is missing are skipped without error:
   the result is the same fold over the relationships whose member exists,
   and it succeeds whenever no image member was delivered as parsed XML
   (the ModelError branch: the harness sends images as raw payloads) *)
Definition img_present (a : archive) (f : frec) : bool :=
  match zread a (f_path f) with None => false | Some _ => true end.

Lemma img_fold_filter a : forall L d,
  foldM (img_step a) L d = foldM (img_step a) (filter (img_present a) L) d.
Proof.
  induction L as [|f L IH]; intro d; [reflexivity|].
  cbn [filter]. unfold img_present at 1. destruct (zread a (f_path f)) as [m|] eqn:Z.
  - cbn [foldM]. destruct (img_step a d f) as [d1|x]; [cbn [bind]; apply IH|reflexivity].
  - cbn [foldM]. unfold img_step at 1. rewrite Z. cbn [bind]. apply IH.
Qed.

Lemma img_fold_total a : forall L d,
  (forall f x, In f L -> zread a (f_path f) <> Some (MXml x)) ->
  exists r, foldM (img_step a) L d = Ok r.
Proof.
  induction L as [|f L IH]; intros d Hx; [exists d; reflexivity|].
  cbn [foldM]. unfold img_step at 1.
  destruct (zread a (f_path f)) as [[x|i]|] eqn:Z.
  - exfalso. exact (Hx f x (or_introl eq_refl) Z).
  - cbn [bind]. apply IH. intros f' x I'. apply Hx. right. exact I'.
  - cbn [bind]. apply IH. intros f' x I'. apply Hx. right. exact I'.
Qed.

Lemma images_skips_missing : forall a fs, files a = Ok fs ->
  images a = foldM (img_step a) (filter (img_present a) (files_of_type fs s_image)) []
  /\ ((forall f x, In f (files_of_type fs s_image) -> zread a (f_path f) <> Some (MXml x)) ->
      exists r, images a = Ok r)
  /\ (forall r name, images a = Ok r ->
        (forall f, In f (files_of_type fs s_image) -> name = path_name (f_target f) ->
                   zread a (f_path f) = None) ->
        dict_get name r = None).
Proof.
  intros a fs Hf. rewrite images_unfold, Hf. cbn [bind]. split; [apply img_fold_filter|].
  split; [apply img_fold_total|].
  intros r name Hi Hm. destruct (dict_get name r) as [id|] eqn:G; [|reflexivity].
  destruct (img_fold_sound a _ _ _ _ _ Hi G) as [G0|(f & I & K & Z)]; [discriminate G0|].
  rewrite (Hm f I K) in Z. discriminate Z.
Qed.

(* the keys of the mapping are pairwise distinct, so membership of a pair is
   the same as lookup *)
Lemma dict_set_keys {V} (k : str) (v : V) : forall d,
  NoDup (map fst d) -> NoDup (map fst (dict_set k v d))
  /\ (forall x, In x (map fst (dict_set k v d)) -> x = k \/ In x (map fst d)).
Proof.
  induction d as [|[k0 v0] d IH]; intro ND; cbn [dict_set].
  - split; [cbn; constructor; [intros []|constructor]|]. cbn. intros x [<-|[]]. left. reflexivity.
  - destruct (str_eqb k k0) eqn:E.
    + apply BulletsFacts.str_eqb_eq in E. subst k0. split; [exact ND|].
      cbn [map fst]. intros x Hx. right. exact Hx.
    + apply BulletsFacts.str_eqb_neq in E.
      cbn [map fst] in ND |- *. inversion ND as [|x l Hnot ND']; subst.
      destruct (IH ND') as [N1 N2]. split.
      * constructor; [|exact N1]. intro Hin. destruct (N2 _ Hin) as [->|Hin']; [apply E; reflexivity|].
        apply Hnot, Hin'.
      * intros x [<-|Hx]; [right; left; reflexivity|].
        destruct (N2 _ Hx) as [->|Hx']; [left; reflexivity|right; right; exact Hx'].
Qed.

Lemma img_fold_nodup a : forall L d r,
  NoDup (map fst d) -> foldM (img_step a) L d = Ok r -> NoDup (map fst r).
Proof.
  induction L as [|f L IH]; intros d r ND H.
  - cbn [foldM] in H. injection H as <-. exact ND.
  - cbn [foldM] in H. bind_inv H as d1 E1. apply (IH d1 r); [|exact H].
    unfold img_step in E1. destruct (zread a (f_path f)) as [[x|i]|].
    + discriminate E1.
    + injection E1 as <-. apply dict_set_keys. exact ND.
    + injection E1 as <-. exact ND.
Qed.

Lemma dict_get_In {V} : forall (d : list (str * V)) k v,
  NoDup (map fst d) -> In (k, v) d -> dict_get k d = Some v.
Proof.
  induction d as [|[k0 v0] d IH]; intros k v ND I; [destruct I|].
  cbn [map fst] in ND. inversion ND as [|x l Hnot ND']; subst.
  cbn [dict_get]. destruct I as [E|I].
  - injection E as -> ->. rewrite BulletsFacts.str_eqb_refl. reflexivity.
  - destruct (str_eqb k k0) eqn:E.
    + apply BulletsFacts.str_eqb_eq in E. subst k0. exfalso. apply Hnot.
      change k with (fst (k, v)). apply in_map. exact I.
    + apply IH; assumption.
Qed.

Lemma images_keys_distinct : forall a r, images a = Ok r -> NoDup (map fst r).
Proof.
  intros a r Hi. rewrite images_unfold in Hi. bind_inv Hi as fs Hf.
  apply (img_fold_nodup a (files_of_type fs s_image) [] r); [constructor|exact Hi].
Qed.

(* the statement of the task with `In (name, id) r` *)
Lemma images_spec : forall a fs r, files a = Ok fs -> images a = Ok r ->
  forall name id, In (name, id) r ->
  exists f, In f (files_of_type fs s_image) /\ name = path_name (f_target f)
            /\ zread a (f_path f) = Some (MRaw id).
Proof.
  intros a fs r Hf Hi name id I. apply (images_sound a fs r Hf Hi).
  apply dict_get_In; [exact (images_keys_distinct a r Hi)|exact I].
Qed.

(* ================================================================== *)
(* O2 (C19): the html flag reaches the walk only through env_x2h        *)
(* ================================================================== *)
Lemma html_flag_only_in_x2h : forall a fs o1 o2 f, o_dup o1 = o_dup o2 ->
  forall v1 v2, part_env a fs o1 f = Ok v1 -> part_env a fs o2 f = Ok v2 ->
  env_rels v1 = env_rels v2 /\ env_numtbl v1 = env_numtbl v2 /\ env_dup v1 = env_dup v2.
Proof.
  intros a fs o1 o2 f Hd v1 v2 H1 H2. unfold part_env in H1, H2.
  bind_inv H1 as rels E1. bind_inv H1 as nt E2. injection H1 as <-.
  injection H2 as <-. cbn. auto.
Qed.

(* and env_x2h itself is a function of the flag alone *)
Lemma part_env_x2h : forall a fs o f v, part_env a fs o f = Ok v ->
  env_x2h v = if o_html o then xml2html_table else [].
Proof.
  intros a fs o f v H. unfold part_env in H.
  bind_inv H as rels E1. bind_inv H as nt E2. injection H as <-. reflexivity.
Qed.

(* whether part_env succeeds does not depend on the options at all *)
Lemma part_env_total_indep : forall a fs o1 o2 f v1, part_env a fs o1 f = Ok v1 ->
  exists v2, part_env a fs o2 f = Ok v2.
Proof.
  intros a fs o1 o2 f v1 H. unfold part_env in H |- *.
  bind_inv H as rels E1. bind_inv H as nt E2. eexists. reflexivity.
Qed.

(* ================================================================== *)
(* O1 (C19): the structural fields of a paragraph                       *)
(* ================================================================== *)
(* the lineage of a simple paragraph is the lineage of the state after the
   two set_caret calls that precede its creation; both depend only on the
   element's local name and the incoming state *)
Lemma simple_par_lineage_caret : forall v e ks path s s' ps,
  simple_par (AE e ks) = true -> walk v path (AE e ks) s = Ok s' ->
  pars_at 4%nat (c_tree s) = Ok ps ->
  exists p s1 s1a, pars_at 4%nat (c_tree s') = Ok (ps ++ [p])
    /\ set_caret (Some 4%nat) (Some (e_local e)) s = Ok s1
    /\ set_caret (Some 4%nat) (Some (e_local e)) s1 = Ok s1a
    /\ p_lineage p = c_lineage s1a.
Proof.
  intros v e ks path s s' ps Hsp H Hps.
  cbn [simple_par] in Hsp. apply andb_true_iff in Hsp. destruct Hsp as [Ht Hks].
  pose proof (proj1 (BulletsFacts.str_eqb_eq _ _) Ht) as Htag.
  assert (Hd : elem_depth (AE e ks) = Some 4%nat).
  { unfold elem_depth. rewrite min_par_depth_AE, Htag. reflexivity. }
  rewrite walk_AE in H. cbv zeta in H. rewrite Hd in H.
  bind_inv H as s1 E1. pose proof E1 as E1'.
  apply set_caret_frame in E1. destruct E1 as ((O1 & Q1 & R1 & C1) & K1 & D1 & L1).
  rewrite Htag in H. change (str_eqb tag_PARAGRAPH tag_HYPERLINK) with false in H.
  cbv iota in H. cbn [bind] in H.
  bind_inv H as s2r Eo. destruct s2r as [s2 rec].
  unfold open_tag in Eo. cbv zeta in Eo. rewrite Ht in Eo.
  bind_inv Eo as s1b Ecp.
  destruct (get_par_number (to_numtable v) (c_counters s1b) (get_bullet_fmt (AE e ks)))
    as [cs number] eqn:Epn.
  bind_inv Eo as bl Ebl. bind_inv Eo as s2a Eins.
  destruct (c_open s2a) as [|p2 rest2] eqn:Eo2; [discriminate Eo|]. injection Eo as <- <-.
  unfold commence_paragraph in Ecp.
  bind_inv Ecp as s1a Ec1. pose proof Ec1 as Ec1'. bind_inv Ecp as hs Ehs. bind_inv Ecp as pst Epst.
  cbv zeta in Ecp. injection Ecp as <-.
  apply set_caret_frame in Ec1. destruct Ec1 as ((O1a & Q1a & R1a & C1a) & K1a & D1a & L1a).
  match type of Eins with insert_text_as_new_run _ _ ?st = _ =>
    destruct (realizes_inv _ _ st _ _ _ (realizes_insert v (raw bl))
                (eq_refl : c_open st = _ :: _) Eins)
      as (em0 & rs0 & Eem0 & -> & T0)
  end.
  cbn [c_open set_open] in Eo2. injection Eo2 as <- <-.
  bind_inv H as s3 Ek.
  match type of Ek with kids_loop _ _ _ _ ?st = _ =>
    destruct (realizes_inv _ _ _ _ _ _
                (kids_loop_realizes v path ks (plain_kids_realizable v ks Hks) O)
                (eq_refl : c_open st = _ :: _) Ek)
      as (em & rs3 & Eem & -> & T3)
  end.
  bind_inv H as s4 Ec. unfold close_tag in Ec. cbv zeta in Ec. rewrite Ht in Ec.
  unfold conclude_paragraph in Ec. cbn [c_open set_open] in Ec.
  bind_inv Ec as s3a Ec3. bind_inv Ec as t Et. injection Ec as <-.
  apply set_caret_frame in Ec3. destruct Ec3 as ((O3 & Q3 & R3 & C3) & K3 & D3 & L3).
  assert (Hp3 : pars_at 4%nat (c_tree s3a) = Ok ps).
  { apply K3. cbn [c_tree set_open set_counters set_queued]. apply K1a, K1, Hps. }
  pose proof (spine_app_NP_pars 3%nat _ _ _ _ Et Hp3) as Hp4.
  apply set_caret_frame in H. destruct H as ((O4 & Q4 & R4 & C4) & K4 & D4 & L4).
  cbn [c_tree set_tree] in K4.
  eexists. exists s1, s1a. split; [apply K4; exact Hp4|].
  split; [first [exact E1'|reflexivity]|]. split; [first [exact Ec1'|reflexivity]|]. reflexivity.
Qed.

Lemma to_numtable_ext v1 v2 : env_numtbl v1 = env_numtbl v2 -> to_numtable v1 = to_numtable v2.
Proof. unfold to_numtable. intros ->. reflexivity. Qed.

Lemma par_structure_independent : forall v1 v2 e ks1 ks2 path s s1 s2 ps,
  env_numtbl v1 = env_numtbl v2 ->
  simple_par (AE e ks1) = true -> simple_par (AE e ks2) = true ->
  get_pStyle e ks1 = get_pStyle e ks2 -> get_bullet_fmt (AE e ks1) = get_bullet_fmt (AE e ks2) ->
  Inv s -> pars_at 4%nat (c_tree s) = Ok ps ->
  walk v1 path (AE e ks1) s = Ok s1 -> walk v2 path (AE e ks2) s = Ok s2 ->
  exists p1 p2, pars_at 4%nat (c_tree s1) = Ok (ps ++ [p1]) /\ pars_at 4%nat (c_tree s2) = Ok (ps ++ [p2])
    /\ p_elem p1 = p_elem p2 /\ p_style p1 = p_style p2 /\ p_lineage p1 = p_lineage p2
    /\ p_listpos p1 = p_listpos p2
    /\ c_counters s1 = c_counters s2 /\ c_depth s1 = c_depth s2 /\ c_open s1 = c_open s2.
Proof.
  intros v1 v2 e ks1 ks2 path s s1 s2 ps Hnt Hs1 Hs2 Hst Hfmt HI Hps W1 W2.
  destruct (simple_par_walk v1 e ks1 path s s1 ps Hs1 HI W1 Hps)
    as (p1 & P1 & O1 & _ & _ & D1 & El1 & _ & St1 & _ & (bl1 & n1 & cs1 & N1 & _ & C1 & Lp1 & _)).
  destruct (simple_par_walk v2 e ks2 path s s2 ps Hs2 HI W2 Hps)
    as (p2 & P2 & O2 & _ & _ & D2 & El2 & _ & St2 & _ & (bl2 & n2 & cs2 & N2 & _ & C2 & Lp2 & _)).
  destruct (simple_par_lineage_caret v1 e ks1 path s s1 ps Hs1 W1 Hps)
    as (p1' & sa & sb & P1' & Ea & Eb & L1).
  destruct (simple_par_lineage_caret v2 e ks2 path s s2 ps Hs2 W2 Hps)
    as (p2' & sa' & sb' & P2' & Ea' & Eb' & L2).
  rewrite P1 in P1'. injection P1' as P1'. apply app_inj_tail in P1'. destruct P1' as [_ <-].
  rewrite P2 in P2'. injection P2' as P2'. apply app_inj_tail in P2'. destruct P2' as [_ <-].
  rewrite Ea in Ea'. injection Ea' as <-. rewrite Eb in Eb'. injection Eb' as <-.
  rewrite (to_numtable_ext v1 v2 Hnt), Hfmt, N2 in N1. injection N1 as <- <-.
  exists p1, p2. split; [exact P1|]. split; [exact P2|].
  split; [rewrite El1, El2; reflexivity|].
  split; [rewrite Hst, St2 in St1; injection St1 as <-; reflexivity|].
  split; [rewrite L1, L2; reflexivity|].
  split; [rewrite Lp1, Lp2, Hfmt; reflexivity|].
  split; [rewrite C1, C2; reflexivity|].
  split; [rewrite D1, D2; reflexivity|].
  rewrite O1, O2. reflexivity.
Qed.

Print Assumptions images_sound.
Print Assumptions images_complete.
Print Assumptions images_last_wins.
Print Assumptions images_skips_missing.
Print Assumptions images_keys_distinct.
Print Assumptions images_spec.
Print Assumptions html_flag_only_in_x2h.
Print Assumptions part_env_x2h.
Print Assumptions simple_par_lineage_caret.
Print Assumptions par_structure_independent.
