(* SourceIter.v — iterators.enum_at_depth / iter_at_depth, the eight named helpers and
   docx_text.flatten_text AS TRANSLATED FROM THE SOURCE TEXT (gen/Source.v) are equal to the
   hand-written model (model/Iter.v, Output.v) that the C20 / C03 theorems are about. *)
From Coq Require Import List NArith ZArith Bool Arith Lia.
From D2P Require Import Str Err Iter Output PyVal Source SourceBase ViewFacts.
Import ListNotations.

(* leaves that cannot be iterated over (numbers, records): then the two agree on EVERY
   nested list and EVERY depth, error outcomes included.  (A str leaf can be iterated in
   Python - character by character - which the model's TypeError does not describe; C20
   quantifies over lists whose items above the requested depth are lists.) *)
Definition atomic_leaves {A} (f : A -> pv) : Prop := forall a, py_iter (f a) = Err TypeError.

(* ---------- helpers ---------- *)
Definition enc_pair {A} (f : A -> pv) (ax : list nat * rose A) : pv :=
  VTuple [enc_addr (fst ax); enc_rose f (snd ax)].

Lemma enc_enum_pair A (f : A -> pv) l : enc_enum f l = VList (map (enc_pair f) l).
Proof. reflexivity. Qed.

Definition inner_body (vi : pv) : pv -> pv -> out pv := fun t14 acc_ =>
  '(t15, t16) <~ py_unpack2 t14 ;;;
  t17 <~ py_star t15 ;;;
  acc_ <~ py_append acc_ (VTuple [(VTuple ([vi] ++ t17)); t16]) ;;;
  Nx acc_.

Definition outer_body (rec : pv -> res pv) : pv -> pv -> out pv := fun t10 acc_ =>
  '(t11, t12) <~ py_unpack2 t10 ;;;
  t13 <~ rec t12 ;;;
  acc_ <~~ py_for t13 (inner_body t11) acc_ ;;;
  Nx acc_.

Lemma inner_loop A (f : A -> pv) (i : nat) : forall ys acc0,
  for_go (inner_body (VInt (Z.of_nat i))) (map (enc_pair f) ys) (VList acc0)
  = Nx (VList (acc0 ++ map (enc_pair f) (map (fun jy => (i :: fst jy, snd jy)) ys))).
Proof.
  induction ys as [|[a x] ys IH]; intros acc0.
  - cbn. rewrite app_nil_r. reflexivity.
  - cbn [map for_go]. 
    change (inner_body (VInt (Z.of_nat i)) (enc_pair f (a, x)) (VList acc0))
      with (Nx (S:=pv) (VList (acc0 ++ [enc_pair f (i :: a, x)]))).
    cbn [bindo]. rewrite IH. rewrite <- app_assoc. reflexivity.
Qed.

Lemma outer_loop A (f : A -> pv) (rec : pv -> res pv) inner : forall l,
  Forall (fun x => rec (enc_rose f x) = lift_enum f (inner x)) l ->
  forall i0 acc0,
  for_go (outer_body rec) (enum_go (Z.of_nat i0) (map (enc_rose f) l)) (VList acc0) =
  match enum_from inner i0 l with
  | Ok r => Nx (VList (acc0 ++ map (enc_pair f) r))
  | Err e => Ex e
  end.
Proof.
  induction l as [|x l IH]; intros HF i0 acc0.
  - cbn. rewrite app_nil_r. reflexivity.
  - inversion HF as [|? ? Hx Hl]; subst.
    cbn [map enum_go for_go enum_from].
    change (outer_body rec (VTuple [VInt (Z.of_nat i0); enc_rose f x]) (VList acc0))
      with (t13 <~ rec (enc_rose f x) ;;;
            acc_ <~~ py_for t13 (inner_body (VInt (Z.of_nat i0))) (VList acc0) ;;; Nx acc_).
    rewrite Hx. destruct (inner x) as [ys|e]; cbn [lift_enum binde bind bindo]; [|reflexivity].
    rewrite enc_enum_pair.
    change (py_for (VList (map (enc_pair f) ys)) (inner_body (VInt (Z.of_nat i0))) (VList acc0))
      with (for_go (inner_body (VInt (Z.of_nat i0))) (map (enc_pair f) ys) (VList acc0)).
    rewrite inner_loop. cbn [bindo].
    replace (Z.of_nat i0 + 1)%Z with (Z.of_nat (S i0)) by lia.
    rewrite (IH Hl).
    destruct (enum_from inner (S i0) l) as [rest|e]; [|reflexivity].
    cbn [bind]. rewrite map_app, app_assoc. reflexivity.
Qed.

Lemma comp1 A (f : A -> pv) (body : pv -> res (list pv)) :
  (forall i x, body (VTuple [i; x]) = Ok [VTuple [VTuple [i]; x]]) ->
  forall l i0,
  comp_go always body (enum_go (Z.of_nat i0) (map (enc_rose f) l))
  = Ok (map (enc_pair f) (map (fun ix => ([fst ix], snd ix)) (combine (seq i0 (length l)) l))).
Proof.
  intros Hb. induction l as [|x l IH]; intros i0.
  - reflexivity.
  - cbn [map enum_go comp_go length seq combine always bind py_truth fst snd].
    rewrite Hb. replace (Z.of_nat i0 + 1)%Z with (Z.of_nat (S i0)) by lia.
    rewrite IH. reflexivity.
Qed.

Lemma comp_snd A (f : A -> pv) (body : pv -> res (list pv)) :
  (forall a x, body (VTuple [a; x]) = Ok [x]) ->
  forall l, comp_go always body (map (enc_pair f) l) = Ok (map (enc_rose f) (map snd l)).
Proof.
  intros Hb. induction l as [|[a x] l IH].
  - reflexivity.
  - cbn [map comp_go always bind py_truth snd]. unfold enc_pair at 1. rewrite Hb. rewrite IH. reflexivity.
Qed.

Theorem src_enum_at_depth_bad : forall v z fuel,
  (0 < fuel)%nat -> (z < 1 \/ 5 < z)%Z -> S_enum_at_depth fuel v (VInt z) = Err ValueError.
Proof.
  intros v z fuel Hf Hz. destruct fuel as [|fuel']; [lia|].
  assert (E1 : (z =? 1)%Z = false) by (apply Z.eqb_neq; lia).
  assert (E2 : (z =? 2)%Z = false) by (apply Z.eqb_neq; lia).
  assert (E3 : (z =? 3)%Z = false) by (apply Z.eqb_neq; lia).
  assert (E4 : (z =? 4)%Z = false) by (apply Z.eqb_neq; lia).
  assert (E5 : (z =? 5)%Z = false) by (apply Z.eqb_neq; lia).
  cbn -[Z.eqb]. rewrite E1. cbn -[Z.eqb]. rewrite E2. cbn -[Z.eqb]. rewrite E3. cbn -[Z.eqb]. rewrite E4. cbn -[Z.eqb]. rewrite E5. reflexivity.
Qed.

Ltac step_case IH fuel' f l Hok k :=
  let HF := fresh "HF" in
  assert (HF : Forall (fun x => S_enum_at_depth fuel' (enc_rose f x) (VInt (Z.of_nat (S k)))
                               = lift_enum f (enum_depth k x)) l);
  [ apply Forall_forall; intros x Hx; apply IH; [lia|lia|];
    destruct Hok as [Hat|[j Hd]]; [left; exact Hat|right; exists j];
    apply deep_RL in Hd; rewrite Forall_forall in Hd; exact (Hd x Hx)
  | pose proof (outer_loop _ f (fun x => S_enum_at_depth fuel' x (VInt (Z.of_nat (S k)))) (enum_depth k) l HF 0%nat []) as HL;
    change (enum_depth (S k) (RL l)) with (enum_from (enum_depth k) 0 l);
    destruct (enum_from (enum_depth k) 0 l);
    cbn;
    match goal with |- context[for_go ?b ?e ?s] =>
      change (for_go b e s) with
        (for_go (outer_body (fun x => S_enum_at_depth fuel' x (VInt (Z.of_nat (S k)))))
                (enum_go (Z.of_nat 0) (map (enc_rose f) l)) (VList []))
    end;
    rewrite HL; reflexivity ].

Lemma enum_depth_src A (f : A -> pv) : forall k fuel t,
  (k <= 4)%nat -> (k < fuel)%nat -> (atomic_leaves f \/ exists j, deep (S k + j) t) ->
  S_enum_at_depth fuel (enc_rose f t) (VInt (Z.of_nat (S k))) = lift_enum f (enum_depth k t).
Proof.
  induction k as [|k IH]; intros fuel t Hk Hf Hok; (destruct fuel as [|fuel']; [lia|]); destruct t as [l|a].
  - cbn.
    match goal with |- context[comp_go always ?b ?e] =>
      rewrite (comp1 _ f b (fun i x => eq_refl) l 0%nat : comp_go always b e = _)
    end.
    reflexivity.
  - destruct Hok as [Hat|[j Hd]]; [|destruct Hd].
    cbn. unfold py_enumerate. rewrite Hat. reflexivity.
  - destruct k as [|[|[|[|k]]]]; [| | | |lia].
    + step_case IH fuel' f l Hok 0%nat.
    + step_case IH fuel' f l Hok 1%nat.
    + step_case IH fuel' f l Hok 2%nat.
    + step_case IH fuel' f l Hok 3%nat.
  - destruct Hok as [Hat|[j Hd]]; [|destruct Hd].
    destruct k as [|[|[|[|k]]]]; [| | | |lia];
    cbn; unfold py_enumerate; rewrite Hat; reflexivity.
Qed.

Theorem src_enum_at_depth : forall A (f : A -> pv) (t : rose A) (d : nat) fuel,
  atomic_leaves f -> (5 < fuel)%nat ->
  S_enum_at_depth fuel (enc_rose f t) (VInt (Z.of_nat d)) = lift_enum f (enum_at_depth t d).
Proof.
  intros A f t d fuel Hat Hf.
  destruct d as [|[|[|[|[|[|d]]]]]].
  - apply src_enum_at_depth_bad; [lia|left; reflexivity].
  - apply (enum_depth_src A f 0%nat); [lia|lia|left; exact Hat].
  - apply (enum_depth_src A f 1%nat); [lia|lia|left; exact Hat].
  - apply (enum_depth_src A f 2%nat); [lia|lia|left; exact Hat].
  - apply (enum_depth_src A f 3%nat); [lia|lia|left; exact Hat].
  - apply (enum_depth_src A f 4%nat); [lia|lia|left; exact Hat].
  - change (enum_at_depth t (S (S (S (S (S (S d))))))) with (@Err (list (list nat * rose A)) ValueError).
    apply src_enum_at_depth_bad; [lia|right; lia].
Qed.

Theorem src_enum_at_depth_deep : forall A (f : A -> pv) (t : rose A) (d k : nat) fuel,
  (1 <= d <= 5)%nat -> deep (d + k) t -> (5 < fuel)%nat ->
  S_enum_at_depth fuel (enc_rose f t) (VInt (Z.of_nat d)) = lift_enum f (enum_at_depth t d).
Proof.
  intros A f t d k fuel Hd Hdeep Hf.
  destruct d as [|d]; [lia|].
  replace (enum_at_depth t (S d)) with (enum_depth d t)
    by (destruct d as [|[|[|[|[|d]]]]]; try reflexivity; lia).
  apply enum_depth_src; [lia|lia|right; exists k; exact Hdeep].
Qed.

(* ---------- iter_at_depth ---------- *)
Lemma src_iter_at_depth_bad : forall v z fuel,
  (z < 1 \/ 5 < z)%Z -> S_iter_at_depth fuel v (VInt z) = Err ValueError.
Proof.
  intros v z fuel Hz.
  assert (E1 : (z =? 1)%Z = false) by (apply Z.eqb_neq; lia).
  assert (E2 : (z =? 2)%Z = false) by (apply Z.eqb_neq; lia).
  assert (E3 : (z =? 3)%Z = false) by (apply Z.eqb_neq; lia).
  assert (E4 : (z =? 4)%Z = false) by (apply Z.eqb_neq; lia).
  assert (E5 : (z =? 5)%Z = false) by (apply Z.eqb_neq; lia).
  unfold S_iter_at_depth.
  cbn -[Z.eqb S_enum_at_depth]. rewrite E1. cbn -[Z.eqb S_enum_at_depth]. rewrite E2.
  cbn -[Z.eqb S_enum_at_depth]. rewrite E3. cbn -[Z.eqb S_enum_at_depth]. rewrite E4.
  cbn -[Z.eqb S_enum_at_depth]. rewrite E5. reflexivity.
Qed.

Lemma iter_depth_src A (f : A -> pv) : forall k fuel t,
  (k <= 4)%nat -> (k < fuel)%nat -> (atomic_leaves f \/ exists j, deep (S k + j) t) ->
  S_iter_at_depth fuel (enc_rose f t) (VInt (Z.of_nat (S k)))
  = lift_items f (r <- enum_depth k t ;; Ok (map snd r)).
Proof.
  intros k fuel t Hk Hf Hok.
  pose proof (enum_depth_src A f k fuel t Hk Hf Hok) as HE.
  remember (enum_depth k t) as R eqn:ER; clear ER.
  destruct k as [|[|[|[|[|k]]]]]; [| | | | |lia];
  unfold S_iter_at_depth;
  cbn -[S_enum_at_depth] in HE |- *;
  rewrite HE;
  (destruct R as [r|e]; [|reflexivity]);
  cbn -[S_enum_at_depth];
  match goal with |- context[comp_go always ?b ?e] =>
    rewrite (comp_snd _ f b (fun a x => eq_refl) r : comp_go always b e = _)
  end;
  reflexivity.
Qed.

Lemma iter_at_depth_S A (t : rose A) k : (k <= 4)%nat ->
  iter_at_depth t (S k) = (r <- enum_depth k t ;; Ok (map snd r)).
Proof. intros Hk. destruct k as [|[|[|[|[|k]]]]]; try reflexivity; lia. Qed.

Theorem src_iter_at_depth : forall A (f : A -> pv) (t : rose A) (d : nat) fuel,
  atomic_leaves f -> (5 < fuel)%nat ->
  S_iter_at_depth fuel (enc_rose f t) (VInt (Z.of_nat d)) = lift_items f (iter_at_depth t d).
Proof.
  intros A f t d fuel Hat Hf.
  destruct (le_lt_dec d 0) as [H0|H0]; [|destruct (le_lt_dec d 5) as [H5|H5]].
  - assert (d = 0)%nat by lia; subst. apply src_iter_at_depth_bad. left; reflexivity.
  - destruct d as [|k]; [lia|]. rewrite iter_at_depth_S by lia.
    apply iter_depth_src; [lia|lia|left; exact Hat].
  - replace (iter_at_depth t d) with (@Err (list (rose A)) ValueError)
      by (destruct d as [|[|[|[|[|[|d]]]]]]; try reflexivity; lia).
    apply src_iter_at_depth_bad. right; lia.
Qed.

Theorem src_iter_at_depth_deep : forall A (f : A -> pv) (t : rose A) (d k : nat) fuel,
  (1 <= d <= 5)%nat -> deep (d + k) t -> (5 < fuel)%nat ->
  S_iter_at_depth fuel (enc_rose f t) (VInt (Z.of_nat d)) = lift_items f (iter_at_depth t d).
Proof.
  intros A f t d k fuel Hd Hdeep Hf.
  destruct d as [|d]; [lia|]. rewrite iter_at_depth_S by lia.
  apply iter_depth_src; [lia|lia|right; exists k; exact Hdeep].
Qed.

Theorem src_named_helpers : forall A (f : A -> pv) (t : rose A) fuel,
  atomic_leaves f -> (5 < fuel)%nat ->
  S_iter_tables fuel (enc_rose f t) = lift_items f (iter_tables t) /\
  S_iter_rows fuel (enc_rose f t) = lift_items f (iter_rows t) /\
  S_iter_cells fuel (enc_rose f t) = lift_items f (iter_cells t) /\
  S_iter_paragraphs fuel (enc_rose f t) = lift_items f (iter_paragraphs t) /\
  S_enum_tables fuel (enc_rose f t) = lift_enum f (enum_tables t) /\
  S_enum_rows fuel (enc_rose f t) = lift_enum f (enum_rows t) /\
  S_enum_cells fuel (enc_rose f t) = lift_enum f (enum_cells t) /\
  S_enum_paragraphs fuel (enc_rose f t) = lift_enum f (enum_paragraphs t).
Proof.
  intros A f t fuel Hat Hf.
  pose proof (src_iter_at_depth A f t 1 fuel Hat Hf) as I1.
  pose proof (src_iter_at_depth A f t 2 fuel Hat Hf) as I2.
  pose proof (src_iter_at_depth A f t 3 fuel Hat Hf) as I3.
  pose proof (src_iter_at_depth A f t 4 fuel Hat Hf) as I4.
  pose proof (src_enum_at_depth A f t 1 fuel Hat Hf) as E1.
  pose proof (src_enum_at_depth A f t 2 fuel Hat Hf) as E2.
  pose proof (src_enum_at_depth A f t 3 fuel Hat Hf) as E3.
  pose proof (src_enum_at_depth A f t 4 fuel Hat Hf) as E4.
  change (Z.of_nat 1) with 1%Z in *. change (Z.of_nat 2) with 2%Z in *.
  change (Z.of_nat 3) with 3%Z in *. change (Z.of_nat 4) with 4%Z in *.
  unfold S_iter_tables, S_iter_rows, S_iter_cells, S_iter_paragraphs,
    S_enum_tables, S_enum_rows, S_enum_cells, S_enum_paragraphs,
    iter_tables, iter_rows, iter_cells, iter_paragraphs,
    enum_tables, enum_rows, enum_cells, enum_paragraphs.
  rewrite I1, I2, I3, I4, E1, E2, E3, E4.
  repeat split.
  - destruct (iter_at_depth t 1); reflexivity.
  - destruct (iter_at_depth t 2); reflexivity.
  - destruct (iter_at_depth t 3); reflexivity.
  - destruct (iter_at_depth t 4); reflexivity.
  - destruct (enum_at_depth t 1); reflexivity.
  - destruct (enum_at_depth t 2); reflexivity.
  - destruct (enum_at_depth t 3); reflexivity.
  - destruct (enum_at_depth t 4); reflexivity.
Qed.

(* ---------- flatten_text ---------- *)
Lemma join_nil_concat : forall ss : list str, join [] ss = concat ss.
Proof.
  induction ss as [|x [|y r] IH].
  - reflexivity.
  - cbn. rewrite app_nil_r. reflexivity.
  - change (join [] (x :: y :: r)) with (x ++ [] ++ join [] (y :: r)).
    rewrite IH. reflexivity.
Qed.

Lemma strs_of_VStr : forall ss, strs_of (map VStr ss) = Ok ss.
Proof. induction ss as [|s ss IH]; [reflexivity|]. cbn. rewrite IH. reflexivity. Qed.

Lemma leaves_strs : forall l : list (rose str), Forall (deep 0) l ->
  exists ss, mapM leaf_str l = Ok ss /\ map (enc_rose VStr) l = map VStr ss.
Proof.
  induction l as [|x l IH]; intros H.
  - exists []. split; reflexivity.
  - inversion H as [|? ? Hx Hl]; subst. apply deep_O_inv in Hx. destruct Hx as [s ->].
    destruct (IH Hl) as [ss [E1 E2]]. exists (s :: ss). cbn. rewrite E1, E2. split; reflexivity.
Qed.

Lemma par_join : forall p : rose str, deep 1 p ->
  exists s, (x <- jr_par p ;; leaf_str x) = Ok s /\
            py_join (VStr []) (enc_rose VStr p) = Ok (VStr s).
Proof.
  intros p H. apply deep_S_inv in H. destruct H as [l [-> Hl]].
  destruct (leaves_strs l Hl) as [ss [E1 E2]].
  exists (concat ss). cbn. rewrite E1, E2, strs_of_VStr. cbn. rewrite join_nil_concat.
  split; reflexivity.
Qed.

Lemma pars_join (body : pv -> res (list pv)) :
  (forall x, body x = (t4 <- py_join (VStr []) x ;; Ok [t4])) ->
  forall ps : list (rose str), Forall (deep 1) ps ->
  exists ss, mapM (fun p => x <- jr_par p ;; leaf_str x) ps = Ok ss /\
             comp_go always body (map (enc_rose VStr) ps) = Ok (map VStr ss).
Proof.
  intros Hb. induction ps as [|p ps IH]; intros H.
  - exists []. split; reflexivity.
  - inversion H as [|? ? Hp Hps]; subst.
    destruct (par_join p Hp) as [s [E1 E2]]. destruct (IH Hps) as [ss [E3 E4]].
    exists (s :: ss). split.
    + cbn [mapM]. rewrite E1, E3. reflexivity.
    + cbn [map comp_go always bind py_truth]. rewrite Hb, E2, E4. reflexivity.
Qed.

Lemma Forall_combine_snd A (P : rose A -> Prop) : forall l, Forall P l -> forall i0,
  Forall (fun ax : list nat * rose A => P (snd ax))
    (map (fun ix : nat * rose A => ([fst ix], snd ix)) (combine (seq i0 (length l)) l)).
Proof.
  induction l as [|x l IH]; intros H i0; [constructor|].
  inversion H; subst. cbn. constructor; [assumption|]. apply IH. assumption.
Qed.

Lemma enum_from_deep A (inner : rose A -> res (list (list nat * rose A))) j : forall l,
  Forall (fun x => exists r, inner x = Ok r /\ Forall (fun ax => deep j (snd ax)) r) l ->
  forall i0, exists r, enum_from inner i0 l = Ok r /\ Forall (fun ax => deep j (snd ax)) r.
Proof.
  induction l as [|x l IH]; intros H i0.
  - exists []. split; [reflexivity|constructor].
  - inversion H as [|? ? [ys [Ey Hy]] Hl]; subst.
    destruct (IH Hl (S i0)) as [rest [Er Hr]].
    eexists. cbn [enum_from]. rewrite Ey, Er. cbn [bind]. split; [reflexivity|].
    apply Forall_app. split; [|exact Hr].
    apply Forall_map. eapply Forall_impl; [|exact Hy]. intros a Ha. exact Ha.
Qed.

Lemma enum_depth_deep A j : forall k (t : rose A), deep (S k + j) t ->
  exists r, enum_depth k t = Ok r /\ Forall (fun ax => deep j (snd ax)) r.
Proof.
  induction k as [|k IH]; intros t H; apply deep_S_inv in H; destruct H as [l [-> Hl]].
  - eexists. split; [reflexivity|]. apply Forall_combine_snd. exact Hl.
  - cbn [enum_depth]. apply enum_from_deep.
    eapply Forall_impl; [|exact Hl]. intros x Hx. apply IH. exact Hx.
Qed.

Theorem src_flatten_text : forall t fuel,
  deep 5 t -> (5 < fuel)%nat ->
  S_flatten_text fuel (enc_rose VStr t) = lift_str (flatten_text t).
Proof.
  intros t fuel Hd Hf.
  pose proof (src_iter_at_depth_deep str VStr t 4 1 fuel ltac:(lia) Hd Hf) as HI.
  change (Z.of_nat 4) with 4%Z in HI.
  destruct (enum_depth_deep str 1 3 t Hd) as [r [Er Hr]].
  assert (Eit : iter_at_depth t 4 = Ok (map snd r)).
  { unfold iter_at_depth. change (enum_at_depth t 4) with (enum_depth 3 t). rewrite Er. reflexivity. }
  assert (Hps : Forall (deep 1) (map snd r)).
  { apply Forall_map. exact Hr. }
  unfold S_flatten_text, flatten_text. rewrite HI, Eit.
  destruct (pars_join (fun t3 => t4 <- py_join (VStr []) t3 ;; Ok [t4]) (fun x => eq_refl) _ Hps)
    as [ss [E1 E2]].
  cbn [lift_items bind py_comp py_iter]. rewrite E1.
  match goal with |- context[comp_go always ?b ?e] =>
    change (comp_go always b e) with
      (comp_go always (fun t3 => t4 <- py_join (VStr []) t3 ;; Ok [t4]) (map (enc_rose VStr) (map snd r)))
  end.
  rewrite E2. cbn [binde py_join py_iter bind]. rewrite strs_of_VStr. reflexivity.
Qed.

Print Assumptions src_enum_at_depth.
Print Assumptions src_enum_at_depth_bad.
Print Assumptions src_iter_at_depth.
Print Assumptions src_enum_at_depth_deep.
Print Assumptions src_named_helpers.
Print Assumptions src_flatten_text.
