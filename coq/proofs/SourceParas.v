(* SourceParas.v — DepthCollector.commence_paragraph AS TRANSLATED FROM THE SOURCE TEXT with the heap
   embedding (gen/SourceHeapRuns.v) refines the model's commence_paragraph (model/Collector.v): the caret
   goes to depth 4 with the element's name in the lineage (set_caret: SourceCaret2.v), a new Par object is
   allocated holding the element, the lineage AS IT IS AFTER set_caret, and a NEW list with the queued runs;
   the queue is replaced by a new empty list; the paragraph is pushed on _open_pars and returned.  For this
   the caret methods need a FRAME: set_caret writes no cell that existed other than the collector object
   (fields _lineage and _rightmost_branches only), the branch stack and the branches (set_caret_frame).
   _open_par with no open paragraph is commence_paragraph(None) (src_open_par_empty), which closes the case
   SourceRuns.v leaves out.  get_paragraph_formatting / get_pStyle are parameters assumed only to allocate. *)
From Coq Require Import List NArith ZArith Bool Arith Lia.
From D2P Require Import Str Err Xml TableTypes Tables Fmt Bullets Merge Collector PyVal PyHeap
                        SourceHeap SourceHeapRuns SourceCaret SourceCaret2 SourceFresh SourceRuns.
Import ListNotations.

Definition n_elem : str := [101;108;101;109]%N.
Definition n_lineage : str := [108;105;110;101;97;103;101]%N.

(* what a caret method may write among the cells that existed: the collector object sa (only its fields
   _lineage and _rightmost_branches), the branch stack rb and the branches bs *)
Definition caret_frame (h h' : heap) (sa rb : nat) (bs : list nat) : Prop :=
  (length h <= length h')%nat /\
  (forall a o, h_get a h = Some o -> a <> sa -> a <> rb -> ~ In a bs -> h_get a h' = Some o) /\
  (forall c fs, h_get sa h = Some (HObj c fs) ->
     exists fs', h_get sa h' = Some (HObj c fs') /\
       forall k, str_eqb k f_lineage = false -> str_eqb k f_branches = false -> field_get k fs' = field_get k fs).

(* a formatting function: returns None or a list, only allocating; a style function: returns a string *)
Definition ext_fmt (f : pv -> pv -> hm pv) : Prop :=
  forall a b h, exists v h', f a b h = HOk v h' /\ extends h h' /\
    (v = VNone \/ exists x l, v = VRef x /\ h_get x h' = Some (HList l)).
Definition ext_sty (f : pv -> hm pv) : Prop :=
  forall a h, exists s h', f a h = HOk (VStr s) h' /\ extends h h'.

(* ---------- helper lemmas ---------- *)
Definition sp_shape (h : heap) (sa rb : nat) (bs : list nat) : Prop :=
  exists c fs brs, h_get sa h = Some (HObj c fs) /\ field_get f_branches fs = Some (VRef rb)
    /\ h_get rb h = Some (HList brs) /\ refs_of brs = Some bs.

Lemma sp_shape_fun : forall h sa rb bs rb' bs',
  sp_shape h sa rb bs -> sp_shape h sa rb' bs' -> rb = rb' /\ bs = bs'.
Proof.
  intros h sa rb bs rb' bs' (c & fs & brs & A & B & C & D) (c' & fs' & brs' & A' & B' & C' & D').
  rewrite A in A'. inversion A'; subst c' fs'. rewrite B in B'. inversion B'; subst rb'.
  rewrite C in C'. inversion C'; subst brs'. rewrite D in D'. inversion D'. auto.
Qed.

Definition sp_cur (h0 h : heap) (sa rb0 : nat) (bs0 : list nat) : Prop :=
  forall rb bs, sp_shape h sa rb bs ->
    (rb = rb0 \/ (length h0 <= rb)%nat) /\ (forall b, In b bs -> In b bs0 \/ (length h0 <= b)%nat).

Definition sp_step (h h' : heap) (sa : nat) : Prop :=
  exists rb bs, sp_shape h sa rb bs /\ caret_frame h h' sa rb bs /\ sp_cur h h' sa rb bs.

Lemma sp_frame_refl : forall h sa rb bs, caret_frame h h sa rb bs.
Proof.
  intros h sa rb bs. split; [lia|]. split; [auto|].
  intros c fs G. exists fs. auto.
Qed.

Lemma sp_cur_refl : forall h sa rb bs, sp_shape h sa rb bs -> sp_cur h h sa rb bs.
Proof.
  intros h sa rb bs S rb' bs' S'. destruct (sp_shape_fun _ _ _ _ _ _ S S') as [-> ->].
  split; auto.
Qed.

Lemma sp_compose : forall h0 h h' sa rb0 bs0,
  caret_frame h0 h sa rb0 bs0 -> sp_cur h0 h sa rb0 bs0 -> sp_step h h' sa ->
  caret_frame h0 h' sa rb0 bs0 /\ sp_cur h0 h' sa rb0 bs0.
Proof.
  intros h0 h h' sa rb0 bs0 (L1 & F1 & S1) C1 (rb & bs & Sh & (L2 & F2 & S2) & C2).
  destruct (C1 _ _ Sh) as [Crb Cbs].
  split; [split; [lia | split]|].
  - intros a o G Nsa Nrb Nbs. pose proof (SourceCaret.h_get_lt _ _ _ G) as La.
    apply F2; auto.
    + destruct Crb as [->|Crb]; [auto|lia].
    + intros I. destruct (Cbs _ I) as [I'|I']; [auto | lia].
  - intros c fs G. destruct (S1 _ _ G) as (fs1 & G1 & E1). destruct (S2 _ _ G1) as (fs2 & G2 & E2).
    exists fs2. split; auto. intros k A B. rewrite E2, E1; auto.
  - intros rb' bs' Sh'. destruct (C2 _ _ Sh') as [A B]. split.
    + destruct A as [->|A]; [exact Crb | right; lia].
    + intros b I. destruct (B _ I) as [I'|I']; [apply Cbs; auto | right; lia].
Qed.

Definition sp_n_style : str := [115;116;121;108;101]%N.
Definition sp_n_listpos : str := [108;105;115;116;95;112;111;115;105;116;105;111;110]%N.

Ltac sp_len := repeat (rewrite SourceCaret.h_set_length || rewrite app_length); simpl length; lia.
Ltac sp_hget := repeat first
  [ rewrite SourceCaret.h_get_set_same by sp_len
  | rewrite SourceCaret.h_get_set_other by sp_len
  | rewrite h_get_app_at by sp_len
  | rewrite h_get_app_lt by sp_len ].

Local Open Scope pyh_scope.
Definition sp_tail (self elem hs ps : pv) : hb unit :=
  t16 <~ hy_getattr self f_lineage ;;;
  t17 <~ hy_getattr self n_queued ;;;
  t18 <~ hy_items t17 ;;;
  t19 <~ hy_new_list t18 ;;;
  t20 <~ S_H_new_Par elem hs ps t16 t19 ;;;
  t21 <~ hy_new_list [] ;;;
  _ <~ hy_setattr self n_queued t21 ;;;
  t22 <~ hy_getattr self f_open_pars ;;;
  t23 <~ hy_append t22 t20 ;;;
  hrt t20.

Lemma sp_tail_run : forall h5 sa c fs1 lin qa ql op ops elem hs ps,
  h_get sa h5 = Some (HObj c fs1) -> field_get f_lineage fs1 = Some lin ->
  field_get n_queued fs1 = Some (VRef qa) -> h_get qa h5 = Some (HList ql) ->
  field_get f_open_pars fs1 = Some (VRef op) -> h_get op h5 = Some (HList ops) ->
  exists h' pa ra qa',
    hfn_result (sp_tail (VRef sa) elem hs ps) h5 = HOk (VRef pa) h'
    /\ h_get sa h' = Some (HObj c (field_set n_queued (VRef qa') fs1))
    /\ h_get op h' = Some (HList (ops ++ [VRef pa]))
    /\ (exists pfs, h_get pa h' = Some (HObj n_Par pfs) /\ field_get n_elem pfs = Some elem
          /\ field_get n_lineage pfs = Some lin /\ field_get n_runs pfs = Some (VRef ra))
    /\ h_get ra h' = Some (HList ql)
    /\ h_get qa' h' = Some (HList [])
    /\ (forall b, (b < length h5)%nat -> b <> sa -> b <> op -> h_get b h' = h_get b h5)
    /\ (length h5 <= pa)%nat /\ (length h5 <= ra)%nat /\ (length h5 <= qa')%nat.
Proof.
  intros h5 sa c fs1 lin qa ql op ops elem hs ps Hsa Hlin Hq Hqa Hop Hops.
  assert (Lsa : (sa < length h5)%nat) by (eapply SourceCaret.h_get_lt; eauto).
  assert (Lop : (op < length h5)%nat) by (eapply SourceCaret.h_get_lt; eauto).
  assert (Nso : sa <> op) by (intros ->; congruence).
  unfold sp_tail, hfn_result, hbinde.
  rewrite (hy_getattr_ref _ _ _ _ _ _ Hsa Hlin). cbv beta iota.
  rewrite (hy_getattr_ref _ _ _ _ _ _ Hsa Hq). cbv beta iota.
  unfold hy_items at 1. rewrite Hqa. cbv beta iota.
  rewrite SourceCaret.hy_new_list_eq. cbv beta iota.
  unfold S_H_new_Par, hbind. rewrite hy_new_obj_eq. cbv beta iota.
  unfold S_H_Par_post_init, hfn_result, hbinde. rewrite SourceCaret.hy_new_list_eq. cbv beta iota.
  erewrite hy_setattr_ref by (sp_hget; reflexivity). cbv beta iota. unfold hrt at 1. unfold hret. cbv beta iota.
  rewrite SourceCaret.hy_new_list_eq. cbv beta iota.
  erewrite hy_setattr_ref by (sp_hget; exact Hsa). cbv beta iota.
  erewrite hy_getattr_ref; [| sp_hget; reflexivity | rewrite field_get_set_other by reflexivity; exact Hop].
  cbv beta iota.
  erewrite hy_append_ref by (sp_hget; exact Hops). cbv beta iota. unfold hrt.
  do 4 eexists. split; [reflexivity|].
  split; [sp_hget; reflexivity|].
  split; [sp_hget; reflexivity|].
  split; [eexists; split; [sp_hget; reflexivity|split; [reflexivity|split; reflexivity]]|].
  split; [sp_hget; reflexivity|].
  split; [sp_hget; reflexivity|].
  split; [intros b Lb N1 N2; sp_hget; reflexivity|].
  split; [sp_len|]. split; sp_len.
Qed.

Section Paras.
  Variable leaf_of : pv -> option par.
  Variable epf : pv -> pv -> hm pv.
  Variable eps : pv -> hm pv.

  Lemma sp_rep_shape : forall h sa k, rep leaf_of h (VRef sa) = Some k ->
    exists rb bs, sp_shape h sa rb bs.
  Proof.
    intros h sa k H. apply rep_Rep in H.
    inversion H as [sa' cls fs rb op lin brs ops lg bs t ps H1 H2 H3 H4 H5 H6 H7 H8 H9 H10 H11 H12 H13]; subst.
    exists rb, bs, cls, fs, brs. auto.
  Qed.

  Lemma sp_sil_step : forall h sa k idx v r h',
    rep leaf_of h (VRef sa) = Some k -> (1 <= idx <= 4)%nat ->
    S_H_set_in_lineage (VRef sa) (VInt (Z.of_nat idx)) v h = HOk r h' -> sp_step h h' sa.
  Proof.
    intros h sa k idx v r h' H Hidx Hr. apply rep_Rep in H.
    inversion H as [sa' cls fs rb op lin brs ops lg bs t ps H1 H2 H3 H4 H5 H6 H7 H8 H9 H10 H11 H12 H13]; subst.
    destruct lg as [[[la lb] lc] ld]. rewrite (dec_lineage_inv _ _ _ _ _ H8) in H4.
    destruct (set_in_lineage_run h sa cls fs _ _ _ _ idx v H1 H4 Hidx) as (y1 & y2 & y3 & y4 & Hrun & _).
    rewrite Hrun in Hr. inversion Hr; subst r h'. clear Hr Hrun.
    destruct (NoDup3 _ _ _ _ H10) as (Nab & Nac & Nbc & Nsa & Nrb & Nop & Nbs).
    assert (Lsa : (sa < length h)%nat) by (eapply SourceCaret.h_get_lt; eauto).
    exists rb, bs. split; [exists cls, fs, brs; auto|]. split.
    - split; [rewrite SourceCaret.h_set_length, app_length; lia|]. split.
      + intros a o G N1 N2 N3. rewrite SourceCaret.h_get_set_other by auto. apply h_get_app_old; auto.
      + intros c fs0 G. rewrite H1 in G. inversion G; subst c fs0.
        eexists. split; [apply SourceCaret.h_get_set_same; rewrite app_length; lia|].
        intros k0 A B. apply field_get_set_other; auto.
    - intros rb' bs' (c' & fs' & brs' & A & B & C & D).
      rewrite SourceCaret.h_get_set_same in A by (rewrite app_length; lia). inversion A; subst c' fs'.
      rewrite field_get_set_other in B by reflexivity. rewrite H2 in B. inversion B; subst rb'.
      rewrite SourceCaret.h_get_set_other in C by auto. rewrite (h_get_app_old _ _ _ _ H6) in C.
      inversion C; subst brs'. rewrite H9 in D. inversion D; subst bs'. split; auto.
  Qed.

  Lemma sp_drop_step : forall h sa k r h',
    rep leaf_of h (VRef sa) = Some k ->
    S_H_drop_caret (VRef sa) h = HOk r h' -> sp_step h h' sa.
  Proof.
    intros h sa k r h' H Hr. pose proof (src_caret_depth _ _ _ _ H) as Hcd. apply rep_Rep in H.
    inversion H as [sa' cls fs rb op lin brs ops lg bs t ps H1 H2 H3 H4 H5 H6 H7 H8 H9 H10 H11 H12 H13]; subst.
    cbn [k_depth] in Hcd.
    unfold S_H_drop_caret, hfn_result, hbinde in Hr. rewrite Hcd in Hr. cbv beta iota in Hr.
    fold f_branches f_par_depth in Hr.
    rewrite (hy_getattr_ref _ _ _ _ _ _ H1 H5) in Hr. cbv beta iota in Hr.
    rewrite py_ge_int in Hr. unfold hlift, hy_truth, py_truth in Hr. cbv beta iota in Hr.
    rewrite ge_par_depth in Hr.
    destruct (Nat.leb 4 (length bs)) eqn:E; [discriminate Hr|].
    assert (Hne : bs <> []) by (intros ->; discriminate).
    destruct (exists_last Hne) as (bs' & bl & ->).
    destruct (NoDup3 _ _ _ _ H10) as (Nab & Nac & Nbc & Nsa & Nrb & Nop & Nbs).
    assert (Hval : forall b, In b (bs' ++ [bl]) -> exists l, h_get b h = Some (HList l))
      by (eapply abs_spine_valid; eauto).
    assert (Ibl : In bl (bs' ++ [bl])) by (apply in_or_app; right; left; reflexivity).
    destruct (Hval bl Ibl) as [l Hbl].
    pose proof (refs_of_map _ _ H9) as Hbrs. rewrite map_app in Hbrs. simpl map in Hbrs. subst brs.
    assert (Lsa : (sa < length h)%nat) by (eapply SourceCaret.h_get_lt; eauto).
    assert (Lrb : (rb < length h)%nat) by (eapply SourceCaret.h_get_lt; eauto).
    assert (Lbl : (bl < length h)%nat) by (eapply SourceCaret.h_get_lt; eauto).
    assert (Nrbbl : rb <> bl) by (intros ->; apply Nrb; exact Ibl).
    assert (Nsabl : sa <> bl) by (intros ->; apply Nsa; exact Ibl).
    set (n := length h) in *.
    set (h1 := h ++ [HList []]) in *.
    set (h2 := h_set bl (HList (l ++ [VRef n])) h1) in *.
    assert (L1 : length h1 = S n) by (unfold h1; rewrite app_length; simpl; lia).
    assert (L2 : length h2 = S n) by (unfold h2; rewrite SourceCaret.h_set_length; exact L1).
    assert (Hbl1 : h_get bl h1 = Some (HList l)) by (apply h_get_app_old; exact Hbl).
    assert (Hsa2 : h_get sa h2 = Some (HObj cls fs)).
    { unfold h2. rewrite SourceCaret.h_get_set_other by exact Nsabl. apply h_get_app_old; exact H1. }
    assert (Hrb2 : h_get rb h2 = Some (HList (map VRef bs' ++ [VRef bl]))).
    { unfold h2. rewrite SourceCaret.h_get_set_other by exact Nrbbl. apply h_get_app_old; exact H6. }
    assert (Hbl2 : h_get bl h2 = Some (HList (l ++ [VRef n]))).
    { unfold h2. apply SourceCaret.h_get_set_same. lia. }
    rewrite (hy_getattr_ref _ _ _ _ _ _ H1 H2) in Hr. cbv beta iota in Hr.
    rewrite (hy_index_last _ _ _ _ H6) in Hr. cbv beta iota in Hr.
    rewrite SourceCaret.hy_new_list_eq in Hr. cbv beta iota in Hr. fold n in Hr. fold h1 in Hr.
    rewrite (hy_append_ref _ _ _ _ Hbl1) in Hr. cbv beta iota in Hr. fold h2 in Hr.
    rewrite (hy_getattr_ref _ _ _ _ _ _ Hsa2 H2) in Hr. cbv beta iota in Hr.
    rewrite (hy_getattr_ref _ _ _ _ _ _ Hsa2 H2) in Hr. cbv beta iota in Hr.
    rewrite (hy_index_last _ _ _ _ Hrb2) in Hr. cbv beta iota in Hr.
    rewrite (hy_index_last _ _ _ _ Hbl2) in Hr. cbv beta iota in Hr.
    rewrite (hy_append_ref _ _ _ _ Hrb2) in Hr. cbv beta iota in Hr.
    unfold hrt in Hr. inversion Hr; subst r h'. clear Hr.
    exists rb, (bs' ++ [bl]). split; [exists cls, fs, (map VRef bs' ++ [VRef bl]); auto|]. split.
    - split; [rewrite SourceCaret.h_set_length; lia|]. split.
      + intros a o G N1 N2 N3. rewrite SourceCaret.h_get_set_other by auto.
        unfold h2. rewrite SourceCaret.h_get_set_other by (intros ->; auto).
        apply h_get_app_old; auto.
      + intros c fs0 G. rewrite H1 in G. inversion G; subst c fs0.
        exists fs. split; [rewrite SourceCaret.h_get_set_other by auto; exact Hsa2|auto].
    - intros rb' bs2 (c' & fs' & brs' & A & B & C & D).
      rewrite SourceCaret.h_get_set_other in A by auto. rewrite Hsa2 in A. inversion A; subst c' fs'.
      rewrite H2 in B. inversion B; subst rb'.
      rewrite SourceCaret.h_get_set_same in C by lia. inversion C; subst brs'.
      replace ((map VRef bs' ++ [VRef bl]) ++ [VRef n]) with (map VRef ((bs' ++ [bl]) ++ [n])) in D
        by (rewrite !map_app; reflexivity).
      rewrite refs_of_map_id in D. inversion D; subst bs2. split; auto.
      intros b I. apply in_app_or in I. destruct I as [I|[<-|[]]]; auto.
  Qed.

  Lemma sp_raise_step : forall h sa k r h',
    rep leaf_of h (VRef sa) = Some k ->
    S_H_raise_caret (VRef sa) h = HOk r h' -> sp_step h h' sa.
  Proof.
    intros h sa k r h' H Hr. pose proof (src_caret_depth _ _ _ _ H) as Hcd. apply rep_Rep in H.
    inversion H as [sa' cls fs rb op lin brs ops lg bs t ps H1 H2 H3 H4 H5 H6 H7 H8 H9 H10 H11 H12 H13]; subst.
    cbn [k_depth] in Hcd.
    assert (Hne : bs <> []) by (intros ->; discriminate).
    destruct (exists_last Hne) as (bs' & bl & ->).
    pose proof (refs_of_map _ _ H9) as Hbrs. rewrite map_app in Hbrs. simpl map in Hbrs. subst brs.
    destruct (NoDup3 _ _ _ _ H10) as (Nab & Nac & Nbc & Nsa & Nrb & Nop & Nbs).
    assert (Lsa : (sa < length h)%nat) by (eapply SourceCaret.h_get_lt; eauto).
    unfold S_H_raise_caret, hfn_result, hbinde in Hr. rewrite Hcd in Hr. cbv beta iota in Hr.
    rewrite py_eq_int in Hr. unfold hlift, hy_truth, py_truth in Hr. cbv beta iota in Hr.
    destruct (Z.of_nat (length (bs' ++ [bl])) =? 1)%Z; [discriminate Hr|].
    fold f_branches in Hr.
    rewrite (hy_getattr_ref _ _ _ _ _ _ H1 H2) in Hr. cbv beta iota in Hr.
    rewrite (hy_slice_init _ _ _ _ H6) in Hr. cbv beta iota in Hr.
    rewrite (hy_setattr_ref _ _ _ _ _ _ (h_get_app_old _ _ _ _ H1)) in Hr. cbv beta iota in Hr.
    unfold hrt in Hr. inversion Hr; subst r h'. clear Hr.
    exists rb, (bs' ++ [bl]). split; [exists cls, fs, (map VRef bs' ++ [VRef bl]); auto|]. split.
    - split; [rewrite SourceCaret.h_set_length, app_length; lia|]. split.
      + intros a o G N1 N2 N3. rewrite SourceCaret.h_get_set_other by auto. apply h_get_app_old; auto.
      + intros c fs0 G. rewrite H1 in G. inversion G; subst c fs0.
        eexists. split; [apply SourceCaret.h_get_set_same; rewrite app_length; lia|].
        intros k0 A B. apply field_get_set_other; auto.
    - intros rb' bs2 (c' & fs' & brs' & A & B & C & D).
      rewrite SourceCaret.h_get_set_same in A by (rewrite app_length; lia). inversion A; subst c' fs'.
      rewrite field_get_set_same in B. inversion B; subst rb'.
      rewrite SourceCaret.h_get_set_other in C by lia. rewrite h_get_app_new in C.
      inversion C; subst brs'. rewrite refs_of_map_id in D. inversion D; subst bs2.
      split; [right; lia|]. intros b I. left. apply in_or_app; left; exact I.
  Qed.

  Lemma sp_go_frame : forall mf sf s h sa n name h0 rb0 bs0 v h1,
    rep leaf_of h (VRef sa) = Some (core_of s) -> (1 <= n <= 4)%nat ->
    ((c_depth s - n) + (n - c_depth s) < mf)%nat -> (mf <= sf)%nat ->
    caret_frame h0 h sa rb0 bs0 -> sp_cur h0 h sa rb0 bs0 ->
    S_H_set_caret sf (VRef sa) (VInt (Z.of_nat n)) (enc_elem name) h = HOk v h1 ->
    caret_frame h0 h1 sa rb0 bs0.
  Proof.
    induction mf as [|mf IH]; intros sf s h sa n name h0 rb0 bs0 v h1 Hrep Hn Hd Hf F0 C0 Hr; [lia|].
    destruct sf as [|sf]; [lia|].
    pose proof (src_caret_depth leaf_of h (VRef sa) (core_of s) Hrep) as HD.
    change (k_depth (core_of s)) with (c_depth s) in HD.
    destruct (Nat.eqb_spec (c_depth s) n) as [E|NE].
    - rewrite (step_eq (VRef sa) h (c_depth s) n sf name HD E) in Hr.
      destruct (S_H_set_in_lineage (VRef sa) (VInt (Z.of_nat n)) (enc_ostr name) h) as [r h2|e h2] eqn:E1;
        [|discriminate Hr].
      inversion Hr; subst v h2.
      apply (sp_compose h0 h h1 sa rb0 bs0 F0 C0). eapply sp_sil_step; eauto.
    - destruct (Nat.ltb_spec (c_depth s) n) as [L|G].
      + rewrite (step_lt (VRef sa) h (c_depth s) n sf _ HD L) in Hr.
        pose proof (src_drop_caret leaf_of h (VRef sa) s Hrep) as HR.
        destruct (drop_caret s) as [s1|e] eqn:ED; cbn [refines] in HR.
        * destruct HR as (h2 & E1 & R1 & K1). rewrite E1 in Hr.
          pose proof (drop_caret_depth s s1 ED) as D1.
          destruct (S_H_set_caret sf (VRef sa) (VInt (Z.of_nat n)) (enc_elem name) h2) as [v2 h3|e h3] eqn:E2;
            [|discriminate Hr].
          inversion Hr; subst v h3.
          destruct (sp_compose h0 h h2 sa rb0 bs0 F0 C0 (sp_drop_step _ _ _ _ _ Hrep E1)) as [F1 C1].
          apply (IH sf s1 h2 sa n name h0 rb0 bs0 v2 h1 R1 Hn); [lia|lia|exact F1|exact C1|exact E2].
        * destruct HR as (h2 & E1). rewrite E1 in Hr. discriminate Hr.
      + assert (G' : (n < c_depth s)%nat) by lia.
        rewrite (step_gt (VRef sa) h (c_depth s) n sf _ HD G') in Hr.
        destruct (set_in_lineage_ok n None (c_lineage s) Hn) as [l El].
        destruct (src_set_in_lineage leaf_of h (VRef sa) s n None l Hrep Hn El) as (h2 & E1 & R1 & K1).
        cbn [enc_ostr] in E1. rewrite E1 in Hr.
        assert (ER : raise_caret (set_lin l s) = Ok (set_depth (pred (c_depth s)) (set_lin l s))).
        { apply (raise_caret_ok (set_lin l s)). cbn [set_lin c_depth]. lia. }
        pose proof (src_raise_caret leaf_of h2 (VRef sa) (set_lin l s) R1) as HR.
        rewrite ER in HR. cbn [refines] in HR.
        destruct HR as (h3 & E2 & R2 & K2). rewrite E2 in Hr.
        destruct (S_H_set_caret sf (VRef sa) (VInt (Z.of_nat n)) (enc_elem name) h3) as [v2 h4|e h4] eqn:E3;
          [|discriminate Hr].
        inversion Hr; subst v h4.
        destruct (sp_compose h0 h h2 sa rb0 bs0 F0 C0 (sp_sil_step _ _ _ _ _ _ _ Hrep Hn E1)) as [F1 C1].
        destruct (sp_compose h0 h2 h3 sa rb0 bs0 F1 C1 (sp_raise_step _ _ _ _ _ R1 E2)) as [F2 C2].
        apply (IH sf _ h3 sa n name h0 rb0 bs0 v2 h1 R2 Hn); [|lia|exact F2|exact C2|exact E3].
        cbn [set_depth set_lin c_depth]. lia.
  Qed.

  Theorem set_caret_frame : forall h self s d name fuel sa c fs rb brs bs v h1,
    rep leaf_of h self = Some (core_of s) -> (c_depth s <= 4)%nat -> (8 <= fuel)%nat ->
    match d with Some n => (1 <= n <= 4)%nat | None => True end ->
    self = VRef sa -> h_get sa h = Some (HObj c fs) ->
    field_get f_branches fs = Some (VRef rb) -> h_get rb h = Some (HList brs) -> refs_of brs = Some bs ->
    S_H_set_caret fuel self (enc_depth_arg d) (enc_elem name) h = HOk v h1 ->
    caret_frame h h1 sa rb bs.
  Proof.
    intros h self s d name fuel sa c fs rb brs bs v h1 Hrep Hc Hf Hd -> Hsa Hrb Hbrs Hbs Hr.
    destruct d as [n|]; cbn [enc_depth_arg] in Hr.
    - assert (Sh : sp_shape h sa rb bs) by (exists c, fs, brs; auto).
      apply (sp_go_frame 8 fuel s h sa n name h rb bs v h1 Hrep Hd);
        [lia|exact Hf|apply sp_frame_refl|apply sp_cur_refl; exact Sh|exact Hr].
    - destruct fuel as [|f]; [lia|]. rewrite step_none in Hr. inversion Hr; subst.
      apply sp_frame_refl.
  Qed.

  Lemma sp_rep_inv : forall h sa k, rep leaf_of h (VRef sa) = Some k ->
    exists cls fs rb op lin brs ops lg bs t ps,
      h_get sa h = Some (HObj cls fs) /\ field_get f_branches fs = Some (VRef rb)
      /\ field_get f_open_pars fs = Some (VRef op) /\ field_get f_lineage fs = Some lin
      /\ field_get f_par_depth fs = Some (VInt 4) /\ h_get rb h = Some (HList brs)
      /\ h_get op h = Some (HList ops) /\ dec_lineage lin = Some lg /\ refs_of brs = Some bs
      /\ NoDup (sa :: rb :: op :: bs) /\ (length bs <= 4)%nat
      /\ abs_spine leaf_of 6 h (sa :: rb :: op :: bs) bs = Some t
      /\ mapo (abs_leaf leaf_of h) ops = Some ps
      /\ k = {| k_depth := length bs; k_lineage := lg; k_tree := t; k_open := rev ps |}.
  Proof.
    intros h sa k H. apply rep_Rep in H.
    inversion H as [sa' cls fs rb op lin brs ops lg bs t ps H1 H2 H3 H4 H5 H6 H7 H8 H9 H10 H11 H12 H13]; subst.
    exists cls, fs, rb, op, lin, brs, ops, lg, bs, t, ps. repeat (split; [assumption|]). reflexivity.
  Qed.

  (* pushing a new record on _open_pars, rewriting fields of the collector that rep does not read,
     and touching only new cells otherwise *)
  Lemma sp_rep_push : forall h h' sa k c fs fs' op ops pa pc pfs p,
    rep leaf_of h (VRef sa) = Some k ->
    h_get sa h = Some (HObj c fs) -> field_get f_open_pars fs = Some (VRef op) ->
    h_get op h = Some (HList ops) ->
    h_get sa h' = Some (HObj c fs') ->
    field_get f_branches fs' = field_get f_branches fs ->
    field_get f_open_pars fs' = field_get f_open_pars fs ->
    field_get f_lineage fs' = field_get f_lineage fs ->
    field_get f_par_depth fs' = field_get f_par_depth fs ->
    h_get op h' = Some (HList (ops ++ [VRef pa])) ->
    h_get pa h' = Some (HObj pc pfs) -> leaf_of (VRef pa) = Some p ->
    (forall b, (b < length h)%nat -> b <> sa -> b <> op -> h_get b h' = h_get b h) ->
    rep leaf_of h' (VRef sa)
    = Some {| k_depth := k_depth k; k_lineage := k_lineage k; k_tree := k_tree k; k_open := p :: k_open k |}.
  Proof.
    intros h h' sa k c fs fs' op ops pa pc pfs p H Hsa Hop Hops Hsa' Eb Eo El Ed Hop' Hpa Hp Hfr.
    destruct (sp_rep_inv _ _ _ H)
      as (cls & fs0 & rb & op0 & lin & brs & ops0 & lg & bs & t & ps & H1 & H2 & H3 & H4 & H5 & H6 & H7 & H8 & H9 & H10 & H11 & H12 & H13 & ->).
    rewrite Hsa in H1. inversion H1; subst cls fs0. clear H1.
    rewrite Hop in H3. inversion H3; subst op0. clear H3.
    rewrite Hops in H7. inversion H7; subst ops0. clear H7.
    destruct (NoDup3 _ _ _ _ H10) as (Nab & Nac & Nbc & Nsa & Nrb & Nop & Nbs).
    assert (Hval : forall b, In b bs -> exists l, h_get b h = Some (HList l))
      by (eapply abs_spine_valid; eauto).
    assert (K : objs_kept h h').
    { intros a c0 fs0 G. destruct (Nat.eq_dec a sa) as [->|Na].
      - rewrite Hsa in G. inversion G; subst. eauto.
      - exists fs0. rewrite Hfr; auto; [eapply SourceCaret.h_get_lt; eauto|].
        intros ->. congruence. }
    assert (F : frame_ok h (sa :: rb :: op :: bs) h' (sa :: rb :: op :: bs)).
    { split.
      - intros a l G N. split; auto. rewrite Hfr; auto.
        + eapply SourceCaret.h_get_lt; eauto.
        + intros ->. apply N. left; reflexivity.
        + intros ->. apply N. right; right; left; reflexivity.
      - intros a c0 fs0 G. destruct (K _ _ _ G) as [fs1 G']. eauto. }
    cbn [k_depth k_lineage k_tree k_open].
    replace (p :: rev ps) with (rev (ps ++ [p])) by (rewrite rev_app_distr; reflexivity).
    apply Rep_rep.
    eapply Rep_intro with (rb := rb) (op := op) (brs := brs) (ops := ops ++ [VRef pa]) (lin := lin).
    - exact Hsa'.
    - rewrite Eb; exact H2.
    - rewrite Eo; exact Hop.
    - rewrite El; exact H4.
    - rewrite Ed; exact H5.
    - rewrite Hfr; auto. eapply SourceCaret.h_get_lt; eauto.
    - exact Hop'.
    - exact H8.
    - exact H9.
    - exact H10.
    - exact H11.
    - eapply abs_spine_frame; [exact F| |exact H12].
      intros b I. destruct (Hval b I) as [l G]. apply Hfr.
      + eapply SourceCaret.h_get_lt; eauto.
      + intros ->. auto.
      + intros ->. auto.
    - rewrite mapo_app. rewrite (mapo_leaf_kept leaf_of _ _ _ _ K H13).
      rewrite mapo_one. rewrite (abs_leaf_intro leaf_of _ _ _ _ _ Hpa Hp). reflexivity.
  Qed.

  (* commence_paragraph up to the point where the Par object is built: set_caret, then only allocations *)
  Lemma sp_head : forall fuel sa name h h1 c1 fs1 fmt,
    hy_getattr (VRef sa) f_par_depth h = HOk (VInt 4) h ->
    S_H_set_caret fuel (VRef sa) (VInt 4) (enc_elem name) h = HOk VNone h1 ->
    h_get sa h1 = Some (HObj c1 fs1) -> field_get n_x2h fs1 = Some fmt ->
    ext_fmt epf -> ext_sty eps ->
    exists hs ps h5, extends h1 h5 /\
      S_H_commence_paragraph epf eps fuel (VRef sa) (enc_elem name) h
      = hfn_result (sp_tail (VRef sa) (enc_elem name) hs ps) h5.
  Proof.
    intros fuel sa name h h1 c1 fs1 fmt Hpd Hsc Hsa1 Hfmt Hepf Heps.
    unfold S_H_commence_paragraph, sp_tail, hfn_result, hbinde, hbindo.
    fold f_par_depth f_lineage f_open_pars n_queued n_x2h.
    rewrite Hpd. cbv beta iota. rewrite Hsc. cbv beta iota.
    rewrite SourceCaret.hy_new_list_eq. cbv beta iota.
    destruct name as [nm|]; cbn [enc_elem].
    - unfold py_is_none, py_not, hlift. cbv beta iota. cbn [py_truth negb].
      unfold hy_truth at 1. cbn [py_truth]. cbv beta iota.
      rewrite (hy_getattr_ref _ _ _ _ _ _ (h_get_app_old _ _ _ _ Hsa1) Hfmt). cbv beta iota.
      destruct (Hepf (VObj [] [(f_localname, VStr nm)]) fmt (h1 ++ [HList []])) as (v & h3 & E3 & X3 & V3).
      rewrite E3. cbv beta iota.
      assert (X13 : extends h1 h3) by (eapply extends_trans; [apply extends_app; apply extends_refl|exact X3]).
      destruct V3 as [->|(x & l & -> & Hx)].
      + unfold hy_truth at 1. cbn [py_truth]. cbv beta iota.
        rewrite SourceCaret.hy_new_list_eq. cbv beta iota. unfold hnx at 1 2. cbv beta iota.
        unfold hy_truth at 1. cbn [py_truth]. cbv beta iota.
        destruct (Heps (VObj [] [(f_localname, VStr nm)]) (h3 ++ [HList []])) as (st & h5 & E5 & X5).
        rewrite E5. cbv beta iota. unfold hnx at 1. cbv beta iota.
        do 3 eexists. split; [|reflexivity].
        eapply extends_trans; [exact X13|]. eapply extends_trans; [|exact X5].
        apply extends_app; apply extends_refl.
      + unfold hy_truth at 1. rewrite Hx. cbv beta iota.
        destruct l as [|y l]; cbv beta iota.
        * rewrite SourceCaret.hy_new_list_eq. cbv beta iota. unfold hnx at 1 2. cbv beta iota.
          unfold hy_truth at 1. cbn [py_truth]. cbv beta iota.
          destruct (Heps (VObj [] [(f_localname, VStr nm)]) (h3 ++ [HList []])) as (st & h5 & E5 & X5).
          rewrite E5. cbv beta iota. unfold hnx at 1. cbv beta iota.
          do 3 eexists. split; [|reflexivity].
          eapply extends_trans; [exact X13|]. eapply extends_trans; [|exact X5].
          apply extends_app; apply extends_refl.
        * unfold hnx at 1 2. cbv beta iota.
          unfold hy_truth at 1. cbn [py_truth]. cbv beta iota.
          destruct (Heps (VObj [] [(f_localname, VStr nm)]) h3) as (st & h5 & E5 & X5).
          rewrite E5. cbv beta iota. unfold hnx at 1. cbv beta iota.
          do 3 eexists. split; [|reflexivity].
          eapply extends_trans; [exact X13|exact X5].
    - unfold py_is_none, py_not, hlift. cbv beta iota. cbn [py_truth negb].
      unfold hy_truth at 1. cbn [py_truth]. cbv beta iota. unfold hnx at 1. cbv beta iota.
      unfold hy_truth at 1. cbn [py_truth]. cbv beta iota. unfold hnx at 1. cbv beta iota.
      do 3 eexists. split; [|reflexivity]. apply extends_app; apply extends_refl.
  Qed.

  Theorem src_commence_paragraph : forall h self s s1 name fuel sa c fs rb brs bs op qa ql fmt,
    rep leaf_of h self = Some (core_of s) -> (c_depth s <= 4)%nat -> (8 <= fuel)%nat ->
    set_caret (Some 4%nat) name s = Ok s1 ->
    self = VRef sa -> h_get sa h = Some (HObj c fs) ->
    field_get f_branches fs = Some (VRef rb) -> h_get rb h = Some (HList brs) -> refs_of brs = Some bs ->
    field_get f_open_pars fs = Some (VRef op) ->
    field_get n_queued fs = Some (VRef qa) -> h_get qa h = Some (HList ql) -> ~ In qa (sa :: rb :: op :: bs) ->
    rd_fmt h self = Some fmt ->
    ext_fmt epf -> ext_sty eps ->
    exists h' pa,
      S_H_commence_paragraph epf eps fuel self (enc_elem name) h = HOk (VRef pa) h'
      /\ (length h <= pa)%nat
      /\ (forall p, leaf_of (VRef pa) = Some p ->
            rep leaf_of h' self
            = Some {| k_depth := c_depth s1; k_lineage := c_lineage s1; k_tree := c_tree s1;
                      k_open := p :: c_open s1 |})
      /\ (exists pfs ra lin,
            h_get pa h' = Some (HObj n_Par pfs)
            /\ field_get n_elem pfs = Some (enc_elem name)
            /\ field_get n_lineage pfs = Some lin /\ dec_lineage lin = Some (c_lineage s1)
            /\ field_get n_runs pfs = Some (VRef ra) /\ (length h <= ra)%nat
            /\ h_get ra h' = Some (HList ql))
      /\ (exists c' fs' qa', h_get sa h' = Some (HObj c' fs')
            /\ field_get n_queued fs' = Some (VRef qa') /\ (length h <= qa')%nat
            /\ h_get qa' h' = Some (HList [])).
  Proof.
    intros h self s s1 name fuel sa c fs rb brs bs op qa ql fmt
           Hrep Hc Hf Hset -> Hsa Hrb Hbrs Hbs Hop Hq Hqa Nqa Hfmt Hepf Heps.
    (* set_caret *)
    assert (Hd4 : (1 <= 4 <= 4)%nat) by lia.
    pose proof (src_set_caret leaf_of h (VRef sa) s (Some 4%nat) name fuel Hrep Hc Hf Hd4) as HS.
    rewrite Hset in HS. cbn [refines] in HS. destruct HS as (h1 & E1 & R1 & K1).
    pose proof (set_caret_frame h (VRef sa) s (Some 4%nat) name fuel sa c fs rb brs bs VNone h1
                  Hrep Hc Hf Hd4 eq_refl Hsa Hrb Hbrs Hbs E1) as (L01 & F01 & S01).
    change (enc_depth_arg (Some 4%nat)) with (VInt 4) in E1.
    destruct (S01 _ _ Hsa) as (fs1 & Hsa1 & Efs).
    (* the state before *)
    destruct (sp_rep_inv _ _ _ Hrep)
      as (cls & fs0 & rb0 & op0 & lin0 & brs0 & ops0 & lg0 & bs0 & t0 & ps0
          & A1 & A2 & A3 & A4 & A5 & A6 & A7 & A8 & A9 & A10 & A11 & A12 & A13 & _).
    rewrite Hsa in A1. inversion A1; subst cls fs0. clear A1.
    rewrite Hrb in A2. inversion A2; subst rb0. clear A2.
    rewrite Hop in A3. inversion A3; subst op0. clear A3.
    rewrite Hbrs in A6. inversion A6; subst brs0. clear A6.
    rewrite Hbs in A9. inversion A9; subst bs0. clear A9.
    destruct (NoDup3 _ _ _ _ A10) as (Nab & Nac & Nbc & Nsa & Nrb & Nop & Nbs).
    (* the state after set_caret *)
    destruct (sp_rep_inv _ _ _ R1)
      as (cls1 & fs1' & rb1 & op1 & lin1 & brs1 & ops1 & lg1 & bs1 & t1 & ps1
          & B1 & B2 & B3 & B4 & B5 & B6 & B7 & B8 & B9 & B10 & B11 & B12 & B13 & Ek).
    rewrite Hsa1 in B1. inversion B1; subst cls1 fs1'. clear B1.
    unfold core_of in Ek. inversion Ek as [[Kd Kl Kt Ko]]. clear Ek.
    assert (Eop : field_get f_open_pars fs1 = Some (VRef op)) by (rewrite Efs by reflexivity; exact Hop).
    rewrite Eop in B3. inversion B3; subst op1. clear B3.
    assert (Eq1 : field_get n_queued fs1 = Some (VRef qa)) by (rewrite Efs by reflexivity; exact Hq).
    assert (Hqa1 : h_get qa h1 = Some (HList ql)).
    { apply F01; auto.
      - intros ->. apply Nqa. left; reflexivity.
      - intros ->. apply Nqa. right; left; reflexivity.
      - intros I. apply Nqa. right; right; right; exact I. }
    assert (Hfmt1 : exists fv, field_get n_x2h fs1 = Some fv).
    { unfold rd_fmt in Hfmt. rewrite Hsa in Hfmt. rewrite Efs by reflexivity.
      destruct (field_get n_x2h fs) as [fv|]; [eauto|discriminate]. }
    destruct Hfmt1 as [fv Hfv].
    pose proof (rep_par_depth leaf_of h (VRef sa) _ Hrep) as PD.
    destruct (sp_head fuel sa name h h1 c fs1 fv PD E1 Hsa1 Hfv Hepf Heps) as (hs & ps & h5 & X15 & Ehead).
    destruct X15 as [ex ->].
    assert (Lsa1 : (sa < length h1)%nat) by (eapply SourceCaret.h_get_lt; eauto).
    assert (Lop1 : (op < length h1)%nat) by (eapply SourceCaret.h_get_lt; eauto).
    destruct (sp_tail_run (h1 ++ ex) sa c fs1 lin1 qa ql op ops1 (enc_elem name) hs ps
                (h_get_app1 _ _ _ _ Hsa1) B4 Eq1 (h_get_app1 _ _ _ _ Hqa1) Eop (h_get_app1 _ _ _ _ B7))
      as (h' & pa & ra & qa' & Erun & Csa & Cop & (pfs & Cpa & Cel & Clin & Cruns) & Cra & Cqa & Cfr & Lpa & Lra & Lqa).
    rewrite app_length in Lpa, Lra, Lqa.
    exists h', pa. split; [rewrite Ehead; exact Erun|]. split; [lia|]. split; [|split].
    - intros p Hp.
      rewrite (sp_rep_push h1 h' sa _ c fs1 (field_set n_queued (VRef qa') fs1) op ops1 pa n_Par pfs p
                 R1 Hsa1 Eop B7 Csa).
      + reflexivity.
      + apply field_get_set_other; reflexivity.
      + apply field_get_set_other; reflexivity.
      + apply field_get_set_other; reflexivity.
      + apply field_get_set_other; reflexivity.
      + exact Cop.
      + exact Cpa.
      + exact Hp.
      + intros b Lb N1 N2. rewrite Cfr; auto; [|rewrite app_length; lia].
        apply sr_get_extends; exact Lb.
    - exists pfs, ra, lin1. repeat (split; [assumption|]).
      split; [rewrite B8, Kl; reflexivity|]. split; [assumption|]. split; [lia|assumption].
    - exists c, (field_set n_queued (VRef qa') fs1), qa'. split; [exact Csa|].
      split; [apply field_get_set_same|]. split; [lia|exact Cqa].
  Qed.

  (* self._open_par with no open paragraph: commence one (elem = None) *)
  Theorem src_open_par_empty : forall h fuel sa c fs op,
    h_get sa h = Some (HObj c fs) -> field_get f_open_pars fs = Some (VRef op) ->
    h_get op h = Some (HList []) ->
    S_H_open_par epf eps fuel (VRef sa) h = S_H_commence_paragraph epf eps fuel (VRef sa) VNone h.
  Proof.
    intros h fuel sa c fs op Hsa Hop Hl.
    unfold S_H_open_par. unfold hfn_result at 1. unfold hbinde at 1. fold f_open_pars.
    rewrite (hy_getattr_ref _ _ _ _ _ _ Hsa Hop). cbv beta iota.
    unfold hbinde at 1. unfold hy_truth at 1. rewrite Hl. cbv beta iota.
    unfold hbinde at 1. unfold hy_truth at 1. cbn [negb py_truth]. cbv beta iota.
    unfold hbinde at 1.
    destruct (S_H_commence_paragraph epf eps fuel (VRef sa) VNone h); reflexivity.
  Qed.
End Paras.

Print Assumptions set_caret_frame.
Print Assumptions src_commence_paragraph.
Print Assumptions src_open_par_empty.
