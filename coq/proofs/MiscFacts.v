(* MiscFacts.v — three independent groups of lemmas:
     1. tag vocabulary of the html style strings           (C07)
     2. the html map mentions the paragraph addresses        (C20)
     3. archive member order / unrelated members             (C18) *)
From Coq Require Import List NArith ZArith Bool Arith Lia Permutation Sorted.
From Coq Require String.
From D2P Require Import Str Err Xml TableTypes Tables Fmt Merge Iter Paths Package.
From D2P Require Import BulletsFacts IterFacts TokFacts.
Import ListNotations.
Import String.StringSyntax.
Delimit Scope string_scope with string.
Open Scope N_scope.

(* ================================================================== *)
(* generic helpers                                                      *)
(* ================================================================== *)

Section SortFacts.
  Variable A : Type.
  Variable leb : A -> A -> bool.

  Lemma insert_sorted_perm : forall x l, Permutation (insert_sorted leb x l) (x :: l).
  Proof.
    intros x l. induction l as [|y r IH]; cbn [insert_sorted]; [apply Permutation_refl|].
    destruct (leb x y); [apply Permutation_refl|].
    eapply Permutation_trans; [apply perm_skip; exact IH|apply perm_swap].
  Qed.

  Lemma sort_by_perm : forall l, Permutation (sort_by leb l) l.
  Proof.
    induction l as [|x r IH]; cbn [sort_by]; [apply Permutation_refl|].
    eapply Permutation_trans; [apply insert_sorted_perm|apply perm_skip; exact IH].
  Qed.

  Lemma sort_by_In : forall x l, In x (sort_by leb l) <-> In x l.
  Proof.
    intros x l. split; apply Permutation_in;
      [apply sort_by_perm|apply Permutation_sym; apply sort_by_perm].
  Qed.

  Lemma sort_by_Forall : forall (P : A -> Prop) l, Forall P l -> Forall P (sort_by leb l).
  Proof.
    intros P l H. rewrite Forall_forall in *. intros x Hx. apply H. apply sort_by_In. exact Hx.
  Qed.

  Hypothesis leb_total : forall x y, leb x y = false -> leb y x = true.
  Hypothesis leb_trans : forall x y z, leb x y = true -> leb y z = true -> leb x z = true.

  Let le x y := leb x y = true.

  Lemma insert_sorted_sorted : forall x l,
    StronglySorted le l -> StronglySorted le (insert_sorted leb x l).
  Proof.
    intros x l H. induction H as [|y r Hr IH Hy]; cbn [insert_sorted].
    - constructor; constructor.
    - destruct (leb x y) eqn:E.
      + constructor; [constructor; assumption|].
        constructor; [exact E|].
        eapply Forall_impl; [|exact Hy]. intros z Hz. eapply leb_trans; eassumption.
      + constructor; [exact IH|].
        rewrite Forall_forall. intros z Hz.
        apply (Permutation_in _ (insert_sorted_perm x r)) in Hz. destruct Hz as [<-|Hz].
        * apply leb_total. exact E.
        * rewrite Forall_forall in Hy. apply Hy. exact Hz.
  Qed.

  Lemma sort_by_sorted : forall l, StronglySorted le (sort_by leb l).
  Proof.
    induction l as [|x r IH]; cbn [sort_by]; [constructor|].
    apply insert_sorted_sorted. exact IH.
  Qed.

  (* two sorted permutations of each other with pairwise distinct keys are equal *)
  Variable K : Type.
  Variable key : A -> K.
  Hypothesis leb_antisym : forall x y, leb x y = true -> leb y x = true -> key x = key y.

  Lemma sorted_perm_unique : forall l1 l2,
    StronglySorted le l1 -> StronglySorted le l2 -> Permutation l1 l2 ->
    NoDup (map key l1) -> l1 = l2.
  Proof.
    induction l1 as [|x r1 IH]; intros l2 S1 S2 HP ND.
    - apply Permutation_nil in HP. subst. reflexivity.
    - destruct l2 as [|y r2].
      { apply Permutation_sym, Permutation_nil in HP. discriminate. }
      inversion S1 as [|? ? S1' F1]; subst. inversion S2 as [|? ? S2' F2]; subst.
      inversion ND as [|? ? Hnin ND']; subst.
      assert (Exy : x = y).
      { assert (Hx : In x (y :: r2)) by (eapply Permutation_in; [exact HP|left; reflexivity]).
        assert (Hy : In y (x :: r1))
          by (eapply Permutation_in; [apply Permutation_sym; exact HP|left; reflexivity]).
        destruct Hx as [Hx|Hx]; [symmetry; exact Hx|].
        destruct Hy as [Hy|Hy]; [exact Hy|].
        exfalso. apply Hnin.
        rewrite Forall_forall in F1, F2.
        rewrite (leb_antisym x y (F1 _ Hy) (F2 _ Hx)).
        apply in_map. exact Hy. }
      subst y. f_equal. apply IH; auto.
      eapply Permutation_cons_inv. exact HP.
  Qed.

  Lemma sort_by_perm_eq : forall l l',
    Permutation l l' -> NoDup (map key l) -> sort_by leb l' = sort_by leb l.
  Proof.
    intros l l' HP ND. apply sorted_perm_unique.
    - apply sort_by_sorted.
    - apply sort_by_sorted.
    - eapply Permutation_trans; [apply sort_by_perm|].
      eapply Permutation_trans; [apply Permutation_sym; exact HP|].
      apply Permutation_sym. apply sort_by_perm.
    - eapply Permutation_NoDup; [|exact ND].
      apply Permutation_map.
      eapply Permutation_trans; [exact HP|]. apply Permutation_sym. apply sort_by_perm.
  Qed.
End SortFacts.

Lemma filter_perm : forall {A} (p : A -> bool) l l',
  Permutation l l' -> Permutation (filter p l) (filter p l').
Proof.
  intros A p l l' H. induction H; cbn [filter].
  - constructor.
  - destruct (p x); [apply perm_skip|]; assumption.
  - destruct (p x), (p y); try apply Permutation_refl. apply perm_swap.
  - eapply Permutation_trans; eassumption.
Qed.

(* ================================================================== *)
(* GROUP 3 — archive member order (C18)                                 *)
(* ================================================================== *)

Lemma zread_some_in : forall a name m, zread a name = Some m -> In (name, m) a.
Proof.
  induction a as [|[n m0] r IH]; intros name m H; cbn [zread] in H; [discriminate|].
  destruct (zread r name) as [m'|] eqn:E.
  - injection H as <-. right. apply IH. exact E.
  - destruct (str_eqb n name) eqn:En; [|discriminate].
    injection H as <-. apply str_eqb_eq in En. subst. left. reflexivity.
Qed.

Lemma zread_in_some : forall a name m,
  NoDup (map fst a) -> In (name, m) a -> zread a name = Some m.
Proof.
  induction a as [|[n m0] r IH]; intros name m ND Hin; [contradiction|].
  cbn [map fst] in ND. inversion ND as [|? ? Hnin ND']; subst.
  cbn [zread]. destruct Hin as [E|Hin].
  - injection E as -> ->.
    destruct (zread r name) as [m'|] eqn:Er.
    + exfalso. apply Hnin. apply zread_some_in in Er.
      change name with (fst (name, m')). apply in_map. exact Er.
    + rewrite str_eqb_refl. reflexivity.
  - rewrite (IH name m ND' Hin). reflexivity.
Qed.

Lemma zread_perm : forall a a' name,
  Permutation a a' -> NoDup (map fst a) -> zread a' name = zread a name.
Proof.
  intros a a' name HP ND.
  assert (ND' : NoDup (map fst a')).
  { eapply Permutation_NoDup; [|exact ND]. apply Permutation_map. exact HP. }
  destruct (zread a name) as [m|] eqn:E.
  - apply zread_in_some; [exact ND'|].
    eapply Permutation_in; [exact HP|]. apply zread_some_in. exact E.
  - destruct (zread a' name) as [m'|] eqn:E'; [|reflexivity].
    apply zread_some_in in E'.
    apply (Permutation_in _ (Permutation_sym HP)) in E'.
    apply (zread_in_some _ _ _ ND) in E'. congruence.
Qed.

Lemma zread_extra : forall a name n m, n <> name ->
  zread (a ++ [(n, m)]) name = zread a name /\ zread ((n, m) :: a) name = zread a name.
Proof.
  intros a name n m Hne.
  assert (En : str_eqb n name = false) by (apply str_eqb_neq; exact Hne).
  split.
  - induction a as [|[n' m'] r IH]; cbn [app zread].
    + rewrite En. reflexivity.
    + rewrite IH. reflexivity.
  - cbn [zread]. rewrite En. destruct (zread a name); reflexivity.
Qed.

Definition path_leb (x y : frec) : bool := str_leb (f_path x) (f_path y).

Lemma path_leb_total : forall x y, path_leb x y = false -> path_leb y x = true.
Proof.
  unfold path_leb, str_leb. intros x y H.
  apply negb_false_iff in H. apply negb_true_iff. apply str_ltb_asym. exact H.
Qed.

Lemma path_leb_trans : forall x y z,
  path_leb x y = true -> path_leb y z = true -> path_leb x z = true.
Proof.
  unfold path_leb, str_leb. intros x y z H1 H2.
  apply negb_true_iff in H1. apply negb_true_iff in H2. apply negb_true_iff.
  destruct (str_ltb (f_path z) (f_path x)) eqn:E; [|reflexivity].
  destruct (str_ltb_trichotomy (f_path x) (f_path y)) as [H|[H|H]].
  - rewrite (str_ltb_trans _ _ _ E H) in H2. discriminate.
  - rewrite <- H in H2. congruence.
  - congruence.
Qed.

Lemma path_leb_antisym : forall x y,
  path_leb x y = true -> path_leb y x = true -> f_path x = f_path y.
Proof.
  unfold path_leb, str_leb. intros x y H1 H2.
  apply negb_true_iff in H1. apply negb_true_iff in H2.
  destruct (str_ltb_trichotomy (f_path x) (f_path y)) as [H|[H|H]]; congruence.
Qed.

Lemma files_of_types_perm : forall fs fs' tys,
  Permutation fs fs' ->
  NoDup (map f_path (filter (fun f => mem_str (f_type f) tys) fs)) ->
  files_of_types fs' tys = files_of_types fs tys.
Proof.
  intros fs fs' tys HP ND. unfold files_of_types.
  apply (sort_by_perm_eq frec path_leb path_leb_total path_leb_trans str f_path path_leb_antisym).
  - apply filter_perm. exact HP.
  - exact ND.
Qed.

Lemma files_of_type_perm : forall fs fs' ty,
  Permutation fs fs' ->
  NoDup (map f_path (filter (fun f => mem_str (f_type f) [ty]) fs)) ->
  files_of_type fs' ty = files_of_type fs ty.
Proof. intros. unfold files_of_type. apply files_of_types_perm; assumption. Qed.

Lemma files_of_type_unrelated : forall fs f ty,
  mem_str (f_type f) [ty] = false ->
  files_of_type (f :: fs) ty = files_of_type fs ty /\
  files_of_type (fs ++ [f]) ty = files_of_type fs ty.
Proof.
  intros fs f ty H. unfold files_of_type, files_of_types. split.
  - cbn [filter]. rewrite H. reflexivity.
  - rewrite filter_app. cbn [filter]. rewrite H. rewrite app_nil_r. reflexivity.
Qed.

(* ================================================================== *)
(* GROUP 1 — tag vocabulary (C07)                                       *)
(* ================================================================== *)

Definition vocab : list str :=
  [ s2l "b"%string; s2l "i"%string; s2l "u"%string; s2l "s"%string;
    s2l "sup"%string; s2l "sub"%string; s2l "span"%string;
    s2l "h1"%string; s2l "h2"%string; s2l "h3"%string;
    s2l "h4"%string; s2l "h5"%string; s2l "h6"%string ].

Definition in_vocab (w : str) : bool := existsb (str_eqb w) vocab.

(* a property value is "in its schema enumeration" as far as the formatter
   reads it: vertAlign is superscript, subscript or baseline (ST_VerticalAlignRun) *)
Definition vals_ok (pr : list (str * option str)) : Prop :=
  forall v, dict_get (s2l "vertAlign"%string) pr = Some v ->
            v = Some (s2l "superscript"%string) \/ v = Some (s2l "subscript"%string)
            \/ v = Some (s2l "baseline"%string).

(* the same requirement on every occurrence of the key, not only the first *)
Definition vals_all (pr : list (str * option str)) : Prop :=
  forall v, In (s2l "vertAlign"%string, v) pr ->
            v = Some (s2l "superscript"%string) \/ v = Some (s2l "subscript"%string)
            \/ v = Some (s2l "baseline"%string).

Definition tag_ok (x : str) : Prop := exists w, first_word x = Ok w /\ in_vocab w = true.
Definition tag_okb (x : str) : bool :=
  match first_word x with Ok w => in_vocab w | Err _ => false end.

Lemma tag_okb_ok : forall x, tag_okb x = true -> tag_ok x.
Proof.
  intros x H. unfold tag_okb in H. destruct (first_word x) as [w|] eqn:E; [|discriminate].
  exists w. split; [exact E|exact H].
Qed.

Definition w_span : str := s2l "span"%string.

(* --- formatter bodies that do not read the value --- *)
Definition part_val_free (p : fpart) : bool :=
  match p with FVal | FValPrefix _ => false | _ => true end.
Definition val_free (f : fexpr) : bool := forallb part_val_free f.

Lemma eval_fexpr_val_free : forall f tag v v',
  val_free f = true -> eval_fexpr f tag v = eval_fexpr f tag v'.
Proof.
  intros f tag v v' H. unfold eval_fexpr.
  assert (E : mapM (eval_fpart tag v) f = mapM (eval_fpart tag v') f).
  { induction f as [|p f IH]; [reflexivity|].
    cbn [val_free forallb] in H. apply andb_true_iff in H. destruct H as [Hp Hf].
    cbn [mapM]. rewrite (IH Hf).
    destruct p; try discriminate Hp; reflexivity. }
  rewrite E. reflexivity.
Qed.

(* --- the closed facts about the table, as one boolean check --- *)
Definition out_okb (r : res str) : bool :=
  match r with Ok s => tag_okb s | Err _ => true end.

Definition entry_ok (kv : str * hformatter) : bool :=
  let k := fst kv in
  let hf := snd kv in
  match hf_container hf with
  | Some c => str_eqb c w_span
  | None =>
      match hf_property hf with
      | Some _ => true
      | None =>
          if str_eqb k (s2l "vertAlign"%string)
          then out_okb (eval_fexpr (hf_expr hf) k (s2l "superscript"%string))
               && out_okb (eval_fexpr (hf_expr hf) k (s2l "subscript"%string))
          else val_free (hf_expr hf) && out_okb (eval_fexpr (hf_expr hf) k [])
      end
  end.

Lemma table_ok : forallb entry_ok xml2html_table = true.
Proof. vm_compute. reflexivity. Qed.

Lemma dict_get_in : forall {V} k (d : list (str * V)) v, dict_get k d = Some v -> In (k, v) d.
Proof.
  intros V k d. induction d as [|[k' v'] r IH]; intros v H; cbn [dict_get] in H; [discriminate|].
  destruct (str_eqb k k') eqn:E.
  - injection H as <-. apply str_eqb_eq in E. subst. left. reflexivity.
  - right. apply IH. exact H.
Qed.

Lemma dict_get_in_nodup : forall {V} k (d : list (str * V)) v,
  NoDup (map fst d) -> In (k, v) d -> dict_get k d = Some v.
Proof.
  intros V k d. induction d as [|[k' v'] r IH]; intros v ND Hin; [contradiction|].
  cbn [map fst] in ND. inversion ND as [|? ? Hnin ND']; subst.
  cbn [dict_get]. destruct Hin as [E|Hin].
  - injection E as -> ->. rewrite str_eqb_refl. reflexivity.
  - destruct (str_eqb k k') eqn:E.
    + apply str_eqb_eq in E. subst k'. exfalso. apply Hnin.
      change k with (fst (k, v)). apply in_map. exact Hin.
    + apply IH; assumption.
Qed.

Lemma entry_step : forall k v hf s,
  dict_get k xml2html_table = Some hf ->
  (k = s2l "vertAlign"%string ->
   v = Some (s2l "superscript"%string) \/ v = Some (s2l "subscript"%string)) ->
  eval_fexpr (hf_expr hf) k (ostr v) = Ok s ->
  (hf_container hf = None \/ hf_container hf = Some w_span) /\
  ((hf_container hf, hf_property hf) = (None, None) -> tag_ok s).
Proof.
  intros k v hf s Hg Hv He.
  apply dict_get_in in Hg.
  pose proof table_ok as T. rewrite forallb_forall in T. specialize (T _ Hg).
  unfold entry_ok in T. cbn [fst snd] in T.
  destruct (hf_container hf) as [c|].
  - apply str_eqb_eq in T. subst c. split; [right; reflexivity|intro H; discriminate H].
  - split; [left; reflexivity|]. intro H. injection H as Hp. rewrite Hp in T.
    destruct (str_eqb k (s2l "vertAlign"%string)) eqn:Ek.
    + apply str_eqb_eq in Ek. apply andb_true_iff in T. destruct T as [T1 T2].
      destruct (Hv Ek) as [-> | ->]; cbn [ostr] in He.
      * rewrite He in T1. apply tag_okb_ok. exact T1.
      * rewrite He in T2. apply tag_okb_ok. exact T2.
    + apply andb_true_iff in T. destruct T as [T1 T2].
      rewrite (eval_fexpr_val_free _ k (ostr v) [] T1) in He.
      rewrite He in T2. apply tag_okb_ok. exact T2.
Qed.

(* --- invariant of the (container, property) grouping --- *)
Definition key_ok (k : cp_key) : Prop := fst k = None \/ fst k = Some w_span.
Definition cp_inv (d : list (cp_key * list str)) : Prop :=
  Forall (fun kv => key_ok (fst kv) /\ (fst kv = (None, None) -> Forall tag_ok (snd kv))) d.

Lemma ostr_eqb_eq : forall a b, ostr_eqb a b = true -> a = b.
Proof.
  intros [a|] [b|] H; cbn in H; try discriminate; [|reflexivity].
  apply str_eqb_eq in H. subst. reflexivity.
Qed.

Lemma cp_eqb_eq : forall a b, cp_eqb a b = true -> a = b.
Proof.
  intros [a1 a2] [b1 b2] H. unfold cp_eqb in H. cbn [fst snd] in H.
  apply andb_true_iff in H. destruct H as [H1 H2].
  apply ostr_eqb_eq in H1. apply ostr_eqb_eq in H2. subst. reflexivity.
Qed.

Lemma cp_add_inv : forall k v d,
  key_ok k -> (k = (None, None) -> tag_ok v) -> cp_inv d -> cp_inv (cp_add k v d).
Proof.
  intros k v d Hk Hv Hd. induction Hd as [|[k' vs] r [Hk' Hvs] Hr IH]; cbn [cp_add].
  - constructor; [|constructor]. cbn [fst snd]. split; [exact Hk|].
    intro E. constructor; [apply Hv; exact E|constructor].
  - cbn [fst snd] in *. destruct (cp_eqb k k') eqn:E.
    + apply cp_eqb_eq in E. subst k'. constructor; [|exact Hr]. cbn [fst snd].
      split; [exact Hk|]. intro E. apply Forall_app. split; [apply Hvs; exact E|].
      constructor; [apply Hv; exact E|constructor].
    + constructor; [|exact IH]. cbn [fst snd]. split; assumption.
Qed.

Lemma foldM_inv : forall {A S} (I : S -> Prop) (f : S -> A -> res S) l s0 s,
  (forall s x s', In x l -> I s -> f s x = Ok s' -> I s') ->
  I s0 -> foldM f l s0 = Ok s -> I s.
Proof.
  intros A S I f l. induction l as [|x r IH]; intros s0 s Hstep H0 H; cbn [foldM] in H.
  - injection H as <-. exact H0.
  - destruct (f s0 x) as [s1|] eqn:E; [cbn [bind] in H|discriminate H].
    eapply IH; [|eapply Hstep; [left; reflexivity|exact H0|exact E]|exact H].
    intros s2 y s3 Hy. apply Hstep. right. exact Hy.
Qed.

Lemma fold_left_inv : forall {A S} (I : S -> Prop) (f : S -> A -> S) l s0,
  (forall s x, In x l -> I s -> I (f s x)) -> I s0 -> I (fold_left f l s0).
Proof.
  intros A S I f l. induction l as [|x r IH]; intros s0 Hstep H0; cbn [fold_left]; [exact H0|].
  apply IH.
  - intros s y Hy. apply Hstep. right. exact Hy.
  - apply Hstep; [left; reflexivity|exact H0].
Qed.

Lemma dict_set_keys : forall {V} (Q : str -> Prop) k (v : V) d,
  Q k -> Forall (fun kv => Q (fst kv)) d -> Forall (fun kv => Q (fst kv)) (dict_set k v d).
Proof.
  intros V Q k v d Hk Hd. induction Hd as [|[k' v'] r Hk' Hr IH]; cbn [dict_set].
  - constructor; [exact Hk|constructor].
  - destruct (str_eqb k k'); constructor; auto.
Qed.

Lemma first_word_span : forall x, first_word (w_span ++ s_space ++ x) = Ok w_span.
Proof. intros x. reflexivity. Qed.

Lemma w_span_vocab : in_vocab w_span = true.
Proof. vm_compute. reflexivity. Qed.

(* every style string starts with a documented tag, provided every
   vertAlign entry of pr carries superscript or subscript *)
Lemma format_vocab_all : forall pr st,
  vals_all pr -> format_Pr_into_html pr xml2html_table = Ok st -> Forall tag_ok st.
Proof.
  intros pr st Hv H. unfold format_Pr_into_html in H.
  match type of H with
  | (bind ?r _ = Ok _) => destruct r as [cp|] eqn:E; [cbn [bind] in H|discriminate H]
  end.
  assert (Hcp : cp_inv cp).
  { eapply (foldM_inv cp_inv); [|constructor|exact E].
    intros d [k v] d' Hin Hd Hs. cbn [fst snd] in Hs.
    destruct (dict_get k xml2html_table) as [hf|] eqn:Eg.
    - destruct (is_off v) eqn:Eoff; [injection Hs as <-; exact Hd|].
      destruct (eval_fexpr (hf_expr hf) k (ostr v)) as [s|] eqn:Ee; [cbn [bind] in Hs|discriminate Hs].
      injection Hs as <-.
      assert (Hvk : k = s2l "vertAlign"%string ->
                    v = Some (s2l "superscript"%string) \/ v = Some (s2l "subscript"%string)).
      { intro Ek. destruct (Hv v) as [Hq|[Hq|Hq]]; [rewrite <- Ek; exact Hin|left; exact Hq|right; exact Hq|].
        subst v. vm_compute in Eoff. discriminate Eoff. }
      destruct (entry_step k v hf s Eg Hvk Ee) as [Hc Ht].
      apply cp_add_inv; [exact Hc|exact Ht|exact Hd].
    - injection Hs as <-. exact Hd. }
  cbv zeta in H. injection H as <-.
  apply Forall_app. split.
  - (* spans *)
    rewrite Forall_forall. intros x Hx.
    apply in_map_iff in Hx. destruct Hx as [kv [<- Hkv]].
    apply sort_by_In in Hkv. apply filter_In in Hkv. destruct Hkv as [Hkv Hne].
    match type of Hkv with
    | In _ (fold_left ?f ?l ?z) =>
        assert (Hkeys : Forall (fun kv : str * list str => fst kv = [] \/ fst kv = w_span)
                          (fold_left f l z))
    end.
    { apply (fold_left_inv (Forall (fun kv : str * list str => fst kv = [] \/ fst kv = w_span)));
        [|constructor].
      intros d [[c [p|]] vs] Hin Hd; cbn [fst snd]; [|exact Hd].
      apply sort_by_In in Hin. apply filter_In in Hin. destruct Hin as [Hin _].
      unfold cp_inv in Hcp. rewrite Forall_forall in Hcp. destruct (Hcp _ Hin) as [Hk _].
      unfold key_ok in Hk. cbn [fst] in Hk.
      assert (Hq : ostr c = [] \/ ostr c = w_span).
      { destruct Hk as [-> | ->]; [left|right]; reflexivity. }
      destruct (dict_get (ostr c) d); apply (dict_set_keys (fun k : str => k = [] \/ k = w_span)); assumption. }
    rewrite Forall_forall in Hkeys. specialize (Hkeys _ Hkv).
    destruct kv as [k items]. cbn [fst snd] in *. destruct Hkeys as [Hk|Hk]; subst k.
    + discriminate Hne.
    + exists w_span. split; [apply first_word_span|apply w_span_vocab].
  - (* bare *)
    destruct (find (fun kv : cp_key * list str => cp_eqb (fst kv) (None, None)) cp)
      as [[k vs]|] eqn:F; [|constructor].
    apply find_some in F. destruct F as [Hin Hk]. cbn [fst] in Hk. apply cp_eqb_eq in Hk.
    unfold cp_inv in Hcp. rewrite Forall_forall in Hcp. destruct (Hcp _ Hin) as [_ Hvs].
    unfold sort_strs. apply sort_by_Forall. apply Hvs. exact Hk.
Qed.

(* The statement with vals_ok (first occurrence only) is false when pr
   repeats the key: see format_vocab_dup_refuted.  With pairwise distinct
   keys (what gather_Pr produces: gather_Pr_nodup) it holds. *)
Lemma format_vocab_partial : forall pr st,
  NoDup (map fst pr) -> vals_ok pr ->
  format_Pr_into_html pr xml2html_table = Ok st ->
  Forall (fun x => exists w, first_word x = Ok w /\ in_vocab w = true) st.
Proof.
  intros pr st ND Hv H. apply (format_vocab_all pr st); [|exact H].
  intros v Hin. apply Hv. apply dict_get_in_nodup; assumption.
Qed.

Lemma format_vocab_dup_refuted : exists pr st,
  vals_ok pr /\ format_Pr_into_html pr xml2html_table = Ok st /\
  ~ Forall (fun x => exists w, first_word x = Ok w /\ in_vocab w = true) st.
Proof.
  exists [(s2l "vertAlign"%string, Some (s2l "superscript"%string));
          (s2l "vertAlign"%string, Some (s2l "bogus"%string))].
  exists [s2l "bog"%string; s2l "sup"%string].
  split; [|split].
  - intros v H. vm_compute in H. injection H as <-. left. reflexivity.
  - vm_compute. reflexivity.
  - intro H. inversion H as [|? ? [w [Hw Hin]] _]; subst.
    vm_compute in Hw. injection Hw as <-. vm_compute in Hin. discriminate Hin.
Qed.

(* gather_Pr builds its dict with dict_set: keys are pairwise distinct *)
Lemma dict_set_keys_in : forall {V} x k (v : V) d,
  In x (map fst (dict_set k v d)) -> x = k \/ In x (map fst d).
Proof.
  intros V x k v d. induction d as [|[k' v'] r IH]; cbn [dict_set map fst]; intro H.
  - destruct H as [H|[]]. left. symmetry. exact H.
  - destruct (str_eqb k k') eqn:E; cbn [map fst] in H.
    + destruct H as [H|H]; [left; symmetry; exact H|right; right; exact H].
    + destruct H as [H|H]; [right; left; exact H|].
      destruct (IH H) as [H'|H']; [left; exact H'|right; right; exact H'].
Qed.

Lemma dict_set_nodup : forall {V} k (v : V) d,
  NoDup (map fst d) -> NoDup (map fst (dict_set k v d)).
Proof.
  intros V k v d. induction d as [|[k' v'] r IH]; cbn [dict_set map fst]; intro ND.
  - constructor; [intros []|constructor].
  - inversion ND as [|? ? Hnin ND']; subst.
    destruct (str_eqb k k') eqn:E; cbn [map fst].
    + apply str_eqb_eq in E. subst k'. constructor; assumption.
    + constructor; [|apply IH; exact ND'].
      intro Hin. apply dict_set_keys_in in Hin. destruct Hin as [Hin|Hin].
      * subst k'. rewrite str_eqb_refl in E. discriminate E.
      * apply Hnin. exact Hin.
Qed.

Lemma gather_Pr_nodup : forall e ks pr, gather_Pr e ks = Ok pr -> NoDup (map fst pr).
Proof.
  intros e ks pr H. unfold gather_Pr in H.
  destruct (find_child (e_uri e) (e_local e ++ s_Pr) ks) as [p|].
  - refine (foldM_inv (fun d : list (str * option str) => NoDup (map fst d)) _ _ [] pr
              _ (NoDup_nil _) H).
    intros d k d' _ Hd Hs. destruct k as [ke kk|kx].
    + destruct (sub_val_of (AE ke kk)) as [[n v]|]; [cbn [bind] in Hs|discriminate Hs].
      injection Hs as <-. apply dict_set_nodup. exact Hd.
    + injection Hs as <-. exact Hd.
  - injection H as <-. constructor.
Qed.

(* the run formatting as the extraction computes it *)
Lemma run_formatting_vocab : forall e ks pr st,
  gather_Pr e ks = Ok pr -> vals_ok pr ->
  get_run_formatting e ks xml2html_table = Ok st ->
  Forall (fun x => exists w, first_word x = Ok w /\ in_vocab w = true) st.
Proof.
  intros e ks pr st Hg Hv H. unfold get_run_formatting in H. rewrite Hg in H. cbn [bind] in H.
  eapply format_vocab_partial; [eapply gather_Pr_nodup; exact Hg|exact Hv|exact H].
Qed.

(* html=False: no tags at all *)
Lemma format_empty_table : forall pr, format_Pr_into_html pr [] = Ok [].
Proof.
  intros pr. unfold format_Pr_into_html.
  match goal with
  | |- (bind (foldM ?f pr []) _ = _) =>
      assert (E : forall d, foldM f pr d = Ok d)
  end.
  { induction pr as [|kv r IH]; intro d; cbn [foldM dict_get bind]; [reflexivity|apply IH]. }
  rewrite E. reflexivity.
Qed.

(* D9 (repaired): vertAlign=baseline is a switched-off property: no tag *)
Lemma baseline_no_tag :
  format_Pr_into_html [(s2l "vertAlign"%string, Some (s2l "baseline"%string))] xml2html_table = Ok [].
Proof. vm_compute. reflexivity. Qed.

(* D8 (repaired): a property switched off produces no tag, whatever the table says *)
Lemma off_value_no_tag : forall k v x2h,
  is_off v = true -> format_Pr_into_html [(k, v)] x2h = Ok [].
Proof.
  intros k v x2h H. unfold format_Pr_into_html. cbn [foldM fst snd].
  destruct (dict_get k x2h); [rewrite H|]; reflexivity.
Qed.

Lemma off_values_are : forall s, is_off (Some s) = true <->
  In s [[48] (* "0" *); s2l "false"%string; s2l "off"%string; s2l "none"%string; s2l "baseline"%string].
Proof.
  intro s. unfold is_off. rewrite existsb_exists. split.
  - intros [x [Hin Hx]]. apply str_eqb_eq in Hx. subst x.
    cbn in Hin. cbn. intuition.
  - intro H. exists s. split; [|apply str_eqb_refl].
    cbn in H. cbn. intuition.
Qed.

(* ================================================================== *)
(* GROUP 2 — the html map (C20)                                         *)
(* ================================================================== *)

Lemma Ok_inj : forall {A} (a b : A), Ok a = Ok b -> a = b.
Proof. intros A a b H. injection H as H. exact H. Qed.

Lemma bind_Ok : forall {A B} (a : A) (k : A -> res B), bind (Ok a) k = k a.
Proof. reflexivity. Qed.

Ltac bind_ok H x E :=
  match type of H with
  | (bind ?r _ = Ok _) =>
      destruct r as [x|] eqn:E; [rewrite bind_Ok in H; cbv beta in H|discriminate H]
  end.

(* the <pre> label the map writes for the paragraph at addr *)
Definition par_label (addr : list nat) : str := s_pre_o ++ str_of_addr addr ++ [32].

Definition par_labels (t : rose str) : res (list str) :=
  r <- enum_at_depth t 4%nat ;;
  Ok (map (fun ax => s_pre_o ++ str_of_addr (fst ax) ++ [32]) r).

Lemma html_map_structure : forall tables s,
  get_html_map tables = Ok s -> exists body, s = s_html_o ++ body ++ s_html_c.
Proof.
  intros tables s H. unfold get_html_map in H.
  bind_ok H ts E1. bind_ok H xs E2. apply Ok_inj in H; rewrite <- H; clear H.
  exists (concat xs). reflexivity.
Qed.

(* woven s ls: s is the labels ls, in order, separated by other text *)
Inductive woven : str -> list str -> Prop :=
| W_nil : forall tl, woven tl []
| W_cons : forall p l s ls, woven s ls -> woven (p ++ l ++ s) (l :: ls).

Lemma woven_prepend : forall x s ls, woven s ls -> woven (x ++ s) ls.
Proof.
  intros x s ls H. destruct H as [tl|p l s ls H].
  - constructor.
  - rewrite app_assoc. constructor. exact H.
Qed.

Lemma woven_app : forall s1 l1 s2 l2, woven s1 l1 -> woven s2 l2 -> woven (s1 ++ s2) (l1 ++ l2).
Proof.
  intros s1 l1 s2 l2 H1 H2. induction H1 as [tl|p l s ls H IH].
  - cbn [app]. apply woven_prepend. exact H2.
  - rewrite <- !app_assoc. cbn [app]. constructor. exact IH.
Qed.

Lemma woven_wrap : forall o c s ls, woven s ls -> woven (wrap o c s) ls.
Proof.
  intros o c s ls H. unfold wrap. apply woven_prepend.
  rewrite <- (app_nil_r ls). apply woven_app; [exact H|constructor].
Qed.

(* woven in the pieces/labels form of the statement *)
Lemma woven_pieces : forall s labels, woven s labels ->
  exists pieces, length pieces = S (length labels) /\
    s = concat (map (fun pl => fst pl ++ snd pl)
                    (combine (firstn (length labels) pieces) labels)) ++ last pieces [].
Proof.
  intros s labels H. induction H as [tl|p l s ls H [pieces [HL HS]]].
  - exists [tl]. split; reflexivity.
  - exists (p :: pieces). split; [cbn [length]; rewrite HL; reflexivity|].
    cbn [length firstn combine map concat fst snd].
    destruct pieces as [|q pieces]; [discriminate HL|].
    change (last (p :: q :: pieces) []) with (last (q :: pieces) []).
    rewrite <- !app_assoc. rewrite <- HS. reflexivity.
Qed.

(* one paragraph: its label followed by the run texts *)
Lemma html_map_par_woven : forall addr p s,
  html_map_par addr p = Ok s -> woven s [par_label addr].
Proof.
  intros addr p s H. unfold html_map_par in H.
  bind_ok H runs E1. bind_ok H ss E2. apply Ok_inj in H; rewrite <- H; clear H.
  unfold wrap, par_label.
  replace (s_pre_o ++ (str_of_addr addr ++ 32 :: concat ss) ++ s_pre_c)
    with ([] ++ (s_pre_o ++ str_of_addr addr ++ [32]) ++ (concat ss ++ s_pre_c)).
  - constructor. constructor.
  - change (32 :: concat ss) with ([32] ++ concat ss).
    rewrite app_nil_l. rewrite <- !app_assoc. reflexivity.
Qed.

(* cell level: enumerate the paragraphs *)
Lemma cell_go_woven : forall addr ps i xs,
  mapi_go (fun m p => html_map_par (addr ++ [m]) p) i ps = Ok xs ->
  woven (concat xs)
        (map (fun ax : list nat * rose str => par_label (addr ++ fst ax))
             (map (fun ix : nat * rose str => ([fst ix], snd ix)) (combine (seq i (length ps)) ps))).
Proof.
  intros addr ps. induction ps as [|p ps IH]; intros i xs H; cbn [mapi_go] in H.
  - apply Ok_inj in H; rewrite <- H; clear H. constructor.
  - bind_ok H y E1. bind_ok H ys E2. apply Ok_inj in H; rewrite <- H; clear H.
    cbn [length seq combine map concat fst snd].
    change (par_label (addr ++ [i]) :: ?r) with ([par_label (addr ++ [i])] ++ r).
    apply woven_app; [eapply html_map_par_woven; exact E1|apply IH; exact E2].
Qed.

(* a level function, with the labels it writes *)
Definition level_ok (k : nat) (G : list nat -> rose str -> res str) : Prop :=
  forall addr t s, G addr t = Ok s ->
    exists r, enum_depth k t = Ok r /\
      woven s (map (fun ax : list nat * rose str => par_label (addr ++ fst ax)) r).

Lemma html_map_cell_ok : level_ok 0 html_map_cell.
Proof.
  intros addr t s H. unfold html_map_cell in H.
  bind_ok H ps E1. bind_ok H xs E2. apply Ok_inj in H; rewrite <- H; clear H.
  destruct t as [l|a]; [|discriminate E1]. injection E1 as <-.
  eexists. split; [reflexivity|].
  apply woven_wrap. apply cell_go_woven. exact E2.
Qed.

Lemma level_go : forall k G addr, level_ok k G ->
  forall l i xs, mapi_go (fun j c => G (addr ++ [j]) c) i l = Ok xs ->
  exists r, enum_from (enum_depth k) i l = Ok r /\
    woven (concat xs) (map (fun ax : list nat * rose str => par_label (addr ++ fst ax)) r).
Proof.
  intros k G addr HG l. induction l as [|c l IH]; intros i xs H; cbn [mapi_go] in H.
  - apply Ok_inj in H; rewrite <- H; clear H. exists []. split; [reflexivity|constructor].
  - bind_ok H y E1. bind_ok H ys E2. apply Ok_inj in H; rewrite <- H; clear H.
    destruct (HG _ _ _ E1) as [ry [Ery Wy]].
    destruct (IH _ _ E2) as [rr [Err Wr]].
    cbn [enum_from]. rewrite Ery. cbn [bind]. rewrite Err. cbn [bind].
    eexists. split; [reflexivity|].
    rewrite map_app, map_map. cbn [concat fst].
    apply woven_app; [|exact Wr].
    erewrite map_ext; [exact Wy|].
    intros [a x]. cbn [fst]. rewrite <- app_assoc. reflexivity.
Qed.

Lemma level_step : forall k G o c, level_ok k G ->
  level_ok (S k) (fun addr t =>
     cs <- as_rl t ;; xs <- mapiM (fun j x => G (addr ++ [j]) x) cs ;;
     Ok (wrap o c (concat xs))).
Proof.
  intros k G o c HG addr t s H.
  bind_ok H cs E1. bind_ok H xs E2. apply Ok_inj in H; rewrite <- H; clear H.
  destruct t as [l|a]; [|discriminate E1]. injection E1 as <-.
  destruct (level_go k G addr HG l 0%nat xs E2) as [r [Er Wr]].
  exists r. split; [exact Er|]. apply woven_wrap. exact Wr.
Qed.

Lemma html_map_row_ok : level_ok 1 html_map_row.
Proof. exact (level_step 0 html_map_cell s_tr_o s_tr_c html_map_cell_ok). Qed.

Lemma html_map_table_ok :
  level_ok 2 (fun addr t =>
     cs <- as_rl t ;; xs <- mapiM (fun j x => html_map_row (addr ++ [j]) x) cs ;;
     Ok (wrap s_table_o s_table_c (concat xs))).
Proof. exact (level_step 1 html_map_row s_table_o s_table_c html_map_row_ok). Qed.

(* the whole map: the labels of exactly the depth-4 addresses, in
   enumeration order, separated by other text.  No well-formedness
   hypothesis is needed: success of get_html_map implies it. *)
Lemma html_map_woven : forall tables s,
  get_html_map tables = Ok s ->
  exists labels, par_labels tables = Ok labels /\ woven s labels.
Proof.
  intros tables s H. unfold get_html_map in H.
  bind_ok H ts E1. bind_ok H xs E2. apply Ok_inj in H; rewrite <- H; clear H.
  destruct tables as [l|a]; [|discriminate E1]. injection E1 as <-.
  assert (E3 : mapi_go (fun j x =>
                 (fun addr t =>
                    cs <- as_rl t ;; xs <- mapiM (fun j x => html_map_row (addr ++ [j]) x) cs ;;
                    Ok (wrap s_table_o s_table_c (concat xs))) ([] ++ [j]) x) 0%nat l = Ok xs)
    by exact E2.
  destruct (level_go 2 _ [] html_map_table_ok l 0%nat xs E3) as [r [Er Wr]].
  unfold par_labels.
  change (enum_at_depth (RL l) 4%nat) with (enum_from (enum_depth 2) 0%nat l).
  rewrite Er. rewrite bind_Ok.
  eexists. split; [reflexivity|].
  apply woven_prepend. rewrite <- (app_nil_r (map _ r)).
  apply woven_app; [exact Wr|constructor].
Qed.

Lemma html_map_concat_labels_strong : forall tables s,
  get_html_map tables = Ok s ->
  exists pieces labels, par_labels tables = Ok labels /\ length pieces = S (length labels)
    /\ s = concat (map (fun pl => fst pl ++ snd pl)
                       (combine (firstn (length labels) pieces) labels)) ++ last pieces [].
Proof.
  intros tables s H. destruct (html_map_woven tables s H) as [labels [HL HW]].
  destruct (woven_pieces s labels HW) as [pieces [H1 H2]].
  exists pieces, labels. auto.
Qed.

Lemma html_map_concat_labels : forall tables s,
  IterFacts.wf 4%nat tables -> get_html_map tables = Ok s ->
  exists pieces labels, par_labels tables = Ok labels /\ length pieces = S (length labels)
    /\ s = concat (map (fun pl => fst pl ++ snd pl)
                       (combine (firstn (length labels) pieces) labels)) ++ last pieces [].
Proof. intros tables s _. apply html_map_concat_labels_strong. Qed.

(* every depth-4 address (index into tables/rows/cells/paragraphs) is
   labelled exactly once, in increasing lexicographic order *)
Lemma wf_mono : forall (A : Type) k (t : rose A), IterFacts.wf (S k) t -> IterFacts.wf k t.
Proof.
  intros A k. induction k as [|k IH]; intros [l|a] H; cbn in *; try contradiction; [exact I|].
  eapply Forall_impl; [|exact H]. exact IH.
Qed.

Lemma html_map_each_address_once : forall tables s,
  IterFacts.wf 4%nat tables -> get_html_map tables = Ok s ->
  exists addrs,
    woven s (map par_label addrs) /\
    NoDup addrs /\
    Sorted.StronglySorted lex_lt addrs /\
    (forall a, In a addrs <-> (length a = 4%nat /\ exists x, index tables a = Some x)).
Proof.
  intros tables s Hwf H.
  destruct (html_map_woven tables s H) as [labels [HL HW]].
  destruct (@enum_depth_spec str 3%nat tables (wf_mono _ _ _ Hwf)) as [r [Er [Hmem Hsorted]]].
  unfold par_labels in HL.
  change (enum_at_depth tables 4%nat) with (enum_depth 3 tables) in HL.
  rewrite Er in HL. rewrite bind_Ok in HL. apply Ok_inj in HL. subst labels.
  exists (map fst r). split; [|split; [|split]].
  - rewrite map_map. exact HW.
  - apply strongly_sorted_nodup. exact Hsorted.
  - exact Hsorted.
  - intros a. split.
    + intro Hin. apply in_map_iff in Hin. destruct Hin as [[a' x] [Ea Hin]]. cbn [fst] in Ea. subst a'.
      apply Hmem in Hin. destruct Hin as [L I]. split; [exact L|exists x; exact I].
    + intros [L [x I]]. apply in_map_iff. exists (a, x). split; [reflexivity|].
      apply Hmem. split; assumption.
Qed.

(* ---------- totality ---------- *)

(* all leaves sit exactly k levels down, everything above is a list *)
Fixpoint leaves_at (k : nat) (t : rose str) : Prop :=
  match t with
  | RA _ => match k with O => True | S _ => False end
  | RL l => match k with O => False | S k' => Forall (leaves_at k') l end
  end.

Lemma mapM_total : forall {A B} (f : A -> res B) l,
  Forall (fun x => exists y, f x = Ok y) l -> exists ys, mapM f l = Ok ys.
Proof.
  intros A B f l H. induction H as [|x l [y Hy] Hl [ys Hys]]; cbn [mapM].
  - exists []. reflexivity.
  - rewrite Hy, bind_Ok, Hys, bind_Ok. eexists. reflexivity.
Qed.

Lemma mapi_go_total : forall {A B} (f : nat -> A -> res B) l,
  Forall (fun x => forall i, exists y, f i x = Ok y) l ->
  forall i, exists ys, mapi_go f i l = Ok ys.
Proof.
  intros A B f l H. induction H as [|x l Hx Hl IH]; intro i; cbn [mapi_go].
  - exists []. reflexivity.
  - destruct (Hx i) as [y Hy]. destruct (IH (S i)) as [ys Hys].
    rewrite Hy, bind_Ok, Hys, bind_Ok. eexists. reflexivity.
Qed.

Lemma html_map_par_total : forall p, leaves_at 1 p ->
  forall addr, exists s, html_map_par addr p = Ok s.
Proof.
  intros [l|a] H addr; cbn [leaves_at] in H; [|contradiction].
  unfold html_map_par. cbn [as_rl]. rewrite bind_Ok.
  destruct (mapM_total leaf_str l) as [ss Hss].
  { eapply Forall_impl; [|exact H]. intros [l'|s] Hx; cbn in Hx; [contradiction|].
    exists s. reflexivity. }
  rewrite Hss, bind_Ok. eexists. reflexivity.
Qed.

Lemma html_map_cell_total : forall c, leaves_at 2 c ->
  forall addr, exists s, html_map_cell addr c = Ok s.
Proof.
  intros [l|a] H addr; cbn [leaves_at] in H; [|contradiction].
  unfold html_map_cell, mapiM. cbn [as_rl]. rewrite bind_Ok.
  destruct (mapi_go_total (fun m p => html_map_par (addr ++ [m]) p) l) with (i := 0%nat)
    as [xs Hxs].
  { eapply Forall_impl; [|exact H]. intros p Hp i. apply html_map_par_total. exact Hp. }
  rewrite Hxs, bind_Ok. eexists. reflexivity.
Qed.

Lemma html_map_row_total : forall r, leaves_at 3 r ->
  forall addr, exists s, html_map_row addr r = Ok s.
Proof.
  intros [l|a] H addr; cbn [leaves_at] in H; [|contradiction].
  unfold html_map_row, mapiM. cbn [as_rl]. rewrite bind_Ok.
  destruct (mapi_go_total (fun k c => html_map_cell (addr ++ [k]) c) l) with (i := 0%nat)
    as [xs Hxs].
  { eapply Forall_impl; [|exact H]. intros p Hp i. apply html_map_cell_total. exact Hp. }
  rewrite Hxs, bind_Ok. eexists. reflexivity.
Qed.

Lemma html_map_table_total : forall t, leaves_at 4 t ->
  forall i, exists s, html_map_table i t = Ok s.
Proof.
  intros [l|a] H i; cbn [leaves_at] in H; [|contradiction].
  unfold html_map_table, mapiM. cbn [as_rl]. rewrite bind_Ok.
  destruct (mapi_go_total (fun j r => html_map_row [i; j] r) l) with (i := 0%nat)
    as [xs Hxs].
  { eapply Forall_impl; [|exact H]. intros p Hp j. apply html_map_row_total. exact Hp. }
  rewrite Hxs, bind_Ok. eexists. reflexivity.
Qed.

(* structural form: a 5-deep list whose depth-5 items are all strings *)
Lemma html_map_total_leaves : forall tables,
  leaves_at 5 tables -> exists s, get_html_map tables = Ok s.
Proof.
  intros [l|a] H; cbn [leaves_at] in H; [|contradiction].
  unfold get_html_map, mapiM. cbn [as_rl]. rewrite bind_Ok.
  destruct (mapi_go_total html_map_table l) with (i := 0%nat) as [xs Hxs].
  { eapply Forall_impl; [|exact H]. intros p Hp j. apply html_map_table_total. exact Hp. }
  rewrite Hxs, bind_Ok. eexists. reflexivity.
Qed.

Lemma leaves_of_index : forall k (t : rose str),
  IterFacts.wf k t ->
  (forall addr x, length addr = S k -> index t addr = Some x -> exists s, x = RA s) ->
  leaves_at (S k) t.
Proof.
  induction k as [|k IH]; intros [l|a] Hwf H; cbn in Hwf; try contradiction;
    cbn [leaves_at]; rewrite Forall_forall; intros x Hx;
    destruct (In_nth_error _ _ Hx) as [n Hn].
  - destruct (H [n] x eq_refl) as [s Hs].
    { cbn [index]. rewrite Hn. reflexivity. }
    subst x. exact I.
  - rewrite Forall_forall in Hwf. apply IH; [apply Hwf; exact Hx|].
    intros addr y L Hy. apply (H (n :: addr) y).
    + cbn [length]. rewrite L. reflexivity.
    + cbn [index]. rewrite Hn. exact Hy.
Qed.

(* the leaf condition through the model's own enumeration: every item
   enum_at_depth yields at depth 5 is a string *)
Lemma html_map_total : forall tables,
  IterFacts.wf 4%nat tables ->
  (forall r, enum_at_depth tables 5%nat = Ok r ->
             Forall (fun ax : list nat * rose str => exists s, snd ax = RA s) r) ->
  exists s, get_html_map tables = Ok s.
Proof.
  intros tables Hwf Hleaf. apply html_map_total_leaves.
  apply leaves_of_index; [exact Hwf|].
  destruct (@enum_depth_spec str 4%nat tables Hwf) as [r [Er [Hmem _]]].
  specialize (Hleaf r Er). rewrite Forall_forall in Hleaf.
  intros addr x L Hx.
  assert (Hin : In (addr, x) r) by (apply Hmem; split; assumption).
  destruct (Hleaf _ Hin) as [s Hs]. exists s. exact Hs.
Qed.

(* ================================================================== *)
Print Assumptions zread_perm.
Print Assumptions zread_extra.
Print Assumptions files_of_type_perm.
Print Assumptions files_of_type_unrelated.
Print Assumptions format_vocab_all.
Print Assumptions format_vocab_partial.
Print Assumptions format_vocab_dup_refuted.
Print Assumptions run_formatting_vocab.
Print Assumptions format_empty_table.
Print Assumptions baseline_no_tag.
Print Assumptions off_value_no_tag.
Print Assumptions off_values_are.
Print Assumptions html_map_structure.
Print Assumptions html_map_concat_labels_strong.
Print Assumptions html_map_concat_labels.
Print Assumptions html_map_each_address_once.
Print Assumptions html_map_total_leaves.
Print Assumptions html_map_total.
