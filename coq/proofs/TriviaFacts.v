(* TriviaFacts.v — property C18: XML comments, processing instructions and
   inter-element whitespace are invisible to the extraction.

   strip_ax  drops every comment/PI node (AX) of a part,
   strip_ws  forgets every tail and the text of every element that is not
             w:t / m:t.
   The walk reads text only in w:t / m:t and — through itertext — below
   m:oMath; [math_clean] is the (boolean) condition on the content of m:oMath
   elements under which the two transformations are unobservable.

   Par records carry p_elem = the child-index path of their source element;
   dropping comment nodes shifts these indices, so for strip_ax the collector
   states are equal "up to p_elem" (forget_elem_st). *)
From Coq Require Import List NArith ZArith Bool Arith Lia.
From D2P Require Import Str Err Xml TableTypes Tables Fmt NumFmt Bullets Merge Collector Walk.
From D2P Require Import BulletsFacts MergeFacts SerialFacts GridFacts.
Import ListNotations.
Open Scope N_scope.

(* ================================================================== *)
(* definitions                                                          *)
(* ================================================================== *)
Definition is_AE (k : anode) : bool := match k with AE _ _ => true | AX _ => false end.

(* drop comment/PI children everywhere.  (The one-line definition with
   [map strip_ax (filter is_AE ks)] is rejected by the guard checker; the
   equation is strip_ax_AE below.) *)
Fixpoint strip_ax (t : anode) : anode :=
  match t with
  | AX tl => AX tl
  | AE e ks =>
      AE e ((fix go (l : list anode) : list anode :=
               match l with
               | [] => []
               | k :: r => match k with
                           | AE _ _ => strip_ax k :: go r
                           | AX _ => go r
                           end
               end) ks)
  end.
Definition strip_kids (ks : list anode) : list anode := map strip_ax (filter is_AE ks).

Lemma strip_ax_AE : forall e ks, strip_ax (AE e ks) = AE e (map strip_ax (filter is_AE ks)).
Proof.
  intros e ks. cbn [strip_ax]. f_equal.
  induction ks as [|k r IH]; [reflexivity|].
  destruct k as [ke kks|tl]; cbn [filter is_AE map]; rewrite IH; reflexivity.
Qed.

(* forget tails everywhere and the text of elements that are not w:t / m:t *)
Definition ws_einfo (e : einfo) : einfo :=
  {| e_ptag := e_ptag e; e_uri := e_uri e; e_local := e_local e;
     e_wuri := e_wuri e; e_ruri := e_ruri e; e_attrs := e_attrs e;
     e_text := if mem_str (e_ptag e) [tag_TEXT; tag_TEXT_MATH] then e_text e else None;
     e_tail := None |}.
Fixpoint strip_ws (t : anode) : anode :=
  match t with
  | AX _ => AX None
  | AE e ks => AE (ws_einfo e) (map strip_ws ks)
  end.

(* forget which source element a record points at *)
Definition forget_elem_par (p : par) : par :=
  {| p_elem := None; p_copy := p_copy p; p_hstyle := p_hstyle p; p_style := p_style p;
     p_lineage := p_lineage p; p_runs := p_runs p; p_listpos := p_listpos p |}.
Fixpoint forget_elem (n : node) : node :=
  match n with
  | NP p => NP (forget_elem_par p)
  | NL l => NL (map forget_elem l)
  end.
Definition forget_elem_st (s : cst) : cst :=
  {| c_tree := map forget_elem (c_tree s); c_depth := c_depth s; c_lineage := c_lineage s;
     c_open := map forget_elem_par (c_open s); c_queued := c_queued s;
     c_ranges := c_ranges s; c_counters := c_counters s |}.

(* the content of m:oMath elements.  [strict = false]: comments/PIs below an
   m:oMath carry no tail text (enough for strip_ax).  [strict = true]: moreover
   no node below an m:oMath has tail text and no element at or below it other
   than w:t / m:t has text (needed for strip_ws). *)
Definition emp (o : option str) : bool := match ostr o with [] => true | _ :: _ => false end.
Definition text_ok (strict : bool) (e : einfo) : bool :=
  negb strict || is_text_like e || emp (e_text e).
Definition tail_ok (strict : bool) (e : einfo) : bool := negb strict || emp (e_tail e).

Fixpoint inner_clean (strict : bool) (t : anode) : bool :=
  match t with
  | AX tl => emp tl
  | AE e ks => tail_ok strict e && text_ok strict e && forallb (inner_clean strict) ks
  end.
Fixpoint math_clean_gen (strict : bool) (t : anode) : bool :=
  match t with
  | AX _ => true
  | AE e ks =>
      (if str_eqb (e_ptag e) tag_MATH
       then text_ok strict e && forallb (inner_clean strict) ks else true)
      && forallb (math_clean_gen strict) ks
  end.
Definition math_clean (t : anode) : bool := math_clean_gen true t.
Definition math_clean_ax (t : anode) : bool := math_clean_gen false t.

Notation F := forget_elem_st.
Notation FT := (map forget_elem).
Definition fr (r : res cst) : res cst := res_map forget_elem_st r.
Definition frb (r : res (cst * bool)) : res (cst * bool) :=
  res_map (fun sb => (forget_elem_st (fst sb), snd sb)) r.

(* ================================================================== *)
(* PART 0 — small facts                                                 *)
(* ================================================================== *)
Lemma forget_par_idem : forall p, forget_elem_par (forget_elem_par p) = forget_elem_par p.
Proof. reflexivity. Qed.

Lemma forget_elem_idem : forall n, forget_elem (forget_elem n) = forget_elem n.
Proof.
  fix IH 1. intros [l|p]; cbn [forget_elem]; [|reflexivity].
  f_equal. induction l as [|x l IHl]; cbn [map]; [reflexivity|].
  rewrite IH, IHl. reflexivity.
Qed.

Lemma F_idem : forall s, F (F s) = F s.
Proof.
  intro s. unfold forget_elem_st. cbn [c_tree c_depth c_lineage c_open c_queued c_ranges c_counters].
  f_equal.
  - rewrite map_map. apply map_ext. apply forget_elem_idem.
  - rewrite map_map. apply map_ext. apply forget_par_idem.
Qed.

Lemma fr_Ok : forall s, fr (Ok s) = Ok (F s).
Proof. reflexivity. Qed.

Lemma Ok_inj : forall {A} (a b : A), Ok a = Ok b -> a = b.
Proof. intros A a b H. injection H as H. exact H. Qed.

(* an operation that commutes with F respects F-equality *)
Lemma resp_of_comm : forall (op : cst -> res cst),
  (forall s, op (F s) = fr (op s)) ->
  forall s s', F s = F s' -> fr (op s) = fr (op s').
Proof. intros op H s s' E. rewrite <- !H, E. reflexivity. Qed.

Lemma math_clean_weaken_inner : forall t, inner_clean true t = true -> inner_clean false t = true.
Proof.
  apply (anode_ind' (fun t => inner_clean true t = true -> inner_clean false t = true)).
  - intros tl H. exact H.
  - intros e ks HF H. cbn [inner_clean] in *.
    apply andb_true_iff in H. destruct H as [_ H]. cbn [tail_ok text_ok negb orb andb].
    induction HF as [|k r Hk _ IH]; [reflexivity|].
    cbn [forallb] in *. apply andb_true_iff in H. destruct H as [H1 H2].
    rewrite (Hk H1), (IH H2). reflexivity.
Qed.

Lemma math_clean_weaken : forall t, math_clean t = true -> math_clean_ax t = true.
Proof.
  unfold math_clean, math_clean_ax.
  apply (anode_ind' (fun t => math_clean_gen true t = true -> math_clean_gen false t = true)).
  - intros tl H. exact H.
  - intros e ks HF H. cbn [math_clean_gen] in *.
    apply andb_true_iff in H. destruct H as [Hm H]. apply andb_true_iff. split.
    + destruct (str_eqb (e_ptag e) tag_MATH); [|reflexivity].
      apply andb_true_iff in Hm. destruct Hm as [_ Hm]. cbn [text_ok negb orb andb].
      clear HF H. induction ks as [|k r IH]; [reflexivity|].
      cbn [forallb] in *. apply andb_true_iff in Hm. destruct Hm as [H1 H2].
      rewrite (math_clean_weaken_inner k H1), (IH H2). reflexivity.
    + clear Hm. induction HF as [|k r Hk _ IH]; [reflexivity|].
      cbn [forallb] in *. apply andb_true_iff in H. destruct H as [H1 H2].
      rewrite (Hk H1), (IH H2). reflexivity.
Qed.

(* ================================================================== *)
(* PART 1 — the collector operations commute with forget_elem_st        *)
(* ================================================================== *)
Lemma res_map_bind : forall {A B C} (g : B -> C) (r : res A) (k : A -> res B),
  res_map g (bind r k) = bind r (fun a => res_map g (k a)).
Proof. intros A B C g [a|x] k; reflexivity. Qed.

Lemma spine_app_F : forall d x l,
  spine_app d (forget_elem x) (FT l) = res_map FT (spine_app d x l).
Proof.
  induction d as [|d IH]; intros x l; [reflexivity|].
  destruct d as [|d']; [reflexivity|].
  change (spine_app (S (S d')) (forget_elem x) (FT l))
    with (match FT l with
          | NL l' :: rest => l'' <- spine_app (S d') (forget_elem x) l' ;; Ok (NL l'' :: rest)
          | _ => Err ModelError
          end).
  change (spine_app (S (S d')) x l)
    with (match l with
          | NL l' :: rest => l'' <- spine_app (S d') x l' ;; Ok (NL l'' :: rest)
          | _ => Err ModelError
          end).
  destruct l as [|[l'|p] rest]; cbn [map forget_elem]; try reflexivity.
  fold (FT l'). rewrite IH. destruct (spine_app (S d') x l'); reflexivity.
Qed.

Lemma drop_caret_F : forall s, drop_caret (F s) = fr (drop_caret s).
Proof.
  intro s. unfold drop_caret. cbn [forget_elem_st c_depth c_tree].
  destruct (Nat.leb par_depth (c_depth s)); [reflexivity|].
  change (NL []) with (forget_elem (NL [])) at 1. rewrite spine_app_F.
  destruct (spine_app (c_depth s) (NL []) (c_tree s)); reflexivity.
Qed.

Lemma raise_caret_F : forall s, raise_caret (F s) = fr (raise_caret s).
Proof.
  intro s. unfold raise_caret. cbn [forget_elem_st c_depth].
  destruct (Nat.leb (c_depth s) 1); reflexivity.
Qed.

Lemma set_caret_go_F : forall fuel d name s,
  set_caret_go fuel d name (F s) = fr (set_caret_go fuel d name s).
Proof.
  induction fuel as [|f IH]; intros d name s; [reflexivity|].
  cbn [set_caret_go]. change (c_depth (F s)) with (c_depth s).
  change (c_lineage (F s)) with (c_lineage s).
  destruct (Nat.eqb (c_depth s) d).
  - destruct (set_in_lineage d name (c_lineage s)); reflexivity.
  - destruct (Nat.ltb (c_depth s) d).
    + rewrite drop_caret_F. destruct (drop_caret s) as [s1|x]; cbn [fr res_map bind]; [|reflexivity].
      apply IH.
    + destruct (set_in_lineage d None (c_lineage s)) as [l|x]; cbn [bind]; [|reflexivity].
      change (set_lin l (F s)) with (F (set_lin l s)). rewrite raise_caret_F.
      destruct (raise_caret (set_lin l s)) as [s1|x]; cbn [fr res_map bind]; [|reflexivity].
      apply IH.
Qed.

Lemma set_caret_F : forall d name s, set_caret d name (F s) = fr (set_caret d name s).
Proof. intros [d|] name s; [apply set_caret_go_F|reflexivity]. Qed.

(* the paragraph opened for an element: the path is forgotten *)
Lemma commence_paragraph_F : forall v e ks path path' s,
  fr (commence_paragraph v (Some (e, ks, path)) (F s))
  = fr (commence_paragraph v (Some (e, ks, path')) s).
Proof.
  intros v e ks path path' s. unfold commence_paragraph. rewrite set_caret_F.
  destruct (set_caret (Some par_depth) (Some (e_local e)) s) as [s1|x]; cbn [fr res_map bind];
    [|reflexivity].
  destruct (get_paragraph_formatting e ks (env_x2h v)) as [hs|x]; cbn [bind]; [|reflexivity].
  destruct (get_pStyle e ks) as [ps|x]; cbn [bind]; [|reflexivity].
  cbn [fr res_map]. f_equal. unfold forget_elem_st, set_open, set_queued.
  cbn [c_tree c_depth c_lineage c_open c_queued c_ranges c_counters map forget_elem_par
       p_copy p_hstyle p_style p_lineage p_runs p_listpos].
  f_equal.
  - rewrite map_map. apply map_ext. apply forget_elem_idem.
  - f_equal. rewrite map_map. apply map_ext. reflexivity.
Qed.

Lemma commence_paragraph_None_F : forall v s,
  commence_paragraph v None (F s) = fr (commence_paragraph v None s).
Proof.
  intros v s. unfold commence_paragraph. rewrite set_caret_F.
  destruct (set_caret (Some par_depth) None s) as [s1|x]; reflexivity.
Qed.

Lemma conclude_paragraph_F : forall s, conclude_paragraph (F s) = fr (conclude_paragraph s).
Proof.
  intro s. unfold conclude_paragraph. cbn [forget_elem_st c_open].
  destruct (c_open s) as [|p rest]; cbn [map]; [reflexivity|].
  change (set_open (map forget_elem_par rest) (F s)) with (F (set_open rest s)).
  rewrite set_caret_F.
  destruct (set_caret (Some par_depth) None (set_open rest s)) as [s1|x]; cbn [fr res_map bind];
    [|reflexivity].
  change (NP (forget_elem_par p)) with (forget_elem (NP p)).
  change (c_tree (F s1)) with (FT (c_tree s1)). rewrite spine_app_F.
  destruct (spine_app par_depth (NP p) (c_tree s1)); reflexivity.
Qed.

Lemma ensure_par_F : forall v s, ensure_par v (F s) = fr (ensure_par v s).
Proof.
  intros v s. unfold ensure_par. cbn [forget_elem_st c_open].
  destruct (c_open s) as [|p rest]; cbn [map]; [|reflexivity].
  apply commence_paragraph_None_F.
Qed.

Lemma upd_open_runs_F : forall v f s, upd_open_runs v f (F s) = fr (upd_open_runs v f s).
Proof.
  intros v f s. unfold upd_open_runs. rewrite ensure_par_F.
  destruct (ensure_par v s) as [s1|x]; cbn [fr res_map bind]; [|reflexivity].
  cbn [forget_elem_st c_open]. destruct (c_open s1) as [|p rest]; reflexivity.
Qed.

Lemma commence_run_F : forall v st s, commence_run v st (F s) = fr (commence_run v st s).
Proof. intros. apply upd_open_runs_F. Qed.
Lemma add_toks_F : forall v ts s, add_toks v ts (F s) = fr (add_toks v ts s).
Proof. intros. apply upd_open_runs_F. Qed.
Lemma insert_text_F : forall v ts s,
  insert_text_as_new_run v ts (F s) = fr (insert_text_as_new_run v ts s).
Proof. intros. apply upd_open_runs_F. Qed.

(* ---- reading the tree ---- *)
Lemma mapM_res_map : forall {A B C} (f : A -> res B) (g : A -> A) (h : B -> C) (f' : A -> res C) l,
  (forall x, f' (g x) = res_map h (f x)) ->
  mapM f' (map g l) = res_map (map h) (mapM f l).
Proof.
  intros A B C f g h f' l H. induction l as [|x l IH]; cbn [map mapM]; [reflexivity|].
  rewrite H. destruct (f x) as [y|e]; cbn [res_map bind]; [|reflexivity].
  rewrite IH. destruct (mapM f l); reflexivity.
Qed.

Lemma pars_at_F : forall d l,
  pars_at d (FT l) = res_map (map forget_elem_par) (pars_at d l).
Proof.
  induction d as [|d IH]; intro l; [reflexivity|].
  destruct d as [|d'].
  - cbn [pars_at]. rewrite <- map_rev.
    apply (mapM_res_map (fun n => match n with NP p => Ok p | NL _ => Err AttributeError end)).
    intros [l'|p]; reflexivity.
  - change (pars_at (S (S d')) (FT l))
      with (xs <- mapM (fun n => match n with NL l' => pars_at (S d') l' | NP _ => Err TypeError end)
                       (rev (FT l)) ;; Ok (concat xs)).
    change (pars_at (S (S d')) l)
      with (xs <- mapM (fun n => match n with NL l' => pars_at (S d') l' | NP _ => Err TypeError end)
                       (rev l) ;; Ok (concat xs)).
    rewrite <- map_rev.
    rewrite (mapM_res_map
               (fun n => match n with NL l' => pars_at (S d') l' | NP _ => Err TypeError end)
               forget_elem (map forget_elem_par)).
    2:{ intros [l'|p]; cbn [forget_elem]; [apply IH|reflexivity]. }
    destruct (mapM _ (rev l)) as [xs|x]; cbn [res_map bind]; [|reflexivity].
    rewrite concat_map. reflexivity.
Qed.

Lemma par_run_toks_F : forall p, par_run_toks (forget_elem_par p) = par_run_toks p.
Proof. reflexivity. Qed.

Lemma mapM_map_same : forall {A B} (f : A -> res B) (g : A -> A) l,
  (forall x, f (g x) = f x) -> mapM f (map g l) = mapM f l.
Proof. intros A B f g l H. apply mapM_map_ext. exact H. Qed.

Lemma count_runs_F : forall v s, count_runs v (F s) = count_runs v s.
Proof.
  intros v s. unfold count_runs. cbn [forget_elem_st c_tree c_open]. rewrite pars_at_F.
  destruct (pars_at 4 (c_tree s)) as [ps|x]; cbn [res_map bind]; [|reflexivity].
  rewrite mapM_map_same by reflexivity.
  destruct (mapM (par_run_strings (html_on v)) ps) as [a|x]; cbn [bind]; [|reflexivity].
  rewrite <- map_rev. rewrite mapM_map_same by reflexivity. reflexivity.
Qed.

Lemma start_comment_range_F : forall v id s,
  start_comment_range v id (F s) = fr (start_comment_range v id s).
Proof.
  intros v id s. unfold start_comment_range. rewrite count_runs_F.
  destruct (count_runs v s); reflexivity.
Qed.

Lemma end_comment_range_F : forall v id s,
  end_comment_range v id (F s) = fr (end_comment_range v id s).
Proof.
  intros v id s. unfold end_comment_range. cbn [forget_elem_st c_ranges].
  destruct (dict_get id (c_ranges s)) as [[b n0]|]; [|reflexivity].
  rewrite count_runs_F. destruct (count_runs v s); reflexivity.
Qed.

Lemma tree_par_toks_F : forall l, tree_par_toks (FT l) = tree_par_toks l.
Proof.
  intro l. unfold tree_par_toks. rewrite pars_at_F.
  destruct (pars_at 4 l) as [ps|x]; cbn [res_map bind]; [|reflexivity].
  rewrite mapM_map_same by reflexivity. reflexivity.
Qed.

Lemma finish_F : forall v s, finish v (F s) = fr (finish v s).
Proof.
  intros v s. unfold finish. cbn [forget_elem_st c_queued].
  destruct (c_queued s) as [|q qs]; cbn [bind].
  - apply conclude_paragraph_F.
  - rewrite commence_paragraph_None_F.
    destruct (commence_paragraph v None s) as [s1|x]; cbn [fr res_map bind]; [|reflexivity].
    apply conclude_paragraph_F.
Qed.

(* ---- table cells ---- *)
Lemma as_list_F : forall n, as_list (forget_elem n) = res_map FT (as_list n).
Proof. intros [l|p]; reflexivity. Qed.

Lemma py_get_map : forall {A B} (g : A -> B) l i, py_get (map g l) i = option_map g (py_get l i).
Proof.
  intros A B g l i. unfold py_get. rewrite map_length.
  destruct (Nat.leb (length l) i); [reflexivity|]. apply nth_error_map.
Qed.

Lemma py_nth_map : forall {A B} (g : A -> B) l i, py_nth (map g l) i = option_map g (py_nth l i).
Proof.
  intros A B g l i. unfold py_nth. rewrite map_length.
  destruct (_ || _)%bool; [reflexivity|]. apply nth_error_map.
Qed.

Lemma upd_nth_map : forall {A} (g : A -> A) (f f' : A -> res A),
  (forall x, f' (g x) = res_map g (f x)) ->
  forall n l, upd_nth n f' (map g l) = res_map (map g) (upd_nth n f l).
Proof.
  intros A g f f' H n l. revert n. induction l as [|x l IH]; intro n;
    [destruct n; reflexivity|].
  destruct n as [|k]; cbn [map upd_nth].
  - rewrite H. destruct (f x); reflexivity.
  - rewrite IH. destruct (upd_nth k f l); reflexivity.
Qed.

Lemma py_upd_map : forall {A} (g : A -> A) (f f' : A -> res A),
  (forall x, f' (g x) = res_map g (f x)) ->
  forall l i, py_upd (map g l) i f' = res_map (map g) (py_upd l i f).
Proof.
  intros A g f f' H l i. unfold py_upd. rewrite map_length.
  destruct (Nat.leb (length l) i); [reflexivity|]. apply upd_nth_map. exact H.
Qed.

Lemma get_row_F : forall root ti ri, get_row (FT root) ti ri = res_map FT (get_row root ti ri).
Proof.
  intros root ti ri. unfold get_row. rewrite py_get_map.
  destruct (py_get root ti) as [t|]; cbn [option_map of_opt bind]; [|reflexivity].
  rewrite as_list_F. destruct (as_list t) as [rows|x]; cbn [res_map bind]; [|reflexivity].
  rewrite py_get_map.
  destruct (py_get rows ri) as [r|]; cbn [option_map of_opt bind]; [|reflexivity].
  apply as_list_F.
Qed.

Lemma upd_row_F : forall (f f' : list node -> res (list node)),
  (forall cs, f' (FT cs) = res_map FT (f cs)) ->
  forall root ti ri, upd_row (FT root) ti ri f' = res_map FT (upd_row root ti ri f).
Proof.
  intros f f' H root ti ri. unfold upd_row. apply py_upd_map.
  intro t. rewrite as_list_F. destruct (as_list t) as [rows|x]; cbn [res_map bind]; [|reflexivity].
  rewrite (py_upd_map forget_elem
             (fun r => cells <- as_list r ;; c' <- f cells ;; Ok (NL c'))).
  - destruct (py_upd rows ri _); reflexivity.
  - intro r. rewrite as_list_F. destruct (as_list r) as [cells|x]; cbn [res_map bind]; [|reflexivity].
    rewrite H. destruct (f cells); reflexivity.
Qed.

Lemma copy_node_F : forall n, copy_node (forget_elem n) = forget_elem (copy_node n).
Proof.
  fix IH 1. intros [l|p]; cbn [forget_elem copy_node]; [|reflexivity].
  f_equal. induction l as [|x l IHl]; cbn [map]; [reflexivity|].
  rewrite IH, IHl. reflexivity.
Qed.

Lemma vmerge_F : forall ti ri s, vmerge ti ri (F s) = fr (vmerge ti ri s).
Proof.
  intros ti ri s. unfold vmerge. rewrite set_caret_F.
  destruct (set_caret (Some 3%nat) None s) as [sa|x]; cbn [fr res_map bind]; [|reflexivity].
  change (c_tree (F sa)) with (FT (c_tree sa)). rewrite py_get_map.
  destruct (py_get (c_tree sa) ti) as [t|]; cbn [option_map of_opt bind]; [|reflexivity].
  rewrite as_list_F. destruct (as_list t) as [rows|x]; cbn [res_map bind]; [|reflexivity].
  assert (Hprev : match FT rows with
                  | _ :: p :: _ => as_list p
                  | _ => Err IndexError
                  end
                = res_map FT match rows with
                             | _ :: p :: _ => as_list p
                             | _ => Err IndexError
                             end).
  { destruct rows as [|r0 [|p r]]; cbn [map res_map]; try reflexivity. apply as_list_F. }
  rewrite Hprev. clear Hprev.
  destruct (match rows with _ :: p :: _ => as_list p | _ => Err IndexError end) as [prev|x];
    cbn [res_map bind]; [|reflexivity].
  rewrite get_row_F.
  destruct (get_row (c_tree sa) ti ri) as [cells|x]; cbn [res_map bind]; [|reflexivity].
  rewrite map_length, <- map_rev, py_nth_map.
  destruct cells as [|c0 cr]; cbn [map]; [reflexivity|].
  destruct (py_nth (rev prev) (Z.of_nat (length (c0 :: cr)) - 1)) as [src|]; cbn [option_map];
    [|reflexivity].
  rewrite (upd_row_F (fun cs => match cs with
                                | [] => Err IndexError
                                | _ :: r => Ok (copy_node src :: r)
                                end)).
  - destruct (upd_row (c_tree sa) ti ri _); reflexivity.
  - intros [|c r]; cbn [map res_map]; [reflexivity|]. rewrite copy_node_F. reflexivity.
Qed.

Lemma hstep_F : forall v cs, hstep v (FT cs) = res_map FT (hstep v cs).
Proof.
  intros v cs. unfold hstep. destruct (env_dup v); [|reflexivity].
  destruct cs as [|c r]; cbn [map res_map]; [reflexivity|]. rewrite copy_node_F. reflexivity.
Qed.

Lemma hloop_F : forall v ti ri n s, hloop v ti ri n (F s) = fr (hloop v ti ri n s).
Proof.
  intros v ti ri. induction n as [|k IH]; intro s; [reflexivity|].
  rewrite !hloop_S. rewrite set_caret_F.
  destruct (set_caret (Some 3%nat) None s) as [sa|x]; cbn [fr res_map bind]; [|reflexivity].
  change (c_tree (F sa)) with (FT (c_tree sa)).
  rewrite (upd_row_F (hstep v) (hstep v) (hstep_F v)).
  destruct (upd_row (c_tree sa) ti ri (hstep v)) as [root'|x]; cbn [res_map bind]; [|reflexivity].
  change (set_tree (FT root') (F sa)) with (F (set_tree root' sa)). apply IH.
Qed.

Lemma close_table_cell_F : forall v e ks s,
  close_table_cell v e ks (F s) = fr (close_table_cell v e ks s).
Proof.
  intros v e ks s. rewrite !close_table_cell_eq.
  destruct (gather_Pr e ks) as [pr|x]; cbn [bind]; [|reflexivity].
  change (c_tree (F s)) with (FT (c_tree s)).
  (* the two early returns of the repaired _close_table_cell *)
  destruct (c_tree s) as [|tb0 root0] eqn:Eroot0; [reflexivity|].
  cbn [map]. rewrite as_list_F.
  destruct (as_list tb0) as [rows0|x]; cbn [res_map bind]; [|reflexivity].
  destruct rows0 as [|rb0 rows1] eqn:Erows1; [reflexivity|].
  cbn [map]. rewrite as_list_F.
  destruct (as_list rb0) as [r0|x]; cbn [res_map bind]; [|reflexivity].
  change (forget_elem tb0 :: FT root0) with (FT (tb0 :: root0)).
  change (forget_elem rb0 :: FT rows1) with (FT (rb0 :: rows1)).
  rewrite <- Eroot0, <- Erows1.
  cbv zeta. rewrite !map_length.
  assert (H2 : (if (env_dup v && is_continuation pr && Nat.ltb 1 (length rows0))%bool
                then vmerge (length (c_tree s) - 1) (length rows0 - 1) (F s) else Ok (F s))
             = fr (if (env_dup v && is_continuation pr && Nat.ltb 1 (length rows0))%bool
                   then vmerge (length (c_tree s) - 1) (length rows0 - 1) s else Ok s)).
  { destruct (_ && _ && _)%bool; [apply vmerge_F|reflexivity]. }
  rewrite H2. clear H2.
  destruct (if (env_dup v && is_continuation pr && Nat.ltb 1 (length rows0))%bool
            then vmerge (length (c_tree s) - 1) (length rows0 - 1) s else Ok s) as [s1|x];
    cbn [fr res_map bind]; [|reflexivity].
  destruct (span_of pr) as [span|x]; cbn [bind]; [|reflexivity].
  apply hloop_F.
Qed.

(* ================================================================== *)
(* PART 2 — the tag handlers respect forget_elem_st                     *)
(* ================================================================== *)
Lemma close_tag_F : forall v e ks s, close_tag v e ks (F s) = fr (close_tag v e ks s).
Proof.
  intros v e ks s. unfold close_tag. cbv zeta.
  destruct (str_eqb (e_ptag e) tag_PARAGRAPH); [apply conclude_paragraph_F|].
  destruct (str_eqb (e_ptag e) tag_RUN); [apply commence_run_F|].
  destruct (str_eqb (e_ptag e) tag_TABLE_CELL); [apply close_table_cell_F|].
  reflexivity.
Qed.

Lemma queue_F : forall ts s,
  queue_run_for_next_paragraph ts (F s) = F (queue_run_for_next_paragraph ts s).
Proof. reflexivity. Qed.

Ltac fin :=
  repeat match goal with
  | |- frb (Ok _) = frb (Ok _) => cbn [frb res_map fst snd]; rewrite ?queue_F, ?F_idem; reflexivity
  | |- frb (Err _) = frb (Err _) => reflexivity
  | |- frb (bind (fr ?r) _) = frb (bind ?r _) => destruct r; cbn [fr res_map bind]
  | |- frb (bind ?r _) = frb (bind ?r _) => destruct r; cbn [bind]
  end.

(* what the paragraph handler does once the paragraph is open *)
Definition par_tail (v : env) (t : anode) (s1 : cst) : res (cst * bool) :=
  let fmt := get_bullet_fmt t in
  let '(cs, number) := get_par_number (to_numtable v) (c_counters s1) fmt in
  bl <- get_bullet (to_numtable v) fmt number ;;
  let pos := get_list_position cs fmt in
  s2 <- insert_text_as_new_run v (raw bl) (set_counters cs s1) ;;
  match c_open s2 with
  | p :: rest => Ok (set_open (with_listpos p pos :: rest) s2, true)
  | [] => Err ModelError
  end.

Lemma par_tail_F : forall v t s, par_tail v t (F s) = frb (par_tail v t s).
Proof.
  intros v t s. unfold par_tail. cbv zeta. change (c_counters (F s)) with (c_counters s).
  destruct (get_par_number (to_numtable v) (c_counters s) (get_bullet_fmt t)) as [cs number].
  destruct (get_bullet (to_numtable v) (get_bullet_fmt t) number) as [bl|x]; cbn [bind];
    [|reflexivity].
  change (set_counters cs (F s)) with (F (set_counters cs s)). rewrite insert_text_F.
  destruct (insert_text_as_new_run v (raw bl) (set_counters cs s)) as [s2|x];
    cbn [fr res_map bind]; [|reflexivity].
  cbn [forget_elem_st c_open]. destruct (c_open s2) as [|p rest]; reflexivity.
Qed.

Lemma open_tag_F : forall v path path' t e ks body s,
  frb (open_tag v path t e ks body (F s)) = frb (open_tag v path' t e ks body s).
Proof.
  intros v path path' t e ks body s. unfold open_tag. cbv zeta.
  destruct (str_eqb (e_ptag e) tag_PARAGRAPH).
  { fold (par_tail v t).
    pose proof (commence_paragraph_F v e ks path path' s) as H.
    destruct (commence_paragraph v (Some (e, ks, path)) (F s)) as [a|x],
             (commence_paragraph v (Some (e, ks, path')) s) as [b|y];
      cbn [fr res_map] in H; try discriminate H; cbn [bind].
    - apply Ok_inj in H.
      rewrite <- (par_tail_F v t a), <- (par_tail_F v t b), H. reflexivity.
    - injection H as ->. reflexivity. }
  destruct (str_eqb (e_ptag e) tag_RUN).
  { destruct (get_run_formatting e ks (env_x2h v)) as [st|x]; cbn [bind]; [|reflexivity].
    rewrite commence_run_F. fin. }
  destruct (str_eqb (e_ptag e) tag_COMMENT_RANGE_END).
  { destruct (attr_w_req e s_id) as [id|x]; cbn [bind]; [|reflexivity].
    rewrite end_comment_range_F. fin. }
  destruct (str_eqb (e_ptag e) tag_COMMENT_RANGE_START).
  { destruct (attr_w_req e s_id) as [id|x]; cbn [bind]; [|reflexivity].
    rewrite start_comment_range_F. fin. }
  destruct (str_eqb (e_ptag e) tag_TEXT || str_eqb (e_ptag e) tag_TEXT_MATH)%bool.
  { unfold add_text_into_open_run. rewrite add_toks_F. fin. }
  destruct (str_eqb (e_ptag e) tag_MATH).
  { rewrite insert_text_F. fin. }
  destruct (str_eqb (e_ptag e) tag_BR).
  { unfold add_code_into_open_run. rewrite add_toks_F. fin. }
  destruct (str_eqb (e_ptag e) tag_SYM).
  { destruct (attr_w e s_font) as [font|x]; cbn [bind]; [|reflexivity].
    destruct (attr_w e s_char) as [chr|x]; cbn [bind]; [|reflexivity].
    destruct (ostr chr) as [|c tl]; [fin|].
    unfold add_code_into_open_run. rewrite add_toks_F. fin. }
  assert (Hlabel : forall kind, frb (note_label v kind e (F s)) = frb (note_label v kind e s)).
  { intro kind. unfold note_label.
    destruct (attr_w e s_type) as [ty|x]; cbn [bind]; [|reflexivity].
    destruct (contains s_separator (lower (ostr ty))); [fin|].
    destruct (attr_w_req e s_id) as [id|x]; cbn [bind]; [|reflexivity]. fin. }
  assert (Href : forall kind, frb (note_ref v kind e (F s)) = frb (note_ref v kind e s)).
  { intro kind. unfold note_ref.
    destruct (attr_w_req e s_id) as [id|x]; cbn [bind]; [|reflexivity].
    rewrite insert_text_F. fin. }
  assert (Himg : forall rid, frb (image_ref v rid (F s)) = frb (image_ref v rid s)).
  { intro rid. unfold image_ref. destruct rid as [id|x].
    - destruct (dict_get id (env_rels v)) as [img|]; [|fin].
      rewrite insert_text_F. fin.
    - destruct x; try reflexivity. fin. }
  destruct (str_eqb (e_ptag e) tag_FOOTNOTE); [apply Hlabel|].
  destruct (str_eqb (e_ptag e) tag_ENDNOTE); [apply Hlabel|].
  destruct (str_eqb (e_ptag e) tag_HYPERLINK).
  { assert (Hplain : frb (s' <- insert_text_as_new_run v body (F s) ;; Ok (s', false))
                   = frb (s' <- insert_text_as_new_run v body s ;; Ok (s', false))).
    { rewrite insert_text_F. fin. }
    destruct (attr_r_req e s_id) as [rid|x].
    - destruct (dict_get rid (env_rels v)) as [link|]; [|exact Hplain].
      destruct (attr_w e s_anchor) as [anchor|x].
      + rewrite insert_text_F. fin.
      + destruct x; try reflexivity. exact Hplain.
    - destruct x; try reflexivity. exact Hplain. }
  destruct (str_eqb (e_ptag e) tag_FORM_CHECKBOX).
  { destruct (get_checkBox_entry e ks) as [x|x]; cbn [bind]; [|reflexivity].
    rewrite insert_text_F. fin. }
  destruct (str_eqb (e_ptag e) tag_FORM_DDLIST).
  { destruct (get_ddList_entry e ks) as [x|x]; cbn [bind]; [|reflexivity].
    rewrite insert_text_F. fin. }
  destruct (str_eqb (e_ptag e) tag_FOOTNOTE_REFERENCE); [apply Href|].
  destruct (str_eqb (e_ptag e) tag_ENDNOTE_REFERENCE); [apply Href|].
  destruct (str_eqb (e_ptag e) tag_IMAGE); [apply Himg|].
  destruct (str_eqb (e_ptag e) tag_IMAGE_ALT).
  { destruct (attr_plain e s_descr) as [d|]; [|fin]. rewrite insert_text_F. fin. }
  destruct (str_eqb (e_ptag e) tag_IMAGEDATA); [apply Himg|].
  destruct (str_eqb (e_ptag e) tag_TAB).
  { rewrite insert_text_F. fin. }
  fin.
Qed.

(* ================================================================== *)
(* PART 3 — every accessor is blind to comment/PI nodes                 *)
(* ================================================================== *)
Lemma strip_kids_cons_AE : forall e ks r,
  strip_kids (AE e ks :: r) = strip_ax (AE e ks) :: strip_kids r.
Proof. reflexivity. Qed.
Lemma strip_kids_cons_AX : forall tl r, strip_kids (AX tl :: r) = strip_kids r.
Proof. reflexivity. Qed.

Lemma is_elem_named_strip : forall u l k, is_elem_named u l (strip_ax k) = is_elem_named u l k.
Proof. intros u l [e ks|tl]; reflexivity. Qed.

Lemma find_children_strip : forall u l ks,
  find_children u l (strip_kids ks) = map strip_ax (find_children u l ks).
Proof.
  intros u l ks. unfold find_children.
  induction ks as [|[e eks|tl] r IH]; [reflexivity| |].
  - rewrite strip_kids_cons_AE. cbn [filter]. rewrite is_elem_named_strip.
    destruct (is_elem_named u l (AE e eks)); cbn [map]; rewrite IH; reflexivity.
  - rewrite strip_kids_cons_AX. cbn [filter is_elem_named]. exact IH.
Qed.

Lemma find_child_strip : forall u l ks,
  find_child u l (strip_kids ks) = option_map strip_ax (find_child u l ks).
Proof.
  intros u l ks. unfold find_child. rewrite find_children_strip.
  destruct (find_children u l ks); reflexivity.
Qed.

Lemma children_w_strip : forall e ks n,
  children_w e (strip_kids ks) n = res_map (map strip_ax) (children_w e ks n).
Proof.
  intros e ks n. unfold children_w. destruct (e_wuri e) as [u|]; cbn [res_map]; [|reflexivity].
  f_equal. apply find_children_strip.
Qed.

Lemma kids_of_strip : forall t, kids_of (strip_ax t) = strip_kids (kids_of t).
Proof. intros [e ks|tl]; [rewrite strip_ax_AE|]; reflexivity. Qed.

Lemma sub_val_of_strip : forall t, sub_val_of (strip_ax t) = sub_val_of t.
Proof. intros [e ks|tl]; reflexivity. Qed.

Lemma gather_Pr_strip : forall e ks, gather_Pr e (strip_kids ks) = gather_Pr e ks.
Proof.
  intros e ks. unfold gather_Pr. rewrite find_child_strip.
  destruct (find_child (e_uri e) (e_local e ++ s_Pr) ks) as [pr|]; cbn [option_map]; [|reflexivity].
  rewrite kids_of_strip. generalize (@nil (str * option str)).
  induction (kids_of pr) as [|[ke kks|tl] r IH]; intro d; [reflexivity| |].
  - rewrite strip_kids_cons_AE. cbn [foldM].
    change (sub_val_of (strip_ax (AE ke kks))) with (sub_val_of (AE ke kks)).
    destruct (sub_val_of (AE ke kks)) as [[n x]|x]; cbn [bind]; [apply IH|reflexivity].
  - rewrite strip_kids_cons_AX. cbn [foldM bind]. apply IH.
Qed.

Lemma get_pStyle_strip : forall e ks, get_pStyle e (strip_kids ks) = get_pStyle e ks.
Proof. intros. unfold get_pStyle. rewrite gather_Pr_strip. reflexivity. Qed.

Lemma get_run_formatting_strip : forall e ks x,
  get_run_formatting e (strip_kids ks) x = get_run_formatting e ks x.
Proof. intros. unfold get_run_formatting. rewrite gather_Pr_strip. reflexivity. Qed.

Lemma get_paragraph_formatting_strip : forall e ks x,
  get_paragraph_formatting e (strip_kids ks) x = get_paragraph_formatting e ks x.
Proof. intros. unfold get_paragraph_formatting. rewrite get_pStyle_strip. reflexivity. Qed.

Lemma get_html_formatting_strip : forall e ks x,
  get_html_formatting e (strip_kids ks) x = get_html_formatting e ks x.
Proof.
  intros. unfold get_html_formatting.
  rewrite get_run_formatting_strip, get_paragraph_formatting_strip. reflexivity.
Qed.

Lemma first_child_w_strip : forall t n,
  first_child_w (strip_ax t) n = option_map strip_ax (first_child_w t n).
Proof.
  intros [e ks|tl] n; [|reflexivity]. rewrite strip_ax_AE. cbn [first_child_w].
  fold (strip_kids ks). rewrite children_w_strip.
  destruct (children_w e ks n) as [[|x r]|x]; reflexivity.
Qed.

Lemma child_val_w_strip : forall t n, child_val_w (strip_ax t) n = child_val_w t n.
Proof.
  intros t n. unfold child_val_w. rewrite first_child_w_strip.
  destruct (first_child_w t n) as [[e ks|tl]|]; reflexivity.
Qed.

Lemma get_bullet_fmt_strip : forall t, get_bullet_fmt (strip_ax t) = get_bullet_fmt t.
Proof.
  intro t. unfold get_bullet_fmt. rewrite first_child_w_strip.
  destruct (first_child_w t s_pPr) as [ppr|]; cbn [option_map]; [|reflexivity].
  rewrite first_child_w_strip.
  destruct (first_child_w ppr s_numPr) as [numpr|]; cbn [option_map]; [|reflexivity].
  rewrite !child_val_w_strip. reflexivity.
Qed.

Lemma get_checkBox_entry_strip : forall e ks,
  get_checkBox_entry e (strip_kids ks) = get_checkBox_entry e ks.
Proof.
  intros e ks. unfold get_checkBox_entry. rewrite !children_w_strip.
  assert (Hd : match res_map (map strip_ax) (children_w e ks s_default) with
               | Ok (AE de _ :: _) =>
                   match attr_w_req de s_val with Ok x => Some x | Err _ => None end
               | _ => None
               end
             = match children_w e ks s_default with
               | Ok (AE de _ :: _) =>
                   match attr_w_req de s_val with Ok x => Some x | Err _ => None end
               | _ => None
               end).
  { destruct (children_w e ks s_default) as [[|[de dks|tl] r']|x]; reflexivity. }
  destruct (children_w e ks s_checked) as [chk|x]; cbn [res_map bind]; [|reflexivity].
  destruct chk as [|[ce cks|tl] r]; cbn [map strip_ax]; rewrite ?Hd; reflexivity.
Qed.

Lemma get_ddList_entry_strip : forall e ks,
  get_ddList_entry e (strip_kids ks) = get_ddList_entry e ks.
Proof.
  intros e ks. unfold get_ddList_entry. rewrite !children_w_strip.
  destruct (children_w e ks s_listEntry) as [ents|x]; cbn [res_map bind]; [|reflexivity].
  rewrite (mapM_map_ext _ strip_ax
             (fun k => match k with
                       | AE ke _ => attr_w_req ke s_val
                       | AX _ => Err ModelError
                       end)).
  2:{ intros [ke kks|tl]; reflexivity. }
  destruct (mapM _ ents) as [vals|x]; cbn [bind]; [|reflexivity].
  destruct (children_w e ks s_result) as [[|[re rks|tl] r']|x]; reflexivity.
Qed.

Lemma has_content_strip : forall t, has_content (strip_ax t) = has_content t.
Proof.
  apply (anode_ind' (fun t => has_content (strip_ax t) = has_content t)).
  - reflexivity.
  - intros e ks HF. rewrite strip_ax_AE. cbn [has_content]. f_equal.
    induction HF as [|k r Hk _ IH]; [reflexivity|].
    destruct k as [ke kks|tl].
    + cbn [filter is_AE map]. rewrite Hk, IH. reflexivity.
    + cbn [filter is_AE]. rewrite IH. reflexivity.
Qed.

Lemma min_par_depth_strip : forall t, min_par_depth (strip_ax t) = min_par_depth t.
Proof.
  apply (anode_ind' (fun t => min_par_depth (strip_ax t) = min_par_depth t)).
  - reflexivity.
  - intros e ks HF. rewrite strip_ax_AE. cbn [min_par_depth].
    destruct (str_eqb (e_ptag e) tag_PARAGRAPH); [reflexivity|]. f_equal.
    induction HF as [|k r Hk _ IH]; [reflexivity|].
    destruct k as [ke kks|tl].
    + cbn [filter is_AE map]. rewrite Hk, IH. reflexivity.
    + cbn [filter is_AE]. rewrite IH. reflexivity.
Qed.

Lemma elem_depth_strip : forall t, elem_depth (strip_ax t) = elem_depth t.
Proof.
  intros [e ks|tl]; [|reflexivity].
  unfold elem_depth. rewrite min_par_depth_strip. rewrite strip_ax_AE. reflexivity.
Qed.

Lemma height_strip : forall t, (height (strip_ax t) <= height t)%nat.
Proof.
  apply (anode_ind' (fun t => (height (strip_ax t) <= height t)%nat)).
  - intros. apply le_n.
  - intros e ks HF. rewrite strip_ax_AE. cbn [height]. apply le_n_S.
    induction HF as [|k r Hk _ IH]; [apply le_n|].
    destruct k as [ke kks|tl]; cbn [filter is_AE map fold_right] in *; lia.
Qed.

(* ---- itertext ---- *)
Lemma itertext_inner_AE : forall e ks,
  itertext_inner (AE e ks)
  = ostr (e_text e) ++ concat (map itertext_inner ks) ++ ostr (e_tail e).
Proof.
  intros e ks. cbn [itertext_inner]. f_equal. f_equal.
  induction ks as [|k r IH]; [reflexivity|]. cbn [map concat]. rewrite IH. reflexivity.
Qed.

Lemma emp_nil : forall o, emp o = true -> ostr o = [].
Proof. intros o H. unfold emp in H. destruct (ostr o); [reflexivity|discriminate]. Qed.

Lemma itertext_inner_strip : forall b t,
  inner_clean b t = true -> itertext_inner (strip_ax t) = itertext_inner t.
Proof.
  intro b.
  apply (anode_ind' (fun t => inner_clean b t = true ->
                              itertext_inner (strip_ax t) = itertext_inner t)).
  - reflexivity.
  - intros e ks HF H. rewrite strip_ax_AE, !itertext_inner_AE. f_equal. f_equal.
    cbn [inner_clean] in H. apply andb_true_iff in H. destruct H as [_ H].
    induction HF as [|k r Hk _ IH]; [reflexivity|].
    cbn [forallb] in H. apply andb_true_iff in H. destruct H as [H1 H2].
    destruct k as [ke kks|tl].
    + cbn [filter is_AE map concat]. rewrite (Hk H1), (IH H2). reflexivity.
    + cbn [filter is_AE map concat itertext_inner]. rewrite (IH H2).
      cbn [inner_clean] in H1. rewrite (emp_nil _ H1). reflexivity.
Qed.

Lemma concat_itertext_strip : forall b ks,
  forallb (inner_clean b) ks = true ->
  concat (map itertext_inner (strip_kids ks)) = concat (map itertext_inner ks).
Proof.
  intros b ks H. induction ks as [|k r IH]; [reflexivity|].
  cbn [forallb] in H. apply andb_true_iff in H. destruct H as [H1 H2].
  destruct k as [ke kks|tl].
  - rewrite strip_kids_cons_AE. cbn [map concat].
    rewrite (itertext_inner_strip b _ H1), (IH H2). reflexivity.
  - rewrite strip_kids_cons_AX. cbn [map concat itertext_inner].
    cbn [inner_clean] in H1. rewrite (emp_nil _ H1), (IH H2). reflexivity.
Qed.

Lemma itertext_strip : forall b e ks,
  forallb (inner_clean b) ks = true ->
  itertext (strip_ax (AE e ks)) = itertext (AE e ks).
Proof.
  intros b e ks H. rewrite strip_ax_AE. cbn [itertext]. f_equal.
  exact (concat_itertext_strip b ks H).
Qed.

(* ---- the handlers ---- *)
Lemma commence_paragraph_strip : forall v e ks path s,
  commence_paragraph v (Some (e, strip_kids ks, path)) s
  = commence_paragraph v (Some (e, ks, path)) s.
Proof.
  intros. unfold commence_paragraph.
  rewrite get_paragraph_formatting_strip, get_pStyle_strip. reflexivity.
Qed.

Lemma open_tag_strip : forall v path e ks body s,
  (str_eqb (e_ptag e) tag_MATH = true -> itertext (strip_ax (AE e ks)) = itertext (AE e ks)) ->
  open_tag v path (strip_ax (AE e ks)) e (strip_kids ks) body s
  = open_tag v path (AE e ks) e ks body s.
Proof.
  intros v path e ks body s HM. unfold open_tag. cbv zeta.
  rewrite commence_paragraph_strip, get_bullet_fmt_strip, get_run_formatting_strip,
    get_checkBox_entry_strip, get_ddList_entry_strip.
  destruct (str_eqb (e_ptag e) tag_MATH); [rewrite HM by reflexivity|]; reflexivity.
Qed.

Lemma close_tag_strip : forall v e ks s, close_tag v e (strip_kids ks) s = close_tag v e ks s.
Proof.
  intros. unfold close_tag, close_table_cell. rewrite gather_Pr_strip. reflexivity.
Qed.

(* ================================================================== *)
(* PART 4 — the walk on the stripped tree                               *)
(* ================================================================== *)
Lemma fr_bind_resp : forall (r1 r2 : res cst) (k1 k2 : cst -> res cst),
  fr r1 = fr r2 ->
  (forall a b, F a = F b -> fr (k1 a) = fr (k2 b)) ->
  fr (bind r1 k1) = fr (bind r2 k2).
Proof.
  intros [a|x] [b|y] k1 k2 H HK; cbn [fr res_map] in H; try discriminate H; cbn [bind].
  - apply HK. apply Ok_inj in H. exact H.
  - exact H.
Qed.

Lemma frb_bind_resp : forall (r1 r2 : res (cst * bool)) (k1 k2 : cst * bool -> res cst),
  frb r1 = frb r2 ->
  (forall a b rec, F a = F b -> fr (k1 (a, rec)) = fr (k2 (b, rec))) ->
  fr (bind r1 k1) = fr (bind r2 k2).
Proof.
  intros [[a ra]|x] [[b rb]|y] k1 k2 H HK; cbn [frb res_map fst snd] in H; try discriminate H;
    cbn [bind].
  - apply Ok_inj in H. assert (E : ra = rb) by (injection H; auto).
    assert (E2 : F a = F b) by (exact (f_equal fst H)). subst rb. apply HK. exact E2.
  - injection H as ->. reflexivity.
Qed.

Lemma bind_fr_out : forall {B} (r1 r2 : res cst) (k : cst -> res B),
  fr r1 = fr r2 -> (forall a b, F a = F b -> k a = k b) -> bind r1 k = bind r2 k.
Proof.
  intros B [a|x] [b|y] k H HK; cbn [fr res_map] in H; try discriminate H; cbn [bind].
  - apply HK. apply Ok_inj in H. exact H.
  - injection H as ->. reflexivity.
Qed.

Lemma set_caret_resp : forall d name s s',
  F s = F s' -> fr (set_caret d name s) = fr (set_caret d name s').
Proof. intros d name. apply resp_of_comm. apply set_caret_F. Qed.

Lemma finish_resp : forall v s s', F s = F s' -> fr (finish v s) = fr (finish v s').
Proof. intro v. apply resp_of_comm. apply finish_F. Qed.

Lemma close_tag_resp : forall v e ks s s',
  F s = F s' -> fr (close_tag v e ks s) = fr (close_tag v e ks s').
Proof. intros v e ks. apply resp_of_comm. apply close_tag_F. Qed.

Lemma open_tag_resp : forall v path path' t e ks body s s',
  F s = F s' -> frb (open_tag v path t e ks body s) = frb (open_tag v path' t e ks body s').
Proof.
  intros v path path' t e ks body s s' E.
  rewrite <- (open_tag_F v path path t e ks body s), E. apply open_tag_F.
Qed.

Lemma tree_par_toks_resp : forall a b, F a = F b -> tree_par_toks (c_tree a) = tree_par_toks (c_tree b).
Proof.
  intros a b E. rewrite <- (tree_par_toks_F (c_tree a)), <- (tree_par_toks_F (c_tree b)).
  change (FT (c_tree a)) with (c_tree (F a)). rewrite E. reflexivity.
Qed.

Definition walk_ax_rel (v : env) (t : anode) : Prop :=
  forall path path' s s', F s = F s' ->
    fr (walk v path t s) = fr (walk v path' (strip_ax t) s').

Lemma below_loop_ax : forall v path path' ks,
  Forall (walk_ax_rel v) ks ->
  forall i i', below_loop v path ks i = below_loop v path' (strip_kids ks) i'.
Proof.
  intros v path path' ks HF. induction HF as [|k r Hk _ IH]; intros i i'; [reflexivity|].
  destruct k as [e eks|tl].
  - rewrite strip_kids_cons_AE. cbn [below_loop]. rewrite (IH (S i) (S i')).
    apply bind_fr_out; [apply Hk; reflexivity|].
    intros a b E. apply bind_fr_out; [apply finish_resp; exact E|].
    intros a' b' E'. rewrite (tree_par_toks_resp a' b' E'). reflexivity.
  - rewrite strip_kids_cons_AX. cbn [below_loop walk bind].
    change (finish v init_cst) with (Ok init_cst). cbn [bind].
    change (tree_par_toks (c_tree init_cst)) with (@Ok (list (list tok)) []). cbn [bind join_toks app].
    rewrite (IH (S i) i').
    destruct (below_loop v path' (strip_kids r) i'); reflexivity.
Qed.

Lemma kids_loop_ax : forall v path path' ks,
  Forall (walk_ax_rel v) ks ->
  forall i i' s s', F s = F s' ->
    fr (kids_loop v path ks i s) = fr (kids_loop v path' (strip_kids ks) i' s').
Proof.
  intros v path path' ks HF. induction HF as [|k r Hk _ IH]; intros i i' s s' E.
  - cbn [kids_loop strip_kids filter map fr res_map]. rewrite E. reflexivity.
  - destruct k as [e eks|tl].
    + rewrite strip_kids_cons_AE. cbn [kids_loop].
      apply fr_bind_resp; [apply Hk; exact E|]. intros a b E'. apply IH. exact E'.
    + rewrite strip_kids_cons_AX. cbn [kids_loop walk bind]. apply IH. exact E.
Qed.

Lemma forallb_Forall_imp : forall (P : anode -> Prop) (f : anode -> bool) ks,
  Forall (fun k => f k = true -> P k) ks -> forallb f ks = true -> Forall P ks.
Proof.
  intros P f ks HF. induction HF as [|k r Hk _ IH]; intro H; [constructor|].
  cbn [forallb] in H. apply andb_true_iff in H. destruct H as [H1 H2].
  constructor; [apply Hk; exact H1|apply IH; exact H2].
Qed.

Theorem walk_strip_ax_gen : forall v t, math_clean_ax t = true -> walk_ax_rel v t.
Proof.
  intro v. unfold math_clean_ax.
  apply (anode_ind' (fun t => math_clean_gen false t = true -> walk_ax_rel v t)).
  - intros tl _ path path' s s' E. cbn [strip_ax walk fr res_map]. rewrite E. reflexivity.
  - intros e ks HF H path path' s s' E.
    cbn [math_clean_gen] in H. apply andb_true_iff in H. destruct H as [HM Hks].
    pose proof (forallb_Forall_imp _ _ ks HF Hks) as HR.
    assert (HIT : str_eqb (e_ptag e) tag_MATH = true ->
                  itertext (strip_ax (AE e ks)) = itertext (AE e ks)).
    { intro EM. rewrite EM in HM. apply andb_true_iff in HM. destruct HM as [_ HM].
      exact (itertext_strip false e ks HM). }
    pose proof (elem_depth_strip (AE e ks)) as HD.
    pose proof (open_tag_strip v path' e ks) as HO.
    rewrite strip_ax_AE in *. fold (strip_kids ks) in *.
    rewrite !walk_AE. cbv zeta. rewrite HD.
    apply fr_bind_resp; [apply set_caret_resp; exact E|]. intros s1 s1' E1.
    rewrite <- (below_loop_ax v path path' ks HR 0%nat 0%nat).
    destruct (if str_eqb (e_ptag e) tag_HYPERLINK then below_loop v path ks 0%nat else Ok [])
      as [body|x]; cbn [bind]; [|reflexivity].
    apply frb_bind_resp.
    { rewrite (HO body s1' HIT). apply open_tag_resp. exact E1. }
    intros s2 s2' rec E2.
    apply fr_bind_resp.
    { destruct rec; [apply kids_loop_ax; assumption|]. cbn [fr res_map]. rewrite E2. reflexivity. }
    intros s3 s3' E3.
    apply fr_bind_resp; [rewrite close_tag_strip; apply close_tag_resp; exact E3|].
    intros s4 s4' E4. apply set_caret_resp. exact E4.
Qed.

(* the statement in the three directions *)
Theorem walk_strip_ax_eq : forall v t path path' s s',
  math_clean t = true -> F s = F s' ->
  fr (walk v path t s) = fr (walk v path' (strip_ax t) s').
Proof.
  intros v t path path' s s' H E.
  exact (walk_strip_ax_gen v t (math_clean_weaken t H) path path' s s' E).
Qed.

Lemma fr_eq_Ok_l : forall r1 r2 s1, fr r1 = fr r2 -> r1 = Ok s1 ->
  exists s1', r2 = Ok s1' /\ F s1 = F s1'.
Proof.
  intros r1 [b|y] s1 H ->; cbn [fr res_map] in H; [|discriminate H].
  exists b. split; [reflexivity|]. apply Ok_inj in H. exact H.
Qed.

Lemma fr_eq_Err_l : forall r1 r2 x, fr r1 = fr r2 -> r1 = Err x -> r2 = Err x.
Proof.
  intros r1 [b|y] x H ->; cbn [fr res_map] in H; [discriminate H|].
  injection H as ->. reflexivity.
Qed.

Theorem walk_strip_ax : forall v t path path' s s' s1,
  math_clean t = true -> F s = F s' -> walk v path t s = Ok s1 ->
  exists s1', walk v path' (strip_ax t) s' = Ok s1' /\ F s1 = F s1'.
Proof.
  intros v t path path' s s' s1 H E W.
  exact (fr_eq_Ok_l _ _ s1 (walk_strip_ax_eq v t path path' s s' H E) W).
Qed.

Theorem walk_strip_ax_conv : forall v t path path' s s' s1',
  math_clean t = true -> F s = F s' -> walk v path' (strip_ax t) s' = Ok s1' ->
  exists s1, walk v path t s = Ok s1 /\ F s1 = F s1'.
Proof.
  intros v t path path' s s' s1' H E W.
  destruct (fr_eq_Ok_l _ _ s1' (eq_sym (walk_strip_ax_eq v t path path' s s' H E)) W)
    as (s1 & H1 & H2).
  exists s1. split; [exact H1|symmetry; exact H2].
Qed.

Theorem walk_strip_ax_err : forall v t path path' s s' x,
  math_clean t = true -> F s = F s' ->
  (walk v path t s = Err x <-> walk v path' (strip_ax t) s' = Err x).
Proof.
  intros v t path path' s s' x H E.
  pose proof (walk_strip_ax_eq v t path path' s s' H E) as W. split; intro HE.
  - exact (fr_eq_Err_l _ _ x W HE).
  - exact (fr_eq_Err_l _ _ x (eq_sym W) HE).
Qed.

(* ---- 2. collect_from ---- *)
Theorem collect_strip_ax_gen : forall v t path path',
  math_clean_ax t = true ->
  fr (collect_from v path t) = fr (collect_from v path' (strip_ax t)).
Proof.
  intros v t path path' H. unfold collect_from.
  apply fr_bind_resp; [apply (walk_strip_ax_gen v t H); reflexivity|].
  intros a b E. apply finish_resp. exact E.
Qed.

Theorem collect_strip_ax_eq : forall v t path path',
  math_clean t = true ->
  fr (collect_from v path t) = fr (collect_from v path' (strip_ax t)).
Proof. intros v t path path' H. apply collect_strip_ax_gen, math_clean_weaken, H. Qed.

Theorem collect_strip_ax : forall v t path path' s1,
  math_clean t = true -> collect_from v path t = Ok s1 ->
  exists s1', collect_from v path' (strip_ax t) = Ok s1' /\ F s1 = F s1'.
Proof.
  intros v t path path' s1 H W.
  exact (fr_eq_Ok_l _ _ s1 (collect_strip_ax_eq v t path path' H) W).
Qed.

Theorem collect_strip_ax_conv : forall v t path path' s1',
  math_clean t = true -> collect_from v path' (strip_ax t) = Ok s1' ->
  exists s1, collect_from v path t = Ok s1 /\ F s1 = F s1'.
Proof.
  intros v t path path' s1' H W.
  destruct (fr_eq_Ok_l _ _ s1' (eq_sym (collect_strip_ax_eq v t path path' H)) W)
    as (s1 & H1 & H2).
  exists s1. split; [exact H1|symmetry; exact H2].
Qed.

(* ================================================================== *)
(* PART 5 — whitespace: strip_ws                                        *)
(* ================================================================== *)
Lemma is_elem_named_ws : forall u l k, is_elem_named u l (strip_ws k) = is_elem_named u l k.
Proof. intros u l [e ks|tl]; reflexivity. Qed.

Lemma find_children_ws : forall u l ks,
  find_children u l (map strip_ws ks) = map strip_ws (find_children u l ks).
Proof.
  intros u l ks. unfold find_children.
  induction ks as [|k r IH]; cbn [map filter]; [reflexivity|].
  rewrite is_elem_named_ws. destruct (is_elem_named u l k); cbn [map]; rewrite IH; reflexivity.
Qed.

Lemma find_child_ws : forall u l ks,
  find_child u l (map strip_ws ks) = option_map strip_ws (find_child u l ks).
Proof.
  intros u l ks. unfold find_child. rewrite find_children_ws.
  destruct (find_children u l ks); reflexivity.
Qed.

Lemma children_w_ws : forall e ks n,
  children_w (ws_einfo e) (map strip_ws ks) n = res_map (map strip_ws) (children_w e ks n).
Proof.
  intros e ks n. unfold children_w. change (e_wuri (ws_einfo e)) with (e_wuri e).
  destruct (e_wuri e) as [u|]; cbn [res_map]; [|reflexivity].
  f_equal. apply find_children_ws.
Qed.

Lemma kids_of_ws : forall t, kids_of (strip_ws t) = map strip_ws (kids_of t).
Proof. intros [e ks|tl]; reflexivity. Qed.

Lemma sub_val_of_ws : forall t, sub_val_of (strip_ws t) = sub_val_of t.
Proof. intros [e ks|tl]; reflexivity. Qed.

Lemma gather_Pr_ws : forall e ks, gather_Pr (ws_einfo e) (map strip_ws ks) = gather_Pr e ks.
Proof.
  intros e ks. unfold gather_Pr.
  change (e_uri (ws_einfo e)) with (e_uri e). change (e_local (ws_einfo e)) with (e_local e).
  rewrite find_child_ws.
  destruct (find_child (e_uri e) (e_local e ++ s_Pr) ks) as [pr|]; cbn [option_map]; [|reflexivity].
  rewrite kids_of_ws. apply foldM_map_ext.
  intros d k. destruct k as [ke kks|tl]; reflexivity.
Qed.

Lemma get_pStyle_ws : forall e ks, get_pStyle (ws_einfo e) (map strip_ws ks) = get_pStyle e ks.
Proof. intros. unfold get_pStyle. rewrite gather_Pr_ws. reflexivity. Qed.

Lemma get_run_formatting_ws : forall e ks x,
  get_run_formatting (ws_einfo e) (map strip_ws ks) x = get_run_formatting e ks x.
Proof. intros. unfold get_run_formatting. rewrite gather_Pr_ws. reflexivity. Qed.

Lemma get_paragraph_formatting_ws : forall e ks x,
  get_paragraph_formatting (ws_einfo e) (map strip_ws ks) x = get_paragraph_formatting e ks x.
Proof. intros. unfold get_paragraph_formatting. rewrite get_pStyle_ws. reflexivity. Qed.

Lemma get_html_formatting_ws : forall e ks x,
  get_html_formatting (ws_einfo e) (map strip_ws ks) x = get_html_formatting e ks x.
Proof.
  intros. unfold get_html_formatting. change (e_ptag (ws_einfo e)) with (e_ptag e).
  rewrite get_run_formatting_ws, get_paragraph_formatting_ws. reflexivity.
Qed.

Lemma first_child_w_ws : forall t n,
  first_child_w (strip_ws t) n = option_map strip_ws (first_child_w t n).
Proof.
  intros [e ks|tl] n; [|reflexivity]. cbn [strip_ws first_child_w].
  rewrite children_w_ws. destruct (children_w e ks n) as [[|x r]|x]; reflexivity.
Qed.

Lemma child_val_w_ws : forall t n, child_val_w (strip_ws t) n = child_val_w t n.
Proof.
  intros t n. unfold child_val_w. rewrite first_child_w_ws.
  destruct (first_child_w t n) as [[e ks|tl]|]; reflexivity.
Qed.

Lemma get_bullet_fmt_ws : forall t, get_bullet_fmt (strip_ws t) = get_bullet_fmt t.
Proof.
  intro t. unfold get_bullet_fmt. rewrite first_child_w_ws.
  destruct (first_child_w t s_pPr) as [ppr|]; cbn [option_map]; [|reflexivity].
  rewrite first_child_w_ws.
  destruct (first_child_w ppr s_numPr) as [numpr|]; cbn [option_map]; [|reflexivity].
  rewrite !child_val_w_ws. reflexivity.
Qed.

Lemma get_checkBox_entry_ws : forall e ks,
  get_checkBox_entry (ws_einfo e) (map strip_ws ks) = get_checkBox_entry e ks.
Proof.
  intros e ks. unfold get_checkBox_entry. rewrite !children_w_ws.
  assert (Hd : match res_map (map strip_ws) (children_w e ks s_default) with
               | Ok (AE de _ :: _) =>
                   match attr_w_req de s_val with Ok x => Some x | Err _ => None end
               | _ => None
               end
             = match children_w e ks s_default with
               | Ok (AE de _ :: _) =>
                   match attr_w_req de s_val with Ok x => Some x | Err _ => None end
               | _ => None
               end).
  { destruct (children_w e ks s_default) as [[|[de dks|tl] r']|x]; reflexivity. }
  destruct (children_w e ks s_checked) as [chk|x]; cbn [res_map bind]; [|reflexivity].
  destruct chk as [|[ce cks|tl] r]; cbn [map strip_ws]; rewrite ?Hd; reflexivity.
Qed.

Lemma get_ddList_entry_ws : forall e ks,
  get_ddList_entry (ws_einfo e) (map strip_ws ks) = get_ddList_entry e ks.
Proof.
  intros e ks. unfold get_ddList_entry. rewrite !children_w_ws.
  destruct (children_w e ks s_listEntry) as [ents|x]; cbn [res_map bind]; [|reflexivity].
  rewrite (mapM_map_ext _ strip_ws
             (fun k => match k with
                       | AE ke _ => attr_w_req ke s_val
                       | AX _ => Err ModelError
                       end)).
  2:{ intros [ke kks|tl]; reflexivity. }
  destruct (mapM _ ents) as [vals|x]; cbn [bind]; [|reflexivity].
  destruct (children_w e ks s_result) as [[|[re rks|tl] r']|x]; reflexivity.
Qed.

Lemma has_content_ws : forall t, has_content (strip_ws t) = has_content t.
Proof.
  apply (anode_ind' (fun t => has_content (strip_ws t) = has_content t)).
  - reflexivity.
  - intros e ks HF. cbn [strip_ws has_content]. change (e_ptag (ws_einfo e)) with (e_ptag e).
    f_equal. induction HF as [|k r Hk _ IH]; cbn [map]; [reflexivity|].
    rewrite Hk, IH. reflexivity.
Qed.

Lemma min_par_depth_ws : forall t, min_par_depth (strip_ws t) = min_par_depth t.
Proof.
  apply (anode_ind' (fun t => min_par_depth (strip_ws t) = min_par_depth t)).
  - reflexivity.
  - intros e ks HF. cbn [strip_ws min_par_depth]. change (e_ptag (ws_einfo e)) with (e_ptag e).
    destruct (str_eqb (e_ptag e) tag_PARAGRAPH); [reflexivity|]. f_equal.
    induction HF as [|k r Hk _ IH]; cbn [map]; [reflexivity|].
    rewrite Hk, IH. reflexivity.
Qed.

Lemma elem_depth_ws : forall t, elem_depth (strip_ws t) = elem_depth t.
Proof.
  intros [e ks|tl]; [|reflexivity].
  unfold elem_depth. rewrite min_par_depth_ws. reflexivity.
Qed.

Lemma height_ws : forall t, height (strip_ws t) = height t.
Proof.
  apply (anode_ind' (fun t => height (strip_ws t) = height t)).
  - reflexivity.
  - intros e ks HF. cbn [strip_ws height]. f_equal.
    induction HF as [|k r Hk _ IH]; cbn [map fold_right]; [reflexivity|].
    rewrite Hk, IH. reflexivity.
Qed.

Lemma ws_text : forall e, text_ok true e = true -> ostr (e_text (ws_einfo e)) = ostr (e_text e).
Proof.
  intros e H. unfold text_ok in H. cbn [negb orb] in H. cbn [ws_einfo e_text].
  change (mem_str (e_ptag e) [tag_TEXT; tag_TEXT_MATH]) with (is_text_like e).
  destruct (is_text_like e); [reflexivity|]. cbn [orb] in H. rewrite (emp_nil _ H). reflexivity.
Qed.

Lemma itertext_inner_ws : forall t,
  inner_clean true t = true -> itertext_inner (strip_ws t) = itertext_inner t.
Proof.
  apply (anode_ind' (fun t => inner_clean true t = true ->
                              itertext_inner (strip_ws t) = itertext_inner t)).
  - intros tl H. cbn [inner_clean] in H. cbn [strip_ws itertext_inner].
    rewrite (emp_nil _ H). reflexivity.
  - intros e ks HF H. cbn [strip_ws]. rewrite !itertext_inner_AE.
    cbn [inner_clean] in H. apply andb_true_iff in H. destruct H as [H Hks].
    apply andb_true_iff in H. destruct H as [Htl Htx].
    rewrite (ws_text e Htx). unfold tail_ok in Htl. cbn [negb orb] in Htl.
    rewrite (emp_nil _ Htl). cbn [ws_einfo e_tail ostr]. f_equal. f_equal.
    induction HF as [|k r Hk _ IH]; [reflexivity|].
    cbn [forallb] in Hks. apply andb_true_iff in Hks. destruct Hks as [H1 H2].
    cbn [map concat]. rewrite (Hk H1), (IH H2). reflexivity.
Qed.

Lemma itertext_ws : forall e ks,
  text_ok true e = true -> forallb (inner_clean true) ks = true ->
  itertext (strip_ws (AE e ks)) = itertext (AE e ks).
Proof.
  intros e ks Htx Hks. cbn [strip_ws itertext]. rewrite (ws_text e Htx). f_equal.
  induction ks as [|k r IH]; [reflexivity|].
  cbn [forallb] in Hks. apply andb_true_iff in Hks. destruct Hks as [H1 H2].
  cbn [map concat]. rewrite (itertext_inner_ws k H1), (IH H2). reflexivity.
Qed.

Lemma commence_paragraph_ws : forall v e ks path s,
  commence_paragraph v (Some (ws_einfo e, map strip_ws ks, path)) s
  = commence_paragraph v (Some (e, ks, path)) s.
Proof.
  intros. unfold commence_paragraph. change (e_local (ws_einfo e)) with (e_local e).
  rewrite get_paragraph_formatting_ws, get_pStyle_ws. reflexivity.
Qed.

Lemma open_tag_ws : forall v path e ks body s,
  (str_eqb (e_ptag e) tag_MATH = true -> itertext (strip_ws (AE e ks)) = itertext (AE e ks)) ->
  open_tag v path (strip_ws (AE e ks)) (ws_einfo e) (map strip_ws ks) body s
  = open_tag v path (AE e ks) e ks body s.
Proof.
  intros v path e ks body s HM. unfold open_tag. cbv zeta.
  rewrite commence_paragraph_ws, get_bullet_fmt_ws, get_run_formatting_ws,
    get_checkBox_entry_ws, get_ddList_entry_ws.
  change (e_ptag (ws_einfo e)) with (e_ptag e).
  change (e_text (ws_einfo e))
    with (if mem_str (e_ptag e) [tag_TEXT; tag_TEXT_MATH] then e_text e else None).
  cbn [mem_str].
  destruct (str_eqb (e_ptag e) tag_TEXT); [reflexivity|].
  destruct (str_eqb (e_ptag e) tag_TEXT_MATH); [reflexivity|].
  destruct (str_eqb (e_ptag e) tag_MATH); [rewrite HM by reflexivity|]; reflexivity.
Qed.

Lemma close_tag_ws : forall v e ks s,
  close_tag v (ws_einfo e) (map strip_ws ks) s = close_tag v e ks s.
Proof.
  intros. unfold close_tag, close_table_cell. change (e_ptag (ws_einfo e)) with (e_ptag e).
  rewrite gather_Pr_ws. reflexivity.
Qed.

Definition walk_ws_same (v : env) (t : anode) : Prop :=
  forall path s, walk v path (strip_ws t) s = walk v path t s.

Lemma below_loop_ws v path ks :
  Forall (walk_ws_same v) ks ->
  forall i, below_loop v path (map strip_ws ks) i = below_loop v path ks i.
Proof.
  induction 1 as [|k r Hk _ IH]; intro i; cbn [map below_loop]; [reflexivity|].
  rewrite Hk. rewrite IH. reflexivity.
Qed.

Lemma kids_loop_ws v path ks :
  Forall (walk_ws_same v) ks ->
  forall i s, kids_loop v path (map strip_ws ks) i s = kids_loop v path ks i s.
Proof.
  induction 1 as [|k r Hk _ IH]; intros i s; cbn [map kids_loop]; [reflexivity|].
  rewrite Hk. destruct (walk v (i :: path) k s); cbn [bind]; [apply IH|reflexivity].
Qed.

(* ---- 3. literally equal results ---- *)
Theorem walk_strip_ws : forall v t path s,
  math_clean t = true -> walk v path (strip_ws t) s = walk v path t s.
Proof.
  intros v t path s H. revert t H path s. unfold math_clean.
  apply (anode_ind' (fun t => math_clean_gen true t = true -> walk_ws_same v t)).
  - intros tl _ path s. reflexivity.
  - intros e ks HF H path s.
    cbn [math_clean_gen] in H. apply andb_true_iff in H. destruct H as [HM Hks].
    pose proof (forallb_Forall_imp _ _ ks HF Hks) as HR.
    assert (HIT : str_eqb (e_ptag e) tag_MATH = true ->
                  itertext (strip_ws (AE e ks)) = itertext (AE e ks)).
    { intro EM. rewrite EM in HM. apply andb_true_iff in HM. destruct HM as [H1 H2].
      exact (itertext_ws e ks H1 H2). }
    pose proof (elem_depth_ws (AE e ks)) as HD.
    pose proof (open_tag_ws v path e ks) as HO.
    cbn [strip_ws] in *. rewrite !walk_AE. cbv zeta. rewrite HD.
    change (e_local (ws_einfo e)) with (e_local e).
    change (e_ptag (ws_einfo e)) with (e_ptag e).
    rewrite (below_loop_ws v path ks HR).
    destruct (set_caret (elem_depth (AE e ks)) (Some (e_local e)) s) as [s1|x]; cbn [bind];
      [|reflexivity].
    destruct (if str_eqb (e_ptag e) tag_HYPERLINK then below_loop v path ks 0%nat else Ok [])
      as [body|x]; cbn [bind]; [|reflexivity].
    rewrite (HO body s1 HIT).
    destruct (open_tag v path (AE e ks) e ks body s1) as [[s2 rec]|x]; cbn [bind]; [|reflexivity].
    rewrite (kids_loop_ws v path ks HR).
    destruct (if rec then kids_loop v path ks 0%nat s2 else Ok s2) as [s3|x]; cbn [bind];
      [|reflexivity].
    rewrite close_tag_ws. reflexivity.
Qed.

Theorem collect_strip_ws : forall v t path,
  math_clean t = true -> collect_from v path (strip_ws t) = collect_from v path t.
Proof. intros v t path H. unfold collect_from. rewrite walk_strip_ws by exact H. reflexivity. Qed.

(* ================================================================== *)
(* PART 6 — merge_elems commutes with strip_ax (no hypothesis needed)   *)
(* ================================================================== *)
Lemma strip_kids_app : forall a b, strip_kids (a ++ b) = strip_kids a ++ strip_kids b.
Proof. intros a b. unfold strip_kids. rewrite filter_app, map_app. reflexivity. Qed.

Lemma strip_kids_rev : forall l, strip_kids (rev l) = rev (strip_kids l).
Proof.
  induction l as [|k r IH]; [reflexivity|]. cbn [rev]. rewrite strip_kids_app, IH.
  destruct k as [e ks|tl]; [rewrite strip_kids_cons_AE|rewrite strip_kids_cons_AX].
  - reflexivity.
  - cbn [strip_kids filter is_AE map]. apply app_nil_r.
Qed.

Lemma elem_key_strip : forall v e ks, elem_key v e (strip_kids ks) = elem_key v e ks.
Proof. intros. unfold elem_key. rewrite get_html_formatting_strip. reflexivity. Qed.

Definition ax_group (g : group) : group :=
  {| g_key := g_key g; g_merge := g_merge g; g_e := g_e g;
     g_kids := strip_kids (g_kids g); g_n := g_n g; g_texts := g_texts g;
     g_pending := strip_kids (g_pending g) |}.

Lemma flush_ax : forall g out,
  flush (option_map ax_group g) (strip_kids out) = strip_kids (flush g out).
Proof.
  intros [g|] out; cbn [option_map flush]; [|reflexivity].
  cbn [ax_group g_e g_n g_texts g_kids g_pending].
  rewrite strip_kids_app, strip_kids_cons_AE, strip_ax_AE. reflexivity.
Qed.

Definition ax_st (st : option group * list anode) : option group * list anode :=
  (option_map ax_group (fst st), strip_kids (snd st)).

Lemma step_ax_AE : forall v e eks g out,
  step v (strip_ax (AE e eks)) (option_map ax_group g) (strip_kids out)
  = res_map ax_st (step v (AE e eks) g out).
Proof.
  intros v e eks g out. unfold step. rewrite has_content_strip.
  destruct (has_content (AE e eks)); cbn [negb].
  - rewrite strip_ax_AE. fold (strip_kids eks). rewrite elem_key_strip.
    destruct (elem_key v e eks) as [key|x]; cbn [bind res_map]; [|reflexivity].
    destruct g as [g0|]; cbn [option_map]; [|reflexivity].
    cbn [ax_group g_key g_merge].
    destruct (ekey_eqb (g_key g0) key && g_merge g0)%bool.
    + unfold ax_st, join_g. cbn [res_map fst snd option_map ax_group g_key g_merge g_e g_kids
                                  g_n g_texts g_pending].
      rewrite <- strip_kids_app. reflexivity.
    + change (flush (Some (ax_group g0)) (strip_kids out))
        with (flush (option_map ax_group (Some g0)) (strip_kids out)).
      rewrite flush_ax. reflexivity.
  - destruct g as [g0|]; cbn [option_map res_map]; unfold ax_st; cbn [fst snd option_map].
    + unfold pend_g, ax_group. cbn [g_key g_merge g_e g_kids g_n g_texts g_pending].
      rewrite strip_kids_cons_AE. reflexivity.
    + rewrite strip_kids_cons_AE. reflexivity.
Qed.

Lemma step_ax_AX : forall v tl g out,
  exists st, step v (AX tl) g out = Ok st /\ ax_st st = ax_st (g, out).
Proof.
  intros v tl g out. unfold step. cbn [has_content negb].
  destruct g as [g0|]; eexists; split; reflexivity.
Qed.

Lemma merge_sibs_go_ax : forall v ks g out,
  merge_sibs_go v (strip_kids ks) (option_map ax_group g) (strip_kids out)
  = res_map strip_kids (merge_sibs_go v ks g out).
Proof.
  intros v ks. induction ks as [|k r IH]; intros g out.
  - cbn [strip_kids filter map merge_sibs_go res_map]. fold (strip_kids out).
    rewrite flush_ax, strip_kids_rev. reflexivity.
  - destruct k as [e eks|tl].
    + rewrite strip_kids_cons_AE, !go_step, step_ax_AE.
      destruct (step v (AE e eks) g out) as [[g1 out1]|x]; cbn [res_map bind]; [|reflexivity].
      apply IH.
    + rewrite strip_kids_cons_AX, (go_step v (AX tl)).
      destruct (step_ax_AX v tl g out) as ([g1 out1] & -> & E). cbn [bind fst snd].
      unfold ax_st in E. cbn [fst snd] in E. injection E as E1 E2.
      rewrite <- E1, <- E2. apply IH.
Qed.

Lemma merge_sibs_ax : forall v ks,
  merge_sibs v (strip_kids ks) = res_map strip_kids (merge_sibs v ks).
Proof. intros v ks. unfold merge_sibs. exact (merge_sibs_go_ax v ks None []). Qed.

(* the result does not depend on the fuel once it exceeds the height (also
   when it is an error) *)
Lemma mapM_ext_Forall : forall {A B} (f g : A -> res B) l,
  Forall (fun x => f x = g x) l -> mapM f l = mapM g l.
Proof.
  intros A B f g l H. induction H as [|x r Hx _ IH]; [reflexivity|].
  cbn [mapM]. rewrite Hx, IH. reflexivity.
Qed.

Lemma merge_fuel_indep : forall v f1 f2 t,
  (height t <= f1)%nat -> (height t <= f2)%nat -> merge_fuel f1 v t = merge_fuel f2 v t.
Proof.
  intros v f1. induction f1 as [|f1 IH]; intros f2 t H1 H2.
  - pose proof (height_pos t). lia.
  - destruct f2 as [|f2]; [pose proof (height_pos t); lia|].
    destruct t as [e ks|tl]; cbn [merge_fuel]; [|reflexivity].
    destruct (merge_sibs v ks) as [ks1|x] eqn:E1; cbn [bind]; [|reflexivity].
    assert (Hk1 : Forall (hle f1) ks) by (apply (hle_AE f1 e ks); exact H1).
    assert (Hk2 : Forall (hle f2) ks) by (apply (hle_AE f2 e ks); exact H2).
    pose proof (merge_sibs_height v f1 ks ks1 Hk1 E1) as G1.
    pose proof (merge_sibs_height v f2 ks ks1 Hk2 E1) as G2.
    rewrite (mapM_ext_Forall (merge_fuel f1 v) (merge_fuel f2 v) ks1); [reflexivity|].
    clear E1. induction G1 as [|k r Hk _ IHr]; [constructor|].
    inversion G2; subst. constructor; [apply IH; assumption|apply IHr; assumption].
Qed.

Lemma merge_fuel_ax : forall v f t,
  (height t <= f)%nat -> merge_fuel f v (strip_ax t) = res_map strip_ax (merge_fuel f v t).
Proof.
  intros v f. induction f as [|f IH]; intros t Ht.
  - pose proof (height_pos t). lia.
  - destruct t as [e ks|tl]; [|reflexivity].
    rewrite strip_ax_AE. fold (strip_kids ks). cbn [merge_fuel]. rewrite merge_sibs_ax.
    destruct (merge_sibs v ks) as [ks1|x] eqn:E1; cbn [res_map bind]; [|reflexivity].
    assert (Hk : Forall (hle f) ks) by (apply (hle_AE f e ks); exact Ht).
    pose proof (merge_sibs_height v f ks ks1 Hk E1) as G.
    assert (HM : mapM (merge_fuel f v) (strip_kids ks1)
                 = res_map strip_kids (mapM (merge_fuel f v) ks1)).
    { clear E1. induction G as [|k r Hk1 _ IHr]; [reflexivity|].
      destruct k as [ke kks|tl].
      - rewrite strip_kids_cons_AE. cbn [mapM]. rewrite (IH _ Hk1), IHr.
        destruct (merge_fuel f v (AE ke kks)) as [k'|x] eqn:Ek; cbn [res_map bind]; [|reflexivity].
        destruct (merge_fuel_root v f ke kks k' Ek) as [ks' ->].
        destruct (mapM (merge_fuel f v) r) as [ys|x]; cbn [res_map bind]; reflexivity.
      - rewrite strip_kids_cons_AX. cbn [mapM]. rewrite IHr.
        destruct f as [|f']; [unfold hle in Hk1; cbn in Hk1; lia|].
        change (merge_fuel (S f') v (AX tl)) with (@Ok anode (AX tl)). cbn [bind].
        destruct (mapM (merge_fuel (S f') v) r) as [ys|x]; cbn [res_map bind]; reflexivity. }
    rewrite HM. destruct (mapM (merge_fuel f v) ks1) as [ks2|x]; cbn [res_map bind]; [|reflexivity].
    rewrite strip_ax_AE. reflexivity.
Qed.

(* ---- 4. merge_elems and strip_ax ---- *)
Theorem merge_strip_ax_eq : forall v t,
  merge_elems v (strip_ax t) = res_map strip_ax (merge_elems v t).
Proof.
  intros v t. unfold merge_elems.
  pose proof (height_strip t) as Hh.
  rewrite (merge_fuel_indep v (S (height (strip_ax t))) (S (height t))) by lia.
  apply merge_fuel_ax. lia.
Qed.

Theorem merge_strip_ax : forall v t t',
  merge_elems v t = Ok t' -> merge_elems v (strip_ax t) = Ok (strip_ax t').
Proof. intros v t t' H. rewrite merge_strip_ax_eq, H. reflexivity. Qed.

(* ================================================================== *)
(* PART 7 — merge_elems preserves math_clean (both flavours)            *)
(* ================================================================== *)
Lemma forallb_Forall : forall {A} (f : A -> bool) l,
  forallb f l = true <-> Forall (fun x => f x = true) l.
Proof.
  intros A f l. induction l as [|x r IH]; cbn [forallb].
  - split; [constructor|reflexivity].
  - rewrite andb_true_iff, IH. split.
    + intros [H1 H2]. constructor; assumption.
    + intro H. inversion H; subst. split; assumption.
Qed.

(* a property of siblings that survives fusing a follower into a leader
   survives merge_sibs *)
Lemma merge_sibs_pres : forall (Q : anode -> Prop),
  (forall g0 e eks, ginv g0 -> g_merge g0 = true ->
     Q (leader g0) -> Q (AE e eks) -> Q (leader (join_g g0 e eks))) ->
  forall v ks ks', Forall Q ks -> merge_sibs v ks = Ok ks' -> Forall Q ks'.
Proof.
  intros Q HJ v ks ks' HQ H.
  destruct (merge_sibs_inv v Q (fun _ g out => oginv g /\ Forall Q (flush g out)))
    with (ks := ks) (res := ks') as (g' & out' & E & (_ & HI)); auto.
  - intros c k g out g1 out1 Hk [Hg HF] Hs.
    split; [eapply step_oginv; eauto|].
    destruct Hs; subst; cbn [oginv] in Hg.
    + rewrite flush_None in *. constructor; assumption.
    + rewrite flush_pend. constructor; assumption.
    + rewrite flush_None in *. rewrite flush_fresh. constructor; assumption.
    + rewrite flush_Some in HF. rewrite flush_join.
      apply Forall_app in HF. destruct HF as [HFp HF]. inversion HF as [|? ? HL HO]; subst.
      apply Forall_app. split; [assumption|]. constructor; [|assumption].
      apply HJ; assumption.
    + rewrite flush_fresh. constructor; assumption.
  - split; [exact I|constructor].
  - subst. apply Forall_rev. exact HI.
Qed.

Lemma mergeable_not_math : forall e, is_mergeable e = true -> str_eqb (e_ptag e) tag_MATH = false.
Proof.
  intros e H. unfold is_mergeable in H. apply mem_str_In in H.
  destruct (str_eqb (e_ptag e) tag_MATH) eqn:E; [|reflexivity].
  apply str_eqb_eq in E. rewrite E in H. exfalso.
  cbn [In mergeable_tags] in H.
  destruct H as [H|[H|[H|[H|[]]]]]; discriminate H.
Qed.

Lemma lead_e_tail : forall g0, e_tail (lead_e g0) = e_tail (g_e g0).
Proof. intro g0. unfold lead_e. destruct (_ && _)%bool; reflexivity. Qed.

Lemma lead_e_join_text_ok : forall b g0 e eks,
  text_ok b (lead_e g0) = true -> text_ok b (lead_e (join_g g0 e eks)) = true.
Proof.
  intros b g0 e eks H. unfold text_ok in *. rewrite lead_e_text_like in *.
  cbn [join_g g_e] in *. destruct (is_text_like (g_e g0)) eqn:Et.
  - rewrite orb_true_r. reflexivity.
  - unfold lead_e in *. cbn [join_g g_e g_n g_texts]. rewrite Et in *. cbn [andb] in *. exact H.
Qed.

Lemma inner_clean_AE : forall b e ks,
  inner_clean b (AE e ks) = tail_ok b e && text_ok b e && forallb (inner_clean b) ks.
Proof. reflexivity. Qed.

Lemma math_clean_gen_AE : forall b e ks,
  math_clean_gen b (AE e ks)
  = (if str_eqb (e_ptag e) tag_MATH
     then text_ok b e && forallb (inner_clean b) ks else true)
    && forallb (math_clean_gen b) ks.
Proof. reflexivity. Qed.

Lemma inner_join : forall b g0 e eks, ginv g0 -> g_merge g0 = true ->
  inner_clean b (leader g0) = true -> inner_clean b (AE e eks) = true ->
  inner_clean b (leader (join_g g0 e eks)) = true.
Proof.
  intros b g0 e eks _ _ HL Hk. unfold leader in *. rewrite inner_clean_AE in *.
  apply andb_true_iff in HL. destruct HL as [HL HLk].
  apply andb_true_iff in HL. destruct HL as [HLt HLx].
  apply andb_true_iff in Hk. destruct Hk as [_ Hkk].
  unfold tail_ok in *. rewrite lead_e_tail in *. cbn [join_g g_e g_kids].
  rewrite HLt, (lead_e_join_text_ok b g0 e eks HLx), forallb_app, HLk, Hkk. reflexivity.
Qed.

Lemma inner_imp_math : forall b t, inner_clean b t = true -> math_clean_gen b t = true.
Proof.
  intro b.
  apply (anode_ind' (fun t => inner_clean b t = true -> math_clean_gen b t = true)).
  - reflexivity.
  - intros e ks HF H. rewrite inner_clean_AE in H. rewrite math_clean_gen_AE.
    apply andb_true_iff in H. destruct H as [H Hk].
    apply andb_true_iff in H. destruct H as [_ Hx].
    rewrite Hx, Hk. cbn [andb].
    assert (forallb (math_clean_gen b) ks = true) as ->.
    { clear Hx. induction HF as [|k r Hk1 _ IH]; [reflexivity|].
      cbn [forallb] in *. apply andb_true_iff in Hk. destruct Hk as [H1 H2].
      rewrite (Hk1 H1), (IH H2). reflexivity. }
    destruct (str_eqb (e_ptag e) tag_MATH); reflexivity.
Qed.

Lemma math_join : forall b g0 e eks, ginv g0 -> g_merge g0 = true ->
  math_clean_gen b (leader g0) = true -> math_clean_gen b (AE e eks) = true ->
  math_clean_gen b (leader (join_g g0 e eks)) = true.
Proof.
  intros b g0 e eks (Hm & _) Hg HL Hk. unfold leader in *. rewrite math_clean_gen_AE in *.
  rewrite lead_e_ptag in *. cbn [join_g g_e g_kids] in *.
  rewrite Hg in Hm. rewrite (mergeable_not_math (g_e g0) (eq_sym Hm)) in *.
  cbn [andb] in *. apply andb_true_iff in Hk. destruct Hk as [_ Hkk].
  rewrite forallb_app, HL, Hkk. reflexivity.
Qed.

Lemma merge_sibs_inner : forall b v ks ks',
  forallb (inner_clean b) ks = true -> merge_sibs v ks = Ok ks' ->
  forallb (inner_clean b) ks' = true.
Proof.
  intros b v ks ks' H E. apply forallb_Forall. apply forallb_Forall in H.
  exact (merge_sibs_pres (fun k => inner_clean b k = true) (inner_join b) v ks ks' H E).
Qed.

Lemma merge_sibs_math : forall b v ks ks',
  forallb (math_clean_gen b) ks = true -> merge_sibs v ks = Ok ks' ->
  forallb (math_clean_gen b) ks' = true.
Proof.
  intros b v ks ks' H E. apply forallb_Forall. apply forallb_Forall in H.
  exact (merge_sibs_pres (fun k => math_clean_gen b k = true) (math_join b) v ks ks' H E).
Qed.

Lemma Forall2_pres : forall (Q : anode -> bool) (R : anode -> anode -> Prop) l l',
  (forall a b, R a b -> Q a = true -> Q b = true) ->
  Forall2 R l l' -> forallb Q l = true -> forallb Q l' = true.
Proof.
  intros Q R l l' HR H2. induction H2 as [|a b l l' Hab _ IH]; intro H; [reflexivity|].
  cbn [forallb] in *. apply andb_true_iff in H. destruct H as [H1 H3].
  rewrite (HR a b Hab H1), (IH H3). reflexivity.
Qed.

Lemma merge_fuel_clean : forall b v f t t', merge_fuel f v t = Ok t' ->
  (inner_clean b t = true -> inner_clean b t' = true) /\
  (math_clean_gen b t = true -> math_clean_gen b t' = true).
Proof.
  intros b v f. induction f as [|f IH]; intros t t' H; [discriminate H|].
  destruct t as [e ks|tl]; cbn [merge_fuel] in H; [|injection H as <-; split; auto].
  destruct (merge_sibs v ks) as [ks1|] eqn:E1; cbn [bind] in H; [|discriminate H].
  destruct (mapM (merge_fuel f v) ks1) as [ks2|] eqn:E2; cbn [bind] in H; [|discriminate H].
  injection H as <-. apply mapM_Forall2 in E2.
  assert (HI : forallb (inner_clean b) ks = true -> forallb (inner_clean b) ks2 = true).
  { intro Hk. apply (Forall2_pres _ _ ks1 ks2 (fun a c Hac => proj1 (IH a c Hac)) E2).
    exact (merge_sibs_inner b v ks ks1 Hk E1). }
  assert (HMc : forallb (math_clean_gen b) ks = true -> forallb (math_clean_gen b) ks2 = true).
  { intro Hk. apply (Forall2_pres _ _ ks1 ks2 (fun a c Hac => proj2 (IH a c Hac)) E2).
    exact (merge_sibs_math b v ks ks1 Hk E1). }
  split; intro Hc.
  - rewrite inner_clean_AE in *. apply andb_true_iff in Hc. destruct Hc as [Hc Hk].
    rewrite Hc, (HI Hk). reflexivity.
  - rewrite math_clean_gen_AE in *. apply andb_true_iff in Hc. destruct Hc as [Hc Hk].
    rewrite (HMc Hk), andb_true_r.
    destruct (str_eqb (e_ptag e) tag_MATH); [|reflexivity].
    apply andb_true_iff in Hc. destruct Hc as [Hx Hi]. rewrite Hx, (HI Hi). reflexivity.
Qed.

Theorem merge_math_clean_gen : forall b v t t',
  math_clean_gen b t = true -> merge_elems v t = Ok t' -> math_clean_gen b t' = true.
Proof.
  intros b v t t' H E. exact (proj2 (merge_fuel_clean b v _ t t' E) H).
Qed.

Theorem merge_math_clean : forall v t t',
  math_clean t = true -> merge_elems v t = Ok t' -> math_clean t' = true.
Proof. intros v t t'. apply merge_math_clean_gen. Qed.

(* ---- 5. the whole extraction of one part ---- *)
Definition extract (v : env) (t : anode) : res cst :=
  t' <- merge_elems v t ;; collect_from v [] t'.

Theorem extract_strip_ax_gen : forall v t,
  math_clean_ax t = true -> fr (extract v t) = fr (extract v (strip_ax t)).
Proof.
  intros v t H. unfold extract. rewrite merge_strip_ax_eq.
  destruct (merge_elems v t) as [t'|x] eqn:E; cbn [res_map bind]; [|reflexivity].
  apply collect_strip_ax_gen. exact (merge_math_clean_gen false v t t' H E).
Qed.

Theorem extract_strip_ax_eq : forall v t,
  math_clean t = true -> fr (extract v t) = fr (extract v (strip_ax t)).
Proof. intros v t H. apply extract_strip_ax_gen, math_clean_weaken, H. Qed.

Theorem extract_strip_ax : forall v t s1,
  math_clean t = true -> extract v t = Ok s1 ->
  exists s1', extract v (strip_ax t) = Ok s1' /\ F s1 = F s1'.
Proof.
  intros v t s1 H W. exact (fr_eq_Ok_l _ _ s1 (extract_strip_ax_eq v t H) W).
Qed.

Theorem extract_strip_ax_conv : forall v t s1',
  math_clean t = true -> extract v (strip_ax t) = Ok s1' ->
  exists s1, extract v t = Ok s1 /\ F s1 = F s1'.
Proof.
  intros v t s1' H W.
  destruct (fr_eq_Ok_l _ _ s1' (eq_sym (extract_strip_ax_eq v t H)) W) as (s1 & H1 & H2).
  exists s1. split; [exact H1|symmetry; exact H2].
Qed.

(* ================================================================== *)
(* PART 8 — merge_elems and strip_ws                                    *)
(* ================================================================== *)
(* FALSE in general: elem_key compares Clark names while is_text_like looks
   at the prefixed tag.  With two prefixes bound to one namespace, x:t (not a
   text tag) is fused into a preceding w:t and its text — which strip_ws
   erases — becomes part of the text of w:t.  MergeFacts.cx_p is
     <w:p><w:t>a</w:t><x:t>b<w:br/></x:t></w:p>   (xmlns:w = xmlns:x). *)
Lemma merge_strip_ws_counterexample :
  exists v t t', math_clean t = true /\ merge_elems v t = Ok t' /\
    merge_elems v (strip_ws t) <> Ok (strip_ws t').
Proof.
  exists cx_env, (view cx_p). eexists.
  split; [vm_compute; reflexivity|]. split; [vm_compute; reflexivity|].
  intro H. vm_compute in H. discriminate H.
Qed.

(* ... and the extraction itself then differs: "ab" against "a" *)
Lemma extract_strip_ws_counterexample :
  exists v t, math_clean t = true /\ extract v (strip_ws t) <> extract v t.
Proof.
  exists cx_env, (view cx_p). split; [vm_compute; reflexivity|].
  intro H. vm_compute in H. discriminate H.
Qed.

Lemma elem_key_ws : forall v e ks,
  elem_key v (ws_einfo e) (map strip_ws ks) = elem_key v e ks.
Proof.
  intros. unfold elem_key. rewrite get_html_formatting_ws. reflexivity.
Qed.

Definition blank_texts (b : bool) (ts : list str) : list str :=
  if b then ts else map (fun _ => []) ts.

Definition ws_group (g : group) : group :=
  {| g_key := g_key g; g_merge := g_merge g; g_e := ws_einfo (g_e g);
     g_kids := map strip_ws (g_kids g); g_n := g_n g;
     g_texts := blank_texts (is_text_like (g_e g)) (g_texts g);
     g_pending := map strip_ws (g_pending g) |}.

Lemma ws_einfo_text : forall e,
  e_text (ws_einfo e) = if is_text_like e then e_text e else None.
Proof. reflexivity. Qed.

Lemma ws_einfo_set_text : forall e c, is_text_like e = true ->
  ws_einfo (set_text e (Some c))
  = {| e_ptag := e_ptag (ws_einfo e); e_uri := e_uri (ws_einfo e);
       e_local := e_local (ws_einfo e); e_wuri := e_wuri (ws_einfo e);
       e_ruri := e_ruri (ws_einfo e); e_attrs := e_attrs (ws_einfo e);
       e_text := Some c; e_tail := e_tail (ws_einfo e) |}.
Proof.
  intros e c H. unfold ws_einfo, set_text.
  cbn [e_ptag e_uri e_local e_wuri e_ruri e_attrs e_text e_tail].
  change (mem_str (e_ptag e) [tag_TEXT; tag_TEXT_MATH]) with (is_text_like e).
  rewrite H. reflexivity.
Qed.

Lemma flush_ws : forall g out,
  flush (option_map ws_group g) (map strip_ws out) = map strip_ws (flush g out).
Proof.
  intros [g|] out; cbn [option_map flush]; [|reflexivity].
  cbn [ws_group g_e g_n g_texts g_kids g_pending].
  rewrite map_app. cbn [map strip_ws]. f_equal. f_equal. f_equal.
  change (is_text_like (ws_einfo (g_e g))) with (is_text_like (g_e g)).
  destruct (is_text_like (g_e g)) eqn:Et; cbn [andb blank_texts]; [|reflexivity].
  destruct (Nat.ltb 1 (g_n g)); [|reflexivity].
  symmetry. exact (ws_einfo_set_text (g_e g) (concat (g_texts g)) Et).
Qed.

Definition ws_st (st : option group * list anode) : option group * list anode :=
  (option_map ws_group (fst st), map strip_ws (snd st)).

Section WS.
  Variable pt : aname -> str.

  (* top-level consistency of prefixes *)
  Definition wfp (k : anode) : Prop :=
    match k with AE e _ => e_ptag e = pt (e_uri e, e_local e) | AX _ => True end.
  Definition ogood (g : option group) : Prop :=
    match g with
    | Some g0 => fst (fst (g_key g0)) = (e_uri (g_e g0), e_local (g_e g0))
                 /\ e_ptag (g_e g0) = pt (e_uri (g_e g0), e_local (g_e g0))
    | None => True
    end.

  Lemma fresh_ws : forall key e eks,
    fresh_g key (ws_einfo e) (map strip_ws eks) = ws_group (fresh_g key e eks).
  Proof.
    intros. unfold fresh_g, ws_group. cbn [g_key g_merge g_e g_kids g_n g_texts g_pending].
    change (is_mergeable (ws_einfo e)) with (is_mergeable e). rewrite ws_einfo_text.
    destruct (is_text_like e); reflexivity.
  Qed.

  Lemma join_ws : forall g0 e eks, is_text_like e = is_text_like (g_e g0) ->
    join_g (ws_group g0) (ws_einfo e) (map strip_ws eks) = ws_group (join_g g0 e eks).
  Proof.
    intros g0 e eks Ht. unfold join_g, ws_group.
    cbn [g_key g_merge g_e g_kids g_n g_texts g_pending].
    rewrite ws_einfo_text, Ht, map_app.
    destruct (is_text_like (g_e g0)); cbn [blank_texts]; [reflexivity|].
    rewrite map_app. reflexivity.
  Qed.

  Lemma step_ws : forall v k g out, wfp k -> ogood g ->
    step v (strip_ws k) (option_map ws_group g) (map strip_ws out)
    = res_map ws_st (step v k g out).
  Proof.
    intros v k g out Hk Hg. unfold step. rewrite has_content_ws.
    destruct k as [e eks|tl].
    - destruct (has_content (AE e eks)); cbn [negb].
      + cbn [strip_ws]. rewrite elem_key_ws.
        destruct (elem_key v e eks) as [key|x] eqn:Ek; cbn [bind res_map]; [|reflexivity].
        destruct g as [g0|]; cbn [option_map].
        * change (g_key (ws_group g0)) with (g_key g0).
          change (g_merge (ws_group g0)) with (g_merge g0).
          destruct (ekey_eqb (g_key g0) key && g_merge g0)%bool eqn:Ec.
          -- apply andb_true_iff in Ec. destruct Ec as [Ec _].
             apply ekey_eqb_eq in Ec. apply elem_key_name in Ek.
             cbn [ogood] in Hg. destruct Hg as [Hg1 Hg2]. cbn [wfp] in Hk.
             assert (Ht : is_text_like e = is_text_like (g_e g0)).
             { unfold is_text_like. rewrite Hk, Hg2, <- Ek, <- Ec, Hg1. reflexivity. }
             rewrite (join_ws g0 e eks Ht). reflexivity.
          -- rewrite fresh_ws.
             change (flush (Some (ws_group g0)) (map strip_ws out))
               with (flush (option_map ws_group (Some g0)) (map strip_ws out)).
             rewrite flush_ws. reflexivity.
        * rewrite fresh_ws. reflexivity.
      + destruct g as [g0|]; reflexivity.
    - cbn [has_content negb]. destruct g as [g0|]; reflexivity.
  Qed.

  Lemma step_ogood : forall v k g out st, wfp k -> ogood g ->
    step v k g out = Ok st -> ogood (fst st).
  Proof.
    intros v k g out [g1 out1] Hk Hg H. apply step_cases in H. cbn [fst].
    destruct H; subst; cbn [ogood pend_g fresh_g join_g g_key g_e wfp] in *; auto;
      (split; [eapply elem_key_name; eauto|exact Hk]).
  Qed.

  Lemma merge_sibs_go_ws : forall v ks g out, Forall wfp ks -> ogood g ->
    merge_sibs_go v (map strip_ws ks) (option_map ws_group g) (map strip_ws out)
    = res_map (map strip_ws) (merge_sibs_go v ks g out).
  Proof.
    intros v ks. induction ks as [|k r IH]; intros g out HF Hg.
    - cbn [map merge_sibs_go res_map]. rewrite flush_ws, map_rev. reflexivity.
    - inversion HF as [|? ? Hk Hr]; subst. cbn [map]. rewrite !go_step, (step_ws v k g out Hk Hg).
      destruct (step v k g out) as [[g1 out1]|x] eqn:Es; cbn [res_map bind]; [|reflexivity].
      apply IH; [exact Hr|]. exact (step_ogood v k g out (g1, out1) Hk Hg Es).
  Qed.

  Lemma wf_ptag_wfp : forall k, wf_ptag pt k = true -> wfp k.
  Proof.
    intros [e ks|tl] H; [|exact I]. rewrite wf_ptag_AE in H.
    apply andb_true_iff in H. destruct H as [H _]. apply str_eqb_eq in H. exact H.
  Qed.

  Lemma merge_sibs_ws : forall v ks, forallb (wf_ptag pt) ks = true ->
    merge_sibs v (map strip_ws ks) = res_map (map strip_ws) (merge_sibs v ks).
  Proof.
    intros v ks H. unfold merge_sibs.
    apply (merge_sibs_go_ws v ks None []); [|exact I].
    apply forallb_Forall in H. eapply Forall_impl; [|exact H]. apply wf_ptag_wfp.
  Qed.

  Lemma wf_ptag_join : forall g0 e eks, ginv g0 -> g_merge g0 = true ->
    wf_ptag pt (leader g0) = true -> wf_ptag pt (AE e eks) = true ->
    wf_ptag pt (leader (join_g g0 e eks)) = true.
  Proof.
    intros g0 e eks _ _ HL Hk. unfold leader in *. rewrite wf_ptag_AE in *.
    rewrite lead_e_ptag, lead_e_uri, lead_e_local in *. cbn [join_g g_e g_kids].
    apply andb_true_iff in HL. destruct HL as [HL1 HL2].
    apply andb_true_iff in Hk. destruct Hk as [_ Hk2].
    rewrite HL1, forallb_app, HL2, Hk2. reflexivity.
  Qed.

  Lemma merge_sibs_wf_ptag : forall v ks ks',
    forallb (wf_ptag pt) ks = true -> merge_sibs v ks = Ok ks' ->
    forallb (wf_ptag pt) ks' = true.
  Proof.
    intros v ks ks' H E. apply forallb_Forall. apply forallb_Forall in H.
    exact (merge_sibs_pres (fun k => wf_ptag pt k = true) wf_ptag_join v ks ks' H E).
  Qed.

  Lemma merge_fuel_ws : forall v f t, wf_ptag pt t = true ->
    merge_fuel f v (strip_ws t) = res_map strip_ws (merge_fuel f v t).
  Proof.
    intros v f. induction f as [|f IH]; intros t Ht; [reflexivity|].
    destruct t as [e ks|tl]; [|reflexivity].
    rewrite wf_ptag_AE in Ht. apply andb_true_iff in Ht. destruct Ht as [_ Hks].
    cbn [strip_ws merge_fuel]. rewrite (merge_sibs_ws v ks Hks).
    destruct (merge_sibs v ks) as [ks1|x] eqn:E1; cbn [res_map bind]; [|reflexivity].
    pose proof (merge_sibs_wf_ptag v ks ks1 Hks E1) as H1.
    assert (HM : mapM (merge_fuel f v) (map strip_ws ks1)
                 = res_map (map strip_ws) (mapM (merge_fuel f v) ks1)).
    { clear E1. induction ks1 as [|k r IHr]; [reflexivity|].
      cbn [forallb] in H1. apply andb_true_iff in H1. destruct H1 as [Hk Hr].
      cbn [map mapM]. rewrite (IH k Hk), (IHr Hr).
      destruct (merge_fuel f v k) as [k'|x]; cbn [res_map bind]; [|reflexivity].
      destruct (mapM (merge_fuel f v) r); reflexivity. }
    rewrite HM. destruct (mapM (merge_fuel f v) ks1); reflexivity.
  Qed.

  (* ---- 4'. merge_elems and strip_ws, when prefixes are used consistently ---- *)
  Theorem merge_strip_ws_partial_eq : forall v t, wf_ptag pt t = true ->
    merge_elems v (strip_ws t) = res_map strip_ws (merge_elems v t).
  Proof.
    intros v t H. unfold merge_elems. rewrite height_ws. apply merge_fuel_ws. exact H.
  Qed.

  Theorem merge_strip_ws_partial : forall v t t', wf_ptag pt t = true ->
    merge_elems v t = Ok t' -> merge_elems v (strip_ws t) = Ok (strip_ws t').
  Proof. intros v t t' H E. rewrite merge_strip_ws_partial_eq, E by exact H. reflexivity. Qed.

  (* ---- 5'. the whole extraction ---- *)
  Theorem extract_strip_ws_partial : forall v t,
    wf_ptag pt t = true -> math_clean t = true ->
    extract v (strip_ws t) = extract v t.
  Proof.
    intros v t Hp Hc. unfold extract. rewrite (merge_strip_ws_partial_eq v t Hp).
    destruct (merge_elems v t) as [t'|x] eqn:E; cbn [res_map bind]; [|reflexivity].
    apply collect_strip_ws. exact (merge_math_clean v t t' Hc E).
  Qed.
End WS.

(* ================================================================== *)
(* PART 9 — both transformations together; the raw infoset              *)
(* ================================================================== *)
(* strip_ws output is always math_clean *)
Lemma inner_clean_strip_ws : forall t, inner_clean true (strip_ws t) = true.
Proof.
  apply (anode_ind' (fun t => inner_clean true (strip_ws t) = true)).
  - reflexivity.
  - intros e ks HF. cbn [strip_ws]. rewrite inner_clean_AE.
    assert (Hx : text_ok true (ws_einfo e) = true).
    { unfold text_ok. cbn [negb orb]. change (is_text_like (ws_einfo e)) with (is_text_like e).
      rewrite ws_einfo_text. destruct (is_text_like e); reflexivity. }
    rewrite Hx. cbn [tail_ok ws_einfo e_tail negb orb emp ostr andb].
    induction HF as [|k r Hk _ IH]; [reflexivity|].
    cbn [map forallb]. rewrite Hk, IH. reflexivity.
Qed.

Lemma math_clean_strip_ws : forall t, math_clean (strip_ws t) = true.
Proof. intro t. apply inner_imp_math, inner_clean_strip_ws. Qed.

Lemma wf_ptag_strip_ws : forall pt t, wf_ptag pt (strip_ws t) = wf_ptag pt t.
Proof.
  intro pt. apply (anode_ind' (fun t => wf_ptag pt (strip_ws t) = wf_ptag pt t)).
  - reflexivity.
  - intros e ks HF. cbn [strip_ws]. rewrite !wf_ptag_AE. f_equal.
    induction HF as [|k r Hk _ IH]; [reflexivity|].
    cbn [map forallb]. rewrite Hk, IH. reflexivity.
Qed.

(* comments, PIs and whitespace are invisible to the extraction of a part *)
Theorem extract_trivia : forall pt v t,
  wf_ptag pt t = true -> math_clean t = true ->
  fr (extract v (strip_ax (strip_ws t))) = fr (extract v t).
Proof.
  intros pt v t Hp Hc.
  rewrite <- (extract_strip_ws_partial pt v t Hp Hc).
  symmetry. apply extract_strip_ax_eq. apply math_clean_strip_ws.
Qed.

(* the same transformations on the raw infoset *)
Definition is_RE (r : rnode) : bool := match r with RE _ _ _ _ _ _ _ _ => true | RX _ => false end.
Fixpoint rstrip_ax (r : rnode) : rnode :=
  match r with
  | RX tl => RX tl
  | RE p u l m a tx tl ks =>
      RE p u l m a tx tl
         ((fix go (l0 : list rnode) : list rnode :=
             match l0 with
             | [] => []
             | k :: r0 => match k with
                          | RE _ _ _ _ _ _ _ _ => rstrip_ax k :: go r0
                          | RX _ => go r0
                          end
             end) ks)
  end.
Fixpoint rstrip_ws (r : rnode) : rnode :=
  match r with
  | RX _ => RX None
  | RE p u l m a tx tl ks =>
      RE p u l m a (if mem_str (prefixed p l) [tag_TEXT; tag_TEXT_MATH] then tx else None) None
         (map rstrip_ws ks)
  end.

Lemma view_rstrip_ax : forall r, view (rstrip_ax r) = strip_ax (view r).
Proof.
  apply (rnode_ind' (fun r => view (rstrip_ax r) = strip_ax (view r))).
  - reflexivity.
  - intros p u l m a tx tl ks HF. cbn [rstrip_ax view]. rewrite strip_ax_AE. f_equal.
    induction HF as [|k r Hk _ IH]; [reflexivity|].
    destruct k as [p' u' l' m' a' tx' tl' ks'|tl'].
    + cbn [map]. rewrite Hk, IH. reflexivity.
    + cbn [map view filter is_AE]. exact IH.
Qed.

Lemma view_rstrip_ws : forall r, view (rstrip_ws r) = strip_ws (view r).
Proof.
  apply (rnode_ind' (fun r => view (rstrip_ws r) = strip_ws (view r))).
  - reflexivity.
  - intros p u l m a tx tl ks HF. cbn [rstrip_ws view strip_ws]. f_equal.
    rewrite !map_map. apply map_ext_Forall. exact HF.
Qed.

Theorem extract_trivia_raw : forall pt v r,
  wf_ptag pt (view r) = true -> math_clean (view r) = true ->
  fr (extract v (view (rstrip_ax (rstrip_ws r)))) = fr (extract v (view r)).
Proof.
  intros pt v r Hp Hc. rewrite view_rstrip_ax, view_rstrip_ws.
  exact (extract_trivia pt v (view r) Hp Hc).
Qed.

(* ================================================================== *)
(* PART 10 — math_clean is needed: counterexamples                      *)
(* ================================================================== *)
Definition tx_ns : list (option str * str) :=
  [(Some [119], [85]); (Some [109], [77]); (Some [114], [82])].
Definition tx_el (p u l : str) (tx tl : option str) (ks : list rnode) : rnode :=
  RE (Some p) (Some u) l tx_ns [] tx tl ks.
Definition tx_w := tx_el [119] [85].
Definition tx_m := tx_el [109] [77].
Definition s_oMath : str := [111; 77; 97; 116; 104].
Definition tx_sp : option str := Some [10; 32; 32].          (* newline + indentation *)
Definition tx_env : env :=
  {| env_x2h := xml2html_table; env_rels := []; env_dup := false; env_numtbl := [] |}.
(* prefixed tag as a function of the Clark name: m for the math namespace, w otherwise *)
Definition tx_pt : aname -> str :=
  fun n => (if ostr_eqb (fst n) (Some [77]) then [109] else [119]) ++ 58 :: snd n.

(* (i) a comment with tail text inside m:oMath:  <m:oMath><!-- c -->x</m:oMath> *)
Definition cxa_t : anode := view (tx_m s_oMath None None [RX (Some [120])]).
Lemma walk_strip_ax_counterexample :
  exists v t, math_clean_ax t = false /\
    fr (collect_from v [] t) <> fr (collect_from v [] (strip_ax t)).
Proof.
  exists tx_env, cxa_t. split; [vm_compute; reflexivity|].
  intro H. vm_compute in H. discriminate H.
Qed.

(* (ii) tail text of an element inside m:oMath:  <m:oMath><m:r/>x</m:oMath> *)
Definition cxb_t : anode := view (tx_m s_oMath None None [tx_m [114] None (Some [120]) []]).
(* (iii) text of a non-text element inside m:oMath:  <m:oMath><m:r>x</m:r></m:oMath> *)
Definition cxc_t : anode := view (tx_m s_oMath None None [tx_m [114] (Some [120]) None []]).
(* (iv) text of m:oMath itself:  <m:oMath>x</m:oMath> *)
Definition cxd_t : anode := view (tx_m s_oMath (Some [120]) None []).

Lemma walk_strip_ws_counterexample :
  exists v, Forall (fun t => math_clean_ax t = true /\ math_clean t = false /\
                             collect_from v [] (strip_ws t) <> collect_from v [] t)
                   [cxb_t; cxc_t; cxd_t].
Proof.
  exists tx_env.
  repeat constructor; try (vm_compute; reflexivity);
    intro H; vm_compute in H; discriminate H.
Qed.

(* ================================================================== *)
(* PART 11 — Example: a paragraph with a comment between two runs,      *)
(* pretty-printing whitespace everywhere, and an equation               *)
(*                                                                      *)
(*   <w:body>␣<!-- c0 -->␣<w:p>␣<w:r><w:t>a</w:t></w:r>␣<!-- c1 -->␣     *)
(*     <w:r><w:t>b</w:t></w:r>␣<m:oMath><m:r><m:t>x</m:t></m:r></m:oMath> *)
(*   ␣</w:p>␣<?pi?>␣</w:body>                                            *)
(* ================================================================== *)
Definition ex_run (c : N) : rnode :=
  tx_w [114] None tx_sp [tx_w [116] (Some [c]) None []].
Definition ex_math : rnode :=
  tx_m s_oMath None tx_sp [tx_m [114] None None [tx_m [116] (Some [120]) None []]].
Definition ex_p : rnode :=
  tx_w [112] tx_sp tx_sp [ex_run 97; RX tx_sp; ex_run 98; ex_math].
Definition ex_body : rnode :=
  tx_w [98; 111; 100; 121] tx_sp None [RX tx_sp; ex_p; RX tx_sp].

Eval vm_compute in
  (match extract tx_env (view ex_body) with
   | Ok s => res_map (map (render false)) (tree_par_toks (c_tree s))
   | Err x => Err x
   end).

(* the example satisfies every hypothesis of extract_trivia_raw ... *)
Example ex_hyps :
  wf_ptag tx_pt (view ex_body) = true /\ math_clean (view ex_body) = true.
Proof. split; vm_compute; reflexivity. Qed.

(* ... the transformations do change it ... *)
Example ex_changed :
  rstrip_ax ex_body <> ex_body /\ rstrip_ws ex_body <> ex_body.
Proof. split; intro H; vm_compute in H; discriminate H. Qed.

(* ... both sides computed: equal up to p_elem, and the text is "ab<latex>x</latex>" *)
Example ex_both_sides :
  fr (extract tx_env (view (rstrip_ax (rstrip_ws ex_body)))) = fr (extract tx_env (view ex_body))
  /\ (exists s, extract tx_env (view ex_body) = Ok s /\
        res_map (map (render false)) (tree_par_toks (c_tree s))
        = Ok [[97; 98; 60; 108; 97; 116; 101; 120; 62; 120; 60; 47; 108; 97; 116; 101; 120; 62]]).
Proof.
  split; [vm_compute; reflexivity|]. eexists. split; vm_compute; reflexivity.
Qed.

(* ... whitespace alone leaves the state literally unchanged ... *)
Example ex_ws_literal :
  extract tx_env (view (rstrip_ws ex_body)) = extract tx_env (view ex_body).
Proof. vm_compute. reflexivity. Qed.

(* ... but dropping the comment <!-- c0 --> moves the paragraph from index 1 to
   index 0 of w:body, so "up to p_elem" cannot be improved to equality *)
Example ex_p_elem_moves :
  extract tx_env (view (rstrip_ax ex_body)) <> extract tx_env (view ex_body).
Proof. intro H. vm_compute in H. discriminate H. Qed.

(* the theorem instantiated on the example *)
Example ex_by_theorem :
  fr (extract tx_env (view (rstrip_ax (rstrip_ws ex_body)))) = fr (extract tx_env (view ex_body)).
Proof.
  apply (extract_trivia_raw tx_pt); [exact (proj1 ex_hyps)|exact (proj2 ex_hyps)].
Qed.

(* ==== ASSUMPTIONS ==== *)
Print Assumptions strip_ax_AE.
Print Assumptions walk_strip_ax_gen.
Print Assumptions walk_strip_ax_eq.
Print Assumptions walk_strip_ax.
Print Assumptions walk_strip_ax_conv.
Print Assumptions walk_strip_ax_err.
Print Assumptions collect_strip_ax_gen.
Print Assumptions collect_strip_ax_eq.
Print Assumptions collect_strip_ax.
Print Assumptions collect_strip_ax_conv.
Print Assumptions walk_strip_ws.
Print Assumptions collect_strip_ws.
Print Assumptions merge_strip_ax_eq.
Print Assumptions merge_strip_ax.
Print Assumptions merge_fuel_indep.
Print Assumptions merge_math_clean_gen.
Print Assumptions merge_math_clean.
Print Assumptions merge_strip_ws_counterexample.
Print Assumptions extract_strip_ws_counterexample.
Print Assumptions merge_strip_ws_partial_eq.
Print Assumptions merge_strip_ws_partial.
Print Assumptions extract_strip_ax_gen.
Print Assumptions extract_strip_ax_eq.
Print Assumptions extract_strip_ax.
Print Assumptions extract_strip_ax_conv.
Print Assumptions extract_strip_ws_partial.
Print Assumptions math_clean_strip_ws.
Print Assumptions extract_trivia.
Print Assumptions view_rstrip_ax.
Print Assumptions view_rstrip_ws.
Print Assumptions extract_trivia_raw.
Print Assumptions walk_strip_ax_counterexample.
Print Assumptions walk_strip_ws_counterexample.
Print Assumptions ex_hyps.
Print Assumptions ex_changed.
Print Assumptions ex_both_sides.
Print Assumptions ex_ws_literal.
Print Assumptions ex_p_elem_moves.
Print Assumptions ex_by_theorem.
