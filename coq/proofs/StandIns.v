(* StandIns.v — C02 / C11: the documented stand-ins, exactly.

   For every open handler of TagRunner that FrameFacts / MarkerFacts do not
   already describe, the exact contribution [FrameFacts.emit] of the element
   to the open paragraph and how that contribution renders with html off and
   on ([Collector.render]).  Built on ReplaceFacts.open_emit / emit_AE.

   0. Tools: emit_open(_err), attr_*_err (the only attribute error is KeyError).
   1. Pictures (a:blip r:embed, v:imagedata r:id): emit_image(_leaf),
      emit_image_unresolved, emit_image_total (every case in one equation),
      emit_image_err / emit_image_only_kids_fail (no error leaves the handler),
      image_marker_render; emit_imagedata* likewise.
   2. Alt text (wp:docPr descr): emit_image_alt(_leaf,_none), alt_marker_render
      (_plain,_html); the ORDER clause drawing_alt_then_image for drawing >
      inline > [docPr; graphic > graphicData > pic > blipFill > blip], every
      level among arbitrary [inert] siblings (foreign_tag, inert, emit_foreign,
      emit_inert, yields).
   3. Equations: emit_math (no hypothesis on the children: they are not
      walked), math_render(_plain,_html).
   4. Symbols: emit_sym(_leaf,_none,_err), sym_render, sym_is_add_code,
      sym_into_open_run (INTO the open run, not a run of their own).
   5. Forms: emit_checkbox / emit_ddlist (_err,_inert); checkbox_values
      (= checkbox_spec, box_of, checkbox_table_lookup) with the cases
      checkbox_checked_val / _noval / checkbox_default_val / checkbox_failed;
      ddlist_value (= ddlist_spec) with ddlist_selected / _no_result /
      _out_of_range / _bad_result and py_nth_nonneg / _neg / _out.
   6. emit_text_math, emit_text_kids.
   7. emit_handled_tags: the complete case analysis (handled_tags, handled_dec).
   8. Examples (one paragraph with all of them, html off and on). *)
From Coq Require Import List NArith ZArith Bool Arith Lia.
From Coq Require String.
From D2P Require Import Str Err Xml TableTypes Tables Fmt NumFmt Bullets Merge Collector Walk.
From D2P Require Import BulletsFacts TokFacts ShapeFacts FrameFacts MarkerFacts ReplaceFacts.
Import ListNotations.
Open Scope N_scope.

(* ================================================================== *)
(* 0. Tools                                                             *)
(* ================================================================== *)
(* an element with a handled, non-structural tag is inline when its children are *)
Ltac plain_by Ht Hks :=
  cbn [plain_inline]; rewrite Ht; tag_eval; cbn [negb andb]; exact Hks.

(* the contribution of an inline element that is not a hyperlink: what the
   open handler appends, then (when it says "recurse") the children *)
Lemma emit_open v path e ks em b :
  plain_inline (AE e ks) = true -> str_eqb (e_ptag e) tag_HYPERLINK = false ->
  open_emit v e ks [] (itertext (AE e ks)) = Ok (em, b) ->
  emit v path (AE e ks)
  = (k <- (if b then emit_kids v path ks 0%nat else Ok []) ;; Ok (em ++ k)).
Proof.
  intros Hpl Hh Ho. rewrite (emit_AE v path e ks Hpl). unfold emit_AE_rhs.
  rewrite Hh. cbn [bind]. rewrite Ho. cbn [bind fst snd]. reflexivity.
Qed.

Lemma emit_open_err v path e ks x :
  plain_inline (AE e ks) = true -> str_eqb (e_ptag e) tag_HYPERLINK = false ->
  open_emit v e ks [] (itertext (AE e ks)) = Err x ->
  emit v path (AE e ks) = Err x.
Proof.
  intros Hpl Hh Ho. rewrite (emit_AE v path e ks Hpl). unfold emit_AE_rhs.
  rewrite Hh. cbn [bind]. rewrite Ho. reflexivity.
Qed.

Lemma bind_nil_r {A} (r : res (list A)) (em : list A) :
  r = Ok [] -> (k <- r ;; Ok (em ++ k)) = Ok em.
Proof. intros ->. cbn [bind]. rewrite app_nil_r. reflexivity. Qed.

(* the only error of an attribute lookup is the KeyError of an unbound prefix
   or a missing attribute *)
Lemma attr_w_err e n x : attr_w e n = Err x -> x = KeyError.
Proof. unfold attr_w. destruct (e_wuri e); [discriminate|]. intro H. injection H as <-. reflexivity. Qed.
Lemma attr_r_err e n x : attr_r e n = Err x -> x = KeyError.
Proof. unfold attr_r. destruct (e_ruri e); [discriminate|]. intro H. injection H as <-. reflexivity. Qed.
Lemma attr_w_req_err e n x : attr_w_req e n = Err x -> x = KeyError.
Proof.
  unfold attr_w_req. destruct (attr_w e n) as [o|y] eqn:E; cbn [bind].
  - destruct o; cbn [of_opt]; [discriminate|]. intro H. injection H as <-. reflexivity.
  - intro H. injection H as <-. exact (attr_w_err _ _ _ E).
Qed.
Lemma attr_r_req_err e n x : attr_r_req e n = Err x -> x = KeyError.
Proof.
  unfold attr_r_req. destruct (attr_r e n) as [o|y] eqn:E; cbn [bind].
  - destruct o; cbn [of_opt]; [discriminate|]. intro H. injection H as <-. reflexivity.
  - intro H. injection H as <-. exact (attr_r_err _ _ _ E).
Qed.

(* attr_r_req, spelled out *)
Lemma attr_r_req_cases e n :
  attr_r_req e n
  = match e_ruri e with
    | None => Err KeyError
    | Some u => match alookup (Some u, n) (e_attrs e) with
                | Some x => Ok x
                | None => Err KeyError
                end
    end.
Proof. unfold attr_r_req, attr_r. destruct (e_ruri e); reflexivity. Qed.

(* ================================================================== *)
(* 1. Pictures: a:blip (r:embed) and v:imagedata (r:id)                 *)
(* ================================================================== *)
(* ----TARGET---- *)
Definition image_marker (target : str) : list tok := raw (s_dashes ++ target ++ s_dashes).

Lemma image_marker_render : forall html target,
  render html (image_marker target) = [45;45;45;45] ++ target ++ [45;45;45;45].
Proof. intros html target. unfold image_marker. rewrite render_raw. reflexivity. Qed.

(* what a picture reference contributes, for every outcome of the lookup of
   its relationship id: never an error *)
Definition image_toks (v : env) (rid : res str) : list tok :=
  match rid with
  | Ok id => match dict_get id (env_rels v) with
             | Some target => image_marker target
             | None => []
             end
  | Err _ => []
  end.

Lemma image_ref_emit_total v e n :
  image_ref_emit v (attr_r_req e n) = Ok (image_toks v (attr_r_req e n), true).
Proof.
  unfold image_ref_emit, image_toks. destruct (attr_r_req e n) as [id|x] eqn:E.
  - destruct (dict_get id (env_rels v)); reflexivity.
  - rewrite (attr_r_req_err _ _ _ E). reflexivity.
Qed.

Lemma open_emit_image v e ks body mt : e_ptag e = tag_IMAGE ->
  open_emit v e ks body mt = image_ref_emit v (attr_r_req e s_embed).
Proof. intro Ht. unfold open_emit. cbv zeta. rewrite Ht. tag_eval. reflexivity. Qed.

Lemma open_emit_imagedata v e ks body mt : e_ptag e = tag_IMAGEDATA ->
  open_emit v e ks body mt = image_ref_emit v (attr_r_req e s_id).
Proof. intro Ht. unfold open_emit. cbv zeta. rewrite Ht. tag_eval. reflexivity. Qed.

(* every a:blip, whatever its attributes: the marker of the resolved target or
   nothing, then the children; the handler itself never fails *)
Theorem emit_image_total : forall v path e ks, e_ptag e = tag_IMAGE ->
  forallb plain_inline ks = true ->
  emit v path (AE e ks)
  = (k <- emit_kids v path ks 0%nat ;; Ok (image_toks v (attr_r_req e s_embed) ++ k)).
Proof.
  intros v path e ks Ht Hks.
  apply (emit_open v path e ks _ true).
  - plain_by Ht Hks.
  - rewrite Ht. reflexivity.
  - rewrite (open_emit_image _ _ _ _ _ Ht). apply image_ref_emit_total.
Qed.

Theorem emit_image : forall v path e ks rid target, e_ptag e = tag_IMAGE ->
  forallb plain_inline ks = true ->
  attr_r_req e s_embed = Ok rid -> dict_get rid (env_rels v) = Some target ->
  emit v path (AE e ks)
  = (k <- emit_kids v path ks 0%nat ;; Ok (raw (s_dashes ++ target ++ s_dashes) ++ k)).
Proof.
  intros v path e ks rid target Ht Hks Hrid Hrel.
  rewrite (emit_image_total v path e ks Ht Hks). unfold image_toks. rewrite Hrid, Hrel. reflexivity.
Qed.

(* the usual childless a:blip *)
Corollary emit_image_leaf : forall v path e rid target, e_ptag e = tag_IMAGE ->
  attr_r_req e s_embed = Ok rid -> dict_get rid (env_rels v) = Some target ->
  emit v path (AE e []) = Ok (raw (s_dashes ++ target ++ s_dashes)).
Proof.
  intros v path e rid target Ht Hrid Hrel.
  rewrite (emit_image v path e [] rid target Ht eq_refl Hrid Hrel).
  apply bind_nil_r. reflexivity.
Qed.

(* no r:embed (or r unbound), or an id without relationship: skipped, no error *)
Theorem emit_image_unresolved : forall v path e ks, e_ptag e = tag_IMAGE ->
  forallb plain_inline ks = true ->
  (attr_r_req e s_embed = Err KeyError
   \/ exists rid, attr_r_req e s_embed = Ok rid /\ dict_get rid (env_rels v) = None) ->
  emit v path (AE e ks) = emit_kids v path ks 0%nat.
Proof.
  intros v path e ks Ht Hks H.
  rewrite (emit_image_total v path e ks Ht Hks). unfold image_toks.
  destruct H as [H|(rid & H & Hn)]; rewrite H; [|rewrite Hn]; cbn [app];
    destruct (emit_kids v path ks 0%nat); reflexivity.
Qed.

(* the model's image_ref lets every error other than KeyError through ... *)
Theorem emit_image_err : forall v path e ks x, e_ptag e = tag_IMAGE ->
  forallb plain_inline ks = true ->
  attr_r_req e s_embed = Err x -> x <> KeyError ->
  emit v path (AE e ks) = Err x.
Proof.
  intros v path e ks x Ht Hks H Hx. exfalso. apply Hx. exact (attr_r_req_err _ _ _ H).
Qed.
(* ... but there is none (attr_r_req_err): the only errors of a picture are
   those of its children *)
Theorem emit_image_only_kids_fail : forall v path e ks x, e_ptag e = tag_IMAGE ->
  forallb plain_inline ks = true ->
  emit v path (AE e ks) = Err x -> emit_kids v path ks 0%nat = Err x.
Proof.
  intros v path e ks x Ht Hks H. rewrite (emit_image_total v path e ks Ht Hks) in H.
  destruct (emit_kids v path ks 0%nat); [discriminate H|exact H].
Qed.

(* VML: v:imagedata r:id *)
Theorem emit_imagedata_total : forall v path e ks, e_ptag e = tag_IMAGEDATA ->
  forallb plain_inline ks = true ->
  emit v path (AE e ks)
  = (k <- emit_kids v path ks 0%nat ;; Ok (image_toks v (attr_r_req e s_id) ++ k)).
Proof.
  intros v path e ks Ht Hks.
  apply (emit_open v path e ks _ true).
  - plain_by Ht Hks.
  - rewrite Ht. reflexivity.
  - rewrite (open_emit_imagedata _ _ _ _ _ Ht). apply image_ref_emit_total.
Qed.

Theorem emit_imagedata : forall v path e ks rid target, e_ptag e = tag_IMAGEDATA ->
  forallb plain_inline ks = true ->
  attr_r_req e s_id = Ok rid -> dict_get rid (env_rels v) = Some target ->
  emit v path (AE e ks)
  = (k <- emit_kids v path ks 0%nat ;; Ok (raw (s_dashes ++ target ++ s_dashes) ++ k)).
Proof.
  intros v path e ks rid target Ht Hks Hrid Hrel.
  rewrite (emit_imagedata_total v path e ks Ht Hks). unfold image_toks. rewrite Hrid, Hrel. reflexivity.
Qed.

Corollary emit_imagedata_leaf : forall v path e rid target, e_ptag e = tag_IMAGEDATA ->
  attr_r_req e s_id = Ok rid -> dict_get rid (env_rels v) = Some target ->
  emit v path (AE e []) = Ok (raw (s_dashes ++ target ++ s_dashes)).
Proof.
  intros v path e rid target Ht Hrid Hrel.
  rewrite (emit_imagedata v path e [] rid target Ht eq_refl Hrid Hrel).
  apply bind_nil_r. reflexivity.
Qed.

Theorem emit_imagedata_unresolved : forall v path e ks, e_ptag e = tag_IMAGEDATA ->
  forallb plain_inline ks = true ->
  (attr_r_req e s_id = Err KeyError
   \/ exists rid, attr_r_req e s_id = Ok rid /\ dict_get rid (env_rels v) = None) ->
  emit v path (AE e ks) = emit_kids v path ks 0%nat.
Proof.
  intros v path e ks Ht Hks H.
  rewrite (emit_imagedata_total v path e ks Ht Hks). unfold image_toks.
  destruct H as [H|(rid & H & Hn)]; rewrite H; [|rewrite Hn]; cbn [app];
    destruct (emit_kids v path ks 0%nat); reflexivity.
Qed.

Theorem emit_imagedata_only_kids_fail : forall v path e ks x, e_ptag e = tag_IMAGEDATA ->
  forallb plain_inline ks = true ->
  emit v path (AE e ks) = Err x -> emit_kids v path ks 0%nat = Err x.
Proof.
  intros v path e ks x Ht Hks H. rewrite (emit_imagedata_total v path e ks Ht Hks) in H.
  destruct (emit_kids v path ks 0%nat); [discriminate H|exact H].
Qed.

(* ================================================================== *)
(* 2. Alt text: wp:docPr descr                                          *)
(* ================================================================== *)
(* ----Image alt text---->DESCR< *)
Definition alt_marker (d : str) : list tok := raw s_alt_prefix ++ map TTxt d ++ [TRaw 60].

Lemma open_emit_image_alt v e ks body mt : e_ptag e = tag_IMAGE_ALT ->
  open_emit v e ks body mt
  = match attr_plain e s_descr with
    | None => Ok ([], true)
    | Some d => Ok (raw s_alt_prefix ++ map TTxt d ++ [TRaw 60], true)
    end.
Proof. intro Ht. unfold open_emit. cbv zeta. rewrite Ht. tag_eval. reflexivity. Qed.

Theorem emit_image_alt : forall v path e ks d, e_ptag e = tag_IMAGE_ALT ->
  forallb plain_inline ks = true -> attr_plain e s_descr = Some d ->
  emit v path (AE e ks)
  = (k <- emit_kids v path ks 0%nat ;;
     Ok ((raw s_alt_prefix ++ map TTxt d ++ [TRaw 60]) ++ k)).
Proof.
  intros v path e ks d Ht Hks Hd.
  apply (emit_open v path e ks _ true).
  - plain_by Ht Hks.
  - rewrite Ht. reflexivity.
  - rewrite (open_emit_image_alt _ _ _ _ _ Ht), Hd. reflexivity.
Qed.

Corollary emit_image_alt_leaf : forall v path e d, e_ptag e = tag_IMAGE_ALT ->
  attr_plain e s_descr = Some d ->
  emit v path (AE e []) = Ok (raw s_alt_prefix ++ map TTxt d ++ [TRaw 60]).
Proof.
  intros v path e d Ht Hd. rewrite (emit_image_alt v path e [] d Ht eq_refl Hd).
  apply bind_nil_r. reflexivity.
Qed.

(* no description: nothing *)
Theorem emit_image_alt_none : forall v path e ks, e_ptag e = tag_IMAGE_ALT ->
  forallb plain_inline ks = true -> attr_plain e s_descr = None ->
  emit v path (AE e ks) = emit_kids v path ks 0%nat.
Proof.
  intros v path e ks Ht Hks Hd.
  rewrite (emit_open v path e ks [] true).
  - cbn [app]. destruct (emit_kids v path ks 0%nat); reflexivity.
  - plain_by Ht Hks.
  - rewrite Ht. reflexivity.
  - rewrite (open_emit_image_alt _ _ _ _ _ Ht), Hd. reflexivity.
Qed.

(* html off: the description verbatim; html on: escaped *)
Lemma render_cons_raw html c ts : render html (TRaw c :: ts) = c :: render html ts.
Proof. reflexivity. Qed.

Theorem alt_marker_render : forall html d,
  render html (raw s_alt_prefix ++ map TTxt d ++ [TRaw 60])
  = [45;45;45;45;73;109;97;103;101;32;97;108;116;32;116;101;120;116;45;45;45;45;62]
    ++ render html (map TTxt d) ++ [60].
Proof.
  intros html d. rewrite !render_app, render_raw. reflexivity.
Qed.

Theorem alt_marker_render_plain : forall d,
  render false (raw s_alt_prefix ++ map TTxt d ++ [TRaw 60])
  = [45;45;45;45;73;109;97;103;101;32;97;108;116;32;116;101;120;116;45;45;45;45;62] ++ d ++ [60].
Proof. intro d. rewrite alt_marker_render, render_plain_txt. reflexivity. Qed.

Theorem alt_marker_render_html : forall d,
  render true (raw s_alt_prefix ++ map TTxt d ++ [TRaw 60])
  = [45;45;45;45;73;109;97;103;101;32;97;108;116;32;116;101;120;116;45;45;45;45;62]
    ++ replace [62] [38;103;116;59] (replace [60] [38;108;116;59] (replace [38] [38;97;109;112;59] d))
    ++ [60].
Proof. intro d. rewrite alt_marker_render, escape_is_python_replace. reflexivity. Qed.

(* ---------- the ORDER clause of C11 ---------- *)
(* a tag without any handler, and subtrees made of such elements only (they
   contribute nothing): wp:extent, wp:cNvGraphicFramePr, pic:nvPicPr, a:stretch ... *)
Definition foreign_tag (tg : str) : bool := negb (mem_str tg (map snd tags_table)).

Fixpoint inert (t : anode) : bool :=
  match t with
  | AX _ => true
  | AE e ks => foreign_tag (e_ptag e) && forallb inert ks
  end.

Lemma foreign_tag_spec tg : foreign_tag tg = true ->
  forall m, In m tags_table -> str_eqb tg (snd m) = false.
Proof.
  intros H m Hin. destruct (str_eqb tg (snd m)) eqn:E; [|reflexivity].
  apply BulletsFacts.str_eqb_eq in E. unfold foreign_tag in H. apply negb_true_iff in H.
  assert (M : mem_str tg (map snd tags_table) = true).
  { apply MergeFacts.mem_str_In. rewrite E. apply in_map, Hin. }
  rewrite M in H. discriminate H.
Qed.

Lemma foreign_not tg x : foreign_tag tg = true ->
  mem_str x (map snd tags_table) = true -> str_eqb tg x = false.
Proof. intros H M. exact (FrameFacts.unknown_tag tg x (foreign_tag_spec tg H) M). Qed.

Lemma foreign_plain e ks : foreign_tag (e_ptag e) = true ->
  forallb plain_inline ks = true -> plain_inline (AE e ks) = true.
Proof.
  intros H Hks. cbn [plain_inline].
  rewrite (foreign_not _ tag_PARAGRAPH H eq_refl), (foreign_not _ tag_TABLE_CELL H eq_refl),
    (foreign_not _ tag_FOOTNOTE H eq_refl), (foreign_not _ tag_ENDNOTE H eq_refl),
    (foreign_not _ tag_COMMENT_RANGE_START H eq_refl), (foreign_not _ tag_COMMENT_RANGE_END H eq_refl).
  exact Hks.
Qed.

(* an element without handler contributes what its children do *)
Lemma emit_foreign v path e ks : foreign_tag (e_ptag e) = true ->
  forallb plain_inline ks = true ->
  emit v path (AE e ks) = emit_kids v path ks 0%nat.
Proof.
  intros H Hks.
  exact (emit_unknown v path e ks (foreign_plain e ks H Hks) (foreign_tag_spec _ H)).
Qed.

Lemma inert_plain : forall t, inert t = true -> plain_inline t = true.
Proof.
  apply (ShapeFacts.anode_ind' (fun t => inert t = true -> plain_inline t = true)).
  - reflexivity.
  - intros e ks IH H. cbn [inert] in H. apply andb_true_iff in H. destruct H as [Hf Hk].
    apply foreign_plain; [exact Hf|].
    induction IH as [|k r Hk' Hr IHr]; [reflexivity|].
    cbn [forallb] in Hk |- *. apply andb_true_iff in Hk. destruct Hk as [K1 K2].
    rewrite (Hk' K1), (IHr K2). reflexivity.
Qed.

Lemma inert_list_plain l : forallb inert l = true -> forallb plain_inline l = true.
Proof.
  induction l as [|k r IH]; [reflexivity|]. cbn [forallb]. intro H.
  apply andb_true_iff in H. destruct H as [K1 K2]. rewrite (inert_plain _ K1), (IH K2). reflexivity.
Qed.

Lemma emit_inert v : forall t, inert t = true -> forall path, emit v path t = Ok [].
Proof.
  apply (ShapeFacts.anode_ind' (fun t => inert t = true -> forall path, emit v path t = Ok [])).
  - reflexivity.
  - intros e ks IH H path. cbn [inert] in H. apply andb_true_iff in H. destruct H as [Hf Hk].
    rewrite (emit_foreign v path e ks Hf (inert_list_plain _ Hk)).
    generalize 0%nat.
    induction IH as [|k r Hk' Hr IHr]; intro i; [reflexivity|].
    cbn [forallb] in Hk. apply andb_true_iff in Hk. destruct Hk as [K1 K2].
    cbn [emit_kids]. rewrite (Hk' K1), (IHr K2). reflexivity.
Qed.

(* [yields v t ts]: wherever it stands, the inline subtree t contributes ts *)
Definition yields (v : env) (t : anode) (ts : list tok) : Prop :=
  plain_inline t = true /\ forall path, emit v path t = Ok ts.
Definition kids_yield (v : env) (l : list anode) (ts : list tok) : Prop :=
  forallb plain_inline l = true /\ forall path i, emit_kids v path l i = Ok ts.

Lemma kids_yield_inert v l : forallb inert l = true -> kids_yield v l [].
Proof.
  intro H. split; [exact (inert_list_plain _ H)|]. intro path.
  induction l as [|k r IH]; intro i; [reflexivity|].
  cbn [forallb] in H. apply andb_true_iff in H. destruct H as [K1 K2].
  cbn [emit_kids]. rewrite (emit_inert v k K1), (IH K2). reflexivity.
Qed.

Lemma kids_yield_cons v k r a b :
  yields v k a -> kids_yield v r b -> kids_yield v (k :: r) (a ++ b).
Proof.
  intros [P1 E1] [P2 E2]. split; [cbn [forallb]; rewrite P1, P2; reflexivity|].
  intros path i. cbn [emit_kids]. rewrite E1, E2. reflexivity.
Qed.

Lemma kids_yield_skip v l1 r ts :
  forallb inert l1 = true -> kids_yield v r ts -> kids_yield v (l1 ++ r) ts.
Proof.
  intros H [P2 E2]. split.
  - rewrite forallb_app, (inert_list_plain _ H), P2. reflexivity.
  - intro path. induction l1 as [|k l1 IH]; intro i; [apply E2|].
    cbn [forallb] in H. apply andb_true_iff in H. destruct H as [K1 K2].
    cbn [app emit_kids]. rewrite (emit_inert v k K1), (IH K2). reflexivity.
Qed.

Lemma yields_foreign v e ks ts :
  foreign_tag (e_ptag e) = true -> kids_yield v ks ts -> yields v (AE e ks) ts.
Proof.
  intros H [P E]. split; [exact (foreign_plain e ks H P)|].
  intro path. rewrite (emit_foreign v path e ks H P). apply E.
Qed.

(* a wrapper with one, resp. two, significant children among inert siblings *)
Lemma yields_wrap1 v e l1 k l2 ts :
  foreign_tag (e_ptag e) = true -> forallb inert l1 = true -> forallb inert l2 = true ->
  yields v k ts -> yields v (AE e (l1 ++ k :: l2)) ts.
Proof.
  intros H H1 H2 Hk. apply yields_foreign; [exact H|]. apply kids_yield_skip; [exact H1|].
  rewrite <- (app_nil_r ts). apply kids_yield_cons; [exact Hk|apply kids_yield_inert, H2].
Qed.

Lemma yields_wrap2 v e l1 k1 l2 k2 l3 ts1 ts2 :
  foreign_tag (e_ptag e) = true ->
  forallb inert l1 = true -> forallb inert l2 = true -> forallb inert l3 = true ->
  yields v k1 ts1 -> yields v k2 ts2 ->
  yields v (AE e (l1 ++ k1 :: l2 ++ k2 :: l3)) (ts1 ++ ts2).
Proof.
  intros H H1 H2 H3 Hk1 Hk2. apply yields_foreign; [exact H|]. apply kids_yield_skip; [exact H1|].
  apply kids_yield_cons; [exact Hk1|]. apply kids_yield_skip; [exact H2|].
  rewrite <- (app_nil_r ts2). apply kids_yield_cons; [exact Hk2|apply kids_yield_inert, H3].
Qed.

Lemma yields_image_alt v e ks d : e_ptag e = tag_IMAGE_ALT -> attr_plain e s_descr = Some d ->
  forallb inert ks = true -> yields v (AE e ks) (raw s_alt_prefix ++ map TTxt d ++ [TRaw 60]).
Proof.
  intros Ht Hd Hk. pose proof (inert_list_plain _ Hk) as Hp. split; [plain_by Ht Hp|].
  intro path. rewrite (emit_image_alt v path e ks d Ht Hp Hd).
  apply bind_nil_r. apply (kids_yield_inert v ks Hk).
Qed.

Lemma yields_image v e ks rid target : e_ptag e = tag_IMAGE ->
  attr_r_req e s_embed = Ok rid -> dict_get rid (env_rels v) = Some target ->
  forallb inert ks = true -> yields v (AE e ks) (raw (s_dashes ++ target ++ s_dashes)).
Proof.
  intros Ht Hrid Hrel Hk. pose proof (inert_list_plain _ Hk) as Hp. split; [plain_by Ht Hp|].
  intro path. rewrite (emit_image v path e ks rid target Ht Hp Hrid Hrel).
  apply bind_nil_r. apply (kids_yield_inert v ks Hk).
Qed.

(* w:drawing > wp:inline > [wp:docPr ; a:graphic > a:graphicData > pic:pic >
   pic:blipFill > a:blip], every element among arbitrary inert siblings (and
   with inert children of docPr and blip): the alt marker FIRST, then the
   picture marker *)
Theorem drawing_alt_then_image : forall v path
    drawing inline docPr graphic graphicData pic blipFill blip
    d0 d1 i0 i1 i2 g0 g1 gd0 gd1 p0 p1 bf0 bf1 dk bk d rid target,
  foreign_tag (e_ptag drawing) = true -> foreign_tag (e_ptag inline) = true ->
  foreign_tag (e_ptag graphic) = true -> foreign_tag (e_ptag graphicData) = true ->
  foreign_tag (e_ptag pic) = true -> foreign_tag (e_ptag blipFill) = true ->
  e_ptag docPr = tag_IMAGE_ALT -> attr_plain docPr s_descr = Some d ->
  e_ptag blip = tag_IMAGE -> attr_r_req blip s_embed = Ok rid ->
  dict_get rid (env_rels v) = Some target ->
  forallb (forallb inert) [d0; d1; i0; i1; i2; g0; g1; gd0; gd1; p0; p1; bf0; bf1; dk; bk] = true ->
  emit v path
    (AE drawing
       (d0 ++ AE inline
                (i0 ++ AE docPr dk
                 :: i1 ++ AE graphic
                            (g0 ++ AE graphicData
                                     (gd0 ++ AE pic
                                               (p0 ++ AE blipFill (bf0 ++ AE blip bk :: bf1) :: p1)
                                      :: gd1)
                             :: g1)
                 :: i2)
        :: d1))
  = Ok ((raw s_alt_prefix ++ map TTxt d ++ [TRaw 60]) ++ raw (s_dashes ++ target ++ s_dashes)).
Proof.
  intros v path drawing inline docPr graphic graphicData pic blipFill blip
    d0 d1 i0 i1 i2 g0 g1 gd0 gd1 p0 p1 bf0 bf1 dk bk d rid target
    F1 F2 F3 F4 F5 F6 Ta Hd Tb Hrid Hrel HI.
  cbn [forallb] in HI.
  repeat (apply andb_true_iff in HI; let H := fresh "I" in destruct HI as [H HI]).
  refine (proj2 (_ : yields v _ _) path).
  apply yields_wrap1; try assumption.
  apply yields_wrap2; try assumption.
  - apply yields_image_alt; assumption.
  - repeat (apply yields_wrap1; try assumption).
    apply (yields_image v blip bk rid target); assumption.
Qed.

(* ================================================================== *)
(* 3. Equations: m:oMath                                                *)
(* ================================================================== *)
Lemma close_tag_none v e ks s :
  str_eqb (e_ptag e) tag_PARAGRAPH = false -> str_eqb (e_ptag e) tag_RUN = false ->
  str_eqb (e_ptag e) tag_TABLE_CELL = false -> close_tag v e ks s = Ok s.
Proof. intros H1 H2 H3. unfold close_tag. cbv zeta. rewrite H1, H2, H3. reflexivity. Qed.

(* <latex>TEXT</latex> where TEXT is "".join(itertext()); the children are NOT
   walked, whatever they are (no hypothesis on ks) *)
Theorem emit_math : forall v path e ks, e_ptag e = tag_MATH ->
  emit v path (AE e ks)
  = Ok (TOpen s_latex :: map TTxt (itertext (AE e ks)) ++ [TClose s_latex]).
Proof.
  intros v path e ks Ht. apply (emit_via_insert v path e ks [] _ false).
  - rewrite Ht. reflexivity.
  - intro s. unfold open_tag. cbv zeta. rewrite Ht. tag_eval. reflexivity.
  - discriminate.
  - intro s. apply close_tag_none; rewrite Ht; reflexivity.
Qed.

Theorem math_render : forall html t,
  render html (TOpen s_latex :: map TTxt t ++ [TClose s_latex])
  = [60;108;97;116;101;120;62] ++ render html (map TTxt t) ++ [60;47;108;97;116;101;120;62].
Proof.
  intros html t.
  change (TOpen s_latex :: map TTxt t ++ [TClose s_latex])
    with ([TOpen s_latex] ++ map TTxt t ++ [TClose s_latex]).
  rewrite !render_app. reflexivity.
Qed.

Theorem math_render_plain : forall t,
  render false (TOpen s_latex :: map TTxt t ++ [TClose s_latex])
  = [60;108;97;116;101;120;62] ++ t ++ [60;47;108;97;116;101;120;62].
Proof. intro t. rewrite math_render, render_plain_txt. reflexivity. Qed.

Theorem math_render_html : forall t,
  render true (TOpen s_latex :: map TTxt t ++ [TClose s_latex])
  = [60;108;97;116;101;120;62]
    ++ replace [62] [38;103;116;59] (replace [60] [38;108;116;59] (replace [38] [38;97;109;112;59] t))
    ++ [60;47;108;97;116;101;120;62].
Proof. intro t. rewrite math_render, escape_is_python_replace. reflexivity. Qed.

(* the text of the equation: the element's own text, then text and tail of
   everything below it in document order (its own tail excluded) *)
Lemma itertext_AE e ks :
  itertext (AE e ks) = ostr (e_text e) ++ concat (map itertext_inner ks).
Proof. reflexivity. Qed.

(* ================================================================== *)
(* 4. Symbols: w:sym                                                    *)
(* ================================================================== *)
(* <span style=font-family:FONT>&#x0TL;</span> *)
Definition sym_toks (font : option str) (tl : str) : list tok :=
  TOpen (s_span_font ++ ostr_or_None font) :: raw ([38; 35; 120; 48] ++ tl ++ [59]) ++ [TClose s_span].

Lemma open_emit_sym v e ks body mt : e_ptag e = tag_SYM ->
  open_emit v e ks body mt
  = (font <- attr_w e s_font ;; chr <- attr_w e s_char ;;
     match ostr chr with
     | [] => Ok ([], true)
     | _ :: tl => Ok (sym_toks font tl, true)
     end).
Proof. intro Ht. unfold open_emit. cbv zeta. rewrite Ht. tag_eval. reflexivity. Qed.

(* w:char = c :: tl: the first character is dropped (char[1:]); FONT is the
   w:font value or the text None *)
Theorem emit_sym : forall v path e ks font c tl, e_ptag e = tag_SYM ->
  forallb plain_inline ks = true ->
  attr_w e s_font = Ok font -> attr_w e s_char = Ok (Some (c :: tl)) ->
  emit v path (AE e ks)
  = (k <- emit_kids v path ks 0%nat ;;
     Ok ((TOpen (s_span_font ++ ostr_or_None font)
          :: raw ([38; 35; 120; 48] ++ tl ++ [59]) ++ [TClose s_span]) ++ k)).
Proof.
  intros v path e ks font c tl Ht Hks Hf Hc.
  apply (emit_open v path e ks _ true).
  - plain_by Ht Hks.
  - rewrite Ht. reflexivity.
  - rewrite (open_emit_sym _ _ _ _ _ Ht), Hf, Hc. reflexivity.
Qed.

Corollary emit_sym_leaf : forall v path e font c tl, e_ptag e = tag_SYM ->
  attr_w e s_font = Ok font -> attr_w e s_char = Ok (Some (c :: tl)) ->
  emit v path (AE e [])
  = Ok (TOpen (s_span_font ++ ostr_or_None font)
        :: raw ([38; 35; 120; 48] ++ tl ++ [59]) ++ [TClose s_span]).
Proof.
  intros v path e font c tl Ht Hf Hc. rewrite (emit_sym v path e [] font c tl Ht eq_refl Hf Hc).
  apply bind_nil_r. reflexivity.
Qed.

(* no w:char, or an empty one: nothing *)
Theorem emit_sym_none : forall v path e ks font, e_ptag e = tag_SYM ->
  forallb plain_inline ks = true ->
  attr_w e s_font = Ok font -> (attr_w e s_char = Ok None \/ attr_w e s_char = Ok (Some [])) ->
  emit v path (AE e ks) = emit_kids v path ks 0%nat.
Proof.
  intros v path e ks font Ht Hks Hf Hc.
  rewrite (emit_open v path e ks [] true).
  - cbn [app]. destruct (emit_kids v path ks 0%nat); reflexivity.
  - plain_by Ht Hks.
  - rewrite Ht. reflexivity.
  - rewrite (open_emit_sym _ _ _ _ _ Ht), Hf. destruct Hc as [Hc|Hc]; rewrite Hc; reflexivity.
Qed.

(* the prefix w unbound at the element: qn raises KeyError *)
Theorem emit_sym_err : forall v path e ks, e_ptag e = tag_SYM ->
  forallb plain_inline ks = true -> e_wuri e = None ->
  emit v path (AE e ks) = Err KeyError.
Proof.
  intros v path e ks Ht Hks Hw. apply emit_open_err.
  - plain_by Ht Hks.
  - rewrite Ht. reflexivity.
  - rewrite (open_emit_sym _ _ _ _ _ Ht). unfold attr_w. rewrite Hw. reflexivity.
Qed.

(* and with w bound the handler cannot fail *)
Lemma attr_w_bound e n u : e_wuri e = Some u -> attr_w e n = Ok (alookup (Some u, n) (e_attrs e)).
Proof. intro H. unfold attr_w. rewrite H. reflexivity. Qed.

(* the same in both modes: nothing of it is document text *)
Theorem sym_render : forall html font tl,
  render html (TOpen (s_span_font ++ ostr_or_None font)
               :: raw ([38; 35; 120; 48] ++ tl ++ [59]) ++ [TClose s_span])
  = [60;115;112;97;110;32;115;116;121;108;101;61;102;111;110;116;45;102;97;109;105;108;121;58]
    ++ ostr_or_None font ++ [62] ++ [38;35;120;48] ++ tl ++ [59] ++ [60;47;115;112;97;110;62].
Proof.
  intros html font tl.
  change (TOpen (s_span_font ++ ostr_or_None font) :: raw ([38; 35; 120; 48] ++ tl ++ [59]) ++ [TClose s_span])
    with ([TOpen (s_span_font ++ ostr_or_None font)] ++ raw ([38; 35; 120; 48] ++ tl ++ [59]) ++ [TClose s_span]).
  rewrite !render_app, render_raw. unfold render. cbn [map concat render_tok].
  rewrite !app_nil_r. unfold s_span_font, s_span. cbn [app]. rewrite <- !app_assoc. reflexivity.
Qed.

(* WHICH collector operation: the tokens go INTO the open (last) run of the
   open paragraph (add_code_into_open_run), they are not a run of their own *)
Theorem sym_is_add_code : forall v path t e ks body font c tl s, e_ptag e = tag_SYM ->
  attr_w e s_font = Ok font -> attr_w e s_char = Ok (Some (c :: tl)) ->
  open_tag v path t e ks body s
  = (s' <- add_code_into_open_run v
             (TOpen (s_span_font ++ ostr_or_None font)
              :: raw ([38; 35; 120; 48] ++ tl ++ [59]) ++ [TClose s_span]) s ;;
     Ok (s', true)).
Proof.
  intros v path t e ks body font c tl s Ht Hf Hc.
  unfold open_tag. cbv zeta. rewrite Ht. tag_eval. rewrite Hf, Hc. reflexivity.
Qed.

Theorem sym_into_open_run : forall v path t e ks body font c tl s p rest, e_ptag e = tag_SYM ->
  attr_w e s_font = Ok font -> attr_w e s_char = Ok (Some (c :: tl)) ->
  c_open s = p :: rest ->
  open_tag v path t e ks body s
  = Ok (set_open
          (with_runs p
             (upd_last (fun r => {| r_style := r_style r;
                                    r_toks := r_toks r
                                              ++ TOpen (s_span_font ++ ostr_or_None font)
                                                 :: raw ([38; 35; 120; 48] ++ tl ++ [59])
                                                 ++ [TClose s_span] |})
                       (ensure_run (p_runs p))) :: rest) s, true).
Proof.
  intros v path t e ks body font c tl s p rest Ht Hf Hc Ho.
  rewrite (sym_is_add_code _ _ _ _ _ _ font c tl _ Ht Hf Hc).
  unfold add_code_into_open_run, add_toks. rewrite (upd_open_runs_open _ _ _ _ _ Ho). reflexivity.
Qed.

(* ================================================================== *)
(* 5. Forms: w:checkBox and w:ddList                                    *)
(* ================================================================== *)
Lemma open_emit_checkbox v e ks body mt : e_ptag e = tag_FORM_CHECKBOX ->
  open_emit v e ks body mt = (x <- get_checkBox_entry e ks ;; Ok (raw x, true)).
Proof. intro Ht. unfold open_emit. cbv zeta. rewrite Ht. tag_eval. reflexivity. Qed.

Lemma open_emit_ddlist v e ks body mt : e_ptag e = tag_FORM_DDLIST ->
  open_emit v e ks body mt = (x <- get_ddList_entry e ks ;; Ok (map TTxt x, true)).
Proof. intro Ht. unfold open_emit. cbv zeta. rewrite Ht. tag_eval. reflexivity. Qed.

(* the box character verbatim (never escaped), then the children (w:default,
   w:checked ...: walked, and without handlers) *)
Theorem emit_checkbox : forall v path e ks x, e_ptag e = tag_FORM_CHECKBOX ->
  forallb plain_inline ks = true -> get_checkBox_entry e ks = Ok x ->
  emit v path (AE e ks) = (k <- emit_kids v path ks 0%nat ;; Ok (raw x ++ k)).
Proof.
  intros v path e ks x Ht Hks Hx.
  apply (emit_open v path e ks _ true).
  - plain_by Ht Hks.
  - rewrite Ht. reflexivity.
  - rewrite (open_emit_checkbox _ _ _ _ _ Ht), Hx. reflexivity.
Qed.

Theorem emit_checkbox_err : forall v path e ks x, e_ptag e = tag_FORM_CHECKBOX ->
  forallb plain_inline ks = true -> get_checkBox_entry e ks = Err x ->
  emit v path (AE e ks) = Err x.
Proof.
  intros v path e ks x Ht Hks Hx. apply emit_open_err.
  - plain_by Ht Hks.
  - rewrite Ht. reflexivity.
  - rewrite (open_emit_checkbox _ _ _ _ _ Ht), Hx. reflexivity.
Qed.

(* the usual form field: all children inert *)
Corollary emit_checkbox_inert : forall v path e ks x, e_ptag e = tag_FORM_CHECKBOX ->
  forallb inert ks = true -> get_checkBox_entry e ks = Ok x ->
  emit v path (AE e ks) = Ok (raw x).
Proof.
  intros v path e ks x Ht Hk Hx.
  rewrite (emit_checkbox v path e ks x Ht (inert_list_plain _ Hk) Hx).
  apply bind_nil_r. apply (kids_yield_inert v ks Hk).
Qed.

(* the selected entry as document text (escaped when html), then the children *)
Theorem emit_ddlist : forall v path e ks x, e_ptag e = tag_FORM_DDLIST ->
  forallb plain_inline ks = true -> get_ddList_entry e ks = Ok x ->
  emit v path (AE e ks) = (k <- emit_kids v path ks 0%nat ;; Ok (map TTxt x ++ k)).
Proof.
  intros v path e ks x Ht Hks Hx.
  apply (emit_open v path e ks _ true).
  - plain_by Ht Hks.
  - rewrite Ht. reflexivity.
  - rewrite (open_emit_ddlist _ _ _ _ _ Ht), Hx. reflexivity.
Qed.

Theorem emit_ddlist_err : forall v path e ks x, e_ptag e = tag_FORM_DDLIST ->
  forallb plain_inline ks = true -> get_ddList_entry e ks = Err x ->
  emit v path (AE e ks) = Err x.
Proof.
  intros v path e ks x Ht Hks Hx. apply emit_open_err.
  - plain_by Ht Hks.
  - rewrite Ht. reflexivity.
  - rewrite (open_emit_ddlist _ _ _ _ _ Ht), Hx. reflexivity.
Qed.

Corollary emit_ddlist_inert : forall v path e ks x, e_ptag e = tag_FORM_DDLIST ->
  forallb inert ks = true -> get_ddList_entry e ks = Ok x ->
  emit v path (AE e ks) = Ok (map TTxt x).
Proof.
  intros v path e ks x Ht Hk Hx.
  rewrite (emit_ddlist v path e ks x Ht (inert_list_plain _ Hk) Hx).
  apply bind_nil_r. apply (kids_yield_inert v ks Hk).
Qed.

(* ---------- the element children {u}name, in document order ---------- *)
Fixpoint named_children (u name : str) (ks : list anode) : list einfo :=
  match ks with
  | [] => []
  | AE ce _ :: r =>
      if ostr_eqb (e_uri ce) (Some u) && str_eqb (e_local ce) name
      then ce :: named_children u name r else named_children u name r
  | AX _ :: r => named_children u name r
  end.

Definition first_elem (l : list anode) : option einfo :=
  match l with AE ce _ :: _ => Some ce | _ => None end.

Lemma find_children_cons u name k r :
  find_children u name (k :: r)
  = if is_elem_named u name k then k :: find_children u name r else find_children u name r.
Proof. reflexivity. Qed.

Lemma first_found u name : forall ks,
  first_elem (find_children (Some u) name ks) = hd_error (named_children u name ks).
Proof.
  induction ks as [|[ce cks|tl] r IH]; [reflexivity| |].
  - rewrite find_children_cons. cbn [is_elem_named named_children].
    destruct (ostr_eqb (e_uri ce) (Some u) && str_eqb (e_local ce) name); [reflexivity|exact IH].
  - rewrite find_children_cons. cbn [is_elem_named named_children]. exact IH.
Qed.

(* find_children never yields a comment / PI *)
Lemma found_head_elem u name ks tl r : find_children u name ks <> AX tl :: r.
Proof.
  induction ks as [|[ce cks|tl'] r' IH]; [discriminate| |].
  - rewrite find_children_cons. destruct (is_elem_named u name (AE ce cks)); [discriminate|exact IH].
  - rewrite find_children_cons. cbn [is_elem_named]. exact IH.
Qed.

Lemma vals_found u name (f : einfo -> res str) x : forall ks,
  mapM (fun k => match k with AE ke _ => f ke | AX _ => Err x end) (find_children (Some u) name ks)
  = mapM f (named_children u name ks).
Proof.
  induction ks as [|[ce cks|tl] r IH]; [reflexivity| |].
  - rewrite find_children_cons. cbn [is_elem_named named_children].
    destruct (ostr_eqb (e_uri ce) (Some u) && str_eqb (e_local ce) name); [|exact IH].
    cbn [mapM]. rewrite IH. reflexivity.
  - rewrite find_children_cons. cbn [is_elem_named named_children]. exact IH.
Qed.

(* ---------- check boxes ---------- *)
Definition box_checked : str := [9746].      (* U+2612 *)
Definition box_unchecked : str := [9744].    (* U+2610 *)
(* the ST_OnOff spellings, exactly those of the table in forms.py *)
Definition on_spellings : list str := [[49]; [116;114;117;101]; [111;110]].          (* 1 true on *)
Definition off_spellings : list str := [[48]; [102;97;108;115;101]; [111;102;102]].  (* 0 false off *)

(* dict[val]: a KeyError for every other spelling (True, ON, 2 ...) *)
Definition box_of (w : str) : res str :=
  if mem_str w on_spellings then Ok box_checked
  else if mem_str w off_spellings then Ok box_unchecked
  else Err KeyError.

Lemma checkbox_table_lookup w : of_opt KeyError (dict_get w checkbox_table) = box_of w.
Proof.
  unfold box_of, checkbox_table, on_spellings, off_spellings. cbn [dict_get mem_str].
  destruct (str_eqb w [48]) eqn:E1;
    [apply BulletsFacts.str_eqb_eq in E1; subst w; reflexivity|].
  destruct (str_eqb w [102;97;108;115;101]) eqn:E2;
    [apply BulletsFacts.str_eqb_eq in E2; subst w; reflexivity|].
  destruct (str_eqb w [49]) eqn:E3;
    [apply BulletsFacts.str_eqb_eq in E3; subst w; reflexivity|].
  destruct (str_eqb w [116;114;117;101]) eqn:E4;
    [apply BulletsFacts.str_eqb_eq in E4; subst w; reflexivity|].
  destruct (str_eqb w [111;110]) eqn:E5;
    [apply BulletsFacts.str_eqb_eq in E5; subst w; reflexivity|].
  destruct (str_eqb w [111;102;102]) eqn:E6;
    [apply BulletsFacts.str_eqb_eq in E6; subst w; reflexivity|].
  reflexivity.
Qed.

(* get_checkBox_entry, exactly: the FIRST w:checked child decides (its w:val,
   "1" when absent or empty); without one the FIRST w:default child (its
   w:val; a default without w:val, like no default at all, gives the failure
   text); the name w:... is resolved with the prefix w as bound at the
   checkBox, the attribute w:val with the prefix as bound at the child *)
Definition checkbox_spec (e : einfo) (ks : list anode) : res str :=
  match e_wuri e with
  | None => Err KeyError
  | Some u =>
      match hd_error (named_children u s_checked ks) with
      | Some ce =>
          v <- attr_w ce s_val ;;
          box_of (match v with Some (c :: r) => c :: r | _ => [49] end)
      | None =>
          match hd_error (named_children u s_default ks) with
          | Some de =>
              match attr_w_req de s_val with
              | Ok x => box_of x
              | Err _ => Ok checkbox_none
              end
          | None => Ok checkbox_none
          end
      end
  end.

Theorem checkbox_values : forall e ks, get_checkBox_entry e ks = checkbox_spec e ks.
Proof.
  intros e ks. unfold get_checkBox_entry, checkbox_spec, children_w.
  destruct (e_wuri e) as [u|]; [|reflexivity]. cbn [bind].
  rewrite <- !first_found.
  destruct (find_children (Some u) s_checked ks) as [|[ce cks|tl] r] eqn:Ec.
  - cbn [first_elem bind].
    destruct (find_children (Some u) s_default ks) as [|[de dks|tl] r] eqn:Ed.
    + reflexivity.
    + cbn [first_elem]. destruct (attr_w_req de s_val) as [x|y]; [|reflexivity].
      apply checkbox_table_lookup.
    + exfalso. exact (found_head_elem _ _ _ _ _ Ed).
  - cbn [first_elem]. destruct (attr_w ce s_val) as [o|y]; [|reflexivity]. cbn [bind].
    apply checkbox_table_lookup.
  - exfalso. exact (found_head_elem _ _ _ _ _ Ec).
Qed.

(* the readable cases *)
Lemma box_of_on w : In w on_spellings -> box_of w = Ok box_checked.
Proof. intros [<-|[<-|[<-|[]]]]; reflexivity. Qed.
Lemma box_of_off w : In w off_spellings -> box_of w = Ok box_unchecked.
Proof. intros [<-|[<-|[<-|[]]]]; reflexivity. Qed.
Lemma box_of_other w : mem_str w (on_spellings ++ off_spellings) = false -> box_of w = Err KeyError.
Proof.
  unfold box_of, on_spellings, off_spellings. cbn [app mem_str]. intro H.
  repeat (apply orb_false_iff in H; let E := fresh "E" in destruct H as [E H]; rewrite E).
  reflexivity.
Qed.

Corollary checkbox_checked_val : forall e ks u ce c r, e_wuri e = Some u ->
  hd_error (named_children u s_checked ks) = Some ce -> attr_w ce s_val = Ok (Some (c :: r)) ->
  get_checkBox_entry e ks = box_of (c :: r).
Proof.
  intros e ks u ce c r Hu Hc Hv. rewrite checkbox_values. unfold checkbox_spec.
  rewrite Hu, Hc, Hv. reflexivity.
Qed.

(* w:checked without (or with an empty) w:val: CHECKED *)
Corollary checkbox_checked_noval : forall e ks u ce, e_wuri e = Some u ->
  hd_error (named_children u s_checked ks) = Some ce ->
  (attr_w ce s_val = Ok None \/ attr_w ce s_val = Ok (Some [])) ->
  get_checkBox_entry e ks = Ok box_checked.
Proof.
  intros e ks u ce Hu Hc Hv. rewrite checkbox_values. unfold checkbox_spec.
  rewrite Hu, Hc. destruct Hv as [Hv|Hv]; rewrite Hv; reflexivity.
Qed.

Corollary checkbox_default_val : forall e ks u de x, e_wuri e = Some u ->
  named_children u s_checked ks = [] ->
  hd_error (named_children u s_default ks) = Some de -> attr_w_req de s_val = Ok x ->
  get_checkBox_entry e ks = box_of x.
Proof.
  intros e ks u de x Hu Hc Hd Hv. rewrite checkbox_values. unfold checkbox_spec.
  rewrite Hu, Hc, Hd, Hv. reflexivity.
Qed.

Corollary checkbox_failed : forall e ks u, e_wuri e = Some u ->
  named_children u s_checked ks = [] ->
  (named_children u s_default ks = []
   \/ exists de y, hd_error (named_children u s_default ks) = Some de /\ attr_w_req de s_val = Err y) ->
  get_checkBox_entry e ks = Ok checkbox_none.
Proof.
  intros e ks u Hu Hc Hd. rewrite checkbox_values. unfold checkbox_spec. rewrite Hu, Hc.
  destruct Hd as [Hd|(de & y & Hd & Hv)]; rewrite Hd; [reflexivity|]. cbn [hd_error]. rewrite Hv.
  reflexivity.
Qed.

(* ---------- drop-down lists ---------- *)
(* get_ddList_entry, exactly: the w:val of every w:listEntry child (KeyError
   when one has none), indexed Python-style by int(w:val) of the FIRST w:result
   child (0 when there is none or it has no w:val; ValueError when it is not an
   integer), the empty string when out of range *)
Definition ddlist_spec (e : einfo) (ks : list anode) : res str :=
  match e_wuri e with
  | None => Err KeyError
  | Some u =>
      vals <- mapM (fun ke => attr_w_req ke s_val) (named_children u s_listEntry ks) ;;
      idx <- match hd_error (named_children u s_result ks) with
             | None => Ok 0%Z
             | Some re =>
                 match attr_w_req re s_val with
                 | Err _ => Ok 0%Z
                 | Ok sv => of_opt ValueError (int_of_str sv)
                 end
             end ;;
      Ok (match py_nth vals idx with Some x => x | None => [] end)
  end.

Theorem ddlist_value : forall e ks, get_ddList_entry e ks = ddlist_spec e ks.
Proof.
  intros e ks. unfold get_ddList_entry, ddlist_spec, children_w.
  destruct (e_wuri e) as [u|]; [|reflexivity]. cbn [bind].
  rewrite (vals_found u s_listEntry (fun ke => attr_w_req ke s_val) ModelError ks).
  destruct (mapM (fun ke => attr_w_req ke s_val) (named_children u s_listEntry ks)) as [vals|x];
    [|reflexivity].
  cbn [bind]. rewrite <- first_found.
  destruct (find_children (Some u) s_result ks) as [|[re rks|tl] r] eqn:Er.
  - reflexivity.
  - reflexivity.
  - exfalso. exact (found_head_elem _ _ _ _ _ Er).
Qed.

(* Python list indexing *)
Lemma py_nth_nonneg {A} (l : list A) i : (0 <= i < Z.of_nat (length l))%Z ->
  py_nth l i = nth_error l (Z.to_nat i).
Proof.
  intro H. unfold py_nth. cbv zeta.
  destruct (i <? 0)%Z eqn:E1; [apply Z.ltb_lt in E1; lia|]. rewrite E1. cbn [orb].
  destruct (Z.of_nat (length l) <=? i)%Z eqn:E2; [apply Z.leb_le in E2; lia|]. reflexivity.
Qed.
Lemma py_nth_neg {A} (l : list A) i : (- Z.of_nat (length l) <= i < 0)%Z ->
  py_nth l i = nth_error l (Z.to_nat (Z.of_nat (length l) + i)).
Proof.
  intro H. unfold py_nth. cbv zeta.
  destruct (i <? 0)%Z eqn:E1; [|apply Z.ltb_ge in E1; lia].
  destruct (Z.of_nat (length l) + i <? 0)%Z eqn:E2; [apply Z.ltb_lt in E2; lia|]. cbn [orb].
  destruct (Z.of_nat (length l) <=? Z.of_nat (length l) + i)%Z eqn:E3; [apply Z.leb_le in E3; lia|].
  reflexivity.
Qed.
Lemma py_nth_out {A} (l : list A) i :
  (Z.of_nat (length l) <= i \/ i < - Z.of_nat (length l))%Z -> py_nth l i = None.
Proof.
  intro H. unfold py_nth. cbv zeta.
  destruct (i <? 0)%Z eqn:E1.
  - apply Z.ltb_lt in E1.
    destruct (Z.of_nat (length l) + i <? 0)%Z eqn:E2; [reflexivity|apply Z.ltb_ge in E2; lia].
  - apply Z.ltb_ge in E1. rewrite (proj2 (Z.ltb_ge i 0) E1). cbn [orb].
    destruct (Z.of_nat (length l) <=? i)%Z eqn:E3; [reflexivity|apply Z.leb_gt in E3; lia].
Qed.

(* the entry selected by w:result *)
Corollary ddlist_selected : forall e ks u vals re sv i, e_wuri e = Some u ->
  mapM (fun ke => attr_w_req ke s_val) (named_children u s_listEntry ks) = Ok vals ->
  hd_error (named_children u s_result ks) = Some re -> attr_w_req re s_val = Ok sv ->
  int_of_str sv = Some i ->
  get_ddList_entry e ks = Ok (match py_nth vals i with Some x => x | None => [] end).
Proof.
  intros e ks u vals re sv i Hu Hv Hr Hs Hi. rewrite ddlist_value. unfold ddlist_spec.
  rewrite Hu, Hv, Hr, Hs, Hi. reflexivity.
Qed.

(* no w:result (or one without w:val): entry 0 *)
Corollary ddlist_no_result : forall e ks u vals, e_wuri e = Some u ->
  mapM (fun ke => attr_w_req ke s_val) (named_children u s_listEntry ks) = Ok vals ->
  (named_children u s_result ks = []
   \/ exists re y, hd_error (named_children u s_result ks) = Some re /\ attr_w_req re s_val = Err y) ->
  get_ddList_entry e ks = Ok (match vals with x :: _ => x | [] => [] end).
Proof.
  intros e ks u vals Hu Hv Hr. rewrite ddlist_value. unfold ddlist_spec. rewrite Hu, Hv.
  assert (P : (match py_nth vals 0%Z with Some x => x | None => [] end)
              = match vals with x :: _ => x | [] => [] end) by (destruct vals; reflexivity).
  destruct Hr as [Hr|(re & y & Hr & Hs)]; rewrite Hr; [|cbn [hd_error]; rewrite Hs];
    cbn [hd_error bind]; rewrite P; reflexivity.
Qed.

(* out of range: the empty string, no error *)
Corollary ddlist_out_of_range : forall e ks u vals re sv i, e_wuri e = Some u ->
  mapM (fun ke => attr_w_req ke s_val) (named_children u s_listEntry ks) = Ok vals ->
  hd_error (named_children u s_result ks) = Some re -> attr_w_req re s_val = Ok sv ->
  int_of_str sv = Some i ->
  (Z.of_nat (length vals) <= i \/ i < - Z.of_nat (length vals))%Z ->
  get_ddList_entry e ks = Ok [].
Proof.
  intros e ks u vals re sv i Hu Hv Hr Hs Hi Ho.
  rewrite (ddlist_selected e ks u vals re sv i Hu Hv Hr Hs Hi), (py_nth_out vals i Ho). reflexivity.
Qed.

(* a w:result that is not an integer: int() raises ValueError *)
Corollary ddlist_bad_result : forall e ks u vals re sv, e_wuri e = Some u ->
  mapM (fun ke => attr_w_req ke s_val) (named_children u s_listEntry ks) = Ok vals ->
  hd_error (named_children u s_result ks) = Some re -> attr_w_req re s_val = Ok sv ->
  int_of_str sv = None ->
  get_ddList_entry e ks = Err ValueError.
Proof.
  intros e ks u vals re sv Hu Hv Hr Hs Hi. rewrite ddlist_value. unfold ddlist_spec.
  rewrite Hu, Hv, Hr, Hs, Hi. reflexivity.
Qed.

(* ================================================================== *)
(* 6. Text inside equations: m:t (and w:t with children)                *)
(* ================================================================== *)
Lemma open_emit_text v e ks body mt :
  e_ptag e = tag_TEXT \/ e_ptag e = tag_TEXT_MATH ->
  open_emit v e ks body mt = Ok (map TTxt (ostr (e_text e)), true).
Proof.
  intro Ht. unfold open_emit. cbv zeta. destruct Ht as [Ht|Ht]; rewrite Ht; tag_eval; reflexivity.
Qed.

(* like w:t: the element's own text as document text (into the open run) *)
Theorem emit_text_math : forall v path e, e_ptag e = tag_TEXT_MATH ->
  emit v path (AE e []) = Ok (map TTxt (ostr (e_text e))).
Proof.
  intros v path e Ht. rewrite (emit_open v path e [] (map TTxt (ostr (e_text e))) true).
  - apply bind_nil_r. reflexivity.
  - plain_by Ht (eq_refl true).
  - rewrite Ht. reflexivity.
  - apply open_emit_text. right. exact Ht.
Qed.

(* both text elements, with children (lxml allows comments / PIs there) *)
Theorem emit_text_kids : forall v path e ks,
  e_ptag e = tag_TEXT \/ e_ptag e = tag_TEXT_MATH -> forallb plain_inline ks = true ->
  emit v path (AE e ks)
  = (k <- emit_kids v path ks 0%nat ;; Ok (map TTxt (ostr (e_text e)) ++ k)).
Proof.
  intros v path e ks Ht Hks. apply (emit_open v path e ks _ true).
  - destruct Ht as [Ht|Ht]; plain_by Ht Hks.
  - destruct Ht as [Ht|Ht]; rewrite Ht; reflexivity.
  - apply open_emit_text. exact Ht.
Qed.

Theorem text_render_plain : forall s, render false (map TTxt s) = s.
Proof. exact render_plain_txt. Qed.
Theorem text_render_html : forall s,
  render true (map TTxt s)
  = replace [62] [38;103;116;59] (replace [60] [38;108;116;59] (replace [38] [38;97;109;112;59] s)).
Proof. exact escape_is_python_replace. Qed.

(* ================================================================== *)
(* 7. The complete case analysis                                        *)
(* ================================================================== *)
(* the tags with an open handler that an inline element can carry (the other
   five handlers - w:p, w:footnote, w:endnote, w:commentRangeStart/End - and
   the close handler of w:tc are excluded by plain_inline) *)
Definition handled_tags : list str :=
  [tag_RUN; tag_TEXT; tag_TEXT_MATH; tag_MATH; tag_BR; tag_TAB; tag_SYM; tag_HYPERLINK;
   tag_FORM_CHECKBOX; tag_FORM_DDLIST; tag_FOOTNOTE_REFERENCE; tag_ENDNOTE_REFERENCE;
   tag_IMAGE; tag_IMAGEDATA; tag_IMAGE_ALT].

(* "em, then what the children contribute" *)
Definition then_kids (v : env) (path : list nat) (ks : list anode) (em : list tok) : res (list tok) :=
  k <- emit_kids v path ks 0%nat ;; Ok (em ++ k).

(* what a hyperlink makes of the text below it: never an error *)
Definition link_contrib (v : env) (e : einfo) (body : list tok) : list tok :=
  match attr_r_req e s_id with
  | Err _ => body
  | Ok rid =>
      match dict_get rid (env_rels v) with
      | None => body
      | Some link =>
          match attr_w e s_anchor with
          | Err _ => body
          | Ok anchor => link_toks (link_target link anchor) body
          end
      end
  end.

Lemma open_emit_hyperlink v e ks body mt : e_ptag e = tag_HYPERLINK ->
  open_emit v e ks body mt = Ok (link_contrib v e body, false).
Proof.
  intro Ht. unfold open_emit, link_contrib. cbv zeta. rewrite Ht. tag_eval.
  destruct (attr_r_req e s_id) as [rid|x] eqn:Er.
  - destruct (dict_get rid (env_rels v)) as [link|]; [|reflexivity].
    destruct (attr_w e s_anchor) as [anchor|x] eqn:Ea; [reflexivity|].
    rewrite (attr_w_err _ _ _ Ea). reflexivity.
  - rewrite (attr_r_req_err _ _ _ Er). reflexivity.
Qed.

Lemma not_in_neq tg : forall l, ~ In tg l -> forall x, In x l -> str_eqb tg x = false.
Proof.
  intros l H x Hx. destruct (str_eqb tg x) eqn:E; [|reflexivity].
  apply BulletsFacts.str_eqb_eq in E. subst x. contradiction.
Qed.

Lemma handled_dec tg : In tg handled_tags \/ ~ In tg handled_tags.
Proof.
  destruct (mem_str tg handled_tags) eqn:E.
  - left. apply MergeFacts.mem_str_In. exact E.
  - right. intro H. apply MergeFacts.mem_str_In in H. rewrite H in E. discriminate E.
Qed.

Ltac case_tac Hpl Ht :=
  rewrite (emit_AE _ _ _ _ Hpl); unfold emit_AE_rhs, open_emit, then_kids; cbv zeta;
  rewrite Ht; tag_eval; cbn [bind fst snd].

(* an inline element contributes what its tag's handler says and, unless the
   handler stops the descent (equations, hyperlinks), what its children
   contribute after that - and NOTHING else: every tag is in the list or
   falls under the last clause *)
Theorem emit_handled_tags : forall v path e ks, plain_inline (AE e ks) = true ->
  (e_ptag e = tag_RUN ->
     emit v path (AE e ks)
     = (st <- get_run_formatting e ks (env_x2h v) ;; emit_kids v path ks 0%nat))
  /\ (e_ptag e = tag_TEXT \/ e_ptag e = tag_TEXT_MATH ->
     emit v path (AE e ks) = then_kids v path ks (map TTxt (ostr (e_text e))))
  /\ (e_ptag e = tag_MATH ->
     emit v path (AE e ks)
     = Ok (TOpen s_latex :: map TTxt (itertext (AE e ks)) ++ [TClose s_latex]))
  /\ (e_ptag e = tag_BR -> emit v path (AE e ks) = then_kids v path ks [TRaw 10])
  /\ (e_ptag e = tag_TAB -> emit v path (AE e ks) = then_kids v path ks [TRaw 9])
  /\ (e_ptag e = tag_SYM ->
     emit v path (AE e ks)
     = (font <- attr_w e s_font ;; chr <- attr_w e s_char ;;
        then_kids v path ks
          (match ostr chr with
           | [] => []
           | _ :: tl => TOpen (s_span_font ++ ostr_or_None font)
                        :: raw ([38; 35; 120; 48] ++ tl ++ [59]) ++ [TClose s_span]
           end)))
  /\ (e_ptag e = tag_HYPERLINK ->
     emit v path (AE e ks)
     = (body <- below_loop v path ks 0%nat ;; Ok (link_contrib v e body)))
  /\ (e_ptag e = tag_FORM_CHECKBOX ->
     emit v path (AE e ks) = (x <- get_checkBox_entry e ks ;; then_kids v path ks (raw x)))
  /\ (e_ptag e = tag_FORM_DDLIST ->
     emit v path (AE e ks) = (x <- get_ddList_entry e ks ;; then_kids v path ks (map TTxt x)))
  /\ (e_ptag e = tag_FOOTNOTE_REFERENCE ->
     emit v path (AE e ks)
     = (id <- attr_w_req e s_id ;;
        then_kids v path ks (raw (s_dashes ++ s_footnote ++ id ++ s_dashes))))
  /\ (e_ptag e = tag_ENDNOTE_REFERENCE ->
     emit v path (AE e ks)
     = (id <- attr_w_req e s_id ;;
        then_kids v path ks (raw (s_dashes ++ s_endnote ++ id ++ s_dashes))))
  /\ (e_ptag e = tag_IMAGE ->
     emit v path (AE e ks) = then_kids v path ks (image_toks v (attr_r_req e s_embed)))
  /\ (e_ptag e = tag_IMAGEDATA ->
     emit v path (AE e ks) = then_kids v path ks (image_toks v (attr_r_req e s_id)))
  /\ (e_ptag e = tag_IMAGE_ALT ->
     emit v path (AE e ks)
     = then_kids v path ks
         (match attr_plain e s_descr with
          | Some d => raw s_alt_prefix ++ map TTxt d ++ [TRaw 60]
          | None => []
          end))
  /\ (~ In (e_ptag e) handled_tags -> emit v path (AE e ks) = emit_kids v path ks 0%nat).
Proof.
  intros v path e ks Hpl.
  repeat match goal with |- _ /\ _ => split end.
  - intro Ht. case_tac Hpl Ht.
    destruct (get_run_formatting e ks (env_x2h v)); cbn [bind fst snd]; [|reflexivity].
    destruct (emit_kids v path ks 0%nat); reflexivity.
  - intros [Ht|Ht]; case_tac Hpl Ht; reflexivity.
  - intro Ht. apply emit_math. exact Ht.
  - intro Ht. case_tac Hpl Ht. reflexivity.
  - intro Ht. case_tac Hpl Ht. reflexivity.
  - intro Ht. case_tac Hpl Ht.
    destruct (attr_w e s_font) as [font|x]; cbn [bind]; [|reflexivity].
    destruct (attr_w e s_char) as [chr|x]; cbn [bind]; [|reflexivity].
    destruct (ostr chr); reflexivity.
  - intro Ht. rewrite (emit_AE _ _ _ _ Hpl). unfold emit_AE_rhs.
    replace (str_eqb (e_ptag e) tag_HYPERLINK) with true by (rewrite Ht; reflexivity).
    destruct (below_loop v path ks 0%nat) as [body|x]; cbn [bind]; [|reflexivity].
    rewrite (open_emit_hyperlink v e ks body _ Ht). cbn [bind fst snd].
    rewrite app_nil_r. reflexivity.
  - intro Ht. case_tac Hpl Ht.
    destruct (get_checkBox_entry e ks); reflexivity.
  - intro Ht. case_tac Hpl Ht.
    destruct (get_ddList_entry e ks); reflexivity.
  - intro Ht. case_tac Hpl Ht. unfold note_ref_emit.
    destruct (attr_w_req e s_id); reflexivity.
  - intro Ht. case_tac Hpl Ht. unfold note_ref_emit.
    destruct (attr_w_req e s_id); reflexivity.
  - intro Ht. rewrite (emit_image_total v path e ks Ht); [reflexivity|].
    apply plain_inline_AE in Hpl. exact (proj2 Hpl).
  - intro Ht. rewrite (emit_imagedata_total v path e ks Ht); [reflexivity|].
    apply plain_inline_AE in Hpl. exact (proj2 Hpl).
  - intro Ht. case_tac Hpl Ht. destruct (attr_plain e s_descr); reflexivity.
  - intro Hn. pose proof (not_in_neq _ _ Hn) as N.
    rewrite (emit_AE _ _ _ _ Hpl). unfold emit_AE_rhs, open_emit. cbv zeta.
    unfold handled_tags in N.
    rewrite (N tag_RUN), (N tag_TEXT), (N tag_TEXT_MATH), (N tag_MATH), (N tag_BR), (N tag_TAB),
      (N tag_SYM), (N tag_HYPERLINK), (N tag_FORM_CHECKBOX), (N tag_FORM_DDLIST),
      (N tag_FOOTNOTE_REFERENCE), (N tag_ENDNOTE_REFERENCE), (N tag_IMAGE), (N tag_IMAGEDATA),
      (N tag_IMAGE_ALT) by (cbn [In]; tauto).
    cbn [orb bind fst snd]. destruct (emit_kids v path ks 0%nat); reflexivity.
Qed.

(* ================================================================== *)
(* 8. Examples                                                          *)
(* ================================================================== *)
Section StandInExamples.
  Import String.
  Open Scope string_scope.
  Definition si_W : str := s2l "http://schemas.openxmlformats.org/wordprocessingml/2006/main".
  Definition si_R : str := s2l "http://schemas.openxmlformats.org/officeDocument/2006/relationships".
  Definition si_ns : list (option str * str) := [(Some s_w, si_W); (Some s_r, si_R)].
  (* <w:LOCAL ATTRS>TEXT KIDS</w:LOCAL> and <P:LOCAL ...> for the other prefixes *)
  Definition si_w (l : string) (attrs : list (aname * str)) (tx : option string) (ks : list rnode) : rnode :=
    RE (Some s_w) (Some si_W) (s2l l) si_ns attrs
       (match tx with Some s => Some (s2l s) | None => None end) None ks.
  Definition si_x (p l : string) (attrs : list (aname * str)) (tx : option string) (ks : list rnode) : rnode :=
    RE (Some (s2l p)) (Some (s2l ("urn:" ++ p))) (s2l l) si_ns attrs
       (match tx with Some s => Some (s2l s) | None => None end) None ks.
  Definition si_wattr (n v : string) : aname * str := ((Some si_W, s2l n), s2l v).
  Definition si_rattr (n v : string) : aname * str := ((Some si_R, s2l n), s2l v).
  Definition si_attr (n v : string) : aname * str := ((None, s2l n), s2l v).

  (* a DrawingML picture as Word writes it *)
  Definition si_extent : rnode := si_x "wp" "extent" [] None [].
  Definition si_docPr : rnode := si_x "wp" "docPr" [si_attr "id" "1"; si_attr "descr" "x&y"] None [].
  Definition si_cNv : rnode :=
    si_x "wp" "cNvGraphicFramePr" [] None [si_x "a" "graphicFrameLocks" [] None []].
  Definition si_nvPicPr : rnode :=
    si_x "pic" "nvPicPr" [] None [si_x "pic" "cNvPr" [si_attr "descr" "not this one"] None []].
  Definition si_blip : rnode := si_x "a" "blip" [si_rattr "embed" "rId5"] None [].
  Definition si_stretch : rnode := si_x "a" "stretch" [] None [si_x "a" "fillRect" [] None []].
  Definition si_spPr : rnode := si_x "pic" "spPr" [] None [].
  Definition si_blipFill : rnode := si_x "pic" "blipFill" [] None [si_blip; si_stretch].
  Definition si_pic : rnode := si_x "pic" "pic" [] None [si_nvPicPr; si_blipFill; si_spPr].
  Definition si_graphicData : rnode := si_x "a" "graphicData" [] None [si_pic].
  Definition si_graphic : rnode := si_x "a" "graphic" [] None [si_graphicData].
  Definition si_inline : rnode :=
    si_x "wp" "inline" [] None [si_extent; si_docPr; si_cNv; si_graphic].
  Definition si_drawing : rnode := si_w "drawing" [] None [si_inline].

  Definition si_checkbox : rnode :=
    si_w "fldChar" [] None
      [si_w "ffData" [] None
         [si_w "checkBox" [] None
            [si_w "sizeAuto" [] None [];
             si_w "default" [si_wattr "val" "0"] None [];
             si_w "checked" [] None []]]].
  Definition si_ddlist : rnode :=
    si_w "ddList" [] None
      [si_w "result" [si_wattr "val" "1"] None [];
       si_w "listEntry" [si_wattr "val" "one"] None [];
       si_w "listEntry" [si_wattr "val" "t<o"] None []].
  Definition si_math : rnode :=
    si_x "m" "oMath" [] None [si_x "m" "r" [] None [si_x "m" "t" [] (Some "x<y") []]].
  Definition si_par : anode :=
    view (si_w "p" [] None
            [si_w "r" [] None
               [si_w "t" [] (Some "a<b") []; si_w "tab" [] None []; si_w "br" [] None [];
                si_drawing;
                si_w "sym" [si_wattr "font" "Wingdings"; si_wattr "char" "F0FC"] None [];
                si_checkbox; si_ddlist];
             si_math]).
  Definition si_env (html : bool) : env :=
    {| env_x2h := if html then xml2html_table else [];
       env_rels := [(s2l "rId5", s2l "media/image1.png")];
       env_dup := false; env_numtbl := [] |}.
  (* the strings of the paragraphs extracted from a part *)
  Definition si_extract (html : bool) (t : anode) : res (list str) :=
    s <- collect_from (si_env html) [] t ;;
    ps <- tree_par_toks (c_tree s) ;;
    Ok (map (render (html_on (si_env html))) ps).
  Definition si_info (r : rnode) : einfo :=
    match view r with
    | AE e _ => e
    | AX _ => {| e_ptag := []; e_uri := None; e_local := []; e_wuri := None; e_ruri := None;
                 e_attrs := []; e_text := None; e_tail := None |}
    end.

  (* the wrapper tags of a DrawingML / VML picture have no handlers *)
  Example drawing_wrappers_foreign :
    forallb foreign_tag
      (map s2l ["w:drawing"; "wp:inline"; "wp:anchor"; "a:graphic"; "a:graphicData"; "pic:pic";
                "pic:blipFill"; "pic:cNvPr"; "w:pict"; "v:shape"; "mc:AlternateContent"; "w:fldChar";
                "w:ffData"; "m:r"])
    = true.
  Proof. vm_compute. reflexivity. Qed.

  (* text, tab, break, picture with alt text, symbol, check box, drop-down,
     equation: ONE paragraph, html off *)
  Example si_paragraph_plain :
    si_extract false si_par
    = Ok [(s2l "a<b" ++ [9] ++ [10]
           ++ s2l "----Image alt text---->x&y<" ++ s2l "----media/image1.png----"
           ++ s2l "<span style=font-family:Wingdings>&#x00FC;</span>"
           ++ [9746] ++ s2l "t<o"
           ++ s2l "<latex>x<y</latex>")%list].
  Proof. vm_compute. reflexivity. Qed.

  (* html on: document text (run text, description, list entry, equation text)
     escaped; markers, box and symbol verbatim *)
  Example si_paragraph_html :
    si_extract true si_par
    = Ok [(s2l "a&lt;b" ++ [9] ++ [10]
           ++ s2l "----Image alt text---->x&amp;y<" ++ s2l "----media/image1.png----"
           ++ s2l "<span style=font-family:Wingdings>&#x00FC;</span>"
           ++ [9746] ++ s2l "t&lt;o"
           ++ s2l "<latex>x&lt;y</latex>")%list].
  Proof. vm_compute. reflexivity. Qed.

  (* the picture of the example falls under drawing_alt_then_image *)
  Example si_drawing_by_theorem : forall html path,
    emit (si_env html) path (view si_drawing)
    = Ok ((raw s_alt_prefix ++ map TTxt (s2l "x&y") ++ [TRaw 60])
          ++ raw (s_dashes ++ s2l "media/image1.png" ++ s_dashes))%list.
  Proof.
    intros html path.
    exact (drawing_alt_then_image (si_env html) path
             (si_info si_drawing) (si_info si_inline) (si_info si_docPr) (si_info si_graphic)
             (si_info si_graphicData) (si_info si_pic) (si_info si_blipFill) (si_info si_blip)
             [] [] [view si_extent] [view si_cNv] [] [] [] [] [] [view si_nvPicPr] [view si_spPr]
             [] [view si_stretch] [] [] (s2l "x&y") (s2l "rId5") (s2l "media/image1.png")
             eq_refl eq_refl eq_refl eq_refl eq_refl eq_refl eq_refl eq_refl eq_refl eq_refl
             eq_refl eq_refl).
  Qed.

  (* an unresolved picture is skipped: same paragraph without the marker *)
  Example si_unresolved_skipped :
    (s <- collect_from {| env_x2h := []; env_rels := []; env_dup := false; env_numtbl := [] |}
                       [] (view (si_w "p" [] None [si_w "r" [] None [si_drawing]])) ;;
     ps <- tree_par_toks (c_tree s) ;; Ok (map (render false) ps))
    = Ok [s2l "----Image alt text---->x&y<"].
  Proof. vm_compute. reflexivity. Qed.

  (* check box values *)
  Example si_checkbox_values :
    map (fun ks => get_checkBox_entry (si_info (si_w "checkBox" [] None [])) (map view ks))
      [ [si_w "default" [si_wattr "val" "0"] None []; si_w "checked" [] None []]
      ; [si_w "checked" [si_wattr "val" "off"] None []]
      ; [si_w "checked" [si_wattr "val" "true"] None []]
      ; [si_w "checked" [si_wattr "val" "True"] None []]
      ; [si_w "default" [si_wattr "val" "1"] None []]
      ; [si_w "default" [] None []]
      ; [] ]
    = [Ok [9746]; Ok [9744]; Ok [9746]; Err KeyError; Ok [9746]; Ok checkbox_none; Ok checkbox_none].
  Proof. vm_compute. reflexivity. Qed.

  (* drop-down: selected, default 0, negative index from the end, out of range *)
  Example si_ddlist_values :
    map (fun r => get_ddList_entry (si_info (si_w "ddList" [] None []))
                    (map view (r ++ [si_w "listEntry" [si_wattr "val" "one"] None [];
                                     si_w "listEntry" [si_wattr "val" "two"] None []])%list))
      [ [si_w "result" [si_wattr "val" "1"] None []]
      ; []
      ; [si_w "result" [si_wattr "val" "-1"] None []]
      ; [si_w "result" [si_wattr "val" "2"] None []]
      ; [si_w "result" [si_wattr "val" "x"] None []] ]
    = [Ok (s2l "two"); Ok (s2l "one"); Ok (s2l "two"); Ok []; Err ValueError].
  Proof. vm_compute. reflexivity. Qed.
End StandInExamples.

Print Assumptions emit_image.
Print Assumptions emit_image_leaf.
Print Assumptions emit_image_unresolved.
Print Assumptions emit_image_total.
Print Assumptions emit_image_err.
Print Assumptions emit_image_only_kids_fail.
Print Assumptions image_marker_render.
Print Assumptions emit_imagedata.
Print Assumptions emit_imagedata_leaf.
Print Assumptions emit_imagedata_unresolved.
Print Assumptions emit_imagedata_total.
Print Assumptions emit_imagedata_only_kids_fail.
Print Assumptions emit_image_alt.
Print Assumptions emit_image_alt_leaf.
Print Assumptions emit_image_alt_none.
Print Assumptions alt_marker_render.
Print Assumptions alt_marker_render_plain.
Print Assumptions alt_marker_render_html.
Print Assumptions emit_foreign.
Print Assumptions emit_inert.
Print Assumptions drawing_alt_then_image.
Print Assumptions emit_math.
Print Assumptions math_render_plain.
Print Assumptions math_render_html.
Print Assumptions emit_sym.
Print Assumptions emit_sym_leaf.
Print Assumptions emit_sym_none.
Print Assumptions emit_sym_err.
Print Assumptions sym_render.
Print Assumptions sym_is_add_code.
Print Assumptions sym_into_open_run.
Print Assumptions emit_checkbox.
Print Assumptions emit_checkbox_err.
Print Assumptions emit_checkbox_inert.
Print Assumptions emit_ddlist.
Print Assumptions emit_ddlist_err.
Print Assumptions emit_ddlist_inert.
Print Assumptions checkbox_table_lookup.
Print Assumptions checkbox_values.
Print Assumptions checkbox_checked_val.
Print Assumptions checkbox_checked_noval.
Print Assumptions checkbox_default_val.
Print Assumptions checkbox_failed.
Print Assumptions ddlist_value.
Print Assumptions ddlist_selected.
Print Assumptions ddlist_no_result.
Print Assumptions ddlist_out_of_range.
Print Assumptions ddlist_bad_result.
Print Assumptions emit_text_math.
Print Assumptions emit_text_kids.
Print Assumptions emit_handled_tags.
Print Assumptions handled_dec.
Print Assumptions si_paragraph_plain.
Print Assumptions si_paragraph_html.
Print Assumptions si_drawing_by_theorem.
Print Assumptions si_unresolved_skipped.
Print Assumptions si_checkbox_values.
Print Assumptions si_ddlist_values.
