(* PropGlue.v — small combinations of library lemmas so that property files
   can close every theorem with a bare `exact name.` *)
From Coq Require Import List NArith ZArith.
From D2P Require Import Str Err NumFmt NumFmtFacts.
Import ListNotations.

Lemma c08_decimal : forall z, decimal z = Ok (str_of_Z z) /\ int_of_str (str_of_Z z) = Some z.
Proof. intro z. split; [apply decimal_is_str_of_Z | apply decimal_roundtrip]. Qed.
