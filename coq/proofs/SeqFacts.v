(* SeqFacts.v — the per-paragraph and per-table theorems lifted to whole
   document parts (C02 order, C05 lineage and predicates, C08 counters). *)
From Coq Require Import List NArith ZArith Bool Arith Lia.
From D2P Require Import Str Err Xml TableTypes Tables Fmt NumFmt Bullets Merge Collector Walk
                        Iter Output Predicates.
From D2P Require Import BulletsFacts TokFacts ShapeFacts FrameFacts LineageFacts.
Import ListNotations.
Open Scope N_scope.

(* ================================================================== *)
(* PART 3 — the iterators' predicates                                   *)
(* ================================================================== *)
Lemma is_tbl_spec : forall x,
  is_tbl x = (ps <- iter_at_depth x 3%nat ;;
              match ps with
              | [] => Ok false
              | RA p :: _ => Ok (ostr_eqb (lin_slot 1%nat (p_lineage p)) (Some Predicates.s_tbl))
              | RL _ :: _ => Err AttributeError
              end).
Proof. reflexivity. Qed.

Lemma is_tr_spec : forall x,
  is_tr x = (ps <- iter_at_depth x 2%nat ;;
             match ps with
             | [] => Ok false
             | RA p :: _ => Ok (ostr_eqb (lin_slot 2%nat (p_lineage p)) (Some Predicates.s_tr))
             | RL _ :: _ => Err AttributeError
             end).
Proof. reflexivity. Qed.

Lemma is_tc_spec : forall x,
  is_tc x = (ps <- iter_at_depth x 1%nat ;;
             match ps with
             | [] => Ok false
             | RA p :: _ => Ok (ostr_eqb (lin_slot 3%nat (p_lineage p)) (Some Predicates.s_tc))
             | RL _ :: _ => Err AttributeError
             end).
Proof. reflexivity. Qed.

(* the cell predicate looks at the first paragraph only, unconditionally *)
Lemma is_tc_first_par : forall p more,
  is_tc (RL (RA p :: more))
  = Ok (ostr_eqb (lin_slot 3%nat (p_lineage p)) (Some Predicates.s_tc)).
Proof. intros p more. reflexivity. Qed.

Lemma is_tr_first_par_partial : forall p more rest_cells,
  (exists ps, iter_at_depth (RL (RL (RA p :: more) :: rest_cells)) 2%nat = Ok ps) ->
  is_tr (RL (RL (RA p :: more) :: rest_cells))
  = Ok (ostr_eqb (lin_slot 2%nat (p_lineage p)) (Some Predicates.s_tr)).
Proof.
  intros p more rc [ps H]. rewrite is_tr_spec. revert H.
  unfold iter_at_depth, enum_at_depth. cbn [pred enum_depth enum_from].
  match goal with |- context [enum_from ?f 1%nat rc] => destruct (enum_from f 1%nat rc) as [a|x] end;
    cbn [bind]; [|intro H; discriminate H].
  intros _. cbn [length seq combine map app fst snd bind]. reflexivity.
Qed.

Lemma is_tbl_first_par_partial : forall p more rest_cells rest_rows,
  (exists ps, iter_at_depth (RL (RL (RL (RA p :: more) :: rest_cells) :: rest_rows)) 3%nat = Ok ps) ->
  is_tbl (RL (RL (RL (RA p :: more) :: rest_cells) :: rest_rows))
  = Ok (ostr_eqb (lin_slot 1%nat (p_lineage p)) (Some Predicates.s_tbl)).
Proof.
  intros p more rc rr [ps H]. rewrite is_tbl_spec. revert H.
  unfold iter_at_depth, enum_at_depth. cbn [pred enum_depth enum_from].
  match goal with |- context [enum_from ?f 1%nat rc] => destruct (enum_from f 1%nat rc) as [a|x] end;
    cbn [bind]; [|intro H; discriminate H].
  match goal with |- context [enum_from ?f 1%nat rr] => destruct (enum_from f 1%nat rr) as [b|x] end;
    cbn [bind]; [|intro H; discriminate H].
  intros _. cbn [length seq combine map app fst snd bind]. reflexivity.
Qed.

(* COUNTEREXAMPLE to the unconditional "first paragraph only" statement for
   is_tbl / is_tr: iter_at_depth is modelled eagerly, so an item that is not
   a list further along the same level makes the predicate raise TypeError
   even though the first paragraph is there.  Hence the hypothesis
   [exists ps, iter_at_depth x d = Ok ps] of the two _partial lemmas above;
   for is_tc no hypothesis is needed (is_tc_first_par). *)
Lemma predicates_first_par_general_counterexample :
  is_tbl (RL [RL [RL [RA new_empty_par]]; RA new_empty_par]) = Err TypeError /\
  is_tr (RL [RL [RA new_empty_par]; RA new_empty_par]) = Err TypeError.
Proof. split; vm_compute; reflexivity. Qed.

Lemma predicates_first_par_general_partial : forall rest_cells rest_rows p more,
  (exists ps, iter_at_depth (RL (RL (RL (RA p :: more) :: rest_cells) :: rest_rows)) 3%nat = Ok ps) ->
  is_tbl (RL (RL (RL (RA p :: more) :: rest_cells) :: rest_rows))
  = Ok (ostr_eqb (lin_slot 1%nat (p_lineage p)) (Some Predicates.s_tbl)).
Proof. intros rc rr p more H. apply is_tbl_first_par_partial. exact H. Qed.

Lemma predicates_true_for_cell_pars : forall p,
  (exists x, p_lineage p = (Some Predicates.s_tbl, Some Predicates.s_tr, Some Predicates.s_tc, Some x)) ->
  is_tc (RL [RA p]) = Ok true /\ is_tr (RL [RL [RA p]]) = Ok true
  /\ is_tbl (RL [RL [RL [RA p]]]) = Ok true.
Proof.
  intros p [x H].
  rewrite is_tc_first_par, is_tr_first_par_partial, is_tbl_first_par_partial
    by (eexists; reflexivity).
  rewrite H. repeat split; reflexivity.
Qed.

Lemma predicates_false_for_free_pars : forall p,
  lin_slot 1%nat (p_lineage p) = None -> lin_slot 2%nat (p_lineage p) = None ->
  lin_slot 3%nat (p_lineage p) = None ->
  is_tc (RL [RA p]) = Ok false /\ is_tr (RL [RL [RA p]]) = Ok false
  /\ is_tbl (RL [RL [RL [RA p]]]) = Ok false.
Proof.
  intros p H1 H2 H3.
  rewrite is_tc_first_par, is_tr_first_par_partial, is_tbl_first_par_partial
    by (eexists; reflexivity).
  rewrite H1, H2, H3. repeat split; reflexivity.
Qed.

Lemma predicates_empty :
  is_tbl (RL []) = Ok false /\ is_tr (RL []) = Ok false /\ is_tc (RL []) = Ok false
  /\ is_tbl (RL [RL []]) = Ok false.
Proof. repeat split; reflexivity. Qed.

(* the register slots of LineageFacts and of Predicates are the same function *)
Lemma lin_slot_slot : forall i l, lin_slot i l = slot i l.
Proof. intros i [[[a b] c] d]. reflexivity. Qed.

(* a cell paragraph of a flat table (LineageFacts.cell_par_ok, first case)
   makes all three predicates true; a paragraph recorded with empty slots 1-3
   makes them false *)
Lemma cell_par_predicates : forall p,
  (exists x, p_lineage p = (Some [116;98;108], Some [116;114], Some [116;99], Some x)) ->
  is_tc (RL [RA p]) = Ok true /\ is_tr (RL [RL [RA p]]) = Ok true
  /\ is_tbl (RL [RL [RL [RA p]]]) = Ok true.
Proof. exact predicates_true_for_cell_pars. Qed.

(* ================================================================== *)
(* PART 1 — a sequence of simple paragraphs                             *)
(* ================================================================== *)
Definition par_fmt (t : anode) : option item :=
  match get_bullet_fmt t with (Some n, Some l) => Some (n, l) | _ => None end.

(* a paragraph with no numPr, or with only one of numId / ilvl, is a None
   step of the history fold *)
Lemma step_par_fmt tbl cs t :
  fst (get_par_number tbl cs (get_bullet_fmt t)) = step tbl cs (par_fmt t).
Proof. unfold par_fmt. destruct (get_bullet_fmt t) as [[n|] [l|]]; reflexivity. Qed.

Lemma inv_pars_at s : Inv s -> exists ps, pars_at 4%nat (c_tree s) = Ok ps.
Proof.
  intros (T & _). apply (shape_pars_at 4%nat 1%nat (c_tree s)); [lia|lia|exact T].
Qed.

(* COUNTEREXAMPLE to the clause
     forall n, nth_error (map p_elem new) n = Some (Some ((i + n) :: path))
   as first proposed: it cannot hold for n beyond the end of the list (empty
   child list, n = 0).  The clause is proved for n < length ks. *)
Lemma kids_of_simple_pars_counterexample :
  ~ (forall v ks path i s s' ps,
      forallb simple_par ks = true -> Inv s -> c_open s = [] ->
      kids_loop v path ks i s = Ok s' ->
      pars_at 4%nat (c_tree s) = Ok ps ->
      exists new, pars_at 4%nat (c_tree s') = Ok (ps ++ new)
        /\ length new = length ks
        /\ (forall n, nth_error (map p_elem new) n = Some (Some ((i + n)%nat :: path)))).
Proof.
  intro H.
  destruct (H cx_env [] [] 0%nat init_cst init_cst [] eq_refl init_inv eq_refl eq_refl eq_refl)
    as (new & _ & L & N).
  destruct new as [|p new]; [|discriminate L]. specialize (N 0%nat). discriminate N.
Qed.

Lemma kids_of_simple_pars_partial : forall v ks path i s s' ps,
  forallb simple_par ks = true -> Inv s -> c_open s = [] ->
  kids_loop v path ks i s = Ok s' ->
  pars_at 4%nat (c_tree s) = Ok ps ->
  exists new, pars_at 4%nat (c_tree s') = Ok (ps ++ new)
    /\ length new = length ks
    /\ Forall2 (fun k p => exists e eks j, k = AE e eks /\ p_elem p = Some (j :: path)
                                          /\ get_pStyle e eks = Ok (p_style p)) ks new
    /\ (forall n, (n < length ks)%nat ->
                  nth_error (map p_elem new) n = Some (Some ((i + n)%nat :: path)))
    /\ c_open s' = [] /\ Inv s'.
Proof.
  intros v ks. induction ks as [|k r IH]; intros path i s s' ps Hf Hi Ho H Hps;
    cbn [kids_loop] in H.
  - injection H as <-. exists []. rewrite app_nil_r.
    split; [exact Hps|]. split; [reflexivity|]. split; [constructor|].
    split; [|auto]. intros n Hn. cbn in Hn. lia.
  - cbn [forallb] in Hf. apply andb_true_iff in Hf. destruct Hf as [Hk Hr].
    bind_inv H as s1 E1. destruct k as [e eks|tl]; [|discriminate Hk].
    destruct (simple_par_walk _ _ _ _ _ _ _ Hk Hi E1 Hps)
      as (p & Hp & O1 & _ & _ & _ & Pe & _ & Pst & _).
    pose proof (walk_inv _ _ _ _ _ Hi E1) as I1.
    rewrite Ho in O1.
    destruct (IH path (S i) s1 s' (ps ++ [p]) Hr I1 O1 H Hp)
      as (new & Hn & Ln & F2 & Nth & Oo & Ii).
    exists (p :: new). split; [rewrite Hn, <- app_assoc; reflexivity|].
    split; [cbn [length]; rewrite Ln; reflexivity|].
    split; [constructor; [exists e, eks, i; auto|exact F2]|].
    split; [|auto].
    intros [|n] Hlt; cbn [map nth_error].
    + rewrite Pe, Nat.add_0_r. reflexivity.
    + cbn [length] in Hlt. rewrite Nth by lia. rewrite Nat.add_succ_r. reflexivity.
Qed.

Lemma nth_error_ext' {A} : forall (l l' : list A),
  (forall n, nth_error l n = nth_error l' n) -> l = l'.
Proof.
  induction l as [|x l IH]; intros [|y l'] H; try reflexivity;
    try (specialize (H 0%nat); discriminate H).
  pose proof (H 0%nat) as H0. cbn in H0. injection H0 as <-.
  f_equal. apply IH. intro n. exact (H (S n)).
Qed.

(* the same order fact as one equation *)
Lemma kids_of_simple_pars_elems : forall v ks path i s s' ps,
  forallb simple_par ks = true -> Inv s -> c_open s = [] ->
  kids_loop v path ks i s = Ok s' ->
  pars_at 4%nat (c_tree s) = Ok ps ->
  exists new, pars_at 4%nat (c_tree s') = Ok (ps ++ new)
    /\ map p_elem new = map (fun n => Some ((i + n)%nat :: path)) (seq 0%nat (length ks)).
Proof.
  intros v ks path i s s' ps Hf Hi Ho H Hps.
  destruct (kids_of_simple_pars_partial _ _ _ _ _ _ _ Hf Hi Ho H Hps)
    as (new & Hn & L & _ & N & _).
  exists new. split; [exact Hn|].
  apply nth_error_ext'. intro n.
  destruct (Nat.lt_ge_cases n (length ks)) as [Hlt|Hge].
  - rewrite (N n Hlt).
    assert (E : nth_error (seq 0%nat (length ks)) n = Some n).
    { rewrite (nth_error_nth' _ 0%nat) by (rewrite seq_length; exact Hlt).
      rewrite seq_nth by exact Hlt. reflexivity. }
    rewrite (map_nth_error _ _ _ E). reflexivity.
  - rewrite (proj2 (nth_error_None _ _)) by (rewrite map_length, L; exact Hge).
    rewrite (proj2 (nth_error_None _ _)) by (rewrite map_length, seq_length; exact Hge).
    reflexivity.
Qed.

Lemma counters_of_simple_pars : forall v ks path i s s',
  forallb simple_par ks = true -> Inv s -> c_open s = [] ->
  kids_loop v path ks i s = Ok s' ->
  c_counters s' = fold_left (step (to_numtable v)) (map par_fmt ks) (c_counters s).
Proof.
  intros v ks. induction ks as [|k r IH]; intros path i s s' Hf Hi Ho H; cbn [kids_loop] in H.
  - injection H as <-. reflexivity.
  - cbn [forallb] in Hf. apply andb_true_iff in Hf. destruct Hf as [Hk Hr].
    bind_inv H as s1 E1. destruct k as [e eks|tl]; [|discriminate Hk].
    destruct (inv_pars_at s Hi) as [ps Hps].
    destruct (simple_par_walk _ _ _ _ _ _ _ Hk Hi E1 Hps)
      as (p & Hp & O1 & _ & _ & _ & _ & _ & _ & _ & (bl & number & cs & Epn & _ & Ecs & _)).
    pose proof (walk_inv _ _ _ _ _ Hi E1) as I1.
    rewrite Ho in O1.
    rewrite (IH path (S i) s1 s' Hr I1 O1 H). cbn [map fold_left].
    rewrite <- step_par_fmt, Epn, Ecs. reflexivity.
Qed.

Corollary counter_of_nth_item : forall v ks path i s s' numId ilvl,
  forallb simple_par ks = true -> Inv s -> c_open s = [] -> c_counters s = [] ->
  kids_loop v path ks i s = Ok s' ->
  count_of (c_counters s') numId ilvl = spec_rev (items_rev (map par_fmt ks) []) numId ilvl.
Proof.
  intros v ks path i s s' numId ilvl Hf Hi Ho Hc H.
  rewrite (counters_of_simple_pars _ _ _ _ _ _ Hf Hi Ho H), Hc.
  apply (counters_spec (to_numtable v) (map par_fmt ks) numId ilvl).
Qed.

(* ================================================================== *)
(* PART 2 — a body of paragraphs and flat tables                        *)
(* ================================================================== *)
Definition tbl_named (t : anode) : bool :=
  match t with AE e _ => str_eqb (e_local e) [116;98;108] | AX _ => false end.
Definition block (t : anode) : bool :=
  simple_par t || (flat_tbl t && names_ok t && tbl_named t).

Lemma block_cases t : block t = true ->
  simple_par t = true \/
  (flat_tbl t = true /\ names_ok t = true /\
   forall e ks, t = AE e ks -> e_local e = [116;98;108]).
Proof.
  unfold block. intro H. apply orb_true_iff in H. destruct H as [H|H]; [left; exact H|right].
  apply andb_true_iff in H. destruct H as [H Hn]. apply andb_true_iff in H. destruct H as [Hf Hk].
  split; [exact Hf|]. split; [exact Hk|].
  intros e ks ->. cbn [tbl_named] in Hn. apply str_eqb_eq in Hn. exact Hn.
Qed.

Definition par_or_cell (p : par) : Prop :=
  cell_par_ok p \/ exists a b c x, p_lineage p = (a, b, c, Some x).

(* paragraph records are only ever appended, whatever is open *)
Lemma blocks_walk_pars : forall v ks path i s s' ps,
  forallb block ks = true -> Inv s -> kids_loop v path ks i s = Ok s' ->
  pars_at 4%nat (c_tree s) = Ok ps ->
  exists new, pars_at 4%nat (c_tree s') = Ok (ps ++ new) /\ Inv s' /\ Forall par_or_cell new.
Proof.
  intros v ks. induction ks as [|k r IH]; intros path i s s' ps Hf Hi H Hps;
    cbn [kids_loop] in H.
  - injection H as <-. exists []. rewrite app_nil_r. split; [exact Hps|]. split; [exact Hi|constructor].
  - cbn [forallb] in Hf. apply andb_true_iff in Hf. destruct Hf as [Hk Hr].
    bind_inv H as s1 E1.
    pose proof (walk_inv _ _ _ _ _ Hi E1) as I1.
    assert (S1 : exists n1, pars_at 4%nat (c_tree s1) = Ok (ps ++ n1) /\ Forall par_or_cell n1).
    { destruct (block_cases k Hk) as [Hsp|(Hft & Hnm & Hloc)].
      - destruct k as [e eks|tl]; [|discriminate Hsp].
        destruct (simple_par_lineage _ _ _ _ _ _ _ Hsp Hi E1 Hps) as (p & Hp & Lp).
        exists [p]. split; [exact Hp|]. constructor; [|constructor].
        right. rewrite Lp. eauto.
      - destruct (flat_tbl_lineage _ _ _ _ _ _ Hft Hi E1 Hps Hloc Hnm) as (n1 & Hp & Hc).
        exists n1. split; [exact Hp|].
        eapply Forall_impl; [|exact Hc]. intros p Hpc. left. exact Hpc. }
    destruct S1 as (n1 & Hp1 & F1).
    destruct (IH path (S i) s1 s' (ps ++ n1) Hr I1 H Hp1) as (n2 & Hp2 & I2 & F2).
    exists (n1 ++ n2). split; [rewrite Hp2, app_assoc; reflexivity|]. split; [exact I2|].
    apply Forall_app. split; assumption.
Qed.

(* ---------- the register: no free paragraph reports tbl ---------- *)
Lemma tbl_closed_clears_slot1 : forall v t path s s',
  flat_tbl t = true -> Inv s -> walk v path t s = Ok s' -> slot 1%nat (c_lineage s') = None.
Proof.
  intros v t path s s' Hf _ H. pose proof (flat_tbl_depth t Hf) as Hd.
  destruct t as [e ks|tl]; [|discriminate Hf].
  apply walk_AE_inv in H. destruct H as (s1 & body & s2 & b & s3 & s4 & _ & _ & _ & _ & E5).
  rewrite Hd in E5. apply set_caret_lin in E5. exact (proj1 E5).
Qed.

Lemma simple_par_keeps_slot1 : forall v e ks path s s',
  simple_par (AE e ks) = true -> Inv s -> walk v path (AE e ks) s = Ok s' ->
  slot 1%nat (c_lineage s') = slot 1%nat (c_lineage s).
Proof.
  intros v e ks path s s' Hsp _ H.
  destruct (simple_par_core _ _ _ _ _ _ Hsp H) as (s1 & p & t & _ & _ & _ & _ & _ & K).
  apply K. discriminate.
Qed.

(* c_open plays no part in the register *)
Lemma slot1_after_blocks : forall v ks path i s s',
  forallb block ks = true -> Inv s -> slot 1%nat (c_lineage s) = None ->
  kids_loop v path ks i s = Ok s' -> slot 1%nat (c_lineage s') = None.
Proof.
  intros v ks. induction ks as [|k r IH]; intros path i s s' Hf Hi Hs H; cbn [kids_loop] in H.
  - injection H as <-. exact Hs.
  - cbn [forallb] in Hf. apply andb_true_iff in Hf. destruct Hf as [Hk Hr].
    bind_inv H as s1 E1.
    pose proof (walk_inv _ _ _ _ _ Hi E1) as I1.
    apply (IH path (S i) s1 s' Hr I1); [|exact H].
    destruct (block_cases k Hk) as [Hsp|(Hft & _)].
    + destruct k as [e eks|tl]; [|discriminate Hsp].
      rewrite (simple_par_keeps_slot1 _ _ _ _ _ _ Hsp Hi E1). exact Hs.
    + exact (tbl_closed_clears_slot1 _ _ _ _ _ Hft Hi E1).
Qed.

Lemma free_par_after_blocks : forall v ks path i s s',
  forallb block ks = true -> Inv s -> c_open s = [] -> slot 1%nat (c_lineage s) = None ->
  kids_loop v path ks i s = Ok s' -> slot 1%nat (c_lineage s') = None.
Proof.
  intros v ks path i s s' Hf Hi _ Hs H. exact (slot1_after_blocks _ _ _ _ _ _ Hf Hi Hs H).
Qed.

(* in a body that starts outside every table, each new record is a cell
   paragraph of a table or a free paragraph whose slot 1 is empty: no
   paragraph outside every table reports tbl *)
Definition free_or_cell (p : par) : Prop :=
  cell_par_ok p \/ exists b c x, p_lineage p = (None, b, c, Some x).

Lemma blocks_walk_free : forall v ks path i s s' ps,
  forallb block ks = true -> Inv s -> slot 1%nat (c_lineage s) = None ->
  kids_loop v path ks i s = Ok s' -> pars_at 4%nat (c_tree s) = Ok ps ->
  exists new, pars_at 4%nat (c_tree s') = Ok (ps ++ new) /\ Inv s'
    /\ slot 1%nat (c_lineage s') = None /\ Forall free_or_cell new.
Proof.
  intros v ks. induction ks as [|k r IH]; intros path i s s' ps Hf Hi Hs H Hps;
    cbn [kids_loop] in H.
  - injection H as <-. exists []. rewrite app_nil_r. split; [exact Hps|]. split; [exact Hi|].
    split; [exact Hs|constructor].
  - cbn [forallb] in Hf. apply andb_true_iff in Hf. destruct Hf as [Hk Hr].
    bind_inv H as s1 E1.
    pose proof (walk_inv _ _ _ _ _ Hi E1) as I1.
    assert (S1 : slot 1%nat (c_lineage s1) = None /\
                 exists n1, pars_at 4%nat (c_tree s1) = Ok (ps ++ n1) /\ Forall free_or_cell n1).
    { destruct (block_cases k Hk) as [Hsp|(Hft & Hnm & Hloc)].
      - destruct k as [e eks|tl]; [|discriminate Hsp].
        split; [rewrite (simple_par_keeps_slot1 _ _ _ _ _ _ Hsp Hi E1); exact Hs|].
        destruct (simple_par_lineage _ _ _ _ _ _ _ Hsp Hi E1 Hps) as (p & Hp & Lp).
        exists [p]. split; [exact Hp|]. constructor; [|constructor].
        right. rewrite Lp, Hs. eauto.
      - split; [exact (tbl_closed_clears_slot1 _ _ _ _ _ Hft Hi E1)|].
        destruct (flat_tbl_lineage _ _ _ _ _ _ Hft Hi E1 Hps Hloc Hnm) as (n1 & Hp & Hc).
        exists n1. split; [exact Hp|].
        eapply Forall_impl; [|exact Hc]. intros p Hpc. left. exact Hpc. }
    destruct S1 as (Hs1 & n1 & Hp1 & F1).
    destruct (IH path (S i) s1 s' (ps ++ n1) Hr I1 Hs1 H Hp1) as (n2 & Hp2 & I2 & Hs2 & F2).
    exists (n1 ++ n2). split; [rewrite Hp2, app_assoc; reflexivity|]. split; [exact I2|].
    split; [exact Hs2|]. apply Forall_app. split; assumption.
Qed.

(* the table predicate separates the two kinds of record *)
Lemma free_or_cell_is_tbl : forall p, free_or_cell p ->
  p_lineage p <> (Some [], Some [], Some [], Some []) ->
  (is_tbl (RL [RL [RL [RA p]]]) = Ok true <->
   exists x, p_lineage p = (Some [116;98;108], Some [116;114], Some [116;99], Some x)).
Proof.
  intros p H Hne.
  rewrite is_tbl_first_par_partial by (eexists; reflexivity).
  destruct H as [[[x Hx]|He]|(b & c & x & Hx)].
  - rewrite Hx. split; [intros _; exists x; reflexivity|reflexivity].
  - contradiction.
  - rewrite Hx. split; [intro H; discriminate H|intros [y Hy]; discriminate Hy].
Qed.

(* ---------- the stack of open paragraphs ---------- *)
(* COUNTEREXAMPLE to "walking a flat table preserves c_open = []": flat_cell
   allows any plain inline child next to the paragraphs of a cell; a w:tab
   directly under w:tc opens an implicit paragraph (ensure_par) that no
   closing tag concludes, so it is still open after the table.  The walk
   therefore keeps the stack only for tables whose non-paragraph elements
   have no handler ([quiet] below). *)
Definition cx_tbl2 : anode :=
  AE (cx_einfo tag_TABLE LineageFacts.s_tbl [])
     [AE (cx_einfo tag_TABLE_ROW LineageFacts.s_tr [])
         [AE (cx_einfo tag_TABLE_CELL LineageFacts.s_tc [])
             [AE (cx_einfo tag_TAB [116;97;98] []) [];
              AE (cx_einfo tag_PARAGRAPH [112] []) []]]].

Lemma blocks_walk_counterexample :
  forallb block [cx_tbl2] = true /\ Inv init_cst /\ c_open init_cst = [] /\
  exists s', kids_loop cx_env [] [cx_tbl2] 0%nat init_cst = Ok s' /\ c_open s' <> [].
Proof.
  split; [vm_compute; reflexivity|]. split; [exact init_inv|]. split; [reflexivity|].
  eexists. split; [vm_compute; reflexivity|]. vm_compute. discriminate.
Qed.

(* the tags TagRunner.open has a method for *)
Definition handler_tags : list str :=
  [tag_PARAGRAPH; tag_RUN; tag_COMMENT_RANGE_END; tag_COMMENT_RANGE_START; tag_TEXT;
   tag_TEXT_MATH; tag_MATH; tag_BR; tag_SYM; tag_FOOTNOTE; tag_ENDNOTE; tag_HYPERLINK;
   tag_FORM_CHECKBOX; tag_FORM_DDLIST; tag_FOOTNOTE_REFERENCE; tag_ENDNOTE_REFERENCE;
   tag_IMAGE; tag_IMAGE_ALT; tag_IMAGEDATA; tag_TAB].

(* simple paragraphs, and around them only elements without an open handler
   (w:tbl, w:tr, w:tc, w:tblPr, w:tcPr, w:body, ...) *)
Fixpoint quiet (t : anode) : bool :=
  match t with
  | AX _ => true
  | AE e ks => simple_par t || (negb (mem_str (e_ptag e) handler_tags) && forallb quiet ks)
  end.

Lemma open_tag_passive v path t e ks body s :
  mem_str (e_ptag e) handler_tags = false -> open_tag v path t e ks body s = Ok (s, true).
Proof.
  intro H. unfold handler_tags in H. cbn [mem_str] in H.
  repeat (apply orb_false_iff in H; let H1 := fresh "H" in destruct H as [H1 H]).
  unfold open_tag. cbv zeta.
  repeat match goal with Hx : str_eqb (e_ptag e) _ = false |- _ => rewrite Hx; clear Hx end.
  reflexivity.
Qed.

Lemma passive_not_par_run tg :
  mem_str tg handler_tags = false ->
  str_eqb tg tag_PARAGRAPH = false /\ str_eqb tg tag_RUN = false.
Proof.
  intro H. unfold handler_tags in H. cbn [mem_str] in H.
  apply orb_false_iff in H. destruct H as [H1 H].
  apply orb_false_iff in H. destruct H as [H2 _]. auto.
Qed.

Lemma set_caret_open d name s s' : set_caret d name s = Ok s' -> c_open s' = c_open s.
Proof.
  destruct d as [d|]; intro H.
  - apply set_caret_frame in H. destruct H as ((O & _) & _). exact O.
  - cbn in H. injection H as <-. reflexivity.
Qed.

Lemma close_table_cell_open v e ks s s' :
  close_table_cell v e ks s = Ok s' -> c_open s' = c_open s.
Proof.
  intro H. unfold close_table_cell in H.
  bind_inv H as pr Epr. cbv zeta in H.
  (* the two early returns of the repaired _close_table_cell *)
  destruct (c_tree s) as [|tb0 root0] eqn:Eroot0; [injection H as <-; reflexivity|].
  rewrite <- Eroot0 in H.
  bind_inv H as rows0 Erows0.
  destruct rows0 as [|rb0 rows1] eqn:Erows1; [injection H as <-; reflexivity|].
  rewrite <- Erows1 in H.
  bind_inv H as dummy Edummy.
  bind_inv H as s1 Es1. bind_inv H as span Espan.
  assert (K1 : c_open s1 = c_open s).
  { clear H Espan.
    match type of Es1 with (if ?c then _ else _) = _ => destruct c end.
    - bind_inv Es1 as sa Esa. bind_inv Es1 as t Et. bind_inv Es1 as rows Er.
      bind_inv Es1 as prev Ep. bind_inv Es1 as cells Ec. cbv zeta in Es1.
      apply set_caret_open in Esa.
      destruct cells as [|cell0 cells0]; [injection Es1 as <-; exact Esa|].
      destruct (py_nth (rev prev) (Z.of_nat (length (cell0 :: cells0)) - 1)) as [src|];
        [|injection Es1 as <-; exact Esa].
      bind_inv Es1 as root' Eroot. injection Es1 as <-. exact Esa.
    - injection Es1 as <-. reflexivity. }
  clear Es1 Espan. revert s1 K1 H. generalize (Z.to_nat (span - 1)).
  induction n as [|n IH]; intros s1 K1 H.
  - injection H as <-. exact K1.
  - cbn [bind] in H. bind_inv H as sa Esa. bind_inv H as root' Eroot.
    eapply IH; [|exact H]. cbn [c_open set_tree].
    apply set_caret_open in Esa. rewrite Esa. exact K1.
Qed.

Lemma quiet_walk_open v : forall t, quiet t = true ->
  forall path s s', Inv s -> walk v path t s = Ok s' -> c_open s' = c_open s.
Proof.
  apply (ShapeFacts.anode_ind'
           (fun t => quiet t = true ->
                     forall path s s', Inv s -> walk v path t s = Ok s' -> c_open s' = c_open s)).
  - intros tl _ path s s' _ H. cbn in H. injection H as <-. reflexivity.
  - intros e ks IH Hq path s s' Hi H.
    cbn [quiet] in Hq. destruct (simple_par (AE e ks)) eqn:Hsp.
    + destruct (inv_pars_at s Hi) as [ps Hps].
      destruct (simple_par_walk _ _ _ _ _ _ _ Hsp Hi H Hps) as (p & _ & O & _). exact O.
    + cbn [orb] in Hq. apply andb_true_iff in Hq. destruct Hq as [Hm Hks].
      apply negb_true_iff in Hm.
      apply walk_AE_inv in H.
      destruct H as (s1 & body & s2 & b & s3 & s4 & E1 & Eo & Ek & Ec & E5).
      rewrite (open_tag_passive _ _ _ _ _ _ _ Hm) in Eo. injection Eo as <- <-.
      pose proof (set_caret_open _ _ _ _ E1) as O1.
      pose proof (good_ok_inv _ _ _ (set_caret_good _ _ _ (elem_depth_range (AE e ks)) Hi) E1)
        as I1.
      assert (R3 : Inv s3 /\ c_open s3 = c_open s1).
      { eapply (kids_loop_inv (fun s0 => Inv s0 /\ c_open s0 = c_open s1));
          [|split; [exact I1|reflexivity]|exact Ek].
        intros k Hk path' sa sb [Ia Oa] Hw.
        split; [eapply walk_inv; eauto|].
        rewrite <- Oa.
        apply (proj1 (Forall_forall _ _) IH k Hk
                 (proj1 (forallb_forall _ _) Hks k Hk) path' sa sb Ia Hw). }
      destruct R3 as [I3 O3].
      destruct (passive_not_par_run _ Hm) as [Hp Hr].
      assert (O4 : c_open s4 = c_open s3).
      { unfold close_tag in Ec. cbv zeta in Ec. rewrite Hp, Hr in Ec.
        destruct (str_eqb (e_ptag e) tag_TABLE_CELL).
        - exact (close_table_cell_open _ _ _ _ _ Ec).
        - injection Ec as <-. reflexivity. }
      rewrite (set_caret_open _ _ _ _ E5), O4, O3, O1. reflexivity.
Qed.

Lemma quiet_kids_open v : forall ks path i s s',
  forallb quiet ks = true -> Inv s -> kids_loop v path ks i s = Ok s' -> c_open s' = c_open s.
Proof.
  induction ks as [|k r IH]; intros path i s s' Hq Hi H; cbn [kids_loop] in H.
  - injection H as <-. reflexivity.
  - cbn [forallb] in Hq. apply andb_true_iff in Hq. destruct Hq as [Hk Hr].
    bind_inv H as s1 E1.
    rewrite (IH path (S i) s1 s' Hr (walk_inv _ _ _ _ _ Hi E1) H).
    exact (quiet_walk_open v k Hk _ _ _ Hi E1).
Qed.

(* the proposed blocks_walk, with the extra hypothesis [forallb quiet ks] *)
Lemma blocks_walk_partial : forall v ks path i s s' ps,
  forallb block ks = true -> forallb quiet ks = true -> Inv s -> c_open s = [] ->
  kids_loop v path ks i s = Ok s' -> pars_at 4%nat (c_tree s) = Ok ps ->
  exists new, pars_at 4%nat (c_tree s') = Ok (ps ++ new) /\ c_open s' = [] /\ Inv s'
    /\ Forall (fun p => cell_par_ok p \/ exists a b c x, p_lineage p = (a, b, c, Some x)) new.
Proof.
  intros v ks path i s s' ps Hb Hq Hi Ho H Hps.
  destruct (blocks_walk_pars _ _ _ _ _ _ _ Hb Hi H Hps) as (new & Hn & I' & F).
  exists new. split; [exact Hn|]. split; [|split; [exact I'|exact F]].
  rewrite (quiet_kids_open _ _ _ _ _ _ Hq Hi H). exact Ho.
Qed.

(* a flat table keeps the stack when it is quiet *)
Lemma flat_tbl_keeps_open : forall v t path s s',
  flat_tbl t = true -> quiet t = true -> Inv s -> walk v path t s = Ok s' ->
  c_open s' = c_open s.
Proof. intros v t path s s' _ Hq Hi H. exact (quiet_walk_open v t Hq _ _ _ Hi H). Qed.

(* non-vacuity: the example table of LineageFacts is a quiet block *)
Lemma quiet_block_example : block ex_tbl = true /\ quiet ex_tbl = true.
Proof. split; vm_compute; reflexivity. Qed.

(* ================================================================== *)
(* Whole parts: the element that holds the blocks (w:body, w:document)  *)
(* ================================================================== *)
(* an element without depth and without handlers is its children loop *)
Lemma walk_container v path e ks s :
  elem_depth (AE e ks) = None -> mem_str (e_ptag e) handler_tags = false ->
  str_eqb (e_ptag e) tag_TABLE_CELL = false ->
  walk v path (AE e ks) s = kids_loop v path ks 0%nat s.
Proof.
  intros Hd Hm Htc. destruct (passive_not_par_run _ Hm) as [Hp Hr].
  assert (Hh : str_eqb (e_ptag e) tag_HYPERLINK = false).
  { unfold handler_tags in Hm. cbn [mem_str] in Hm.
    repeat (apply orb_false_iff in Hm; let H1 := fresh "H" in destruct Hm as [H1 Hm]).
    assumption. }
  rewrite walk_AE. cbv zeta. rewrite Hd. cbn [set_caret bind]. rewrite Hh. cbn [bind].
  rewrite (open_tag_passive _ _ _ _ _ _ _ Hm). cbn [bind].
  unfold close_tag. cbv zeta. rewrite Hp, Hr, Htc.
  destruct (kids_loop v path ks 0%nat s); reflexivity.
Qed.

Lemma depth_none_passive tg : mem_str tg depth_none_tags = true ->
  mem_str tg handler_tags = false /\ str_eqb tg tag_TABLE_CELL = false.
Proof.
  intro H. apply mem_str_In in H. unfold depth_none_tags in H. cbn [In] in H.
  destruct H as [<-|[<-|[]]]; split; reflexivity.
Qed.

Lemma walk_body v path e ks s :
  mem_str (e_ptag e) depth_none_tags = true ->
  walk v path (AE e ks) s = kids_loop v path ks 0%nat s.
Proof.
  intro H. destruct (depth_none_passive _ H) as [Hm Htc].
  apply walk_container; [|exact Hm|exact Htc].
  unfold elem_depth. rewrite H. reflexivity.
Qed.

Lemma kids_simple_queued v : forall ks path i s s',
  forallb simple_par ks = true -> Inv s -> c_queued s = [] ->
  kids_loop v path ks i s = Ok s' -> c_queued s' = [].
Proof.
  induction ks as [|k r IH]; intros path i s s' Hf Hi Hq H; cbn [kids_loop] in H.
  - injection H as <-. exact Hq.
  - cbn [forallb] in Hf. apply andb_true_iff in Hf. destruct Hf as [Hk Hr].
    bind_inv H as s1 E1. destruct k as [e eks|tl]; [|discriminate Hk].
    destruct (inv_pars_at s Hi) as [ps Hps].
    destruct (simple_par_walk _ _ _ _ _ _ _ Hk Hi E1 Hps) as (p & _ & _ & Q1 & _).
    exact (IH path (S i) s1 s' Hr (walk_inv _ _ _ _ _ Hi E1) Q1 H).
Qed.

(* C02 + C08 for a whole part whose body is a run of simple paragraphs: the
   extracted records are the paragraphs in document order, the n-th record
   points at the n-th child, and the counters are the specification *)
Theorem collect_body_of_simple_pars : forall v e ks path s',
  mem_str (e_ptag e) depth_none_tags = true -> forallb simple_par ks = true ->
  collect_from v path (AE e ks) = Ok s' ->
  exists new, pars_at 4%nat (c_tree s') = Ok new
    /\ map p_elem new = map (fun n => Some (n :: path)) (seq 0%nat (length ks))
    /\ forall numId ilvl,
         count_of (c_counters s') numId ilvl
         = spec_rev (items_rev (map par_fmt ks) []) numId ilvl.
Proof.
  intros v e ks path s' Hb Hf H. unfold collect_from in H. bind_inv H as s1 E1.
  rewrite (walk_body _ _ _ _ _ Hb) in E1.
  destruct (kids_of_simple_pars_partial _ _ _ _ _ _ [] Hf init_inv eq_refl E1 eq_refl)
    as (new0 & _ & _ & _ & _ & O1 & I1).
  pose proof (kids_simple_queued _ _ _ _ _ _ Hf init_inv eq_refl E1) as Q1.
  unfold finish in H. rewrite Q1 in H. cbn [bind] in H.
  unfold conclude_paragraph in H. rewrite O1 in H. injection H as <-.
  destruct (kids_of_simple_pars_elems _ _ _ _ _ _ [] Hf init_inv eq_refl E1 eq_refl)
    as (new & Hn & Hel).
  exists new. split; [exact Hn|]. split; [exact Hel|].
  intros numId ilvl.
  exact (counter_of_nth_item _ _ _ _ _ _ numId ilvl Hf init_inv eq_refl eq_refl E1).
Qed.

(* C02 + C05 for a part whose body is paragraphs and flat tables *)
Theorem body_of_blocks : forall v e ks path s',
  mem_str (e_ptag e) depth_none_tags = true -> forallb block ks = true ->
  walk v path (AE e ks) init_cst = Ok s' ->
  exists new, pars_at 4%nat (c_tree s') = Ok new /\ Inv s'
    /\ slot 1%nat (c_lineage s') = None /\ Forall free_or_cell new.
Proof.
  intros v e ks path s' Hb Hf H. rewrite (walk_body _ _ _ _ _ Hb) in H.
  exact (blocks_walk_free _ _ _ _ _ _ [] Hf init_inv eq_refl H eq_refl).
Qed.

Print Assumptions is_tbl_spec.
Print Assumptions is_tr_spec.
Print Assumptions is_tc_spec.
Print Assumptions is_tc_first_par.
Print Assumptions is_tr_first_par_partial.
Print Assumptions is_tbl_first_par_partial.
Print Assumptions predicates_first_par_general_counterexample.
Print Assumptions predicates_first_par_general_partial.
Print Assumptions predicates_true_for_cell_pars.
Print Assumptions predicates_false_for_free_pars.
Print Assumptions predicates_empty.
Print Assumptions free_or_cell_is_tbl.
Print Assumptions kids_of_simple_pars_counterexample.
Print Assumptions kids_of_simple_pars_partial.
Print Assumptions kids_of_simple_pars_elems.
Print Assumptions counters_of_simple_pars.
Print Assumptions counter_of_nth_item.
Print Assumptions blocks_walk_pars.
Print Assumptions blocks_walk_free.
Print Assumptions blocks_walk_counterexample.
Print Assumptions quiet_walk_open.
Print Assumptions blocks_walk_partial.
Print Assumptions flat_tbl_keeps_open.
Print Assumptions quiet_block_example.
Print Assumptions tbl_closed_clears_slot1.
Print Assumptions simple_par_keeps_slot1.
Print Assumptions free_par_after_blocks.
Print Assumptions walk_body.
Print Assumptions collect_body_of_simple_pars.
Print Assumptions body_of_blocks.
