(* UtilFacts.v — C10 / C05: utilities.get_links and utilities.get_headings.
   The two regular expressions of utilities.py (Utilities.link_match,
   Utilities.heading_match) are characterised exactly, tied to the rendering
   of a resolved hyperlink (Walk.link_toks), and the two helpers are related
   to the run strings / paragraph records of the document. *)
From Coq Require Import List NArith ZArith Bool Arith Lia.
From D2P Require Import Str Err Xml TableTypes Tables Fmt Bullets Merge Collector Walk Iter
     Output Paths Package Content Utilities.
From D2P Require Import TokFacts MarkerFacts ViewFacts.
Import ListNotations.
Open Scope N_scope.

(* ================================================================== *)
(* 0. the two string primitives                                         *)
(* ================================================================== *)
Lemma strip_prefix_spec : forall p s r, strip_prefix p s = Some r <-> s = p ++ r.
Proof.
  induction p as [|x p IH]; intros s r; cbn [strip_prefix app].
  - split; [intros [= ->]; reflexivity|intros ->; reflexivity].
  - destruct s as [|y s].
    + split; discriminate.
    + destruct (N.eqb_spec x y) as [->|Hne].
      * rewrite IH. split; [intros ->; reflexivity|intros [= ->]; reflexivity].
      * split; [discriminate|]. intros [= H1 H2]. symmetry in H1. contradiction.
Qed.

Lemma strip_prefix_app : forall p r, strip_prefix p (p ++ r) = Some r.
Proof. intros p r. apply strip_prefix_spec. reflexivity. Qed.

Lemma span_not_inv : forall c s a b, span_not c s = (a, b) ->
  s = a ++ b /\ ~ In c a /\ (b = [] \/ exists r, b = c :: r).
Proof.
  intros c. induction s as [|x s IH]; intros a b H; cbn [span_not] in H.
  - injection H as <- <-. split; [reflexivity|]. split; [intros []|left; reflexivity].
  - destruct (N.eqb_spec x c) as [->|Hne].
    + injection H as <- <-. split; [reflexivity|]. split; [intros []|right; eauto].
    + destruct (span_not c s) as [a' b'] eqn:E. injection H as <- <-.
      destruct (IH a' b' eq_refl) as (H1 & H2 & H3).
      split; [cbn [app]; f_equal; exact H1|]. split; [|exact H3].
      intros [Hx|Hin]; [exact (Hne Hx)|exact (H2 Hin)].
Qed.

Lemma span_not_cons : forall c a r, ~ In c a -> span_not c (a ++ c :: r) = (a, c :: r).
Proof.
  intros c. induction a as [|x a IH]; intros r Hn; cbn [app span_not].
  - rewrite N.eqb_refl. reflexivity.
  - destruct (N.eqb_spec x c) as [->|Hne]; [exfalso; apply Hn; left; reflexivity|].
    rewrite IH; [reflexivity|]. intros Hin. apply Hn. right. exact Hin.
Qed.

Lemma span_not_all : forall c a, ~ In c a -> span_not c a = (a, []).
Proof.
  intros c. induction a as [|x a IH]; intros Hn; cbn [span_not]; [reflexivity|].
  destruct (N.eqb_spec x c) as [->|Hne]; [exfalso; apply Hn; left; reflexivity|].
  rewrite IH; [reflexivity|]. intros Hin. apply Hn. right. exact Hin.
Qed.

(* ================================================================== *)
(* 1. link_match: exact characterisation                                *)
(* ================================================================== *)
Theorem link_match_spec : forall run h t,
  link_match run = Some (h, t) <->
  exists rest, run = s_a_open ++ h ++ s_quote_gt ++ t ++ s_a_close ++ rest
               /\ h <> [] /\ ~ In 34 h /\ t <> [] /\ ~ In 60 t.
Proof.
  intros run h t. split.
  - unfold link_match. intros H.
    destruct (strip_prefix s_a_open run) as [r1|] eqn:E1; [|discriminate H].
    destruct (span_not 34 r1) as [href r2] eqn:E2.
    destruct href as [|h0 href]; [discriminate H|].
    destruct (strip_prefix s_quote_gt r2) as [r3|] eqn:E3; [|discriminate H].
    destruct (span_not 60 r3) as [txt r4] eqn:E4.
    destruct txt as [|t0 txt]; [discriminate H|].
    destruct (strip_prefix s_a_close r4) as [r5|] eqn:E5; [|discriminate H].
    injection H as <- <-.
    apply strip_prefix_spec in E1, E3, E5.
    apply span_not_inv in E2, E4.
    destruct E2 as (E2 & N2 & _). destruct E4 as (E4 & N4 & _).
    exists r5. subst run r1 r2 r3 r4.
    split; [reflexivity|]. split; [discriminate|]. split; [exact N2|].
    split; [discriminate|exact N4].
  - intros (rest & -> & Hh & Nh & Ht & Nt).
    unfold link_match. rewrite strip_prefix_app.
    change (s_quote_gt ++ t ++ s_a_close ++ rest) with (34 :: 62 :: t ++ s_a_close ++ rest).
    rewrite (span_not_cons 34 h _ Nh).
    destruct h as [|h0 h]; [contradiction Hh; reflexivity|].
    change (34 :: 62 :: t ++ s_a_close ++ rest) with (s_quote_gt ++ t ++ s_a_close ++ rest).
    rewrite strip_prefix_app.
    change (s_a_close ++ rest) with (60 :: [47; 97; 62] ++ rest).
    rewrite (span_not_cons 60 t _ Nt).
    destruct t as [|t0 t]; [contradiction Ht; reflexivity|].
    change (60 :: [47; 97; 62] ++ rest) with (s_a_close ++ rest).
    rewrite strip_prefix_app. reflexivity.
Qed.

(* what is yielded never holds a quote in the href nor an angle bracket in
   the text, and neither group is empty *)
Corollary link_match_groups : forall run h t, link_match run = Some (h, t) ->
  h <> [] /\ ~ In 34 h /\ t <> [] /\ ~ In 60 t.
Proof.
  intros run h t H. apply link_match_spec in H. destruct H as (rest & _ & H). exact H.
Qed.

(* re.match anchors at the start only: what follows </a> is irrelevant *)
Corollary link_match_tail : forall run h t tail,
  link_match run = Some (h, t) -> link_match (run ++ tail) = Some (h, t).
Proof.
  intros run h t tail H. apply link_match_spec in H. destruct H as (rest & -> & H).
  apply link_match_spec. exists (rest ++ tail). split; [|exact H].
  rewrite <- !app_assoc. reflexivity.
Qed.

(* ================================================================== *)
(* 2. the rendering of a resolved hyperlink                             *)
(* ================================================================== *)
(* a resolved hyperlink is one run  <a href="LINK">BODY</a>  (MarkerFacts.
   link_render, emit_link_resolved, link_is_one_run) *)
Lemma link_render_consts : forall html link body,
  render html (link_toks link body)
  = s_a_open ++ link ++ s_quote_gt ++ render html body ++ s_a_close ++ [].
Proof. intros html link body. rewrite link_render, app_nil_r. reflexivity. Qed.

(* general form: any token list, any html flag *)
Theorem link_match_rendered_link_gen : forall html link body,
  link <> [] -> ~ In 34 link ->
  render html body <> [] -> ~ In 60 (render html body) ->
  link_match (render html (link_toks link body)) = Some (link, render html body).
Proof.
  intros html link body Hl Nl Hb Nb. apply link_match_spec.
  exists []. split; [apply link_render_consts|]. repeat split; assumption.
Qed.

(* tokens that are characters only *)
Definition chr_tok (t : tok) : bool :=
  match t with TTxt _ | TRaw _ => true | _ => false end.

Theorem link_match_rendered_link : forall link body,
  link <> [] -> ~ In 34 link ->
  forallb chr_tok body = true ->
  render false body <> [] -> ~ In 60 (render false body) ->
  link_match (render false (link_toks link body)) = Some (link, render false body).
Proof.
  intros link body Hl Nl _ Hb Nb. apply link_match_rendered_link_gen; assumption.
Qed.

(* the hypothesis on token kinds is implied by the absence of `<` *)
Lemma no_angle_chr_toks : forall html body,
  ~ In 60 (render html body) -> forallb chr_tok body = true.
Proof.
  intros html. induction body as [|t body IH]; intros Hn; [reflexivity|].
  unfold render in Hn. cbn [map concat] in Hn.
  cbn [forallb]. apply andb_true_intro. split.
  - destruct t as [c|c|s|s]; try reflexivity; exfalso; apply Hn; cbn [render_tok app];
      left; reflexivity.
  - apply IH. intros Hin. apply Hn. apply in_or_app. right. exact Hin.
Qed.

(* without html the rendering of character tokens is the characters *)
Definition tok_chr (t : tok) : N :=
  match t with TTxt c | TRaw c => c | _ => 0 end.
Lemma render_chr_toks : forall body, forallb chr_tok body = true ->
  render false body = map tok_chr body.
Proof.
  induction body as [|t body IH]; intros H; [reflexivity|].
  cbn [forallb] in H. apply andb_prop in H. destruct H as [Ht Hb].
  unfold render in *. cbn [map concat]. rewrite (IH Hb).
  destruct t as [c|c|s|s]; try discriminate Ht; reflexivity.
Qed.

(* text with an angle bracket is not yielded: whatever is yielded for the
   link run, it is not the pair (link, body text) *)
Theorem link_match_none_bracket : forall html link body,
  In 60 (render html body) ->
  link_match (render html (link_toks link body)) <> Some (link, render html body).
Proof.
  intros html link body Hin H. apply link_match_groups in H.
  destruct H as (_ & _ & _ & Hn). exact (Hn Hin).
Qed.

(* the same for a target with a quote *)
Theorem link_match_none_quote : forall html link body,
  In 34 link ->
  link_match (render html (link_toks link body)) <> Some (link, render html body).
Proof.
  intros html link body Hin H. apply link_match_groups in H.
  destruct H as (_ & Hn & _). exact (Hn Hin).
Qed.

(* exact outcome with a bracket in the text: cut the text at its first `<` *)
Lemma in_split_first : forall (c : N) s, In c s ->
  exists a b, s = a ++ c :: b /\ ~ In c a.
Proof.
  intros c. induction s as [|x s IH]; intros Hin; [destruct Hin|].
  destruct (N.eq_dec x c) as [->|Hne].
  - exists [], s. split; [reflexivity|intros []].
  - destruct Hin as [Hx|Hin]; [contradiction|].
    destruct (IH Hin) as (a & b & -> & Hn). exists (x :: a), b.
    split; [reflexivity|]. intros [Hx|Hi]; [exact (Hne Hx)|exact (Hn Hi)].
Qed.

Definition s_a_close_tl : str := [47; 97; 62].     (* /a> *)

Theorem link_match_bracket_exact : forall html link body t1 t2,
  link <> [] -> ~ In 34 link ->
  render html body = t1 ++ 60 :: t2 -> ~ In 60 t1 ->
  link_match (render html (link_toks link body))
  = match t1, strip_prefix s_a_close_tl (t2 ++ s_a_close) with
    | _ :: _, Some _ => Some (link, t1)
    | _, _ => None
    end.
Proof.
  intros html link body t1 t2 Hl Nl Hb Nt.
  rewrite link_render_consts, Hb. unfold link_match. rewrite strip_prefix_app.
  change (s_quote_gt ++ (t1 ++ 60 :: t2) ++ s_a_close ++ [])
    with (34 :: 62 :: (t1 ++ 60 :: t2) ++ s_a_close ++ []).
  rewrite (span_not_cons 34 link _ Nl).
  destruct link as [|l0 link]; [contradiction Hl; reflexivity|].
  change (34 :: 62 :: (t1 ++ 60 :: t2) ++ s_a_close ++ [])
    with (s_quote_gt ++ (t1 ++ 60 :: t2) ++ s_a_close ++ []).
  rewrite strip_prefix_app, app_nil_r, <- app_assoc. cbn [app].
  rewrite (span_not_cons 60 t1 _ Nt).
  destruct t1 as [|c t1]; [reflexivity|].
  unfold s_a_close at 1. cbn [strip_prefix]. rewrite N.eqb_refl.
  reflexivity.
Qed.

(* hence: None as soon as the text starts with `<` or the first `<` does not
   start a literal </a> *)
Corollary link_match_bracket_none : forall html link body t1 t2,
  link <> [] -> ~ In 34 link ->
  render html body = t1 ++ 60 :: t2 -> ~ In 60 t1 ->
  t1 = [] \/ strip_prefix s_a_close_tl (t2 ++ s_a_close) = None ->
  link_match (render html (link_toks link body)) = None.
Proof.
  intros html link body t1 t2 Hl Nl Hb Nt Hc.
  rewrite (link_match_bracket_exact html link body t1 t2 Hl Nl Hb Nt).
  destruct Hc as [Hc | Hc]; rewrite Hc; [reflexivity|]. destruct t1; reflexivity.
Qed.

(* the quirk: document text that itself spells </a> (html off) cuts the text *)
Example link_match_bracket_quirk :
  let body := map TTxt [120; 60; 47; 97; 62; 121] in          (* x</a>y *)
  link_match (render false (link_toks [117] body)) = Some ([117], [120]).
Proof. vm_compute. reflexivity. Qed.

(* ================================================================== *)
(* 3. runs that are not links                                           *)
(* ================================================================== *)
Theorem link_match_plain_text : forall run,
  strip_prefix s_a_open run = None -> link_match run = None.
Proof. intros run H. unfold link_match. rewrite H. reflexivity. Qed.

Lemma link_match_first_char : forall c r, c <> 60 -> link_match (c :: r) = None.
Proof.
  intros c r H. apply link_match_plain_text. unfold s_a_open. cbn [strip_prefix].
  destruct (N.eqb_spec 60 c) as [E|_]; [symmetry in E; contradiction|reflexivity].
Qed.

Lemma link_match_nil : link_match [] = None.
Proof. reflexivity. Qed.

Theorem link_match_no_angle : forall run, ~ In 60 run -> link_match run = None.
Proof.
  intros [|c r] H; [reflexivity|]. apply link_match_first_char.
  intros ->. apply H. left. reflexivity.
Qed.

(* escaped document text (html on) is never a link *)
Corollary link_match_escaped_text : forall s,
  link_match (render true (map TTxt s)) = None.
Proof. intros s. apply link_match_no_angle. apply (escape_no_angle s). Qed.

(* ================================================================== *)
(* 4. heading_match                                                     *)
(* ================================================================== *)
Theorem heading_match_spec : forall s,
  heading_match s = true <->
  exists d rest, s = s_Heading ++ d :: rest /\ is_unicode_digit d = true.
Proof.
  intros s. unfold heading_match. split.
  - destruct (strip_prefix s_Heading s) as [[|d rest]|] eqn:E; try discriminate.
    intros H. apply strip_prefix_spec in E. eauto.
  - intros (d & rest & -> & H). rewrite strip_prefix_app. exact H.
Qed.

Lemma heading_match_false_prefix : forall s,
  strip_prefix s_Heading s = None -> heading_match s = false.
Proof. intros s H. unfold heading_match. rewrite H. reflexivity. Qed.

(* what follows the digit is irrelevant (re.match, no end anchor) *)
Corollary heading_match_tail : forall s tail,
  heading_match s = true -> heading_match (s ++ tail) = true.
Proof.
  intros s tail H. apply heading_match_spec in H. destruct H as (d & rest & -> & H).
  apply heading_match_spec. exists d, (rest ++ tail). split; [|exact H].
  rewrite <- app_assoc. reflexivity.
Qed.

Theorem is_unicode_digit_spec : forall c,
  is_unicode_digit c = true <-> exists lo hi, In (lo, hi) nd_ranges /\ lo <= c <= hi.
Proof.
  intros c. unfold is_unicode_digit. rewrite existsb_exists. split.
  - intros ([lo hi] & Hin & H). apply andb_prop in H. destruct H as [H1 H2].
    cbn [fst snd] in *. apply N.leb_le in H1, H2. eauto.
  - intros (lo & hi & Hin & H1 & H2). exists (lo, hi). split; [exact Hin|].
    cbn [fst snd]. apply andb_true_intro. split; apply N.leb_le; assumption.
Qed.

Definition ascii_digit (c : N) : bool := (48 <=? c) && (c <=? 57).

Lemma below_in_seq : forall n c, c < N.of_nat n -> In c (map N.of_nat (seq 0 n)).
Proof.
  intros n c H. rewrite <- (N2Nat.id c). apply in_map. apply in_seq. lia.
Qed.

Theorem heading_match_ascii : forall c, c < 128 ->
  is_unicode_digit c = ascii_digit c.
Proof.
  intros c H.
  assert (A : forallb (fun c => Bool.eqb (is_unicode_digit c) (ascii_digit c))
                      (map N.of_nat (seq 0 128)) = true) by (vm_compute; reflexivity).
  rewrite forallb_forall in A. apply Bool.eqb_prop. apply A.
  apply (below_in_seq 128). exact H.
Qed.

Corollary is_unicode_digit_ascii_true : forall c, 48 <= c <= 57 -> is_unicode_digit c = true.
Proof.
  intros c [H1 H2]. rewrite heading_match_ascii by lia. unfold ascii_digit.
  apply andb_true_intro. split; apply N.leb_le; assumption.
Qed.

Corollary is_unicode_digit_ascii_false : forall c, c < 128 -> ~ (48 <= c <= 57) ->
  is_unicode_digit c = false.
Proof.
  intros c H Hn. rewrite heading_match_ascii by exact H. unfold ascii_digit.
  destruct (N.leb_spec 48 c) as [H1|H1]; [|reflexivity].
  destruct (N.leb_spec c 57) as [H2|H2]; [|reflexivity].
  exfalso. apply Hn. split; assumption.
Qed.

(* "Heading" followed by an ASCII digit always matches; by an other ASCII
   character never *)
Corollary heading_match_ascii_style : forall d rest, d < 128 ->
  heading_match (s_Heading ++ d :: rest) = ascii_digit d.
Proof.
  intros d rest H. unfold heading_match. rewrite strip_prefix_app.
  apply heading_match_ascii. exact H.
Qed.

(* ================================================================== *)
(* 7. examples                                                          *)
(* ================================================================== *)
(* <a href="http://x">a b</a>tail *)
Example ex_link_tail :
  link_match ([60;97;32;104;114;101;102;61;34] ++ [104;116;116;112;58;47;47;120] ++ [34;62]
              ++ [97;32;98] ++ [60;47;97;62] ++ [116;97;105;108])
  = Some ([104;116;116;112;58;47;47;120], [97;32;98]).
Proof. vm_compute. reflexivity. Qed.
(* <a href="">x</a> : empty href *)
Example ex_link_empty_href :
  link_match ([60;97;32;104;114;101;102;61;34] ++ [34;62] ++ [120] ++ [60;47;97;62]) = None.
Proof. vm_compute. reflexivity. Qed.
(* <a href="u">a<b</a> *)
Example ex_link_bracket :
  link_match ([60;97;32;104;114;101;102;61;34] ++ [117] ++ [34;62] ++ [97;60;98] ++ [60;47;97;62])
  = None.
Proof. vm_compute. reflexivity. Qed.
(* <a href="u"></a> : empty text *)
Example ex_link_empty_text :
  link_match ([60;97;32;104;114;101;102;61;34] ++ [117] ++ [34;62] ++ [60;47;97;62]) = None.
Proof. vm_compute. reflexivity. Qed.

Example ex_heading1 : heading_match [72;101;97;100;105;110;103;49] = true.      (* Heading1 *)
Proof. vm_compute. reflexivity. Qed.
Example ex_heading : heading_match [72;101;97;100;105;110;103] = false.          (* Heading *)
Proof. vm_compute. reflexivity. Qed.
Example ex_heading_lower : heading_match [104;101;97;100;105;110;103;49] = false. (* heading1 *)
Proof. vm_compute. reflexivity. Qed.
Example ex_heading_arabic : heading_match [72;101;97;100;105;110;103;1635] = true. (* Heading + U+0663 *)
Proof. vm_compute. reflexivity. Qed.
Example ex_heading_title : heading_match [84;105;116;108;101] = false.            (* Title *)
Proof. vm_compute. reflexivity. Qed.
Example ex_heading_10 : heading_match [72;101;97;100;105;110;103;49;48] = true.   (* Heading10 *)
Proof. vm_compute. reflexivity. Qed.

(* ================================================================== *)
(* 5. get_links                                                         *)
(* ================================================================== *)
Lemma filter_map_app {A B} (f : A -> option B) : forall l1 l2,
  filter_map f (l1 ++ l2) = filter_map f l1 ++ filter_map f l2.
Proof.
  induction l1 as [|x l1 IH]; intros l2; cbn [app filter_map]; [reflexivity|].
  destruct (f x) as [y|]; rewrite IH; reflexivity.
Qed.

Lemma filter_map_In {A B} (f : A -> option B) : forall l y,
  In y (filter_map f l) <-> exists x, In x l /\ f x = Some y.
Proof.
  induction l as [|x l IH]; intros y; cbn [filter_map].
  - split; [intros []|intros (x & [] & _)].
  - destruct (f x) as [y'|] eqn:E.
    + split.
      * intros [<-|Hin]; [exists x; split; [left; reflexivity|exact E]|].
        apply IH in Hin. destruct Hin as (x' & Hin & E'). exists x'. split; [right; exact Hin|exact E'].
      * intros (x' & [<-|Hin] & E').
        -- rewrite E in E'. injection E' as <-. left. reflexivity.
        -- right. apply IH. eauto.
    + split.
      * intros Hin. apply IH in Hin. destruct Hin as (x' & Hin & E').
        exists x'. split; [right; exact Hin|exact E'].
      * intros (x' & [<-|Hin] & E'); [rewrite E in E'; discriminate E'|].
        apply IH. eauto.
Qed.

(* order: filter_map is the concatenation of the per-element outcomes *)
Lemma filter_map_flat_map {A B} (f : A -> option B) : forall l,
  filter_map f l = flat_map (fun x => match f x with Some y => [y] | None => [] end) l.
Proof.
  induction l as [|x l IH]; cbn [filter_map flat_map]; [reflexivity|].
  destruct (f x); rewrite IH; reflexivity.
Qed.

Lemma filter_map_none {A B} (f : A -> option B) : forall l,
  (forall x, In x l -> f x = None) -> filter_map f l = [].
Proof.
  induction l as [|x l IH]; intros H; cbn [filter_map]; [reflexivity|].
  rewrite (H x (or_introl eq_refl)). apply IH. intros x' Hin. apply H. right. exact Hin.
Qed.

(* the run strings of the document: the leaves at depth 5 of document_runs
   with the default options, in iteration order *)
Definition run_leaves (a : archive) : res (list str) :=
  runs <- document_runs a default_opts ;;
  items <- iter_at_depth runs 5%nat ;;
  mapM leaf_str items.

Lemma get_links_unfold : forall a,
  get_links a = (ss <- run_leaves a ;; Ok (filter_map link_match ss)).
Proof.
  intros a. unfold get_links, run_leaves.
  destruct (document_runs a default_opts) as [runs|e]; cbn [bind]; [|reflexivity].
  destruct (iter_at_depth runs 5%nat) as [items|e]; cbn [bind]; reflexivity.
Qed.

Theorem get_links_complete : forall a l, get_links a = Ok l ->
  exists ss, run_leaves a = Ok ss /\ l = filter_map link_match ss.
Proof.
  intros a l H. rewrite get_links_unfold in H. apply bind_inv in H.
  destruct H as (ss & E & H). injection H as <-. eauto.
Qed.

Theorem get_links_iff : forall a l, get_links a = Ok l <->
  exists ss, run_leaves a = Ok ss /\ l = filter_map link_match ss.
Proof.
  intros a l. split; [apply get_links_complete|].
  intros (ss & E & ->). rewrite get_links_unfold, E. reflexivity.
Qed.

Theorem get_links_err : forall a e, get_links a = Err e <-> run_leaves a = Err e.
Proof.
  intros a e. rewrite get_links_unfold. destruct (run_leaves a) as [ss|e']; cbn [bind].
  - split; discriminate.
  - split; intros [= ->]; reflexivity.
Qed.

Lemma mapM_leaf_str : forall items ss, mapM leaf_str items = Ok ss <-> items = map RA ss.
Proof.
  induction items as [|t items IH]; intros ss; cbn [mapM].
  - split.
    + intros [= <-]. reflexivity.
    + destruct ss; [reflexivity|discriminate].
  - destruct t as [l|s]; cbn [leaf_str bind].
    + split; [discriminate|]. destruct ss; discriminate.
    + destruct (mapM leaf_str items) as [ss'|e] eqn:E; cbn [bind].
      * split.
        -- intros [= <-]. cbn [map]. f_equal. apply IH. reflexivity.
        -- destruct ss as [|s0 ss]; [discriminate|]. cbn [map]. intros [= -> H].
           apply IH in H. injection H as ->. reflexivity.
      * split; [discriminate|]. destruct ss as [|s0 ss]; [discriminate|]. cbn [map].
        intros [= -> H]. apply IH in H. discriminate H.
Qed.

(* every pair comes from a run string of the document that matches, and
   every matching run string yields its pair *)
Theorem get_links_sound : forall a l, get_links a = Ok l ->
  exists runs ss, document_runs a default_opts = Ok runs
    /\ iter_at_depth runs 5%nat = Ok (map RA ss)
    /\ l = filter_map link_match ss
    /\ forall pair, In pair l <-> exists r, In r ss /\ link_match r = Some pair.
Proof.
  intros a l H. unfold get_links in H.
  apply bind_inv in H. destruct H as (runs & E1 & H).
  apply bind_inv in H. destruct H as (items & E2 & H).
  apply bind_inv in H. destruct H as (ss & E3 & H). injection H as <-.
  apply mapM_leaf_str in E3. subst items.
  exists runs, ss. repeat split; try assumption.
  - intros Hin. apply filter_map_In in Hin. exact Hin.
  - intros Hex. apply filter_map_In. exact Hex.
Qed.

(* in order: a split of the run strings is a split of the result *)
Corollary get_links_order : forall a l ss1 r ss2,
  get_links a = Ok l -> run_leaves a = Ok (ss1 ++ r :: ss2) ->
  l = filter_map link_match ss1
      ++ match link_match r with Some p => [p] | None => [] end
      ++ filter_map link_match ss2.
Proof.
  intros a l ss1 r ss2 H E. apply get_links_complete in H. destruct H as (ss & E' & ->).
  rewrite E in E'. injection E' as <-. rewrite filter_map_app. cbn [filter_map].
  destruct (link_match r); reflexivity.
Qed.

(* a document without any `<` in its run strings has no links *)
Corollary get_links_no_angle : forall a ss, run_leaves a = Ok ss ->
  (forall r, In r ss -> ~ In 60 r) -> get_links a = Ok [].
Proof.
  intros a ss E H. rewrite get_links_unfold, E. cbn [bind]. f_equal.
  apply filter_map_none. intros r Hin. apply link_match_no_angle. apply H. exact Hin.
Qed.

(* ---------- the run strings in terms of the paragraph records ---------- *)
Section Items.
  Context {A : Type}.

  (* iter_at_depth without the addresses *)
  Fixpoint items (k : nat) (t : rose A) : res (list (rose A)) :=
    match t with
    | RA _ => Err TypeError
    | RL l =>
        match k with
        | O => Ok l
        | S k' => xs <- mapM (items k') l ;; Ok (concat xs)
        end
    end.

  Lemma map_snd_combine_seq : forall (l : list (rose A)) i,
    map snd (map (fun ix : nat * rose A => ([fst ix], snd ix)) (combine (seq i (length l)) l)) = l.
  Proof.
    induction l as [|x l IH]; intros i; cbn [length seq combine map snd]; [reflexivity|].
    f_equal. apply IH.
  Qed.

  Lemma enum_from_items (inner : rose A -> res (list (list nat * rose A)))
        (f : rose A -> res (list (rose A))) :
    (forall x, (r <- inner x ;; Ok (map snd r)) = f x) ->
    forall l i, (r <- enum_from inner i l ;; Ok (map snd r))
                = (xs <- mapM f l ;; Ok (concat xs)).
  Proof.
    intros Hf. induction l as [|x l IH]; intros i; cbn [enum_from mapM]; [reflexivity|].
    rewrite <- (Hf x). destruct (inner x) as [ys|e]; cbn [bind]; [|reflexivity].
    specialize (IH (S i)).
    destruct (enum_from inner (S i) l) as [rest|e]; cbn [bind] in IH |- *;
      destruct (mapM f l) as [xs|e']; cbn [bind] in IH |- *; try discriminate IH.
    - injection IH as IH. rewrite map_app, map_map. cbn [snd concat]. rewrite IH. reflexivity.
    - exact IH.
  Qed.

  Lemma enum_depth_items : forall k t,
    (r <- enum_depth k t ;; Ok (map snd r)) = items k t.
  Proof.
    induction k as [|k IH]; intros [l|x]; cbn [enum_depth items bind]; try reflexivity.
    - rewrite map_snd_combine_seq. reflexivity.
    - apply enum_from_items. exact IH.
  Qed.

  Lemma iter_at_depth_items : forall k t, (k < 5)%nat -> iter_at_depth t (S k) = items k t.
  Proof.
    intros k t H. unfold iter_at_depth.
    replace (enum_at_depth t (S k)) with (enum_depth k t); [apply enum_depth_items|].
    do 5 (destruct k as [|k]; [reflexivity|]). exfalso. lia.
  Qed.

  Lemma concat_concat : forall (l : list (list (list (rose A)))),
    concat (map (@concat _) l) = concat (concat l).
  Proof.
    induction l as [|x l IH]; cbn [map concat]; [reflexivity|].
    rewrite concat_app, IH. reflexivity.
  Qed.

  Lemma mapM_concat {B} (f : rose A -> res B) : forall XS YS,
    Forall2 (fun X Y => mapM f X = Ok Y) XS YS -> mapM f (concat XS) = Ok (concat YS).
  Proof.
    induction 1 as [|X Y XS YS HXY F IH]; cbn [concat]; [reflexivity|].
    rewrite mapM_app, HXY, IH. reflexivity.
  Qed.

  Lemma items_0_as_rl : forall t, items 0 t = as_rl t.
  Proof. intros [l|x]; reflexivity. Qed.

  (* one level deeper = the children of the items one level above *)
  Lemma items_succ : forall k t r, items (S k) t = Ok r ->
    exists xs ys, items k t = Ok xs /\ mapM as_rl xs = Ok ys /\ r = concat ys.
  Proof.
    induction k as [|k IH]; intros [l|x] r H; try discriminate H.
    - cbn [items] in H. apply bind_inv in H. destruct H as (ys & E & H). injection H as <-.
      exists l, ys. split; [reflexivity|]. split; [|reflexivity].
      apply mapM_Forall2. apply mapM_Forall2 in E.
      induction E as [|x y l ys Hxy F IHF]; constructor; [|exact IHF].
      rewrite <- items_0_as_rl. exact Hxy.
    - change (items (S (S k)) (RL l)) with (xs <- mapM (items (S k)) l ;; Ok (concat xs)) in H.
      apply bind_inv in H. destruct H as (rs & E & H). injection H as <-.
      apply mapM_Forall2 in E.
      assert (G : exists XS YS, Forall2 (fun x X => items k x = Ok X) l XS
                                /\ Forall2 (fun X Y => mapM as_rl X = Ok Y) XS YS
                                /\ rs = map (@concat _) YS).
      { induction E as [|x rx l rs Hx F IHF].
        - exists [], []. repeat split; constructor.
        - destruct IHF as (XS & YS & F1 & F2 & ->).
          destruct (IH x rx Hx) as (X & Y & EX & EY & ->).
          exists (X :: XS), (Y :: YS). repeat split; constructor; assumption. }
      destruct G as (XS & YS & F1 & F2 & ->).
      exists (concat XS), (concat YS). split.
      + change (items (S k) (RL l)) with (xs <- mapM (items k) l ;; Ok (concat xs)).
        apply mapM_Forall2 in F1. rewrite F1. reflexivity.
      + split; [apply mapM_concat; exact F2|apply concat_concat].
  Qed.
End Items.

(* items commutes with a (k+1)-level map, from the result side *)
Lemma items_lev {A B} (f : rose A -> res (rose B)) : forall k t t' ys,
  lev k f t = Ok t' -> items k t' = Ok ys ->
  exists xs, items k t = Ok xs /\ mapM f xs = Ok ys.
Proof.
  induction k as [|k IH]; intros t t' ys H E; cbn [lev] in H;
    apply gps_level_inv in H; destruct H as (l & xs' & -> & -> & F).
  - cbn [items] in E. injection E as <-. exists l. split; [reflexivity|].
    apply mapM_Forall2. exact F.
  - change (items (S k) (RL xs')) with (zs <- mapM (items k) xs' ;; Ok (concat zs)) in E.
    apply bind_inv in E. destruct E as (YS & E & H). injection H as <-.
    apply mapM_Forall2 in E.
    assert (G : exists XS, Forall2 (fun x X => items k x = Ok X) l XS
                           /\ Forall2 (fun X Y => mapM f X = Ok Y) XS YS).
    { revert YS E. induction F as [|x y l xs' Hxy F IHF]; intros YS E.
      - inversion E; subst. exists []. split; constructor.
      - inversion E as [|? Y ? YS' HY E']; subst.
        destruct (IHF YS' E') as (XS & F1 & F2).
        destruct (IH x y Y Hxy HY) as (X & EX & EY).
        exists (X :: XS). split; constructor; assumption. }
    destruct G as (XS & F1 & F2). exists (concat XS). split.
    + change (items (S k) (RL l)) with (zs <- mapM (items k) l ;; Ok (concat zs)).
      apply mapM_Forall2 in F1. rewrite F1. reflexivity.
    + apply mapM_concat. exact F2.
Qed.

Lemma mapM_gps_par : forall html xs ys, mapM (gps_par html) xs = Ok ys ->
  exists ps rss, xs = map RA ps /\ mapM (par_run_strings html) ps = Ok rss
                 /\ ys = map (fun ss => RL (map RA ss)) rss.
Proof.
  intros html. induction xs as [|x xs IH]; intros ys H; cbn [mapM] in H.
  - injection H as <-. exists [], []. repeat split.
  - apply bind_inv in H. destruct H as (y & Ey & H).
    apply bind_inv in H. destruct H as (ys' & Eys & H). injection H as <-.
    destruct (IH ys' Eys) as (ps & rss & -> & E & ->).
    destruct x as [l|p]; [discriminate Ey|]. cbn [gps_par] in Ey.
    apply bind_inv in Ey. destruct Ey as (ss & Ess & Ey). injection Ey as <-.
    exists (p :: ps), (ss :: rss). repeat split.
    cbn [mapM]. rewrite Ess, E. reflexivity.
Qed.

Lemma mapM_as_rl_leaves : forall (rss : list (list str)),
  mapM as_rl (map (fun ss => RL (map RA ss)) rss) = Ok (map (map RA) rss).
Proof.
  induction rss as [|ss rss IH]; cbn [map mapM]; [reflexivity|].
  cbn [as_rl bind]. rewrite IH. reflexivity.
Qed.

Lemma concat_map_RA : forall (rss : list (list str)),
  concat (map (map (@RA str)) rss) = map RA (concat rss).
Proof. intros rss. rewrite concat_map. reflexivity. Qed.

(* the depth-5 leaves of a run view are the run strings of the depth-4 records *)
Lemma gps_leaves : forall html pars runs its,
  get_par_strings html pars = Ok runs -> iter_at_depth runs 5%nat = Ok its ->
  exists ps rss, iter_at_depth pars 4%nat = Ok (map RA ps)
                 /\ mapM (par_run_strings html) ps = Ok rss
                 /\ its = map RA (concat rss).
Proof.
  intros html pars runs its Hg Hi.
  rewrite (iter_at_depth_items 4) in Hi by lia.
  apply items_succ in Hi. destruct Hi as (xs & ys & E3 & Erl & ->).
  rewrite gps_is_lev in Hg.
  destruct (items_lev (gps_par html) 3 pars runs xs Hg E3) as (ps0 & Ep & Em).
  apply mapM_gps_par in Em. destruct Em as (ps & rss & -> & Ers & ->).
  rewrite mapM_as_rl_leaves in Erl. injection Erl as <-.
  exists ps, rss. rewrite (iter_at_depth_items 3) by lia.
  split; [exact Ep|]. split; [exact Ers|apply concat_map_RA].
Qed.

Lemma doc_fold_runs_pars : forall a o tys accr r l,
  doc_fold (runs_of a o) tys accr = Ok r ->
  exists p, doc_fold (pars_of a o) tys (RL l) = Ok p.
Proof.
  intros a o. induction tys as [|ty tys IH]; intros accr r l H.
  - cbn. eauto.
  - unfold doc_fold in *. cbn [foldM] in *.
    apply bind_inv in H. destruct H as (acc' & S1 & H).
    apply bind_inv in S1. destruct S1 as (x & Ex & _).
    unfold runs_of in Ex. apply bind_inv in Ex. destruct Ex as (p0 & Ep0 & _).
    rewrite Ep0. cbn [bind]. destruct (pars_of_is_RL _ _ _ _ Ep0) as (l0 & ->).
    cbn [app_rose bind]. exact (IH acc' r (l ++ l0) H).
Qed.

Lemma document_runs_pars : forall a o r, document_runs a o = Ok r ->
  exists p, document_pars a o = Ok p.
Proof.
  intros a o r H. unfold document_runs, document_pars in *.
  rewrite document_of_fold in *. exact (doc_fold_runs_pars a o _ _ r [] H).
Qed.

(* get_links in terms of the paragraph records of the document *)
Theorem get_links_of_pars : forall a l, get_links a = Ok l ->
  exists pars ps rss,
    document_pars a default_opts = Ok pars
    /\ iter_at_depth pars 4%nat = Ok (map RA ps)
    /\ mapM (par_run_strings false) ps = Ok rss
    /\ l = filter_map link_match (concat rss).
Proof.
  intros a l H. apply get_links_sound in H.
  destruct H as (runs & ss & E1 & E2 & -> & _).
  destruct (document_runs_pars _ _ _ E1) as (pars & Ep).
  pose proof (document_runs_of_pars _ _ _ _ Ep E1) as Hg. cbn [default_opts o_html] in Hg.
  destruct (gps_leaves _ _ _ _ Hg E2) as (ps & rss & Ei & Ers & Em).
  exists pars, ps, rss. repeat split; try assumption.
  f_equal. clear - Em. revert Em. generalize (concat rss). 
  induction ss as [|s ss IH]; intros [|s' ss'] H; try discriminate H; [reflexivity|].
  cbn [map] in H. injection H as -> H. f_equal. apply IH. exact H.
Qed.

(* ---------- end to end: a link run of a paragraph record is yielded ---------- *)
Lemma mapM_In {A B} (f : A -> res B) : forall l ys x,
  mapM f l = Ok ys -> In x l -> exists y, f x = Ok y /\ In y ys.
Proof.
  intros l ys x H. apply mapM_Forall2 in H.
  induction H as [|x0 y0 l ys Hxy F IH]; intros Hin; [destruct Hin|].
  destruct Hin as [->|Hin].
  - exists y0. split; [exact Hxy|left; reflexivity].
  - destruct (IH Hin) as (y & Ey & Hy). exists y. split; [exact Ey|right; exact Hy].
Qed.

Lemma run_toks_unstyled : forall r, r_style r = [] -> run_toks r = Ok (r_toks r).
Proof.
  intros [st ts] H. cbn [r_style] in H. subst st. unfold run_toks. cbn [r_toks r_style].
  destruct ts as [|t ts]; [reflexivity|].
  unfold close_toks. cbn [rev mapM bind map app]. rewrite app_nil_r. reflexivity.
Qed.

(* an unstyled non-empty run is one of the run strings of its paragraph *)
Lemma unstyled_run_string : forall html p rs r,
  par_run_strings html p = Ok rs -> In r (p_runs p) ->
  r_style r = [] -> r_toks r <> [] -> In (render html (r_toks r)) rs.
Proof.
  intros html p rs r H Hin Hst Hne. unfold par_run_strings in H.
  apply bind_inv in H. destruct H as (tss & Et & H). injection H as <-.
  apply in_map. unfold par_run_toks in Et.
  apply bind_inv in Et. destruct Et as (rs0 & E0 & Et).
  destruct (mapM_In _ _ _ _ E0 Hin) as (ts & Ets & Hts).
  rewrite (run_toks_unstyled r Hst) in Ets. injection Ets as <-.
  assert (Hf : In (r_toks r) (filter nonempty rs0)).
  { apply filter_In. split; [exact Hts|]. destruct (r_toks r); [contradiction Hne; reflexivity|reflexivity]. }
  destruct (p_hstyle p) as [|h hs].
  - injection Et as <-. exact Hf.
  - apply bind_inv in Et. destruct Et as (cl & _ & Et). injection Et as <-.
    right. apply in_or_app. left. exact Hf.
Qed.

Lemma map_RA_inj {A} : forall (l1 l2 : list A), map (@RA A) l1 = map RA l2 -> l1 = l2.
Proof.
  induction l1 as [|x l1 IH]; intros [|y l2] H; try discriminate H; [reflexivity|].
  cbn [map] in H. injection H as -> H. f_equal. apply IH. exact H.
Qed.

(* C10, end to end: the link helper yields the (href, text) pair of a link
   run (MarkerFacts.link_is_one_run: style [], tokens link_toks link body) of
   any paragraph record of the document, when the text has no angle bracket *)
Theorem get_links_yields_link : forall a l pars ps p link body,
  get_links a = Ok l ->
  document_pars a default_opts = Ok pars -> iter_at_depth pars 4%nat = Ok (map RA ps) ->
  In p ps ->
  In {| r_style := []; r_toks := link_toks link body |} (p_runs p) ->
  link <> [] -> ~ In 34 link -> render false body <> [] -> ~ In 60 (render false body) ->
  In (link, render false body) l.
Proof.
  intros a l pars ps p link body H Ep Ei Hp Hr Hl Nl Hb Nb.
  apply get_links_of_pars in H. destruct H as (pars' & ps' & rss & Ep' & Ei' & Ers & ->).
  rewrite Ep in Ep'. injection Ep' as <-. rewrite Ei in Ei'. injection Ei' as Ei'.
  apply map_RA_inj in Ei'. subst ps'.
  destruct (mapM_In _ _ _ _ Ers Hp) as (rs & Ers' & Hrs).
  apply filter_map_In. exists (render false (link_toks link body)). split.
  - apply in_concat. exists rs. split; [exact Hrs|].
    apply (unstyled_run_string false p rs _ Ers' Hr); [reflexivity|].
    cbn [r_toks]. unfold link_toks. discriminate.
  - apply link_match_rendered_link_gen; assumption.
Qed.

(* and conversely nothing with an angle bracket in the text or a quote in the
   target is ever yielded *)
Theorem get_links_pairs_clean : forall a l h t, get_links a = Ok l -> In (h, t) l ->
  h <> [] /\ ~ In 34 h /\ t <> [] /\ ~ In 60 t.
Proof.
  intros a l h t H Hin. apply get_links_complete in H. destruct H as (ss & _ & ->).
  apply filter_map_In in Hin. destruct Hin as (r & _ & E).
  exact (link_match_groups r h t E).
Qed.

(* ================================================================== *)
(* 6. get_headings                                                      *)
(* ================================================================== *)
Definition heading_opts : opts := {| o_html := true; o_dup := true |}.
Definition is_heading (p : par) : bool := heading_match (p_style p).

Definition heading_step (acc : list (list str)) (it : rose par) : res (list (list str)) :=
  match it with
  | RA p => if heading_match (p_style p)
            then rs <- par_run_strings true p ;; Ok (acc ++ [rs])
            else Ok acc
  | RL _ => Err AttributeError
  end.

Lemma get_headings_unfold : forall a,
  get_headings a = (pars <- document_pars a heading_opts ;;
                    its <- iter_at_depth pars 4%nat ;; foldM heading_step its []).
Proof. reflexivity. Qed.

Lemma heading_fold : forall its acc l,
  foldM heading_step its acc = Ok l <->
  exists ps l', its = map RA ps
                /\ mapM (par_run_strings true) (filter is_heading ps) = Ok l'
                /\ l = acc ++ l'.
Proof.
  induction its as [|it its IH]; intros acc l; cbn [foldM].
  - split.
    + intros [= <-]. exists [], []. repeat split. rewrite app_nil_r. reflexivity.
    + intros (ps & l' & E & Em & ->). destruct ps; [|discriminate E].
      cbn [filter mapM] in Em. injection Em as <-. rewrite app_nil_r. reflexivity.
  - destruct it as [x|p]; cbn [heading_step bind].
    + split; [discriminate|]. intros (ps & _ & E & _). destruct ps; discriminate E.
    + split.
      * intros H. destruct (heading_match (p_style p)) eqn:Eh.
        -- destruct (par_run_strings true p) as [rs|e] eqn:Ers; cbn [bind] in H; [|discriminate H].
           apply IH in H. destruct H as (ps & l' & -> & Em & ->).
           exists (p :: ps), (rs :: l'). split; [reflexivity|]. split.
           ++ cbn [filter]. unfold is_heading at 1. rewrite Eh. cbn [mapM]. rewrite Ers, Em. reflexivity.
           ++ rewrite <- app_assoc. reflexivity.
        -- cbn [bind] in H. apply IH in H. destruct H as (ps & l' & -> & Em & ->).
           exists (p :: ps), l'. split; [reflexivity|]. split; [|reflexivity].
           cbn [filter]. unfold is_heading at 1. rewrite Eh. exact Em.
      * intros (ps & l' & E & Em & ->). destruct ps as [|p0 ps]; [discriminate E|].
        cbn [map] in E. injection E as <- ->. cbn [filter] in Em. unfold is_heading at 1 in Em.
        destruct (heading_match (p_style p)) eqn:Eh.
        -- cbn [mapM] in Em. apply bind_inv in Em. destruct Em as (rs & Ers & Em).
           apply bind_inv in Em. destruct Em as (l'' & Em & H). injection H as <-.
           rewrite Ers. cbn [bind]. apply IH. exists ps, l''. split; [reflexivity|].
           split; [exact Em|]. rewrite <- app_assoc. reflexivity.
        -- cbn [bind]. apply IH. exists ps, l'. repeat split. exact Em.
Qed.

(* the result is, in order, the run strings (html on) of exactly the records
   at depth 4 of document_pars whose style id matches Heading\d *)
Theorem get_headings_spec : forall a l,
  get_headings a = Ok l <->
  exists pars ps,
    document_pars a heading_opts = Ok pars
    /\ iter_at_depth pars 4%nat = Ok (map RA ps)
    /\ mapM (par_run_strings true) (filter is_heading ps) = Ok l.
Proof.
  intros a l. rewrite get_headings_unfold. split.
  - intros H. apply bind_inv in H. destruct H as (pars & Ep & H).
    apply bind_inv in H. destruct H as (its & Ei & H).
    apply heading_fold in H. destruct H as (ps & l' & -> & Em & ->).
    exists pars, ps. repeat split; assumption.
  - intros (pars & ps & Ep & Ei & Em). rewrite Ep. cbn [bind]. rewrite Ei. cbn [bind].
    apply heading_fold. exists ps, l. repeat split. exact Em.
Qed.

(* element-wise reading: as many entries as heading records, entry i is the
   run strings of the i-th heading record *)
Corollary get_headings_pointwise : forall a l, get_headings a = Ok l ->
  exists pars ps,
    document_pars a heading_opts = Ok pars
    /\ iter_at_depth pars 4%nat = Ok (map RA ps)
    /\ Forall2 (fun p rs => par_run_strings true p = Ok rs) (filter is_heading ps) l
    /\ (forall p, In p (filter is_heading ps) <-> In p ps /\ heading_match (p_style p) = true).
Proof.
  intros a l H. apply get_headings_spec in H. destruct H as (pars & ps & Ep & Ei & Em).
  exists pars, ps. split; [exact Ep|]. split; [exact Ei|]. split.
  - apply mapM_Forall2. exact Em.
  - intros p. unfold is_heading. apply (filter_In (fun p => heading_match (p_style p))).
Qed.

(* no record with a heading style: the empty list; records that do not match
   are never asked for their run strings *)
Corollary get_headings_none : forall a pars ps,
  document_pars a heading_opts = Ok pars -> iter_at_depth pars 4%nat = Ok (map RA ps) ->
  (forall p, In p ps -> heading_match (p_style p) = false) ->
  get_headings a = Ok [].
Proof.
  intros a pars ps Ep Ei H. apply get_headings_spec. exists pars, ps.
  split; [exact Ep|]. split; [exact Ei|].
  replace (filter is_heading ps) with (@nil par); [reflexivity|].
  symmetry. clear Ei. induction ps as [|p ps IH]; [reflexivity|]. cbn [filter].
  unfold is_heading at 1. rewrite (H p (or_introl eq_refl)). apply IH.
  intros p' Hin. apply H. right. exact Hin.
Qed.

(* ================================================================== *)
Print Assumptions link_match_spec.
Print Assumptions link_match_tail.
Print Assumptions link_match_rendered_link_gen.
Print Assumptions link_match_rendered_link.
Print Assumptions link_match_none_bracket.
Print Assumptions link_match_none_quote.
Print Assumptions link_match_bracket_exact.
Print Assumptions link_match_bracket_none.
Print Assumptions link_match_plain_text.
Print Assumptions link_match_no_angle.
Print Assumptions link_match_escaped_text.
Print Assumptions heading_match_spec.
Print Assumptions is_unicode_digit_spec.
Print Assumptions heading_match_ascii.
Print Assumptions is_unicode_digit_ascii_true.
Print Assumptions is_unicode_digit_ascii_false.
Print Assumptions heading_match_ascii_style.
Print Assumptions get_links_complete.
Print Assumptions get_links_iff.
Print Assumptions get_links_err.
Print Assumptions get_links_sound.
Print Assumptions get_links_order.
Print Assumptions get_links_no_angle.
Print Assumptions iter_at_depth_items.
Print Assumptions items_succ.
Print Assumptions gps_leaves.
Print Assumptions get_links_of_pars.
Print Assumptions get_links_yields_link.
Print Assumptions get_links_pairs_clean.
Print Assumptions get_headings_spec.
Print Assumptions get_headings_pointwise.
Print Assumptions get_headings_none.

(* non-trivial inputs satisfying the hypotheses of link_match_rendered_link /
   get_links_yields_link *)
Example ex_rendered_link :
  let link := [104; 116; 116; 112; 58; 47; 47; 120] in         (* http://x *)
  let body := [TTxt 97; TRaw 32; TTxt 62; TTxt 98] in           (* "a >b" *)
  (link <> [] /\ ~ In 34 link /\ forallb chr_tok body = true
   /\ render false body <> [] /\ ~ In 60 (render false body))
  /\ link_match (render false (link_toks link body)) = Some (link, [97; 32; 62; 98]).
Proof.
  cbv zeta. split; [|vm_compute; reflexivity].
  split; [discriminate|]. split; [|split; [reflexivity|split; [discriminate|]]];
    vm_compute; intros H;
    repeat (destruct H as [H|H]; [discriminate H|]); exact H.
Qed.
