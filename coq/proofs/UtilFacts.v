(* UtilFacts.v — C10 / C05: utilities.get_links and utilities.get_headings.
   The two regular expressions of utilities.py (Utilities.link_match,
   Utilities.heading_match) are characterised exactly, tied to the rendering
   of a resolved hyperlink (Walk.link_toks), and the two helpers are related
   to the run strings / paragraph records of the document. *)
From Coq Require Import List NArith ZArith Bool Arith Lia.
From D2P Require Import Str Err Xml TableTypes Tables Fmt Bullets Merge Collector Walk Iter
     Output Paths Package Content Utilities.
From D2P Require Import TokFacts MarkerFacts ViewFacts.
Import ListNotations.
Open Scope N_scope.

(* ================================================================== *)
(* 0. the two string primitives                                         *)
(* ================================================================== *)
Lemma strip_prefix_spec : forall p s r, strip_prefix p s = Some r <-> s = p ++ r.
Proof.
  induction p as [|x p IH]; intros s r; cbn [strip_prefix app].
  - split; [intros [= ->]; reflexivity|intros ->; reflexivity].
  - destruct s as [|y s].
    + split; discriminate.
    + destruct (N.eqb_spec x y) as [->|Hne].
      * rewrite IH. split; [intros ->; reflexivity|intros [= ->]; reflexivity].
      * split; [discriminate|]. intros [= H1 H2]. symmetry in H1. contradiction.
Qed.

Lemma strip_prefix_app : forall p r, strip_prefix p (p ++ r) = Some r.
Proof. intros p r. apply strip_prefix_spec. reflexivity. Qed.

Lemma span_not_inv : forall c s a b, span_not c s = (a, b) ->
  s = a ++ b /\ ~ In c a /\ (b = [] \/ exists r, b = c :: r).
Proof.
  intros c. induction s as [|x s IH]; intros a b H; cbn [span_not] in H.
  - injection H as <- <-. split; [reflexivity|]. split; [intros []|left; reflexivity].
  - destruct (N.eqb_spec x c) as [->|Hne].
    + injection H as <- <-. split; [reflexivity|]. split; [intros []|right; eauto].
    + destruct (span_not c s) as [a' b'] eqn:E. injection H as <- <-.
      destruct (IH a' b' eq_refl) as (H1 & H2 & H3).
      split; [cbn [app]; f_equal; exact H1|]. split; [|exact H3].
      intros [Hx|Hin]; [symmetry in Hx; contradiction|contradiction].
Qed.

Lemma span_not_cons : forall c a r, ~ In c a -> span_not c (a ++ c :: r) = (a, c :: r).
Proof.
  intros c. induction a as [|x a IH]; intros r Hn; cbn [app span_not].
  - rewrite N.eqb_refl. reflexivity.
  - destruct (N.eqb_spec x c) as [->|Hne]; [exfalso; apply Hn; left; reflexivity|].
    rewrite IH; [reflexivity|]. intros Hin. apply Hn. right. exact Hin.
Qed.

Lemma span_not_all : forall c a, ~ In c a -> span_not c a = (a, []).
Proof.
  intros c. induction a as [|x a IH]; intros Hn; cbn [span_not]; [reflexivity|].
  destruct (N.eqb_spec x c) as [->|Hne]; [exfalso; apply Hn; left; reflexivity|].
  rewrite IH; [reflexivity|]. intros Hin. apply Hn. right. exact Hin.
Qed.

(* ================================================================== *)
(* 1. link_match: exact characterisation                                *)
(* ================================================================== *)
Theorem link_match_spec : forall run h t,
  link_match run = Some (h, t) <->
  exists rest, run = s_a_open ++ h ++ s_quote_gt ++ t ++ s_a_close ++ rest
               /\ h <> [] /\ ~ In 34 h /\ t <> [] /\ ~ In 60 t.
Proof.
  intros run h t. split.
  - unfold link_match. intros H.
    destruct (strip_prefix s_a_open run) as [r1|] eqn:E1; [|discriminate H].
    destruct (span_not 34 r1) as [href r2] eqn:E2.
    destruct href as [|h0 href]; [discriminate H|].
    destruct (strip_prefix s_quote_gt r2) as [r3|] eqn:E3; [|discriminate H].
    destruct (span_not 60 r3) as [txt r4] eqn:E4.
    destruct txt as [|t0 txt]; [discriminate H|].
    destruct (strip_prefix s_a_close r4) as [r5|] eqn:E5; [|discriminate H].
    injection H as <- <-.
    apply strip_prefix_spec in E1, E3, E5.
    apply span_not_inv in E2, E4.
    destruct E2 as (E2 & N2 & _). destruct E4 as (E4 & N4 & _).
    exists r5. subst run r1 r2 r3 r4.
    split; [reflexivity|]. split; [discriminate|]. split; [exact N2|].
    split; [discriminate|exact N4].
  - intros (rest & -> & Hh & Nh & Ht & Nt).
    unfold link_match. rewrite strip_prefix_app.
    change (s_quote_gt ++ t ++ s_a_close ++ rest) with (34 :: 62 :: t ++ s_a_close ++ rest).
    rewrite (span_not_cons 34 h _ Nh).
    destruct h as [|h0 h]; [contradiction Hh; reflexivity|].
    change (34 :: 62 :: t ++ s_a_close ++ rest) with (s_quote_gt ++ t ++ s_a_close ++ rest).
    rewrite strip_prefix_app.
    change (s_a_close ++ rest) with (60 :: [47; 97; 62] ++ rest).
    rewrite (span_not_cons 60 t _ Nt).
    destruct t as [|t0 t]; [contradiction Ht; reflexivity|].
    change (60 :: [47; 97; 62] ++ rest) with (s_a_close ++ rest).
    rewrite strip_prefix_app. reflexivity.
Qed.

(* what is yielded never holds a quote in the href nor an angle bracket in
   the text, and neither group is empty *)
Corollary link_match_groups : forall run h t, link_match run = Some (h, t) ->
  h <> [] /\ ~ In 34 h /\ t <> [] /\ ~ In 60 t.
Proof.
  intros run h t H. apply link_match_spec in H. destruct H as (rest & _ & H). exact H.
Qed.

(* re.match anchors at the start only: what follows </a> is irrelevant *)
Corollary link_match_tail : forall run h t tail,
  link_match run = Some (h, t) -> link_match (run ++ tail) = Some (h, t).
Proof.
  intros run h t tail H. apply link_match_spec in H. destruct H as (rest & -> & H).
  apply link_match_spec. exists (rest ++ tail). split; [|exact H].
  rewrite <- !app_assoc. reflexivity.
Qed.
