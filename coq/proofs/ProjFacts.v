(* ProjFacts.v — the html=True extraction projects onto the html=False extraction
   (C07 / C19): deleting the formatting tags of the html tokens gives the plain tokens;
   everything else (shape, lineage, styles, list positions, counters) is the same. *)
From Coq Require Import List NArith ZArith Bool Arith Lia.
From D2P Require Import Str Err Xml TableTypes Tables Fmt NumFmt Bullets Merge Collector Walk.
From D2P Require Import BulletsFacts TokFacts MiscFacts.
From Coq Require String.
Import ListNotations.
Import String.StringSyntax.
Delimit Scope string_scope with string.
Open Scope N_scope.

(* ================================================================== *)
(* Definitions of the work package                                      *)
(* ================================================================== *)

Definition plain_env (v : env) : env :=
  {| env_x2h := []; env_rels := env_rels v; env_dup := env_dup v; env_numtbl := env_numtbl v |}.

(* opening tags that are NOT formatting: <a href="...">, <latex>, <span style=font-family:F> *)
Definition content_open (s : str) : bool :=
  starts_with s_a_href s || str_eqb s s_latex || starts_with s_span_font s.

(* delete every formatting tag together with its matching closing tag *)
Fixpoint erase (stack : list bool) (ts : list tok) : list tok :=
  match ts with
  | [] => []
  | TOpen s :: r => if content_open s then TOpen s :: erase (false :: stack) r
                    else erase (true :: stack) r
  | TClose s :: r => match stack with
                     | true :: st => erase st r
                     | false :: st => TClose s :: erase st r
                     | [] => TClose s :: erase [] r
                     end
  | t :: r => t :: erase stack r
  end.

Definition nc (s : str) : Prop := content_open s = false.

(* ================================================================== *)
(* PART 0 — erase is a transducer                                       *)
(* ================================================================== *)

Fixpoint run_stack (stk : list bool) (ts : list tok) : list bool :=
  match ts with
  | [] => stk
  | TOpen s :: r => run_stack (negb (content_open s) :: stk) r
  | TClose _ :: r => run_stack (tl stk) r
  | _ :: r => run_stack stk r
  end.

Lemma erase_app : forall a b stk,
  erase stk (a ++ b) = erase stk a ++ erase (run_stack stk a) b.
Proof.
  induction a as [|t a IH]; intros b stk; [reflexivity|].
  destruct t as [c|c|s|w]; cbn [app erase run_stack].
  - rewrite IH. reflexivity.
  - rewrite IH. reflexivity.
  - destruct (content_open s); cbn [negb]; rewrite IH; reflexivity.
  - destruct stk as [|[|] st]; cbn [tl]; rewrite IH; reflexivity.
Qed.

Lemma run_stack_app : forall a b stk,
  run_stack stk (a ++ b) = run_stack (run_stack stk a) b.
Proof.
  induction a as [|t a IH]; intros b stk; [reflexivity|].
  destruct t as [c|c|s|w]; cbn [app run_stack]; apply IH.
Qed.

(* well-bracketed for erase: neither the stack nor the output depend on the context *)
Definition wb (ts : list tok) : Prop :=
  forall stk, run_stack stk ts = stk /\ erase stk ts = erase [] ts.

Lemma check_sim : forall ts k k' bl,
  check k ts = Some k' -> length bl = length k ->
  exists bl', length bl' = length k' /\
    forall base, run_stack (bl ++ base) ts = bl' ++ base /\
                 erase (bl ++ base) ts = erase bl ts.
Proof.
  induction ts as [|t ts IH]; intros k k' bl H Hl.
  - cbn in H. injection H as H. subst k'. exists bl. split; [exact Hl|].
    intros base. split; reflexivity.
  - destruct t as [c|c|s|w]; cbn [check] in H.
    + destruct (IH _ _ _ H Hl) as (bl' & Hl' & Hb). exists bl'. split; [exact Hl'|].
      intros base. destruct (Hb base) as [H1 H2]. cbn [run_stack erase]. rewrite H2. auto.
    + destruct (IH _ _ _ H Hl) as (bl' & Hl' & Hb). exists bl'. split; [exact Hl'|].
      intros base. destruct (Hb base) as [H1 H2]. cbn [run_stack erase]. rewrite H2. auto.
    + destruct (words s) as [|w0 ws]; [discriminate H|].
      destruct (IH _ _ (negb (content_open s) :: bl) H) as (bl' & Hl' & Hb).
      { cbn [length]. rewrite Hl. reflexivity. }
      exists bl'. split; [exact Hl'|].
      intros base. destruct (Hb base) as [H1 H2]. cbn [run_stack erase].
      split; [exact H1|].
      destruct (content_open s); cbn [negb app] in H2; rewrite H2; reflexivity.
    + destruct k as [|w' k1]; [discriminate H|].
      destruct (str_eqb w w'); [|discriminate H].
      destruct bl as [|b bl1]; [discriminate Hl|].
      cbn [length] in Hl. injection Hl as Hl.
      destruct (IH _ _ _ H Hl) as (bl' & Hl' & Hb). exists bl'. split; [exact Hl'|].
      intros base. destruct (Hb base) as [H1 H2]. cbn [run_stack erase app tl].
      split; [exact H1|]. destruct b; rewrite H2; reflexivity.
Qed.

Lemma balanced_wb : forall ts, balanced ts -> wb ts.
Proof.
  intros ts H stk. destruct (check_sim ts [] [] [] H eq_refl) as (bl' & Hl & Hb).
  destruct bl' as [|b bl']; [|discriminate Hl]. exact (Hb stk).
Qed.

Lemma erase_app_bal : forall a b stk, balanced a ->
  erase stk (a ++ b) = erase [] a ++ erase stk b.
Proof.
  intros a b stk H. rewrite erase_app. destruct (balanced_wb a H stk) as [H1 H2].
  rewrite H1, H2. reflexivity.
Qed.

Lemma erase_neutral : forall ts stk, Forall neutral ts -> erase stk ts = ts.
Proof.
  induction ts as [|t ts IH]; intros stk H; [reflexivity|].
  inversion H as [|? ? Ht Hts]; subst.
  destruct t as [c|c|s|w]; cbn in Ht; try contradiction; cbn [erase]; rewrite IH; auto.
Qed.

Lemma neutral_txt : forall s, Forall neutral (map TTxt s).
Proof.
  intros s. apply Forall_forall. intros t Ht. apply in_map_iff in Ht.
  destruct Ht as (c & Hc & _). subst. exact I.
Qed.

Lemma neutral_raw : forall s, Forall neutral (raw s).
Proof.
  intros s. apply Forall_forall. intros t Ht. unfold raw in Ht. apply in_map_iff in Ht.
  destruct Ht as (c & Hc & _). subst. exact I.
Qed.

Lemma erase_txt : forall s stk, erase stk (map TTxt s) = map TTxt s.
Proof. intros. apply erase_neutral. apply neutral_txt. Qed.

Lemma erase_raw : forall s stk, erase stk (raw s) = raw s.
Proof. intros. apply erase_neutral. apply neutral_raw. Qed.

(* a content tag around a balanced body is kept *)
Lemma erase_content_wrap : forall s w ts stk,
  content_open s = true -> balanced ts ->
  erase stk (TOpen s :: ts ++ [TClose w]) = TOpen s :: erase [] ts ++ [TClose w].
Proof.
  intros s w ts stk Hs Hts. cbn [erase]. rewrite Hs.
  rewrite erase_app_bal by exact Hts. reflexivity.
Qed.

(* formatting tags around a balanced body are deleted *)
Lemma erase_opens : forall style X stk, Forall nc style ->
  erase stk (map TOpen style ++ X) = erase (repeat true (length style) ++ stk) X.
Proof.
  induction style as [|x style IH]; intros X stk H; [reflexivity|].
  inversion H as [|? ? Hx Hs]; subst. cbn [map app erase]. rewrite Hx.
  rewrite IH by exact Hs. f_equal. cbn [length repeat].
  rewrite (repeat_cons (length style) true), <- app_assoc. reflexivity.
Qed.

Lemma erase_closes : forall ws X stk,
  erase (repeat true (length ws) ++ stk) (map TClose ws ++ X) = erase stk X.
Proof.
  induction ws as [|w ws IH]; intros X stk; [reflexivity|].
  cbn [length repeat map app erase]. apply IH.
Qed.

Lemma close_toks_length : forall style cl,
  close_toks style = Ok cl -> exists ws, cl = map TClose ws /\ length ws = length style.
Proof.
  intros style cl H. unfold close_toks in H. bind_inv H as ws E. injection H as H. subst cl.
  exists ws. split; [reflexivity|].
  assert (G : forall (l : list str) ys, mapM first_word l = Ok ys -> length ys = length l).
  { induction l as [|x l IH]; intros ys Hy.
    - cbn in Hy. injection Hy as Hy. subst. reflexivity.
    - cbn in Hy. bind_inv Hy as y Ey. bind_inv Hy as ys' Eys. injection Hy as Hy. subst ys.
      cbn [length]. f_equal. apply IH. reflexivity. }
  rewrite (G _ _ E). apply rev_length.
Qed.

Lemma erase_fmt_wrap : forall style cl ts X stk,
  Forall nc style -> close_toks style = Ok cl -> balanced ts ->
  erase stk (map TOpen style ++ ts ++ cl ++ X) = erase [] ts ++ erase stk X.
Proof.
  intros style cl ts X stk Hs Hc Hts.
  destruct (close_toks_length _ _ Hc) as (ws & Hcl & Hl). subst cl.
  rewrite erase_opens by exact Hs. rewrite erase_app_bal by exact Hts.
  rewrite <- Hl. rewrite erase_closes. reflexivity.
Qed.

(* ================================================================== *)
(* PART 1 — the style strings are formatting tags                       *)
(* ================================================================== *)

Definition styles_ok (v : env) : Prop :=
  (forall e ks st, get_run_formatting e ks (env_x2h v) = Ok st -> Forall nc st) /\
  (forall e ks st, get_paragraph_formatting e ks (env_x2h v) = Ok st -> Forall nc st).

Lemma starts_with_length : forall p s, starts_with p s = true -> (length p <= length s)%nat.
Proof.
  induction p as [|x p IH]; intros s H; [cbn; lia|].
  destruct s as [|y s]; [discriminate H|]. cbn in H. apply andb_true_iff in H.
  destruct H as [_ H]. apply IH in H. cbn [length]. lia.
Qed.

Lemma short_nc : forall s, (length s <= 3)%nat -> nc s.
Proof.
  intros s H. unfold nc, content_open.
  destruct (starts_with s_a_href s) eqn:E1.
  { apply starts_with_length in E1. cbn in E1. lia. }
  destruct (str_eqb s s_latex) eqn:E2.
  { apply str_eqb_eq in E2. subst s. cbn in H. lia. }
  destruct (starts_with s_span_font s) eqn:E3.
  { apply starts_with_length in E3. cbn in E3. lia. }
  reflexivity.
Qed.

Definition s_span_style_q : str := s2l "span style="""%string.
Definition s_style_q : str := s2l "style="""%string.

Lemma starts_with_app : forall p x y, starts_with p x = true -> starts_with p (x ++ y) = true.
Proof.
  induction p as [|a p IH]; intros x y H; [reflexivity|].
  destruct x as [|b x]; [discriminate H|]. cbn in H. apply andb_true_iff in H.
  destruct H as [H1 H2]. cbn. rewrite H1. cbn. apply IH. exact H2.
Qed.

Lemma starts_with_app_l : forall p q y, starts_with q y = true -> starts_with (p ++ q) (p ++ y) = true.
Proof.
  induction p as [|a p IH]; intros q y H; [exact H|].
  cbn. rewrite N.eqb_refl. cbn. apply IH. exact H.
Qed.

Lemma starts_with_split : forall p x, starts_with p x = true -> exists y, x = p ++ y.
Proof.
  induction p as [|a p IH]; intros x H; [exists x; reflexivity|].
  destruct x as [|b x]; [discriminate H|]. cbn [starts_with] in H. apply andb_true_iff in H.
  destruct H as [H1 H2]. apply N.eqb_eq in H1. subst b.
  destruct (IH _ H2) as (y & Hy). subst x. exists y. reflexivity.
Qed.

Lemma span_style_nc : forall x, starts_with s_style_q x = true -> nc (w_span ++ s_space ++ x).
Proof.
  intros x H. apply starts_with_split in H. destruct H as (y & Hy). subst x.
  reflexivity.
Qed.

(* --- bound on the length of a formatter's output --- *)
Definition part_bound (k : str) (p : fpart) : option nat :=
  match p with
  | FLit s => Some (length s)
  | FTag => Some (length k)
  | FVal => None
  | FValPrefix n => Some n
  | FTagLast => Some 1%nat
  end.
Fixpoint expr_bound (k : str) (f : fexpr) : option nat :=
  match f with
  | [] => Some O
  | p :: r => match part_bound k p, expr_bound k r with
              | Some a, Some b => Some (a + b)%nat
              | _, _ => None
              end
  end.

Lemma part_bound_ok : forall k val p s n,
  eval_fpart k val p = Ok s -> part_bound k p = Some n -> (length s <= n)%nat.
Proof.
  intros k val p s n H Hb. destruct p as [l| | |m|]; cbn in H, Hb.
  - injection H as H. injection Hb as Hb. subst. lia.
  - injection H as H. injection Hb as Hb. subst. lia.
  - discriminate Hb.
  - injection H as H. injection Hb as Hb. subst. apply firstn_le_length.
  - destruct (last_opt k); [|discriminate H]. injection H as H. injection Hb as Hb. subst.
    cbn. lia.
Qed.

Lemma expr_bound_ok : forall k val f s n,
  eval_fexpr f k val = Ok s -> expr_bound k f = Some n -> (length s <= n)%nat.
Proof.
  intros k val f s n H Hb. unfold eval_fexpr in H. bind_inv H as parts E.
  injection H as H. subst s. revert parts n E Hb.
  induction f as [|p f IH]; intros parts n E Hb.
  - cbn in E. injection E as E. subst parts. cbn. lia.
  - cbn [mapM] in E. bind_inv E as y Ey. bind_inv E as ys Eys. injection E as E. subst parts.
    cbn [expr_bound] in Hb.
    destruct (part_bound k p) as [a|] eqn:Ea; [|discriminate Hb].
    destruct (expr_bound k f) as [b|] eqn:Eb; [|discriminate Hb].
    injection Hb as Hb. subst n. cbn [concat]. rewrite app_length.
    pose proof (part_bound_ok _ _ _ _ _ Ey Ea) as H1.
    pose proof (IH ys b eq_refl eq_refl) as H2. lia.
Qed.

Definition s_style : str := s2l "style"%string.

Definition entry_ok2 (kv : str * hformatter) : bool :=
  match hf_container (snd kv), hf_property (snd kv) with
  | None, None => match expr_bound (fst kv) (hf_expr (snd kv)) with
                  | Some n => Nat.leb n 3
                  | None => false
                  end
  | Some c, Some p => str_eqb c w_span && str_eqb p s_style
  | _, _ => false
  end.

Lemma table_ok2 : forallb entry_ok2 xml2html_table = true.
Proof. vm_compute. reflexivity. Qed.

Definition short (s : str) : Prop := (length s <= 3)%nat.

Definition cp_inv2 (d : list (cp_key * list str)) : Prop :=
  Forall (fun kv => (fst kv = (None, None) /\ Forall short (snd kv)) \/
                    fst kv = (Some w_span, Some s_style)) d.

Lemma entry_step2 : forall k val hf s,
  dict_get k xml2html_table = Some hf -> eval_fexpr (hf_expr hf) k val = Ok s ->
  ((hf_container hf, hf_property hf) = (None, None) /\ short s) \/
  (hf_container hf, hf_property hf) = (Some w_span, Some s_style).
Proof.
  intros k val hf s Hg He. apply dict_get_in in Hg.
  pose proof table_ok2 as T. rewrite forallb_forall in T. specialize (T _ Hg).
  unfold entry_ok2 in T. cbn [fst snd] in T.
  destruct (hf_container hf) as [c|]; destruct (hf_property hf) as [p|]; try discriminate T.
  - apply andb_true_iff in T. destruct T as [T1 T2].
    apply str_eqb_eq in T1. apply str_eqb_eq in T2. subst. right. reflexivity.
  - left. split; [reflexivity|].
    destruct (expr_bound k (hf_expr hf)) as [n|] eqn:Eb; [|discriminate T].
    apply Nat.leb_le in T. pose proof (expr_bound_ok _ _ _ _ _ He Eb). unfold short. lia.
Qed.

Lemma cp_add_inv2 : forall k v d,
  ((k = (None, None) /\ short v) \/ k = (Some w_span, Some s_style)) ->
  cp_inv2 d -> cp_inv2 (cp_add k v d).
Proof.
  intros k v d Hk Hd. induction Hd as [|[k' vs] r Hk' Hr IH]; cbn [cp_add].
  - constructor; [|constructor]. cbn [fst snd].
    destruct Hk as [[Hk Hv]|Hk]; [left|right; exact Hk].
    split; [exact Hk|]. constructor; [exact Hv|constructor].
  - cbn [fst snd] in *. destruct (cp_eqb k k') eqn:E.
    + apply cp_eqb_eq in E. subst k'. constructor; [|exact Hr]. cbn [fst snd].
      destruct Hk' as [[Hk' Hvs]|Hk']; [|right; exact Hk'].
      left. split; [exact Hk'|]. apply Forall_app. split; [exact Hvs|].
      destruct Hk as [[_ Hv]|Hk]; [constructor; [exact Hv|constructor]|].
      rewrite Hk in Hk'. discriminate Hk'.
    + constructor; [|exact IH]. exact Hk'.
Qed.

Lemma dict_set_Forall : forall {V} (P : str * V -> Prop) k (v : V) d,
  P (k, v) -> Forall P d -> Forall P (dict_set k v d).
Proof.
  intros V P k v d Hk Hd. induction Hd as [|[k' v'] r Hk' Hr IH]; cbn [dict_set].
  - constructor; [exact Hk|constructor].
  - destruct (str_eqb k k'); constructor; auto.
Qed.

Definition item_ok (it : str) : Prop := starts_with s_style_q it = true.
Definition con_ok (kv : str * list str) : Prop :=
  fst kv = w_span /\ snd kv <> [] /\ Forall item_ok (snd kv).

Lemma join_starts : forall p sep it rest,
  starts_with p it = true -> starts_with p (join sep (it :: rest)) = true.
Proof.
  intros p sep it rest H. cbn [join]. destruct rest as [|x r]; [exact H|].
  apply starts_with_app. exact H.
Qed.

Lemma format_nc : forall pr st,
  format_Pr_into_html pr xml2html_table = Ok st -> Forall nc st.
Proof.
  intros pr st H. unfold format_Pr_into_html in H.
  bind_inv H as cp E.
  assert (Hcp : cp_inv2 cp).
  { eapply (foldM_inv cp_inv2); [|constructor|exact E].
    intros d [k v] d' Hin Hd Hs. cbn [fst snd] in Hs.
    destruct (dict_get k xml2html_table) as [hf|] eqn:Eg.
    - destruct (is_off v) eqn:Eoff; [injection Hs as <-; exact Hd|].
      bind_inv Hs as s Ee. injection Hs as <-.
      apply cp_add_inv2; [|exact Hd].
      destruct (entry_step2 k (ostr v) hf s Eg Ee) as [[H1 H2]|H1]; [left|right]; auto.
    - injection Hs as <-. exact Hd. }
  cbv zeta in H. injection H as <-.
  apply Forall_app. split.
  - (* spans *)
    rewrite Forall_forall. intros x Hx.
    apply in_map_iff in Hx. destruct Hx as [kv [<- Hkv]].
    apply sort_by_In in Hkv. apply filter_In in Hkv. destruct Hkv as [Hkv Hne].
    match type of Hkv with
    | In _ (fold_left ?f ?l ?z) => assert (Hcon : Forall con_ok (fold_left f l z))
    end.
    { apply (fold_left_inv (Forall con_ok)); [|constructor].
      intros d [[c [p|]] vs] Hin Hd; cbn [fst snd]; [|exact Hd].
      apply sort_by_In in Hin. apply filter_In in Hin. destruct Hin as [Hin _].
      unfold cp_inv2 in Hcp. rewrite Forall_forall in Hcp. specialize (Hcp _ Hin).
      cbn [fst snd] in Hcp. destruct Hcp as [[Hk _]|Hk]; [discriminate Hk|].
      injection Hk as Hc Hp. subst c p. cbn [ostr].
      assert (Hit : forall vs', item_ok (prop_string s_style vs')).
      { intros vs'. reflexivity. }
      destruct (dict_get w_span d) as [items|] eqn:Eg.
      - apply dict_set_Forall; [|exact Hd].
        apply dict_get_in in Eg. rewrite Forall_forall in Hd. specialize (Hd _ Eg).
        destruct Hd as (_ & Hne0 & Hall). cbn [snd] in Hne0, Hall.
        split; [reflexivity|]. cbn [snd]. split.
        + destruct items; [contradiction|discriminate].
        + apply Forall_app. split; [exact Hall|]. constructor; [apply Hit|constructor].
      - apply dict_set_Forall; [|exact Hd].
        split; [reflexivity|]. cbn [snd]. split; [discriminate|].
        constructor; [apply Hit|constructor]. }
    rewrite Forall_forall in Hcon. specialize (Hcon _ Hkv).
    destruct kv as [k items]. destruct Hcon as (Hk & Hne' & Hall). cbn [fst snd] in *. subst k.
    destruct items as [|it rest]; [contradiction|].
    apply span_style_nc. apply join_starts. inversion Hall; subst. assumption.
  - (* bare *)
    destruct (find (fun kv : cp_key * list str => cp_eqb (fst kv) (None, None)) cp)
      as [[k vs]|] eqn:F; [|constructor].
    apply find_some in F. destruct F as [Hin Hk]. cbn [fst] in Hk. apply cp_eqb_eq in Hk.
    unfold cp_inv2 in Hcp. rewrite Forall_forall in Hcp. specialize (Hcp _ Hin).
    cbn [fst snd] in Hcp. subst k. destruct Hcp as [[_ Hvs]|Hk]; [|discriminate Hk].
    unfold sort_strs. apply sort_by_Forall.
    eapply Forall_impl; [|exact Hvs]. intros a Ha. apply short_nc. exact Ha.
Qed.

Theorem styles_ok_table : forall v, env_x2h v = xml2html_table -> styles_ok v.
Proof.
  intros v Hv. unfold styles_ok. rewrite Hv. split; intros e ks st H.
  - unfold get_run_formatting in H. bind_inv H as pr E. eapply format_nc; exact H.
  - unfold get_paragraph_formatting in H. bind_inv H as ps E. eapply format_nc; exact H.
Qed.

Theorem styles_ok_plain : forall v, env_x2h v = [] -> styles_ok v.
Proof.
  intros v Hv. unfold styles_ok. rewrite Hv. split; intros e ks st H.
  - unfold get_run_formatting in H. bind_inv H as pr E.
    rewrite format_empty_table in H. injection H as <-. constructor.
  - unfold get_paragraph_formatting in H. bind_inv H as ps E.
    rewrite format_empty_table in H. injection H as <-. constructor.
Qed.

(* ================================================================== *)
(* PART 2 — the walk only ever stores formatting styles                 *)
(* ================================================================== *)

Definition srun (r : run) : Prop := Forall nc (r_style r).
Definition spar (p : par) : Prop := Forall nc (p_hstyle p) /\ Forall srun (p_runs p).
Fixpoint snode (n : node) : Prop :=
  match n with
  | NP p => spar p
  | NL l => (fix all (l : list node) : Prop :=
               match l with [] => True | x :: r => snode x /\ all r end) l
  end.
Definition sst (s : cst) : Prop :=
  Forall snode (c_tree s) /\ Forall spar (c_open s) /\ Forall srun (c_queued s).

Lemma snode_NL : forall l, snode (NL l) <-> Forall snode l.
Proof.
  induction l as [|x l IH].
  - cbn. split; intros; [constructor|exact I].
  - change (snode (NL (x :: l))) with (snode x /\ snode (NL l)).
    rewrite IH. split.
    + intros [H1 H2]. constructor; assumption.
    + intros H. inversion H; subst. split; assumption.
Qed.

Lemma init_sst : sst init_cst.
Proof. repeat split; constructor. Qed.

Lemma copy_node_s : forall n, snode n -> snode (copy_node n).
Proof.
  induction n as [p|l IH] using node_ind'; intros H.
  - exact H.
  - cbn [copy_node]. apply snode_NL. apply snode_NL in H.
    induction IH as [|x l Hx Hl IHl]; [constructor|].
    inversion H; subst. cbn [map]. constructor; auto.
Qed.

Lemma spine_app_s : forall d x l l',
  spine_app d x l = Ok l' -> snode x -> Forall snode l -> Forall snode l'.
Proof.
  induction d as [|d IH]; intros x l l' H Hx Hl; [discriminate H|].
  destruct d as [|d'].
  - cbn in H. injection H as H. subst. constructor; assumption.
  - cbn [spine_app] in H. destruct l as [|n rest]; [discriminate H|].
    destruct n as [l0|p]; [|discriminate H].
    bind_inv H as l2 E. injection H as H. subst l'.
    inversion Hl; subst. constructor; [|assumption].
    apply snode_NL. eapply IH; [exact E|exact Hx|]. apply snode_NL. assumption.
Qed.

Lemma drop_caret_s : forall s s', sst s -> drop_caret s = Ok s' -> sst s'.
Proof.
  intros s s' (Ht & Ho & Hq) H. unfold drop_caret in H.
  destruct (Nat.leb par_depth (c_depth s)); [discriminate H|].
  bind_inv H as t E. injection H as H. subst s'.
  split; [|split]; cbn; try assumption.
  eapply spine_app_s; [exact E| |exact Ht]. exact I.
Qed.

Lemma raise_caret_s : forall s s', sst s -> raise_caret s = Ok s' -> sst s'.
Proof.
  intros s s' Hs H. unfold raise_caret in H.
  destruct (Nat.leb (c_depth s) 1); [discriminate H|].
  injection H as H. subst s'. exact Hs.
Qed.

Lemma set_caret_go_s : forall fuel d name s s',
  sst s -> set_caret_go fuel d name s = Ok s' -> sst s'.
Proof.
  induction fuel as [|f IH]; intros d name s s' Hs H; [discriminate H|].
  cbn [set_caret_go] in H.
  destruct (Nat.eqb (c_depth s) d).
  - bind_inv H as l E. injection H as H. subst s'. exact Hs.
  - destruct (Nat.ltb (c_depth s) d).
    + bind_inv H as s1 E. eapply IH; [|exact H]. eapply drop_caret_s; eauto.
    + bind_inv H as l E. bind_inv H as s1 E1. eapply IH; [|exact H].
      eapply raise_caret_s; [|exact E1]. exact Hs.
Qed.

Lemma set_caret_s : forall d name s s', sst s -> set_caret d name s = Ok s' -> sst s'.
Proof.
  intros d name s s' Hs H. unfold set_caret in H. destruct d as [d|].
  - eapply set_caret_go_s; eauto.
  - injection H as H. subst. exact Hs.
Qed.

Lemma commence_paragraph_s : forall v elem s s',
  styles_ok v -> sst s -> commence_paragraph v elem s = Ok s' -> sst s'.
Proof.
  intros v elem s s' Hv Hs H. unfold commence_paragraph in H.
  bind_inv H as s1 E1. bind_inv H as hs E2. bind_inv H as ps E3.
  cbv zeta in H. injection H as H. subst s'.
  apply set_caret_s in E1; [|exact Hs]. destruct E1 as (Ht & Ho & Hq).
  split; [|split]; cbn.
  - exact Ht.
  - constructor; [|exact Ho]. split; cbn; [|exact Hq].
    destruct elem as [[[e ks] pth]|].
    + destruct Hv as [_ Hv]. eapply Hv; exact E2.
    + injection E2 as <-. constructor.
  - constructor.
Qed.

Lemma conclude_paragraph_s : forall s s',
  sst s -> conclude_paragraph s = Ok s' -> sst s'.
Proof.
  intros s s' Hs H. unfold conclude_paragraph in H.
  destruct (c_open s) as [|p rest] eqn:Eo.
  - injection H as H. subst. exact Hs.
  - bind_inv H as s1 E1. bind_inv H as t E2. injection H as H. subst s'.
    destruct Hs as (Ht & Ho & Hq). rewrite Eo in Ho. inversion Ho as [|? ? Hp Hrest]; subst.
    assert (Hs1 : sst s1).
    { eapply set_caret_s; [|exact E1]. split; [|split]; cbn; assumption. }
    destruct Hs1 as (Ht1 & Ho1 & Hq1).
    split; [|split]; cbn; try assumption.
    eapply spine_app_s; [exact E2| |exact Ht1]. exact Hp.
Qed.

Lemma ensure_par_s : forall v s s', styles_ok v -> sst s -> ensure_par v s = Ok s' -> sst s'.
Proof.
  intros v s s' Hv Hs H. unfold ensure_par in H. destruct (c_open s) as [|p rest].
  - eapply commence_paragraph_s; eauto.
  - injection H as H. subst. exact Hs.
Qed.

Lemma upd_open_runs_s : forall v f s s',
  styles_ok v ->
  (forall rs, Forall srun rs -> Forall srun (f rs)) ->
  sst s -> upd_open_runs v f s = Ok s' -> sst s'.
Proof.
  intros v f s s' Hv Hf Hs H. unfold upd_open_runs in H.
  bind_inv H as s1 E1. apply ensure_par_s in E1; [|exact Hv|exact Hs].
  destruct E1 as (Ht & Ho & Hq).
  destruct (c_open s1) as [|p rest] eqn:Eo; [discriminate H|].
  injection H as H. subst s'. inversion Ho as [|? ? Hp Hrest]; subst.
  split; [|split]; cbn; try assumption.
  constructor; [|exact Hrest]. destruct Hp as [Hp1 Hp2]. split; cbn; [exact Hp1|].
  apply Hf. exact Hp2.
Qed.

Lemma ensure_run_s : forall rs, Forall srun rs -> Forall srun (ensure_run rs).
Proof.
  intros rs H. destruct rs as [|r rs]; [|exact H].
  cbn. constructor; [constructor|constructor].
Qed.

Lemma commence_run_s : forall v style s s',
  styles_ok v -> Forall nc style -> sst s -> commence_run v style s = Ok s' -> sst s'.
Proof.
  intros v style s s' Hv Hst Hs H. unfold commence_run in H.
  eapply upd_open_runs_s; [exact Hv| |exact Hs|exact H].
  intros rs Hrs. apply Forall_app. split; [exact Hrs|].
  constructor; [exact Hst|constructor].
Qed.

Lemma add_toks_s : forall v ts s s',
  styles_ok v -> sst s -> add_toks v ts s = Ok s' -> sst s'.
Proof.
  intros v ts s s' Hv Hs H. unfold add_toks in H.
  eapply upd_open_runs_s; [exact Hv| |exact Hs|exact H].
  intros rs Hrs. apply upd_last_ok; [|apply ensure_run_s; exact Hrs].
  intros r Hr. exact Hr.
Qed.

Lemma last_opt_In : forall {A} (l : list A) x, last_opt l = Some x -> In x l.
Proof.
  induction l as [|y l IH]; intros x H; [discriminate H|].
  cbn [last_opt] in H. destruct l as [|z l'].
  - injection H as <-. left. reflexivity.
  - right. apply IH. exact H.
Qed.

Lemma insert_text_as_new_run_s : forall v ts s s',
  styles_ok v -> sst s -> insert_text_as_new_run v ts s = Ok s' -> sst s'.
Proof.
  intros v ts s s' Hv Hs H. unfold insert_text_as_new_run in H.
  eapply upd_open_runs_s; [exact Hv| |exact Hs|exact H].
  intros rs Hrs. cbv zeta. pose proof (ensure_run_s rs Hrs) as He.
  apply Forall_app. split; [exact He|].
  constructor; [constructor|]. constructor; [|constructor].
  unfold srun. cbn [r_style].
  destruct (last_opt (ensure_run rs)) as [r|] eqn:El; [|constructor].
  apply last_opt_In in El. exact (Forall_In' srun _ _ He El).
Qed.

Lemma queue_run_s : forall ts s, sst s -> sst (queue_run_for_next_paragraph ts s).
Proof.
  intros ts s (Ht & Ho & Hq). split; [|split]; cbn; try assumption.
  apply Forall_app. split; [exact Hq|]. constructor; [constructor|constructor].
Qed.

Lemma start_comment_range_s : forall v id s s',
  sst s -> start_comment_range v id s = Ok s' -> sst s'.
Proof.
  intros v id s s' Hs H. unfold start_comment_range in H.
  bind_inv H as n E. injection H as H. subst. exact Hs.
Qed.

Lemma end_comment_range_s : forall v id s s',
  sst s -> end_comment_range v id s = Ok s' -> sst s'.
Proof.
  intros v id s s' Hs H. unfold end_comment_range in H.
  destruct (dict_get id (c_ranges s)) as [[b n0]|].
  - bind_inv H as n E. injection H as H. subst. exact Hs.
  - injection H as H. subst. exact Hs.
Qed.

Lemma as_list_s : forall n l, as_list n = Ok l -> snode n -> Forall snode l.
Proof.
  intros n l H Hn. destruct n as [l0|p]; [|discriminate H].
  injection H as H. subst. apply snode_NL. exact Hn.
Qed.

Lemma upd_row_s : forall root ti ri f root',
  (forall cs cs', Forall snode cs -> f cs = Ok cs' -> Forall snode cs') ->
  Forall snode root -> upd_row root ti ri f = Ok root' -> Forall snode root'.
Proof.
  intros root ti ri f root' Hf Hroot H. unfold upd_row in H.
  eapply py_upd_ok; [|exact Hroot|exact H].
  intros t t' Ht Ht'. cbv beta in Ht'.
  bind_inv Ht' as rows E1. bind_inv Ht' as rows' E2. injection Ht' as Ht'. subst t'.
  apply snode_NL. eapply py_upd_ok; [| |exact E2].
  - intros r r' Hr Hr'. cbv beta in Hr'.
    bind_inv Hr' as cells E3. bind_inv Hr' as c' E4. injection Hr' as Hr'. subst r'.
    apply snode_NL. eapply Hf; [|exact E4]. eapply as_list_s; eauto.
  - eapply as_list_s; eauto.
Qed.

Lemma close_table_cell_s : forall v e ks s s',
  sst s -> close_table_cell v e ks s = Ok s' -> sst s'.
Proof.
  intros v e ks s s' Hs H. unfold close_table_cell in H.
  bind_inv H as pr Epr. cbv zeta in H.
  (* the two early returns of the repaired _close_table_cell *)
  destruct (c_tree s) as [|tb0 root0] eqn:Eroot0; [injection H as <-; exact Hs|].
  rewrite <- Eroot0 in H.
  bind_inv H as rows0 Erows0.
  destruct rows0 as [|rb0 rows1] eqn:Erows1; [injection H as <-; exact Hs|].
  rewrite <- Erows1 in H.
  bind_inv H as dummy Edummy.
  bind_inv H as s1 Es1. bind_inv H as span Espan.
  assert (Hs1 : sst s1).
  { clear H Espan.
    match type of Es1 with (if ?c then _ else _) = _ => destruct c end.
    - bind_inv Es1 as sa Esa. bind_inv Es1 as t Et. bind_inv Es1 as rows Er.
      bind_inv Es1 as prev Ep. bind_inv Es1 as cells Ec. cbv zeta in Es1.
      apply set_caret_s in Esa; [|exact Hs].
      destruct cells as [|cell0 cells0]; [injection Es1 as Es1; subst s1; exact Esa|].
      destruct (py_nth (rev prev) (Z.of_nat (length (cell0 :: cells0)) - 1)) as [src|] eqn:En;
        [|injection Es1 as Es1; subst s1; exact Esa].
      bind_inv Es1 as root' Eroot. injection Es1 as Es1. subst s1.
      destruct Esa as (Ht & Ho & Hq).
      split; [|split]; cbn; try assumption.
      assert (Hrows : Forall snode rows).
      { destruct (py_get (c_tree sa) (length (c_tree s) - 1)) as [t0|] eqn:Eg; [|discriminate Et].
        cbn in Et. injection Et as Et. subst t0. apply py_get_In in Eg.
        eapply as_list_s; [exact Er|]. eapply Forall_In'; eauto. }
      assert (Hprev : Forall snode prev).
      { destruct rows as [|r0 rows]; [discriminate Ep|].
        destruct rows as [|p0 rows]; [discriminate Ep|].
        eapply as_list_s; [exact Ep|].
        inversion Hrows as [|? ? _ Hr]; subst. inversion Hr; subst. assumption. }
      assert (Hsrc : snode src).
      { apply py_nth_In in En.
        apply in_rev in En. eapply Forall_In'; eauto. }
      eapply upd_row_s; [|exact Ht|exact Eroot].
      intros cs cs' Hcs Hcs'. destruct cs as [|c0 r]; [discriminate Hcs'|].
      injection Hcs' as Hcs'. subst cs'. inversion Hcs; subst.
      constructor; [apply copy_node_s; exact Hsrc|assumption].
    - injection Es1 as Es1. subst. exact Hs. }
  clear Es1 Espan Hs. revert s1 Hs1 H. generalize (Z.to_nat (span - 1)).
  induction n as [|n IH]; intros s1 Hs1 H.
  - injection H as H. subst. exact Hs1.
  - cbn [bind] in H. bind_inv H as sa Esa. bind_inv H as root' Eroot.
    eapply IH; [|exact H]. clear IH H.
    apply set_caret_s in Esa; [|exact Hs1]. destruct Esa as (Ht & Ho & Hq).
    split; [|split]; cbn; try assumption.
    eapply upd_row_s; [|exact Ht|exact Eroot].
    intros cs cs' Hcs Hcs'. cbv beta in Hcs'. destruct (env_dup v).
    + destruct cs as [|c0 r].
      { injection Hcs' as Hcs'. subst cs'. constructor; [|exact Hcs].
        apply snode_NL. constructor; [|constructor]. cbn. split; constructor. }
      injection Hcs' as Hcs'. subst cs'. inversion Hcs; subst.
      constructor; [apply copy_node_s; assumption|exact Hcs].
    + injection Hcs' as Hcs'. subst cs'. constructor; [|exact Hcs].
      apply snode_NL. constructor; [|constructor]. cbn. split; constructor.
Qed.

Lemma insert_then_s : forall v ts s b (r : cst * bool),
  styles_ok v -> sst s ->
  (s' <- insert_text_as_new_run v ts s ;; Ok (s', b)) = Ok r -> sst (fst r).
Proof.
  intros v ts s b r Hv Hs H. bind_inv H as s1 E. injection H as H. subst r. cbn.
  eapply insert_text_as_new_run_s; eauto.
Qed.

Lemma add_then_s : forall v ts s b (r : cst * bool),
  styles_ok v -> sst s ->
  (s' <- add_toks v ts s ;; Ok (s', b)) = Ok r -> sst (fst r).
Proof.
  intros v ts s b r Hv Hs H. bind_inv H as s1 E. injection H as H. subst r. cbn.
  eapply add_toks_s; eauto.
Qed.

Lemma note_label_s : forall v kind e s r,
  sst s -> note_label v kind e s = Ok r -> sst (fst r).
Proof.
  intros v kind e s r Hs H. unfold note_label in H. bind_inv H as ty E.
  destruct (contains s_separator (lower (ostr ty))).
  - injection H as H. subst r. exact Hs.
  - bind_inv H as id E1. injection H as H. subst r. cbn.
    apply queue_run_s. exact Hs.
Qed.

Lemma note_ref_s : forall v kind e s r,
  styles_ok v -> sst s -> note_ref v kind e s = Ok r -> sst (fst r).
Proof.
  intros v kind e s r Hv Hs H. unfold note_ref in H. bind_inv H as id E.
  eapply insert_then_s; [exact Hv|exact Hs|exact H].
Qed.

Lemma image_ref_s : forall v rid s r,
  styles_ok v -> sst s -> image_ref v rid s = Ok r -> sst (fst r).
Proof.
  intros v rid s r Hv Hs H. unfold image_ref in H. destruct rid as [id|x].
  - destruct (dict_get id (env_rels v)) as [img|].
    + eapply insert_then_s; [exact Hv|exact Hs|exact H].
    + injection H as H. subst r. exact Hs.
  - destruct x; try discriminate H. injection H as H. subst r. exact Hs.
Qed.

Lemma open_tag_s : forall v path t e ks body s r,
  styles_ok v -> sst s -> open_tag v path t e ks body s = Ok r -> sst (fst r).
Proof.
  intros v path t e ks body s r Hv Hs H. unfold open_tag in H. cbv zeta in H.
  destruct (str_eqb (e_ptag e) tag_PARAGRAPH).
  { bind_inv H as s1 E1.
    destruct (get_par_number (to_numtable v) (c_counters s1) (get_bullet_fmt t)) as [cs number].
    bind_inv H as bl E2. bind_inv H as s2 E3.
    apply commence_paragraph_s in E1; [|exact Hv|exact Hs].
    apply insert_text_as_new_run_s in E3; [|exact Hv|exact E1].
    destruct E3 as (Ht & Ho & Hq).
    destruct (c_open s2) as [|p rest] eqn:Eo; [discriminate H|].
    injection H as H. subst r. inversion Ho; subst.
    split; [|split]; cbn; try assumption. constructor; assumption. }
  destruct (str_eqb (e_ptag e) tag_RUN).
  { bind_inv H as st E1. bind_inv H as s1 E2. injection H as H. subst r. cbn.
    eapply commence_run_s; [exact Hv| |exact Hs|exact E2].
    destruct Hv as [Hv _]. eapply Hv; exact E1. }
  destruct (str_eqb (e_ptag e) tag_COMMENT_RANGE_END).
  { bind_inv H as id E1. bind_inv H as s1 E2. injection H as H. subst r. cbn.
    eapply end_comment_range_s; eauto. }
  destruct (str_eqb (e_ptag e) tag_COMMENT_RANGE_START).
  { bind_inv H as id E1. bind_inv H as s1 E2. injection H as H. subst r. cbn.
    eapply start_comment_range_s; eauto. }
  destruct (str_eqb (e_ptag e) tag_TEXT || str_eqb (e_ptag e) tag_TEXT_MATH)%bool.
  { unfold add_text_into_open_run in H.
    eapply add_then_s; [exact Hv|exact Hs|exact H]. }
  destruct (str_eqb (e_ptag e) tag_MATH).
  { eapply insert_then_s; [exact Hv|exact Hs|exact H]. }
  destruct (str_eqb (e_ptag e) tag_BR).
  { unfold add_code_into_open_run in H.
    eapply add_then_s; [exact Hv|exact Hs|exact H]. }
  destruct (str_eqb (e_ptag e) tag_SYM).
  { bind_inv H as font E1. bind_inv H as chr E2.
    destruct (ostr chr) as [|c0 tl0].
    - injection H as H. subst r. exact Hs.
    - unfold add_code_into_open_run in H.
      eapply add_then_s; [exact Hv|exact Hs|exact H]. }
  destruct (str_eqb (e_ptag e) tag_FOOTNOTE).
  { eapply note_label_s; eauto. }
  destruct (str_eqb (e_ptag e) tag_ENDNOTE).
  { eapply note_label_s; eauto. }
  destruct (str_eqb (e_ptag e) tag_HYPERLINK).
  { destruct (attr_r_req e s_id) as [rid|x].
    - destruct (dict_get rid (env_rels v)) as [link|].
      + destruct (attr_w e s_anchor) as [anchor|x].
        * eapply insert_then_s; [exact Hv|exact Hs|exact H].
        * destruct x; try discriminate H.
          eapply insert_then_s; [exact Hv|exact Hs|exact H].
      + eapply insert_then_s; [exact Hv|exact Hs|exact H].
    - destruct x; try discriminate H.
      eapply insert_then_s; [exact Hv|exact Hs|exact H]. }
  destruct (str_eqb (e_ptag e) tag_FORM_CHECKBOX).
  { bind_inv H as x E1. eapply insert_then_s; [exact Hv|exact Hs|exact H]. }
  destruct (str_eqb (e_ptag e) tag_FORM_DDLIST).
  { bind_inv H as x E1. eapply insert_then_s; [exact Hv|exact Hs|exact H]. }
  destruct (str_eqb (e_ptag e) tag_FOOTNOTE_REFERENCE).
  { eapply note_ref_s; eauto. }
  destruct (str_eqb (e_ptag e) tag_ENDNOTE_REFERENCE).
  { eapply note_ref_s; eauto. }
  destruct (str_eqb (e_ptag e) tag_IMAGE).
  { eapply image_ref_s; eauto. }
  destruct (str_eqb (e_ptag e) tag_IMAGE_ALT).
  { destruct (attr_plain e s_descr) as [d|].
    - eapply insert_then_s; [exact Hv|exact Hs|exact H].
    - injection H as H. subst r. exact Hs. }
  destruct (str_eqb (e_ptag e) tag_IMAGEDATA).
  { eapply image_ref_s; eauto. }
  destruct (str_eqb (e_ptag e) tag_TAB).
  { eapply insert_then_s; [exact Hv|exact Hs|exact H]. }
  injection H as H. subst r. exact Hs.
Qed.

Lemma close_tag_s : forall v e ks s s',
  styles_ok v -> sst s -> close_tag v e ks s = Ok s' -> sst s'.
Proof.
  intros v e ks s s' Hv Hs H. unfold close_tag in H. cbv zeta in H.
  destruct (str_eqb (e_ptag e) tag_PARAGRAPH).
  { eapply conclude_paragraph_s; eauto. }
  destruct (str_eqb (e_ptag e) tag_RUN).
  { eapply commence_run_s; [exact Hv|constructor|exact Hs|exact H]. }
  destruct (str_eqb (e_ptag e) tag_TABLE_CELL).
  { eapply close_table_cell_s; eauto. }
  injection H as H. subst. exact Hs.
Qed.

Lemma pars_at_s : forall d l ps,
  pars_at d l = Ok ps -> Forall snode l -> Forall spar ps.
Proof.
  induction d as [|d IH]; intros l ps H Hl; [discriminate H|].
  destruct d as [|d'].
  - cbn [pars_at] in H.
    eapply mapM_Forall; [|exact H|apply Forall_rev'; exact Hl].
    intros x y Hx Hy. destruct x as [l0|p]; [discriminate Hy|].
    injection Hy as Hy. subst. exact Hx.
  - cbn [pars_at] in H. bind_inv H as xs E. injection H as H. subst ps.
    apply Forall_concat'.
    eapply mapM_Forall; [|exact E|apply Forall_rev'; exact Hl].
    intros x y Hx Hy. cbv beta in Hy. destruct x as [l0|p]; [|discriminate Hy].
    eapply IH; [exact Hy|]. apply snode_NL. exact Hx.
Qed.

Lemma finish_s : forall v s s', styles_ok v -> sst s -> finish v s = Ok s' -> sst s'.
Proof.
  intros v s s' Hv Hs H. unfold finish in H. bind_inv H as s1 E.
  eapply conclude_paragraph_s; [|exact H].
  destruct (c_queued s) as [|q qs].
  - injection E as E. subst. exact Hs.
  - eapply commence_paragraph_s; eauto.
Qed.

Lemma walk_s : forall v t path s s',
  styles_ok v -> sst s -> walk v path t s = Ok s' -> sst s'.
Proof.
  intros v t. induction t as [tl|e ks IH] using anode_ind'; intros path s s' Hv Hs H.
  - cbn in H. injection H as H. subst. exact Hs.
  - cbn [walk] in H.
    bind_inv H as s1 E1. bind_inv H as body Eb. bind_inv H as s2r Eo.
    destruct s2r as [s2 recurse]. bind_inv H as s3 Ek. bind_inv H as s4 Ec.
    apply set_caret_s in E1; [|exact Hs].
    apply open_tag_s in Eo; [|exact Hv|exact E1].
    cbn [fst] in Eo.
    assert (Hs3 : sst s3).
    { destruct recurse.
      - clear - IH Ek Eo Hv. revert s2 Eo Ek. generalize O.
        induction IH as [|k r Hk Hr IHr]; intros i s2 Hs2 Ek.
        + injection Ek as Ek. subst. exact Hs2.
        + cbn [bind] in Ek. bind_inv Ek as sk Esk.
          eapply IHr; [|exact Ek]. eapply Hk; eauto.
      - injection Ek as Ek. subst. exact Eo. }
    eapply set_caret_s; [|exact H]. eapply close_tag_s; eauto.
Qed.

(* ================================================================== *)
(* PART 3 — the projection of a collector state                         *)
(* ================================================================== *)

Definition proj_run (r : run) : run := {| r_style := []; r_toks := erase [] (r_toks r) |}.
Definition proj_par (p : par) : par :=
  {| p_elem := p_elem p; p_copy := p_copy p; p_hstyle := []; p_style := p_style p;
     p_lineage := p_lineage p; p_runs := map proj_run (p_runs p); p_listpos := p_listpos p |}.
Fixpoint proj_node (n : node) : node :=
  match n with
  | NP p => NP (proj_par p)
  | NL l => NL (map proj_node l)
  end.
Definition proj_cst (rg : list (str * (nat * nat))) (s : cst) : cst :=
  {| c_tree := map proj_node (c_tree s); c_depth := c_depth s; c_lineage := c_lineage s;
     c_open := map proj_par (c_open s); c_queued := map proj_run (c_queued s);
     c_ranges := rg; c_counters := c_counters s |}.

(* the simulation relation between the html=True state and the html=False state *)
Definition good (s : cst) : Prop := st_ok s /\ sst s.

Definition Rst (s sp : cst) : Prop :=
  good s /\
  c_tree sp = map proj_node (c_tree s) /\ c_depth sp = c_depth s /\
  c_lineage sp = c_lineage s /\ c_open sp = map proj_par (c_open s) /\
  c_queued sp = map proj_run (c_queued s) /\
  map fst (c_ranges sp) = map fst (c_ranges s) /\ c_counters sp = c_counters s.

Lemma Rst_proj : forall s sp, Rst s sp <->
  good s /\ exists rg, map fst rg = map fst (c_ranges s) /\ sp = proj_cst rg s.
Proof.
  intros s sp. split.
  - intros (Hg & H1 & H2 & H3 & H4 & H5 & H6 & H7). split; [exact Hg|].
    exists (c_ranges sp). split; [exact H6|].
    destruct sp as [t d l o q r c]. cbn in *. subst. reflexivity.
  - intros (Hg & rg & Hk & Hs). subst sp. split; [exact Hg|].
    cbn. repeat split; auto.
Qed.

Lemma init_good : good init_cst.
Proof. split; [exact init_st_ok|exact init_sst]. Qed.

Lemma init_proj : proj_cst [] init_cst = init_cst.
Proof. reflexivity. Qed.

(* ---------- caret ---------- *)
Lemma spine_app_SS : forall d x l rest,
  spine_app (S (S d)) x (NL l :: rest) = (l'' <- spine_app (S d) x l ;; Ok (NL l'' :: rest)).
Proof. reflexivity. Qed.

Lemma spine_app_sim : forall d x l l',
  spine_app d x l = Ok l' ->
  spine_app d (proj_node x) (map proj_node l) = Ok (map proj_node l').
Proof.
  induction d as [|d IH]; intros x l l' H; [discriminate H|].
  destruct d as [|d'].
  - cbn in H. injection H as <-. reflexivity.
  - destruct l as [|n rest]; [discriminate H|].
    destruct n as [l0|p]; [|discriminate H].
    rewrite spine_app_SS in H.
    bind_inv H as l2 E. injection H as <-.
    cbn [map proj_node]. rewrite spine_app_SS. rewrite (IH _ _ _ E). reflexivity.
Qed.

Lemma drop_caret_sim : forall rg s s',
  drop_caret s = Ok s' -> drop_caret (proj_cst rg s) = Ok (proj_cst rg s').
Proof.
  intros rg s s' H. unfold drop_caret in *.
  change (c_depth (proj_cst rg s)) with (c_depth s).
  destruct (Nat.leb par_depth (c_depth s)); [discriminate H|].
  bind_inv H as t E. injection H as <-.
  change (c_tree (proj_cst rg s)) with (map proj_node (c_tree s)).
  change (NL []) with (proj_node (NL [])).
  rewrite (spine_app_sim _ _ _ _ E). reflexivity.
Qed.

Lemma raise_caret_sim : forall rg s s',
  raise_caret s = Ok s' -> raise_caret (proj_cst rg s) = Ok (proj_cst rg s').
Proof.
  intros rg s s' H. unfold raise_caret in *.
  change (c_depth (proj_cst rg s)) with (c_depth s).
  destruct (Nat.leb (c_depth s) 1); [discriminate H|].
  injection H as <-. reflexivity.
Qed.

Lemma set_caret_go_sim : forall fuel d name rg s s',
  set_caret_go fuel d name s = Ok s' ->
  set_caret_go fuel d name (proj_cst rg s) = Ok (proj_cst rg s').
Proof.
  induction fuel as [|f IH]; intros d name rg s s' H; [discriminate H|].
  cbn [set_caret_go] in *.
  change (c_depth (proj_cst rg s)) with (c_depth s).
  change (c_lineage (proj_cst rg s)) with (c_lineage s).
  destruct (Nat.eqb (c_depth s) d).
  - bind_inv H as l E. injection H as <-. reflexivity.
  - destruct (Nat.ltb (c_depth s) d).
    + bind_inv H as s1 E. rewrite (drop_caret_sim rg _ _ E). cbn [bind]. apply IH. exact H.
    + bind_inv H as l E. bind_inv H as s1 E1. cbn [bind].
      change (set_lin l (proj_cst rg s)) with (proj_cst rg (set_lin l s)).
      rewrite (raise_caret_sim rg _ _ E1). cbn [bind]. apply IH. exact H.
Qed.

Lemma set_caret_sim : forall d name rg s s',
  set_caret d name s = Ok s' -> set_caret d name (proj_cst rg s) = Ok (proj_cst rg s').
Proof.
  intros d name rg s s' H. unfold set_caret in *. destruct d as [d|].
  - apply set_caret_go_sim. exact H.
  - injection H as <-. reflexivity.
Qed.

(* ---------- paragraphs ---------- *)
Lemma plain_x2h : forall v, env_x2h (plain_env v) = [].
Proof. reflexivity. Qed.

Lemma par_formatting_plain : forall e ks x2h hs,
  get_paragraph_formatting e ks x2h = Ok hs -> get_paragraph_formatting e ks [] = Ok [].
Proof.
  intros e ks x2h hs H. unfold get_paragraph_formatting in *. bind_inv H as ps E.
  apply format_empty_table.
Qed.

Lemma run_formatting_plain : forall e ks x2h st,
  get_run_formatting e ks x2h = Ok st -> get_run_formatting e ks [] = Ok [].
Proof.
  intros e ks x2h hs H. unfold get_run_formatting in *. bind_inv H as ps E.
  apply format_empty_table.
Qed.

Lemma commence_paragraph_sim : forall v elem rg s s',
  commence_paragraph v elem s = Ok s' ->
  commence_paragraph (plain_env v) elem (proj_cst rg s) = Ok (proj_cst rg s').
Proof.
  intros v elem rg s s' H. unfold commence_paragraph in *.
  bind_inv H as s1 E1. bind_inv H as hs E2. bind_inv H as ps E3.
  cbv zeta in H. injection H as <-.
  rewrite (set_caret_sim _ _ rg _ _ E1). cbn [bind]. rewrite plain_x2h.
  assert (E2' : match elem with
                | Some (e, ks, _) => get_paragraph_formatting e ks []
                | None => Ok []
                end = Ok []).
  { destruct elem as [[[e ks] pth]|]; [|reflexivity].
    eapply par_formatting_plain; exact E2. }
  rewrite E2'. cbn [bind]. reflexivity.
Qed.

Lemma conclude_paragraph_sim : forall rg s s',
  conclude_paragraph s = Ok s' ->
  conclude_paragraph (proj_cst rg s) = Ok (proj_cst rg s').
Proof.
  intros rg s s' H. unfold conclude_paragraph in *.
  change (c_open (proj_cst rg s)) with (map proj_par (c_open s)).
  destruct (c_open s) as [|p rest] eqn:Eo.
  - injection H as <-. reflexivity.
  - bind_inv H as s1 E1. bind_inv H as t E2. injection H as <-.
    cbn [map].
    change (set_open (map proj_par rest) (proj_cst rg s)) with (proj_cst rg (set_open rest s)).
    rewrite (set_caret_sim _ _ rg _ _ E1). cbn [bind].
    change (c_tree (proj_cst rg s1)) with (map proj_node (c_tree s1)).
    change (NP (proj_par p)) with (proj_node (NP p)).
    rewrite (spine_app_sim _ _ _ _ E2). reflexivity.
Qed.

Lemma ensure_par_sim : forall v rg s s',
  ensure_par v s = Ok s' -> ensure_par (plain_env v) (proj_cst rg s) = Ok (proj_cst rg s').
Proof.
  intros v rg s s' H. unfold ensure_par in *.
  change (c_open (proj_cst rg s)) with (map proj_par (c_open s)).
  destruct (c_open s) as [|p rest]; cbn [map].
  - apply commence_paragraph_sim. exact H.
  - injection H as <-. reflexivity.
Qed.

Lemma upd_open_runs_sim : forall v f f' rg s s',
  (forall rs, Forall run_ok rs -> map proj_run (f rs) = f' (map proj_run rs)) ->
  st_ok s -> upd_open_runs v f s = Ok s' ->
  upd_open_runs (plain_env v) f' (proj_cst rg s) = Ok (proj_cst rg s').
Proof.
  intros v f f' rg s s' Hf Hs H. unfold upd_open_runs in *.
  bind_inv H as s1 E1. rewrite (ensure_par_sim _ rg _ _ E1). cbn [bind].
  apply ensure_par_ok in E1; [|exact Hs]. destruct E1 as (Ht & Ho & Hq).
  change (c_open (proj_cst rg s1)) with (map proj_par (c_open s1)).
  destruct (c_open s1) as [|p rest] eqn:Eo; [discriminate H|].
  injection H as <-. inversion Ho as [|? ? Hp Hrest]; subst.
  cbn [map]. unfold proj_cst at 2. cbn [c_open set_open map]. unfold set_open, proj_cst.
  cbn [c_tree c_depth c_lineage c_open c_queued c_ranges c_counters].
  do 2 f_equal. f_equal.
  unfold with_runs, proj_par.
  cbn [p_elem p_copy p_hstyle p_style p_lineage p_runs p_listpos].
  rewrite Hf by exact Hp. reflexivity.
Qed.

Lemma commence_run_sim : forall v st rg s s',
  st_ok s -> commence_run v st s = Ok s' ->
  commence_run (plain_env v) [] (proj_cst rg s) = Ok (proj_cst rg s').
Proof.
  intros v st rg s s' Hs H. unfold commence_run in *.
  eapply upd_open_runs_sim; [|exact Hs|exact H].
  intros rs _. cbv beta. rewrite map_app. reflexivity.
Qed.

Lemma map_upd_last : forall {A B} (f : A -> B) (g : A -> A) (g' : B -> B) (P : A -> Prop) l,
  (forall x, P x -> f (g x) = g' (f x)) -> Forall P l ->
  map f (upd_last g l) = upd_last g' (map f l).
Proof.
  intros A B f g g' P l Hg H. induction H as [|x l Hx Hl IH]; [reflexivity|].
  cbn [upd_last map]. destruct l as [|y l'].
  - cbn. rewrite Hg by exact Hx. reflexivity.
  - cbn [map] in *. rewrite IH. reflexivity.
Qed.

Lemma map_ensure_run : forall rs, map proj_run (ensure_run rs) = ensure_run (map proj_run rs).
Proof. intros [|r rs]; reflexivity. Qed.

Lemma add_toks_sim : forall v ts rg s s',
  st_ok s -> add_toks v ts s = Ok s' ->
  add_toks (plain_env v) (erase [] ts) (proj_cst rg s) = Ok (proj_cst rg s').
Proof.
  intros v ts rg s s' Hs H. unfold add_toks in *.
  eapply upd_open_runs_sim; [|exact Hs|exact H].
  intros rs Hrs. cbv beta. rewrite <- map_ensure_run.
  apply (map_upd_last proj_run _ _ run_ok); [|apply ensure_run_ok; exact Hrs].
  intros r Hr. unfold proj_run. cbn [r_style r_toks].
  rewrite erase_app_bal by exact Hr. reflexivity.
Qed.

Lemma last_opt_map : forall {A B} (f : A -> B) l, last_opt (map f l) = option_map f (last_opt l).
Proof.
  induction l as [|x l IH]; [reflexivity|].
  cbn [map last_opt]. destruct l as [|y l']; [reflexivity|]. exact IH.
Qed.

Lemma insert_text_as_new_run_sim : forall v ts rg s s',
  st_ok s -> insert_text_as_new_run v ts s = Ok s' ->
  insert_text_as_new_run (plain_env v) (erase [] ts) (proj_cst rg s) = Ok (proj_cst rg s').
Proof.
  intros v ts rg s s' Hs H. unfold insert_text_as_new_run in *.
  eapply upd_open_runs_sim; [|exact Hs|exact H].
  intros rs _. cbv beta zeta. rewrite map_app, map_ensure_run. f_equal.
  cbn [map]. unfold proj_run at 1 2. cbn [r_style r_toks erase].
  rewrite <- map_ensure_run, last_opt_map.
  destruct (last_opt (ensure_run rs)); reflexivity.
Qed.

Lemma queue_run_sim : forall ts rg s,
  queue_run_for_next_paragraph (erase [] ts) (proj_cst rg s)
  = proj_cst rg (queue_run_for_next_paragraph ts s).
Proof.
  intros ts rg s. unfold queue_run_for_next_paragraph, set_queued, proj_cst.
  cbn [c_tree c_depth c_lineage c_open c_queued c_ranges c_counters].
  rewrite map_app. reflexivity.
Qed.

(* ---------- reading paragraphs back ---------- *)
Lemma mapM_map_sim : forall {A B A' B'} (f : A -> res B) (f' : A' -> res B')
                            (g : A -> A') (h : B -> B') l ys,
  (forall x y, In x l -> f x = Ok y -> f' (g x) = Ok (h y)) ->
  mapM f l = Ok ys -> mapM f' (map g l) = Ok (map h ys).
Proof.
  intros A B A' B' f f' g h. induction l as [|x l IH]; intros ys Hf H.
  - cbn in H. injection H as <-. reflexivity.
  - cbn [mapM] in H. bind_inv H as y Ey. bind_inv H as ys' Eys. injection H as <-.
    cbn [map mapM]. rewrite (Hf x y (or_introl eq_refl) Ey). cbn [bind].
    rewrite (IH ys'); [reflexivity| |reflexivity].
    intros x0 y0 Hin. apply Hf. right. exact Hin.
Qed.

Lemma concat_map_map : forall {A B} (f : A -> B) (ll : list (list A)),
  map f (concat ll) = concat (map (map f) ll).
Proof.
  intros A B f ll. induction ll as [|l ll IH]; [reflexivity|].
  cbn [concat map]. rewrite map_app, IH. reflexivity.
Qed.

Lemma pars_at_SS : forall d l,
  pars_at (S (S d)) l
  = (xs <- mapM (fun n => match n with NL l' => pars_at (S d) l' | NP _ => Err TypeError end)
                (rev l) ;; Ok (concat xs)).
Proof. reflexivity. Qed.

Lemma pars_at_sim : forall d l ps,
  pars_at d l = Ok ps -> pars_at d (map proj_node l) = Ok (map proj_par ps).
Proof.
  induction d as [|d IH]; intros l ps H; [discriminate H|].
  destruct d as [|d'].
  - cbn [pars_at] in *. rewrite <- map_rev.
    eapply mapM_map_sim; [|exact H].
    intros x y _ Hy. destruct x as [l0|p]; [discriminate Hy|].
    injection Hy as <-. reflexivity.
  - rewrite pars_at_SS in H. bind_inv H as xs E. injection H as <-.
    rewrite pars_at_SS. rewrite <- map_rev.
    erewrite (mapM_map_sim _ _ proj_node (map proj_par)); [| |exact E].
    + cbn [bind]. rewrite concat_map_map. reflexivity.
    + intros x y _ Hy. cbv beta in Hy. destruct x as [l0|p]; [|discriminate Hy].
      cbn [proj_node]. apply IH. exact Hy.
Qed.

Lemma run_toks_proj : forall r, run_toks (proj_run r) = Ok (erase [] (r_toks r)).
Proof.
  intros r. unfold run_toks, proj_run. cbn [r_toks r_style].
  destruct (erase [] (r_toks r)) as [|t ts]; [reflexivity|].
  unfold close_toks. cbn [rev mapM bind map app]. rewrite app_nil_r. reflexivity.
Qed.

Lemma mapM_always : forall {A B} (f : A -> res B) (g : A -> B) l,
  (forall x, f x = Ok (g x)) -> mapM f l = Ok (map g l).
Proof.
  intros A B f g l H. induction l as [|x l IH]; [reflexivity|].
  cbn [mapM map]. rewrite H, IH. reflexivity.
Qed.

Lemma mapM_map_always : forall {A A' B} (f : A' -> res B) (g : A -> A') (h : A -> B) l,
  (forall x, f (g x) = Ok (h x)) -> mapM f (map g l) = Ok (map h l).
Proof.
  intros A A' B f g h l H. induction l as [|x l IH]; [reflexivity|].
  cbn [mapM map]. rewrite H, IH. reflexivity.
Qed.

Definition plain_toks (r : run) : list tok := erase [] (r_toks r).

Lemma par_run_toks_proj : forall p,
  par_run_toks (proj_par p) = Ok (filter nonempty (map plain_toks (p_runs p))).
Proof.
  intros p. unfold par_run_toks, proj_par. cbn [p_runs p_hstyle].
  rewrite (mapM_map_always run_toks proj_run plain_toks); [reflexivity|].
  exact run_toks_proj.
Qed.

Lemma par_run_strings_proj : forall b p, exists rs, par_run_strings b (proj_par p) = Ok rs.
Proof.
  intros b p. unfold par_run_strings. rewrite par_run_toks_proj. cbn [bind]. eauto.
Qed.

Lemma mapM_map_total : forall {A A' B} (f : A' -> res B) (g : A -> A') l,
  (forall x, exists y, f (g x) = Ok y) -> exists ys, mapM f (map g l) = Ok ys.
Proof.
  intros A A' B f g l H. induction l as [|x l IH]; [exists []; reflexivity|].
  destruct (H x) as (y & Hy). destruct IH as (ys & Hys).
  exists (y :: ys). cbn [map mapM]. rewrite Hy, Hys. reflexivity.
Qed.

Lemma count_runs_plain : forall v rg s ps,
  pars_at 4 (c_tree s) = Ok ps -> exists n, count_runs (plain_env v) (proj_cst rg s) = Ok n.
Proof.
  intros v rg s ps H. unfold count_runs.
  change (c_tree (proj_cst rg s)) with (map proj_node (c_tree s)).
  change (c_open (proj_cst rg s)) with (map proj_par (c_open s)).
  rewrite (pars_at_sim _ _ _ H). cbn [bind].
  destruct (mapM_map_total (par_run_strings (html_on (plain_env v))) proj_par ps) as (a & Ha).
  { intros p. apply par_run_strings_proj. }
  rewrite Ha. cbn [bind]. rewrite <- map_rev.
  match goal with |- context [mapM ?f (map proj_par ?l)] =>
    destruct (mapM_map_total f proj_par l) as (b & Hb) end.
  { intros p. destruct (par_run_strings_proj (html_on (plain_env v)) p) as (rs & Hrs).
    rewrite Hrs. cbn [bind]. eauto. }
  rewrite Hb. cbn [bind]. eauto.
Qed.

(* ---------- comment ranges ---------- *)
Lemma ranges_set_keys : forall id x y (a b : list (str * (nat * nat))),
  map fst a = map fst b -> map fst (ranges_set id x a) = map fst (ranges_set id y b).
Proof.
  intros id x y. induction a as [|[k va] a IH]; intros b H.
  - destruct b as [|kb b]; [reflexivity|discriminate H].
  - destruct b as [|[k' vb] b]; [discriminate H|]. cbn [map fst] in H.
    injection H as Hk H. subst k'. cbn [ranges_set].
    destruct (str_eqb id k); cbn [map fst]; [rewrite H; reflexivity|].
    f_equal. apply IH. exact H.
Qed.

Lemma dict_get_keys : forall {V W} id (a : list (str * V)) (b : list (str * W)),
  map fst a = map fst b ->
  (dict_get id a = None <-> dict_get id b = None).
Proof.
  intros V W id. induction a as [|[k va] a IH]; intros b H.
  - destruct b as [|kb b]; [tauto|discriminate H].
  - destruct b as [|[k' vb] b]; [discriminate H|]. cbn [map fst] in H.
    injection H as Hk H. subst k'. cbn [dict_get].
    destruct (str_eqb id k); [split; intro X; discriminate X|]. apply IH. exact H.
Qed.

Definition keys_eq (rg : list (str * (nat * nat))) (s : cst) : Prop :=
  map fst rg = map fst (c_ranges s).

Lemma start_comment_range_sim : forall v id rg s s',
  keys_eq rg s -> start_comment_range v id s = Ok s' ->
  exists rg', keys_eq rg' s' /\
    start_comment_range (plain_env v) id (proj_cst rg s) = Ok (proj_cst rg' s').
Proof.
  intros v id rg s s' Hk H. unfold start_comment_range in *.
  bind_inv H as n E. injection H as <-.
  unfold count_runs in E. bind_inv E as ps Eps.
  destruct (count_runs_plain v rg s ps Eps) as (n' & Hn').
  rewrite Hn'. cbn [bind]. exists (ranges_set id (n', n') rg). split.
  - unfold keys_eq. cbn [c_ranges set_ranges]. apply ranges_set_keys. exact Hk.
  - reflexivity.
Qed.

Lemma end_comment_range_sim : forall v id rg s s',
  keys_eq rg s -> end_comment_range v id s = Ok s' ->
  exists rg', keys_eq rg' s' /\
    end_comment_range (plain_env v) id (proj_cst rg s) = Ok (proj_cst rg' s').
Proof.
  intros v id rg s s' Hk H. unfold end_comment_range in *.
  change (c_ranges (proj_cst rg s)) with rg.
  pose proof (dict_get_keys id rg (c_ranges s) Hk) as Hd.
  destruct (dict_get id (c_ranges s)) as [[b n0]|] eqn:Eg.
  - bind_inv H as n E. injection H as <-.
    destruct (dict_get id rg) as [[b' n0']|] eqn:Eg'.
    2:{ destruct Hd as [Hd _]. specialize (Hd eq_refl). discriminate Hd. }
    unfold count_runs in E. bind_inv E as ps Eps.
    destruct (count_runs_plain v rg s ps Eps) as (n' & Hn').
    rewrite Hn'. cbn [bind]. exists (ranges_set id (b', n') rg). split.
    + unfold keys_eq. cbn [c_ranges set_ranges]. apply ranges_set_keys. exact Hk.
    + reflexivity.
  - injection H as <-. destruct Hd as [_ Hd]. rewrite (Hd eq_refl).
    exists rg. split; [exact Hk|reflexivity].
Qed.

(* ---------- table cells ---------- *)
Lemma copy_node_proj : forall n, copy_node (proj_node n) = proj_node (copy_node n).
Proof.
  induction n as [p|l IH] using node_ind'; [reflexivity|].
  cbn [copy_node proj_node]. f_equal. rewrite !map_map.
  induction IH as [|x l Hx Hl IHl]; [reflexivity|].
  cbn [map]. rewrite Hx, IHl. reflexivity.
Qed.

Lemma as_list_sim : forall n l, as_list n = Ok l -> as_list (proj_node n) = Ok (map proj_node l).
Proof.
  intros n l H. destruct n as [l0|p]; [|discriminate H]. injection H as <-. reflexivity.
Qed.

Lemma py_get_map : forall {A B} (f : A -> B) l i, py_get (map f l) i = option_map f (py_get l i).
Proof.
  intros A B f l i. unfold py_get. rewrite map_length.
  destruct (Nat.leb (length l) i); [reflexivity|]. apply nth_error_map.
Qed.

Lemma py_nth_map : forall {A B} (f : A -> B) l i, py_nth (map f l) i = option_map f (py_nth l i).
Proof.
  intros A B f l i. unfold py_nth. cbv zeta. rewrite map_length.
  match goal with |- (if ?c then _ else _) = _ => destruct c end; [reflexivity|].
  apply nth_error_map.
Qed.

Lemma upd_nth_sim : forall {A} (f : A -> A) (g g' : A -> res A) n l l',
  (forall x y, g x = Ok y -> g' (f x) = Ok (f y)) ->
  upd_nth n g l = Ok l' -> upd_nth n g' (map f l) = Ok (map f l').
Proof.
  intros A f g g' n. induction n as [|n IH]; intros l l' Hg H.
  - destruct l as [|x r]; [discriminate H|]. cbn [upd_nth] in H.
    bind_inv H as y E. injection H as <-. cbn [map upd_nth]. rewrite (Hg _ _ E). reflexivity.
  - destruct l as [|x r]; [discriminate H|]. cbn [upd_nth] in H.
    bind_inv H as r' E. injection H as <-. cbn [map upd_nth]. rewrite (IH _ _ Hg E). reflexivity.
Qed.

Lemma py_upd_sim : forall {A} (f : A -> A) (g g' : A -> res A) l i l',
  (forall x y, g x = Ok y -> g' (f x) = Ok (f y)) ->
  py_upd l i g = Ok l' -> py_upd (map f l) i g' = Ok (map f l').
Proof.
  intros A f g g' l i l' Hg H. unfold py_upd in *. rewrite map_length.
  destruct (Nat.leb (length l) i); [discriminate H|].
  eapply upd_nth_sim; eauto.
Qed.

Lemma upd_row_sim : forall root ti ri h h' root',
  (forall cs cs', h cs = Ok cs' -> h' (map proj_node cs) = Ok (map proj_node cs')) ->
  upd_row root ti ri h = Ok root' ->
  upd_row (map proj_node root) ti ri h' = Ok (map proj_node root').
Proof.
  intros root ti ri h h' root' Hh H. unfold upd_row in *.
  eapply (py_upd_sim proj_node); [|exact H].
  intros t t' Ht. cbv beta in Ht |- *.
  bind_inv Ht as rows E1. bind_inv Ht as rows' E2. injection Ht as <-.
  rewrite (as_list_sim _ _ E1). cbn [bind].
  erewrite (py_upd_sim proj_node); [reflexivity| |exact E2].
  intros r r' Hr. cbv beta in Hr |- *.
  bind_inv Hr as cells E3. bind_inv Hr as c' E4. injection Hr as <-.
  rewrite (as_list_sim _ _ E3). cbn [bind]. rewrite (Hh _ _ E4). reflexivity.
Qed.

Lemma of_opt_map : forall {A B} (f : A -> B) e o x,
  of_opt e o = Ok x -> of_opt e (option_map f o) = Ok (f x).
Proof.
  intros A B f e o x H. destruct o as [a|]; [|discriminate H]. injection H as <-. reflexivity.
Qed.

Lemma get_row_sim : forall root ti ri cells,
  get_row root ti ri = Ok cells ->
  get_row (map proj_node root) ti ri = Ok (map proj_node cells).
Proof.
  intros root ti ri cells H. unfold get_row in *.
  bind_inv H as t E1. bind_inv H as rows E2. bind_inv H as r E3.
  rewrite py_get_map, (of_opt_map proj_node _ _ _ E1). cbn [bind].
  rewrite (as_list_sim _ _ E2). cbn [bind].
  rewrite py_get_map, (of_opt_map proj_node _ _ _ E3). cbn [bind].
  apply as_list_sim. exact H.
Qed.

Lemma hmerge_loop_sim : forall v ti ri n rg s s',
  (fix loop (n : nat) (s : cst) : res cst :=
     match n with
     | O => Ok s
     | S k =>
         sa <- set_caret (Some 3%nat) None s ;;
         root' <- upd_row (c_tree sa) ti ri
                    (fun cs =>
                       if env_dup v then
                         match cs with
                         | [] => Ok (NL [NP new_empty_par] :: cs)
                         | c :: _ => Ok (copy_node c :: cs)
                         end
                       else Ok (NL [NP new_empty_par] :: cs)) ;;
         loop k (set_tree root' sa)
     end) n s = Ok s' ->
  (fix loop (n : nat) (s : cst) : res cst :=
     match n with
     | O => Ok s
     | S k =>
         sa <- set_caret (Some 3%nat) None s ;;
         root' <- upd_row (c_tree sa) ti ri
                    (fun cs =>
                       if env_dup (plain_env v) then
                         match cs with
                         | [] => Ok (NL [NP new_empty_par] :: cs)
                         | c :: _ => Ok (copy_node c :: cs)
                         end
                       else Ok (NL [NP new_empty_par] :: cs)) ;;
         loop k (set_tree root' sa)
     end) n (proj_cst rg s) = Ok (proj_cst rg s').
Proof.
  intros v ti ri. induction n as [|n IH]; intros rg s s' H.
  - injection H as <-. reflexivity.
  - bind_inv H as sa Esa. bind_inv H as root' Eroot.
    rewrite (set_caret_sim _ _ rg _ _ Esa). cbn [bind].
    change (c_tree (proj_cst rg sa)) with (map proj_node (c_tree sa)).
    erewrite upd_row_sim; [| |exact Eroot].
    + cbn [bind].
      change (set_tree (map proj_node root') (proj_cst rg sa))
        with (proj_cst rg (set_tree root' sa)).
      apply IH. exact H.
    + intros cs cs' Hcs. cbv beta in Hcs |- *. change (env_dup (plain_env v)) with (env_dup v).
      destruct (env_dup v).
      * destruct cs as [|c0 r]; [injection Hcs as <-; reflexivity|]. injection Hcs as <-.
        cbn [map]. rewrite copy_node_proj. reflexivity.
      * injection Hcs as <-. reflexivity.
Qed.

Lemma close_table_cell_sim : forall v e ks rg s s',
  close_table_cell v e ks s = Ok s' ->
  close_table_cell (plain_env v) e ks (proj_cst rg s) = Ok (proj_cst rg s').
Proof.
  intros v e ks rg s s' H. unfold close_table_cell in *.
  bind_inv H as pr Epr. cbv zeta in *.
  change (c_tree (proj_cst rg s)) with (map proj_node (c_tree s)).
  change (env_dup (plain_env v)) with (env_dup v).
  rewrite map_length.
  (* the two early returns of the repaired _close_table_cell *)
  destruct (c_tree s) as [|tb0 root0] eqn:Eroot0; [injection H as <-; reflexivity|].
  cbn [map]. change (S (length root0)) with (length (tb0 :: root0)).
  rewrite <- Eroot0 in H |- *.
  bind_inv H as rows0 Erows0.
  rewrite (as_list_sim _ _ Erows0). cbn [bind].
  destruct rows0 as [|rb0 rows1] eqn:Erows1; [injection H as <-; reflexivity|].
  rewrite map_length. cbn [map].
  rewrite <- Erows1 in H |- *.
  bind_inv H as dummy Edummy.
  rewrite (as_list_sim _ _ Edummy). cbn [bind].
  bind_inv H as s1 Es1. bind_inv H as span Espan.
  match goal with |- bind ?X _ = _ => assert (Es1' : X = Ok (proj_cst rg s1)) end.
  { clear H Espan.
    destruct (env_dup v && is_continuation pr && (1 <? length rows0)%nat)%bool.
    - bind_inv Es1 as sa Esa. bind_inv Es1 as t Et. bind_inv Es1 as rows Er.
      bind_inv Es1 as prev Ep. bind_inv Es1 as cells Ec.
      rewrite (set_caret_sim _ _ rg _ _ Esa). cbn [bind].
      change (c_tree (proj_cst rg sa)) with (map proj_node (c_tree sa)).
      rewrite py_get_map, (of_opt_map proj_node _ _ _ Et). cbn [bind].
      rewrite (as_list_sim _ _ Er). cbn [bind].
      assert (Ep' : match map proj_node rows with
                    | _ :: p :: _ => as_list p
                    | _ => Err IndexError
                    end = Ok (map proj_node prev)).
      { destruct rows as [|r0 rows]; [discriminate Ep|].
        destruct rows as [|p0 rows]; [discriminate Ep|]. cbn [map].
        apply as_list_sim. exact Ep. }
      rewrite Ep'. cbn [bind].
      rewrite (get_row_sim _ _ _ _ Ec). cbn [bind].
      destruct cells as [|cell0 cells0]; [injection Es1 as <-; reflexivity|].
      cbn [map]. rewrite <- map_rev, py_nth_map.
      change (length (proj_node cell0 :: map proj_node cells0))
        with (S (length (map proj_node cells0))).
      rewrite map_length.
      change (S (length cells0)) with (length (cell0 :: cells0)).
      destruct (py_nth (rev prev) (Z.of_nat (length (cell0 :: cells0)) - 1)) as [src|] eqn:En;
        cbn [option_map]; [|injection Es1 as <-; reflexivity].
      bind_inv Es1 as root' Eroot. injection Es1 as <-.
      erewrite upd_row_sim; [| |exact Eroot].
      + reflexivity.
      + intros cs cs' Hcs. cbv beta in Hcs |- *.
        destruct cs as [|c0 r]; [discriminate Hcs|]. injection Hcs as <-.
        cbn [map]. rewrite copy_node_proj. reflexivity.
    - injection Es1 as <-. reflexivity. }
  rewrite Es1'. cbn [bind].
  apply (hmerge_loop_sim v). exact H.
Qed.

(* ---------- the content tokens are fixed by erase ---------- *)
Lemma erase_latex : forall x stk,
  erase stk (TOpen s_latex :: map TTxt x ++ [TClose s_latex])
  = TOpen s_latex :: map TTxt x ++ [TClose s_latex].
Proof.
  intros x stk. rewrite erase_content_wrap; [|reflexivity|apply balanced_txt].
  rewrite erase_txt. reflexivity.
Qed.

Lemma content_open_span_font : forall f, content_open (s_span_font ++ f) = true.
Proof. intros f. reflexivity. Qed.

Lemma content_open_a_href : forall x, content_open (s_a_href ++ x) = true.
Proof. intros x. reflexivity. Qed.

Lemma erase_sym : forall f x stk,
  erase stk (TOpen (s_span_font ++ f) :: raw x ++ [TClose s_span])
  = TOpen (s_span_font ++ f) :: raw x ++ [TClose s_span].
Proof.
  intros f x stk.
  rewrite erase_content_wrap; [|apply content_open_span_font|apply balanced_raw].
  rewrite erase_raw. reflexivity.
Qed.

Lemma erase_link : forall link body stk, balanced body ->
  erase stk (link_toks link body) = link_toks link (erase [] body).
Proof.
  intros link body stk Hb. unfold link_toks.
  rewrite erase_content_wrap; [reflexivity|apply content_open_a_href|exact Hb].
Qed.

Lemma erase_alt : forall d stk,
  erase stk (raw s_alt_prefix ++ map TTxt d ++ [TRaw 60])
  = raw s_alt_prefix ++ map TTxt d ++ [TRaw 60].
Proof.
  intros d stk. apply erase_neutral.
  apply Forall_app. split; [apply neutral_raw|].
  apply Forall_app. split; [apply neutral_txt|]. constructor; [exact I|constructor].
Qed.

(* ---------- paragraph tokens ---------- *)
Lemma concat_filter_nonempty : forall {A} (l : list (list A)),
  concat (filter nonempty l) = concat l.
Proof.
  intros A l. induction l as [|x l IH]; [reflexivity|].
  cbn [filter]. destruct x as [|a x]; cbn [nonempty concat app]; [exact IH|].
  rewrite IH. reflexivity.
Qed.

Lemma erase_concat : forall l, Forall balanced l ->
  erase [] (concat l) = concat (map (erase []) l).
Proof.
  induction 1 as [|x l Hx Hl IH]; [reflexivity|].
  cbn [concat map]. rewrite erase_app_bal by exact Hx. rewrite IH. reflexivity.
Qed.

Lemma run_toks_erase : forall r ts,
  run_ok r -> srun r -> run_toks r = Ok ts -> erase [] ts = plain_toks r.
Proof.
  intros r ts Hb Hs H. unfold run_toks in H. unfold plain_toks.
  destruct (r_toks r) as [|t0 ts0] eqn:Et.
  - injection H as <-. reflexivity.
  - bind_inv H as cl E. injection H as <-.
    rewrite <- (app_nil_r cl).
    change (t0 :: ts0 ++ cl ++ []) with ((t0 :: ts0) ++ cl ++ []).
    rewrite (erase_fmt_wrap (r_style r) cl (t0 :: ts0) [] []); [|exact Hs|exact E|].
    + rewrite app_nil_r. reflexivity.
    + unfold run_ok in Hb. rewrite Et in Hb. exact Hb.
Qed.

Lemma mapM_map_eq : forall {A B C} (f : A -> res B) (g : A -> C) (h : B -> C) (P : A -> Prop) l ys,
  (forall x y, P x -> f x = Ok y -> h y = g x) ->
  Forall P l -> mapM f l = Ok ys -> map h ys = map g l.
Proof.
  intros A B C f g h P l ys Hf HP. revert ys.
  induction HP as [|x l Hx Hl IH]; intros ys H.
  - cbn in H. injection H as <-. reflexivity.
  - cbn [mapM] in H. bind_inv H as y Ey. bind_inv H as ys' Eys. injection H as <-.
    cbn [map]. rewrite (Hf _ _ Hx Ey). rewrite (IH ys' eq_refl). reflexivity.
Qed.

Lemma par_toks_erase : forall p rs,
  par_ok p -> spar p -> par_run_toks p = Ok rs ->
  concat (filter nonempty (map plain_toks (p_runs p))) = erase [] (concat rs).
Proof.
  intros p rs Hb [Hh Hs] H. unfold par_run_toks in H. bind_inv H as a E.
  assert (Ha : Forall balanced a).
  { eapply mapM_Forall; [|exact E|exact Hb].
    intros x y Hx Hy. eapply run_toks_balanced; eauto. }
  assert (Hm : map (erase []) a = map plain_toks (p_runs p)).
  { apply (mapM_map_eq run_toks plain_toks (erase []) (fun r => run_ok r /\ srun r)
             (p_runs p) a); [| |exact E].
    - intros x y [Hx1 Hx2] Hy. eapply run_toks_erase; eauto.
    - unfold par_ok in Hb. rewrite Forall_forall in *. intros x Hx. split; auto. }
  assert (Hf : Forall balanced (filter nonempty a)) by (apply Forall_filter'; exact Ha).
  rewrite concat_filter_nonempty, <- Hm, <- erase_concat by exact Ha.
  destruct (p_hstyle p) as [|h hs] eqn:Eh.
  - injection H as <-. rewrite concat_filter_nonempty. reflexivity.
  - bind_inv H as cl Ecl. injection H as <-.
    cbn [concat]. rewrite concat_app. cbn [concat].
    rewrite (erase_fmt_wrap (h :: hs) cl _ [] []); [|exact Hh|exact Ecl|].
    + rewrite concat_filter_nonempty. cbn [erase]. rewrite app_nil_r. reflexivity.
    + apply balanced_concat. exact Hf.
Qed.

Lemma tree_par_toks_sim : forall l ps,
  Forall node_ok l -> Forall snode l -> tree_par_toks l = Ok ps ->
  tree_par_toks (map proj_node l) = Ok (map (erase []) ps).
Proof.
  intros l ps Hb Hs H. unfold tree_par_toks in *.
  bind_inv H as pars E1. bind_inv H as rs E2. injection H as <-.
  rewrite (pars_at_sim _ _ _ E1). cbn [bind].
  rewrite (mapM_map_always par_run_toks proj_par
             (fun p => filter nonempty (map plain_toks (p_runs p)))); [|exact par_run_toks_proj].
  cbn [bind]. f_equal. rewrite !map_map. symmetry.
  apply (mapM_map_eq par_run_toks _ _ (fun p => par_ok p /\ spar p) pars rs); [| |exact E2].
  - intros p y [Hp1 Hp2] Hy. symmetry. apply par_toks_erase; assumption.
  - pose proof (pars_at_ok _ _ _ E1 Hb) as H1. pose proof (pars_at_s _ _ _ E1 Hs) as H2.
    rewrite Forall_forall in *. intros x Hx. split; auto.
Qed.

Lemma erase_join : forall l, Forall balanced l ->
  erase [] (join_toks par_sep l) = join_toks par_sep (map (erase []) l).
Proof.
  induction 1 as [|x l Hx Hl IH]; [reflexivity|].
  cbn [join_toks map]. destruct l as [|y l']; [reflexivity|].
  cbn [map] in *. rewrite erase_app_bal by exact Hx.
  rewrite (erase_app_bal par_sep) by reflexivity. rewrite IH. reflexivity.
Qed.

Lemma finish_sim : forall v rg s s',
  finish v s = Ok s' -> finish (plain_env v) (proj_cst rg s) = Ok (proj_cst rg s').
Proof.
  intros v rg s s' H. unfold finish in *. bind_inv H as s1 E.
  change (c_queued (proj_cst rg s)) with (map proj_run (c_queued s)).
  assert (E' : match map proj_run (c_queued s) with
               | [] => Ok (proj_cst rg s)
               | _ :: _ => commence_paragraph (plain_env v) None (proj_cst rg s)
               end = Ok (proj_cst rg s1)).
  { destruct (c_queued s) as [|q qs]; cbn [map].
    - injection E as <-. reflexivity.
    - apply commence_paragraph_sim. exact E. }
  rewrite E'. cbn [bind]. apply conclude_paragraph_sim. exact H.
Qed.

(* ---------- what leaves c_ranges alone ---------- *)
Lemma drop_caret_rg : forall s s', drop_caret s = Ok s' -> c_ranges s' = c_ranges s.
Proof.
  intros s s' H. unfold drop_caret in H.
  destruct (Nat.leb par_depth (c_depth s)); [discriminate H|].
  bind_inv H as t E. injection H as <-. reflexivity.
Qed.

Lemma raise_caret_rg : forall s s', raise_caret s = Ok s' -> c_ranges s' = c_ranges s.
Proof.
  intros s s' H. unfold raise_caret in H.
  destruct (Nat.leb (c_depth s) 1); [discriminate H|]. injection H as <-. reflexivity.
Qed.

Lemma set_caret_go_rg : forall fuel d name s s',
  set_caret_go fuel d name s = Ok s' -> c_ranges s' = c_ranges s.
Proof.
  induction fuel as [|f IH]; intros d name s s' H; [discriminate H|].
  cbn [set_caret_go] in H.
  destruct (Nat.eqb (c_depth s) d).
  - bind_inv H as l E. injection H as <-. reflexivity.
  - destruct (Nat.ltb (c_depth s) d).
    + bind_inv H as s1 E. rewrite (IH _ _ _ _ H). apply drop_caret_rg. exact E.
    + bind_inv H as l E. bind_inv H as s1 E1. rewrite (IH _ _ _ _ H).
      rewrite (raise_caret_rg _ _ E1). reflexivity.
Qed.

Lemma set_caret_rg : forall d name s s', set_caret d name s = Ok s' -> c_ranges s' = c_ranges s.
Proof.
  intros d name s s' H. unfold set_caret in H. destruct d as [d|].
  - eapply set_caret_go_rg; exact H.
  - injection H as <-. reflexivity.
Qed.

Lemma commence_paragraph_rg : forall v elem s s',
  commence_paragraph v elem s = Ok s' -> c_ranges s' = c_ranges s.
Proof.
  intros v elem s s' H. unfold commence_paragraph in H.
  bind_inv H as s1 E1. bind_inv H as hs E2. bind_inv H as ps E3.
  cbv zeta in H. injection H as <-. cbn [c_ranges set_open set_queued].
  eapply set_caret_rg; exact E1.
Qed.

Lemma conclude_paragraph_rg : forall s s',
  conclude_paragraph s = Ok s' -> c_ranges s' = c_ranges s.
Proof.
  intros s s' H. unfold conclude_paragraph in H.
  destruct (c_open s) as [|p rest].
  - injection H as <-. reflexivity.
  - bind_inv H as s1 E1. bind_inv H as t E2. injection H as <-.
    cbn [c_ranges set_tree]. rewrite (set_caret_rg _ _ _ _ E1). reflexivity.
Qed.

Lemma ensure_par_rg : forall v s s', ensure_par v s = Ok s' -> c_ranges s' = c_ranges s.
Proof.
  intros v s s' H. unfold ensure_par in H. destruct (c_open s) as [|p rest].
  - eapply commence_paragraph_rg; exact H.
  - injection H as <-. reflexivity.
Qed.

Lemma upd_open_runs_rg : forall v f s s',
  upd_open_runs v f s = Ok s' -> c_ranges s' = c_ranges s.
Proof.
  intros v f s s' H. unfold upd_open_runs in H. bind_inv H as s1 E1.
  destruct (c_open s1) as [|p rest]; [discriminate H|]. injection H as <-.
  cbn [c_ranges set_open]. eapply ensure_par_rg; exact E1.
Qed.

Lemma finish_rg : forall v s s', finish v s = Ok s' -> c_ranges s' = c_ranges s.
Proof.
  intros v s s' H. unfold finish in H. bind_inv H as s1 E.
  rewrite (conclude_paragraph_rg _ _ H).
  destruct (c_queued s) as [|q qs].
  - injection E as <-. reflexivity.
  - eapply commence_paragraph_rg; exact E.
Qed.

Lemma close_table_cell_rg : forall v e ks s s',
  close_table_cell v e ks s = Ok s' -> c_ranges s' = c_ranges s.
Proof.
  intros v e ks s s' H. unfold close_table_cell in H.
  bind_inv H as pr Epr. cbv zeta in H.
  (* the two early returns of the repaired _close_table_cell *)
  destruct (c_tree s) as [|tb0 root0] eqn:Eroot0; [injection H as <-; reflexivity|].
  rewrite <- Eroot0 in H.
  bind_inv H as rows0 Erows0.
  destruct rows0 as [|rb0 rows1] eqn:Erows1; [injection H as <-; reflexivity|].
  rewrite <- Erows1 in H.
  bind_inv H as dummy Edummy.
  bind_inv H as s1 Es1. bind_inv H as span Espan.
  assert (Hs1 : c_ranges s1 = c_ranges s).
  { clear H Espan.
    match type of Es1 with (if ?c then _ else _) = _ => destruct c end.
    - bind_inv Es1 as sa Esa. bind_inv Es1 as t Et. bind_inv Es1 as rows Er.
      bind_inv Es1 as prev Ep. bind_inv Es1 as cells Ec. cbv zeta in Es1.
      apply set_caret_rg in Esa.
      destruct cells as [|cell0 cells0]; [injection Es1 as <-; exact Esa|].
      destruct (py_nth (rev prev) (Z.of_nat (length (cell0 :: cells0)) - 1)) as [src|];
        [|injection Es1 as <-; exact Esa].
      bind_inv Es1 as root' Eroot. injection Es1 as <-. exact Esa.
    - injection Es1 as <-. reflexivity. }
  rewrite <- Hs1. clear Es1 Espan Hs1. revert s1 H. generalize (Z.to_nat (span - 1)).
  induction n as [|n IH]; intros s1 H.
  - injection H as <-. reflexivity.
  - cbn [bind] in H. bind_inv H as sa Esa. bind_inv H as root' Eroot.
    rewrite (IH _ H). cbn [c_ranges set_tree]. eapply set_caret_rg; exact Esa.
Qed.

Lemma keys_eq_step : forall rg s s', c_ranges s' = c_ranges s -> keys_eq rg s -> keys_eq rg s'.
Proof. intros rg s s' H Hk. unfold keys_eq in *. rewrite H. exact Hk. Qed.

(* ---------- open / close handlers ---------- *)
Lemma insert_then_sim : forall v ts ts' rg s (b : bool) s2 rc,
  st_ok s -> keys_eq rg s -> ts' = erase [] ts ->
  (s' <- insert_text_as_new_run v ts s ;; Ok (s', b)) = Ok (s2, rc) ->
  exists rg2, keys_eq rg2 s2 /\
  (s' <- insert_text_as_new_run (plain_env v) ts' (proj_cst rg s) ;; Ok (s', b))
  = Ok (proj_cst rg2 s2, rc).
Proof.
  intros v ts ts' rg s b s2 rc Hs Hk -> H. bind_inv H as s1 E. injection H as <- <-.
  exists rg. split.
  - eapply keys_eq_step; [|exact Hk]. eapply upd_open_runs_rg. exact E.
  - rewrite (insert_text_as_new_run_sim _ _ rg _ _ Hs E). reflexivity.
Qed.

Lemma add_then_sim : forall v ts ts' rg s (b : bool) s2 rc,
  st_ok s -> keys_eq rg s -> ts' = erase [] ts ->
  (s' <- add_toks v ts s ;; Ok (s', b)) = Ok (s2, rc) ->
  exists rg2, keys_eq rg2 s2 /\
  (s' <- add_toks (plain_env v) ts' (proj_cst rg s) ;; Ok (s', b))
  = Ok (proj_cst rg2 s2, rc).
Proof.
  intros v ts ts' rg s b s2 rc Hs Hk -> H. bind_inv H as s1 E. injection H as <- <-.
  exists rg. split.
  - eapply keys_eq_step; [|exact Hk]. eapply upd_open_runs_rg. exact E.
  - rewrite (add_toks_sim _ _ rg _ _ Hs E). reflexivity.
Qed.

Lemma note_label_sim : forall v kind e rg s s2 rc,
  keys_eq rg s -> note_label v kind e s = Ok (s2, rc) ->
  exists rg2, keys_eq rg2 s2 /\
    note_label (plain_env v) kind e (proj_cst rg s) = Ok (proj_cst rg2 s2, rc).
Proof.
  intros v kind e rg s s2 rc Hk H. unfold note_label in *. bind_inv H as ty E. cbn [bind].
  destruct (contains s_separator (lower (ostr ty))).
  - injection H as <- <-. exists rg. split; [exact Hk|reflexivity].
  - bind_inv H as id E1. cbn [bind]. injection H as <- <-. exists rg. split; [exact Hk|].
    rewrite <- queue_run_sim. rewrite erase_raw. reflexivity.
Qed.

Lemma note_ref_sim : forall v kind e rg s s2 rc,
  st_ok s -> keys_eq rg s -> note_ref v kind e s = Ok (s2, rc) ->
  exists rg2, keys_eq rg2 s2 /\
    note_ref (plain_env v) kind e (proj_cst rg s) = Ok (proj_cst rg2 s2, rc).
Proof.
  intros v kind e rg s s2 rc Hs Hk H. unfold note_ref in *. bind_inv H as id E. cbn [bind].
  eapply insert_then_sim; [exact Hs|exact Hk| |exact H].
  rewrite erase_raw. reflexivity.
Qed.

Lemma image_ref_sim : forall v rid rg s s2 rc,
  st_ok s -> keys_eq rg s -> image_ref v rid s = Ok (s2, rc) ->
  exists rg2, keys_eq rg2 s2 /\
    image_ref (plain_env v) rid (proj_cst rg s) = Ok (proj_cst rg2 s2, rc).
Proof.
  intros v rid rg s s2 rc Hs Hk H. unfold image_ref in *.
  change (env_rels (plain_env v)) with (env_rels v).
  destruct rid as [id|x].
  - destruct (dict_get id (env_rels v)) as [img|].
    + eapply insert_then_sim; [exact Hs|exact Hk| |exact H]. rewrite erase_raw. reflexivity.
    + injection H as <- <-. exists rg. split; [exact Hk|reflexivity].
  - destruct x; try discriminate H. injection H as <- <-.
    exists rg. split; [exact Hk|reflexivity].
Qed.

Lemma open_tag_sim : forall v path t e ks body rg s s2 rc,
  st_ok s -> balanced body -> keys_eq rg s ->
  open_tag v path t e ks body s = Ok (s2, rc) ->
  exists rg2, keys_eq rg2 s2 /\
    open_tag (plain_env v) path t e ks (erase [] body) (proj_cst rg s)
    = Ok (proj_cst rg2 s2, rc).
Proof.
  intros v path t e ks body rg s s2 rc Hs Hbody Hk H. unfold open_tag in *. cbv zeta in *.
  change (env_rels (plain_env v)) with (env_rels v).
  change (to_numtable (plain_env v)) with (to_numtable v).
  rewrite plain_x2h.
  destruct (str_eqb (e_ptag e) tag_PARAGRAPH).
  { bind_inv H as s1 E1.
    rewrite (commence_paragraph_sim _ _ rg _ _ E1). cbn [bind].
    change (c_counters (proj_cst rg s1)) with (c_counters s1).
    destruct (get_par_number (to_numtable v) (c_counters s1) (get_bullet_fmt t)) as [cs number].
    bind_inv H as bl E2. bind_inv H as s2' E3. cbn [bind].
    pose proof (commence_paragraph_ok _ _ _ _ Hs E1) as Hs1.
    change (set_counters cs (proj_cst rg s1)) with (proj_cst rg (set_counters cs s1)).
    rewrite <- (erase_raw bl []).
    rewrite (insert_text_as_new_run_sim _ _ rg _ _ (Hs1 : st_ok (set_counters cs s1)) E3).
    cbn [bind].
    change (c_open (proj_cst rg s2')) with (map proj_par (c_open s2')).
    destruct (c_open s2') as [|p rest] eqn:Eo; [discriminate H|].
    injection H as <- <-. exists rg. split.
    - unfold keys_eq. cbn [c_ranges set_open]. rewrite (upd_open_runs_rg _ _ _ _ E3).
      cbn [c_ranges set_counters]. rewrite (commence_paragraph_rg _ _ _ _ E1). exact Hk.
    - reflexivity. }
  destruct (str_eqb (e_ptag e) tag_RUN).
  { bind_inv H as st E1. bind_inv H as s1 E2. injection H as <- <-.
    rewrite (run_formatting_plain _ _ _ _ E1). cbn [bind].
    rewrite (commence_run_sim _ _ rg _ _ Hs E2). cbn [bind].
    exists rg. split; [|reflexivity].
    eapply keys_eq_step; [|exact Hk]. eapply upd_open_runs_rg. exact E2. }
  destruct (str_eqb (e_ptag e) tag_COMMENT_RANGE_END).
  { bind_inv H as id E1. bind_inv H as s1 E2. injection H as <- <-. cbn [bind].
    destruct (end_comment_range_sim _ _ _ _ _ Hk E2) as (rg2 & Hk2 & E2').
    rewrite E2'. cbn [bind]. exists rg2. split; [exact Hk2|reflexivity]. }
  destruct (str_eqb (e_ptag e) tag_COMMENT_RANGE_START).
  { bind_inv H as id E1. bind_inv H as s1 E2. injection H as <- <-. cbn [bind].
    destruct (start_comment_range_sim _ _ _ _ _ Hk E2) as (rg2 & Hk2 & E2').
    rewrite E2'. cbn [bind]. exists rg2. split; [exact Hk2|reflexivity]. }
  destruct (str_eqb (e_ptag e) tag_TEXT || str_eqb (e_ptag e) tag_TEXT_MATH)%bool.
  { unfold add_text_into_open_run in *.
    eapply add_then_sim; [exact Hs|exact Hk| |exact H]. rewrite erase_txt. reflexivity. }
  destruct (str_eqb (e_ptag e) tag_MATH).
  { eapply insert_then_sim; [exact Hs|exact Hk| |exact H]. rewrite erase_latex. reflexivity. }
  destruct (str_eqb (e_ptag e) tag_BR).
  { unfold add_code_into_open_run in *.
    eapply add_then_sim; [exact Hs|exact Hk| |exact H]. reflexivity. }
  destruct (str_eqb (e_ptag e) tag_SYM).
  { bind_inv H as font E1. bind_inv H as chr E2. cbn [bind].
    destruct (ostr chr) as [|c0 tl0].
    - injection H as <- <-. exists rg. split; [exact Hk|reflexivity].
    - unfold add_code_into_open_run in *.
      eapply add_then_sim; [exact Hs|exact Hk| |exact H]. rewrite erase_sym. reflexivity. }
  destruct (str_eqb (e_ptag e) tag_FOOTNOTE).
  { eapply note_label_sim; eauto. }
  destruct (str_eqb (e_ptag e) tag_ENDNOTE).
  { eapply note_label_sim; eauto. }
  destruct (str_eqb (e_ptag e) tag_HYPERLINK).
  { destruct (attr_r_req e s_id) as [rid|x].
    - destruct (dict_get rid (env_rels v)) as [link|].
      + destruct (attr_w e s_anchor) as [anchor|x].
        * eapply insert_then_sim; [exact Hs|exact Hk| |exact H].
          rewrite erase_link by exact Hbody. reflexivity.
        * destruct x; try discriminate H.
          eapply insert_then_sim; [exact Hs|exact Hk|reflexivity|exact H].
      + eapply insert_then_sim; [exact Hs|exact Hk|reflexivity|exact H].
    - destruct x; try discriminate H.
      eapply insert_then_sim; [exact Hs|exact Hk|reflexivity|exact H]. }
  destruct (str_eqb (e_ptag e) tag_FORM_CHECKBOX).
  { bind_inv H as x E1. cbn [bind].
    eapply insert_then_sim; [exact Hs|exact Hk| |exact H]. rewrite erase_raw. reflexivity. }
  destruct (str_eqb (e_ptag e) tag_FORM_DDLIST).
  { bind_inv H as x E1. cbn [bind].
    eapply insert_then_sim; [exact Hs|exact Hk| |exact H]. rewrite erase_txt. reflexivity. }
  destruct (str_eqb (e_ptag e) tag_FOOTNOTE_REFERENCE).
  { eapply note_ref_sim; eauto. }
  destruct (str_eqb (e_ptag e) tag_ENDNOTE_REFERENCE).
  { eapply note_ref_sim; eauto. }
  destruct (str_eqb (e_ptag e) tag_IMAGE).
  { eapply image_ref_sim; eauto. }
  destruct (str_eqb (e_ptag e) tag_IMAGE_ALT).
  { destruct (attr_plain e s_descr) as [d|].
    - eapply insert_then_sim; [exact Hs|exact Hk| |exact H]. rewrite erase_alt. reflexivity.
    - injection H as <- <-. exists rg. split; [exact Hk|reflexivity]. }
  destruct (str_eqb (e_ptag e) tag_IMAGEDATA).
  { eapply image_ref_sim; eauto. }
  destruct (str_eqb (e_ptag e) tag_TAB).
  { eapply insert_then_sim; [exact Hs|exact Hk| |exact H]. reflexivity. }
  injection H as <- <-. exists rg. split; [exact Hk|reflexivity].
Qed.

Lemma close_tag_sim : forall v e ks rg s s',
  st_ok s -> keys_eq rg s -> close_tag v e ks s = Ok s' ->
  keys_eq rg s' /\ close_tag (plain_env v) e ks (proj_cst rg s) = Ok (proj_cst rg s').
Proof.
  intros v e ks rg s s' Hs Hk H. unfold close_tag in *. cbv zeta in *.
  destruct (str_eqb (e_ptag e) tag_PARAGRAPH).
  { split; [|apply conclude_paragraph_sim; exact H].
    eapply keys_eq_step; [|exact Hk]. eapply conclude_paragraph_rg; exact H. }
  destruct (str_eqb (e_ptag e) tag_RUN).
  { split; [|eapply commence_run_sim; [exact Hs|exact H]].
    eapply keys_eq_step; [|exact Hk]. eapply upd_open_runs_rg; exact H. }
  destruct (str_eqb (e_ptag e) tag_TABLE_CELL).
  { split; [|apply close_table_cell_sim; exact H].
    eapply keys_eq_step; [|exact Hk]. eapply close_table_cell_rg; exact H. }
  injection H as <-. split; [exact Hk|reflexivity].
Qed.

(* ---------- the walk ---------- *)
Definition below_f (v : env) (path : list nat) :=
  fix below (l : list anode) (i : nat) : res (list tok) :=
    match l with
    | [] => Ok []
    | k :: r =>
        sk <- walk v (i :: path) k init_cst ;;
        sk' <- finish v sk ;;
        ps <- tree_par_toks (c_tree sk') ;;
        rest <- below r (S i) ;;
        Ok (join_toks par_sep ps ++ rest)
    end.

Definition kids_f (v : env) (path : list nat) :=
  fix kids (l : list anode) (i : nat) (s : cst) : res cst :=
    match l with
    | [] => Ok s
    | k :: r => s' <- walk v (i :: path) k s ;; kids r (S i) s'
    end.

Lemma walk_AE : forall v path e ks s,
  walk v path (AE e ks) s =
  (let d := elem_depth (AE e ks) in
   s1 <- set_caret d (Some (e_local e)) s ;;
   body <- (if str_eqb (e_ptag e) tag_HYPERLINK then below_f v path ks O else Ok []) ;;
   '(s2, recurse) <- open_tag v path (AE e ks) e ks body s1 ;;
   s3 <- (if recurse : bool then kids_f v path ks O s2 else Ok s2) ;;
   s4 <- close_tag v e ks s3 ;;
   set_caret d None s4).
Proof. reflexivity. Qed.

Definition walk_sim_at (v : env) (t : anode) : Prop :=
  forall path s s1, good s -> walk v path t s = Ok s1 ->
  forall rg, keys_eq rg s ->
  exists rg1, keys_eq rg1 s1 /\
    walk (plain_env v) path t (proj_cst rg s) = Ok (proj_cst rg1 s1).

Lemma walk_good : forall v t path s s',
  styles_ok v -> good s -> walk v path t s = Ok s' -> good s'.
Proof.
  intros v t path s s' Hv [H1 H2] H. split.
  - eapply walk_st_ok; eauto.
  - eapply walk_s; eauto.
Qed.

Lemma finish_good : forall v s s', styles_ok v -> good s -> finish v s = Ok s' -> good s'.
Proof.
  intros v s s' Hv [H1 H2] H. split.
  - eapply finish_st_ok; eauto.
  - eapply finish_s; eauto.
Qed.

Lemma below_sim : forall v path ks,
  styles_ok v -> Forall (walk_sim_at v) ks ->
  forall i body, below_f v path ks i = Ok body ->
  balanced body /\ below_f (plain_env v) path ks i = Ok (erase [] body).
Proof.
  intros v path ks Hv HF. induction HF as [|k r Hk Hr IH]; intros i body H.
  - cbn [below_f] in *. injection H as <-. split; reflexivity.
  - cbn [below_f] in H. fold (below_f v path) in H.
    bind_inv H as sk Esk. bind_inv H as sk' Esk'. bind_inv H as ps Eps.
    bind_inv H as rest Erest. injection H as <-.
    destruct (IH _ _ Erest) as [Hb Er].
    pose proof (walk_good _ _ _ _ _ Hv init_good Esk) as Gk.
    pose proof (finish_good _ _ _ Hv Gk Esk') as Gk'.
    destruct Gk' as [(Gt & _ & _) (Gs & _ & _)].
    assert (Hps : Forall balanced ps) by (eapply tree_par_toks_ok; eauto).
    assert (Hj : balanced (join_toks par_sep ps)) by (apply join_toks_balanced; exact Hps).
    split; [apply balanced_app; assumption|].
    destruct (Hk _ _ _ init_good Esk [] eq_refl) as (rg1 & Hk1 & Ew).
    change (proj_cst [] init_cst) with init_cst in Ew.
    cbn [below_f]. fold (below_f (plain_env v) path).
    rewrite Ew. cbn [bind]. rewrite (finish_sim _ rg1 _ _ Esk'). cbn [bind].
    change (c_tree (proj_cst rg1 sk')) with (map proj_node (c_tree sk')).
    rewrite (tree_par_toks_sim _ _ Gt Gs Eps). cbn [bind].
    rewrite Er. cbn [bind].
    rewrite erase_app_bal by exact Hj. rewrite erase_join by exact Hps. reflexivity.
Qed.

Lemma kids_sim : forall v path ks,
  styles_ok v -> Forall (walk_sim_at v) ks ->
  forall i s s3, good s -> kids_f v path ks i s = Ok s3 ->
  forall rg, keys_eq rg s ->
  good s3 /\ exists rg3, keys_eq rg3 s3 /\
    kids_f (plain_env v) path ks i (proj_cst rg s) = Ok (proj_cst rg3 s3).
Proof.
  intros v path ks Hv HF. induction HF as [|k r Hk Hr IH]; intros i s s3 Hg H rg Hkeys.
  - cbn [kids_f] in *. injection H as <-. split; [exact Hg|].
    exists rg. split; [exact Hkeys|reflexivity].
  - cbn [kids_f] in H. fold (kids_f v path) in H. bind_inv H as sk Esk.
    pose proof (walk_good _ _ _ _ _ Hv Hg Esk) as Gk.
    destruct (Hk _ _ _ Hg Esk rg Hkeys) as (rg1 & Hk1 & Ew).
    destruct (IH _ _ _ Gk H rg1 Hk1) as (G3 & rg3 & Hk3 & E3).
    split; [exact G3|]. exists rg3. split; [exact Hk3|].
    cbn [kids_f]. fold (kids_f (plain_env v) path). rewrite Ew. cbn [bind]. exact E3.
Qed.

Lemma walk_sim : forall v t, styles_ok v -> walk_sim_at v t.
Proof.
  intros v t Hv. induction t as [tl|e ks IH] using anode_ind'; intros path s s' Hg H rg Hkeys.
  - cbn in H. injection H as <-. exists rg. split; [exact Hkeys|reflexivity].
  - rewrite walk_AE in H. cbv zeta in H.
    bind_inv H as s1 E1. bind_inv H as body Eb. bind_inv H as s2r Eo.
    destruct s2r as [s2 recurse]. bind_inv H as s3 Ek. bind_inv H as s4 Ec.
    destruct Hg as [Hst Hsty].
    pose proof (set_caret_ok _ _ _ _ Hst E1) as Hst1.
    pose proof (set_caret_s _ _ _ _ Hsty E1) as Hsty1.
    assert (Hk1 : keys_eq rg s1).
    { eapply keys_eq_step; [|exact Hkeys]. eapply set_caret_rg; exact E1. }
    assert (Hbody : balanced body /\
              (if str_eqb (e_ptag e) tag_HYPERLINK then below_f (plain_env v) path ks O else Ok [])
              = Ok (erase [] body)).
    { destruct (str_eqb (e_ptag e) tag_HYPERLINK).
      - eapply below_sim; eauto.
      - injection Eb as <-. split; reflexivity. }
    destruct Hbody as [Hbody Eb'].
    destruct (open_tag_sim _ _ _ _ _ _ rg _ _ _ Hst1 Hbody Hk1 Eo) as (rg2 & Hk2 & Eo').
    pose proof (open_tag_ok _ _ _ _ _ _ _ _ Hbody Hst1 Eo) as Hst2. cbn [fst] in Hst2.
    pose proof (open_tag_s _ _ _ _ _ _ _ _ Hv Hsty1 Eo) as Hsty2. cbn [fst] in Hsty2.
    assert (Hkids : good s3 /\ exists rg3, keys_eq rg3 s3 /\
              (if recurse then kids_f (plain_env v) path ks O (proj_cst rg2 s2)
               else Ok (proj_cst rg2 s2)) = Ok (proj_cst rg3 s3)).
    { destruct recurse.
      - eapply kids_sim; eauto. split; assumption.
      - injection Ek as <-. split; [split; assumption|].
        exists rg2. split; [exact Hk2|reflexivity]. }
    destruct Hkids as ([Hst3 Hsty3] & rg3 & Hk3 & Ek').
    destruct (close_tag_sim _ _ _ rg3 _ _ Hst3 Hk3 Ec) as [Hk4 Ec'].
    exists rg3. split.
    + eapply keys_eq_step; [|exact Hk4]. eapply set_caret_rg; exact H.
    + rewrite walk_AE. cbv zeta.
      rewrite (set_caret_sim _ _ rg _ _ E1). cbn [bind].
      rewrite Eb'. cbn [bind]. rewrite Eo'. cbn [bind].
      rewrite Ek'. cbn [bind]. rewrite Ec'. cbn [bind].
      apply set_caret_sim. exact H.
Qed.

(* ================================================================== *)
(* PART 4 — main theorems                                               *)
(* ================================================================== *)

Theorem walk_projects : forall v t path s s1 sp,
  styles_ok v -> Rst s sp -> walk v path t s = Ok s1 ->
  exists sp1, walk (plain_env v) path t sp = Ok sp1 /\ Rst s1 sp1.
Proof.
  intros v t path s s1 sp Hv HR H.
  apply Rst_proj in HR. destruct HR as (Hg & rg & Hk & ->).
  destruct (walk_sim v t Hv path s s1 Hg H rg Hk) as (rg1 & Hk1 & Hw).
  exists (proj_cst rg1 s1). split; [exact Hw|].
  apply Rst_proj. split; [eapply walk_good; eauto|].
  exists rg1. split; [exact Hk1|reflexivity].
Qed.

Theorem finish_projects : forall v s s1 sp,
  styles_ok v -> Rst s sp -> finish v s = Ok s1 ->
  exists sp1, finish (plain_env v) sp = Ok sp1 /\ Rst s1 sp1.
Proof.
  intros v s s1 sp Hv HR H.
  apply Rst_proj in HR. destruct HR as (Hg & rg & Hk & ->).
  exists (proj_cst rg s1). split; [apply finish_sim; exact H|].
  apply Rst_proj. split; [eapply finish_good; eauto|].
  exists rg. split; [|reflexivity].
  eapply keys_eq_step; [|exact Hk]. eapply finish_rg; exact H.
Qed.

Lemma Rst_init : Rst init_cst init_cst.
Proof.
  apply Rst_proj. split; [exact init_good|]. exists []. split; reflexivity.
Qed.

Theorem collect_projects : forall v t path s,
  styles_ok v -> collect_from v path t = Ok s ->
  exists sp, collect_from (plain_env v) path t = Ok sp /\ Rst s sp.
Proof.
  intros v t path s Hv H. unfold collect_from in *. bind_inv H as s0 E.
  destruct (walk_projects _ _ _ _ _ _ Hv Rst_init E) as (sp0 & Hw & HR0).
  destruct (finish_projects _ _ _ _ Hv HR0 H) as (sp1 & Hf & HR1).
  exists sp1. split; [|exact HR1]. rewrite Hw. cbn [bind]. exact Hf.
Qed.

(* ---------- consequences, without the auxiliary relation ---------- *)
Theorem projection_paragraphs : forall v t path s sp ps, styles_ok v ->
  collect_from v path t = Ok s -> collect_from (plain_env v) path t = Ok sp ->
  pars_at 4 (c_tree s) = Ok ps ->
  exists ps', pars_at 4 (c_tree sp) = Ok ps' /\ length ps' = length ps /\
    forall i p p', nth_error ps i = Some p -> nth_error ps' i = Some p' ->
      p_elem p' = p_elem p /\ p_copy p' = p_copy p /\ p_style p' = p_style p /\
      p_lineage p' = p_lineage p /\ p_listpos p' = p_listpos p /\
      forall rs, par_run_toks p = Ok rs ->
        exists rs', par_run_toks p' = Ok rs' /\ erase [] (concat rs) = concat rs'.
Proof.
  intros v t path s sp ps Hv Hc Hcp Hps.
  destruct (collect_projects _ _ _ _ Hv Hc) as (sp' & Hcp' & HR).
  rewrite Hcp in Hcp'. injection Hcp' as <-.
  destruct HR as ([Hst Hsty] & Ht & _).
  exists (map proj_par ps). split; [rewrite Ht; apply pars_at_sim; exact Hps|].
  split; [apply map_length|].
  intros i p p' Hp Hp'. rewrite nth_error_map, Hp in Hp'. cbn in Hp'. injection Hp' as <-.
  repeat (split; [reflexivity|]).
  intros rs Hrs. eexists. split; [apply par_run_toks_proj|].
  symmetry. apply par_toks_erase; [| |exact Hrs].
  - destruct Hst as (Ht1 & _ & _). pose proof (pars_at_ok _ _ _ Hps Ht1) as HF.
    apply nth_error_In in Hp. exact (Forall_In' par_ok _ _ HF Hp).
  - destruct Hsty as (Ht1 & _ & _). pose proof (pars_at_s _ _ _ Hps Ht1) as HF.
    apply nth_error_In in Hp. exact (Forall_In' spar _ _ HF Hp).
Qed.

(* the shape of a tree: the records forgotten *)
Inductive shape := SP | SL (l : list shape).
Fixpoint shape_of (n : node) : shape :=
  match n with
  | NP _ => SP
  | NL l => SL (map shape_of l)
  end.

Lemma shape_of_proj : forall n, shape_of (proj_node n) = shape_of n.
Proof.
  induction n as [p|l IH] using node_ind'; [reflexivity|].
  cbn [proj_node shape_of]. f_equal. rewrite map_map.
  induction IH as [|x l Hx Hl IHl]; [reflexivity|].
  cbn [map]. rewrite Hx, IHl. reflexivity.
Qed.

Theorem projection_shape : forall v t path s sp, styles_ok v ->
  collect_from v path t = Ok s -> collect_from (plain_env v) path t = Ok sp ->
  map shape_of (c_tree sp) = map shape_of (c_tree s) /\
  c_counters sp = c_counters s /\ c_depth sp = c_depth s /\ c_lineage sp = c_lineage s /\
  map fst (c_ranges sp) = map fst (c_ranges s) /\
  length (c_open sp) = length (c_open s) /\ length (c_queued sp) = length (c_queued s).
Proof.
  intros v t path s sp Hv Hc Hcp.
  destruct (collect_projects _ _ _ _ Hv Hc) as (sp' & Hcp' & HR).
  rewrite Hcp in Hcp'. injection Hcp' as <-.
  destruct HR as (_ & Ht & Hd & Hl & Ho & Hq & Hr & Hcn).
  split; [|repeat split; try assumption].
  - rewrite Ht, map_map. apply map_ext. exact shape_of_proj.
  - rewrite Ho. apply map_length.
  - rewrite Hq. apply map_length.
Qed.

(* html extraction succeeds => plain extraction succeeds *)
Theorem plain_succeeds : forall v t path s, styles_ok v ->
  collect_from v path t = Ok s -> exists sp, collect_from (plain_env v) path t = Ok sp.
Proof.
  intros v t path s Hv H. destruct (collect_projects _ _ _ _ Hv H) as (sp & Hsp & _). eauto.
Qed.

(* ---------- sanity: erase on plain-mode tokens ---------- *)
Lemma erase_plain_fixed : forall ts,
  (forall s, In (TOpen s) ts -> content_open s = true) ->
  forall stk, Forall (fun b => b = false) stk -> erase stk ts = ts.
Proof.
  induction ts as [|t ts IH]; intros Hc stk Hstk; [reflexivity|].
  assert (Hc' : forall s, In (TOpen s) ts -> content_open s = true).
  { intros s Hs. apply Hc. right. exact Hs. }
  destruct t as [c|c|s|w]; cbn [erase].
  - rewrite IH; auto.
  - rewrite IH; auto.
  - rewrite (Hc s (or_introl eq_refl)). rewrite IH; auto.
  - destruct stk as [|b st].
    + rewrite IH; auto.
    + inversion Hstk as [|? ? Hb Hst]; subst. rewrite IH; auto.
Qed.

Lemma erase_idem_gen : forall ts stk,
  erase (filter negb stk) (erase stk ts) = erase stk ts.
Proof.
  induction ts as [|t ts IH]; intros stk; [reflexivity|].
  destruct t as [c|c|s|w]; cbn [erase].
  - rewrite IH. reflexivity.
  - rewrite IH. reflexivity.
  - destruct (content_open s) eqn:E.
    + cbn [erase]. rewrite E. rewrite <- (IH (false :: stk)) at 2. reflexivity.
    + rewrite <- (IH (true :: stk)) at 2. reflexivity.
  - destruct stk as [|[|] st]; cbn [filter negb erase].
    + rewrite <- (IH []) at 2. reflexivity.
    + apply IH.
    + rewrite IH. reflexivity.
Qed.

Lemma erase_idem : forall ts, erase [] (erase [] ts) = erase [] ts.
Proof. intros ts. exact (erase_idem_gen ts []). Qed.

(* ================================================================== *)
(* PART 5 — the "first_word succeeds" half of the suggested styles_ok   *)
(*          is false of the model; it is not needed above               *)
(* ================================================================== *)

(* as suggested in the work package: also require that html_close can name each tag *)
Definition styles_words_ok (x2h : xml2html) : Prop :=
  forall e ks st,
    (get_run_formatting e ks x2h = Ok st \/ get_paragraph_formatting e ks x2h = Ok st) ->
    Forall (fun x => exists w, first_word x = Ok w) st.

Module Ex.
  Definition W : str := s2l "urn:w"%string.
  Definition R : str := s2l "urn:r"%string.
  Definition mk (local : str) (attrs : list (aname * str)) (text : option str) : einfo :=
    {| e_ptag := s2l "w:"%string ++ local; e_uri := Some W; e_local := local;
       e_wuri := Some W; e_ruri := Some R; e_attrs := attrs; e_text := text; e_tail := None |}.
  Definition el (local : String.string) (ks : list anode) : anode :=
    AE (mk (s2l local) [] None) ks.
  Definition ela (local : String.string) (attrs : list (aname * str)) (ks : list anode) : anode :=
    AE (mk (s2l local) attrs None) ks.
  Definition elv (local : String.string) (val : String.string) : anode :=
    AE (mk (s2l local) [((Some W, s_val), s2l val)] None) [].
  Definition txt (s : String.string) : anode := AE (mk (s2l "t"%string) [] (Some (s2l s))) [].
  Arguments el _%string _.
  Arguments ela _%string _ _.
  Arguments elv _%string _%string.
  Arguments txt _%string.
End Ex.
Import Ex.

(* <w:r><w:rPr><w:vertAlign/></w:rPr></w:r>: the style string is "" and html_close raises *)
Lemma styles_words_ok_counterexample :
  exists e ks st x,
    get_run_formatting e ks xml2html_table = Ok st /\ In x st /\ first_word x = Err IndexError.
Proof.
  exists (mk (s2l "r"%string) [] None), [el "rPr" [el "vertAlign" []]], [[]], [].
  vm_compute. repeat split. left. reflexivity.
Qed.

Lemma styles_words_ok_refuted : ~ styles_words_ok xml2html_table.
Proof.
  intro H. destruct styles_words_ok_counterexample as (e & ks & st & x & H1 & H2 & H3).
  specialize (H e ks st (or_introl H1)). rewrite Forall_forall in H.
  destruct (H x H2) as (w & Hw). rewrite H3 in Hw. discriminate Hw.
Qed.

(* The exact condition: every vertAlign entry that is not switched off has a word
   within the first three characters of its value (val[:3] is the tag). *)
Definition s_vertAlign : str := s2l "vertAlign"%string.
Definition has_word (s : str) : Prop := exists w, first_word s = Ok w.
Definition span_like (x : str) : Prop := exists y, x = w_span ++ s_space ++ y.

Definition fw_okb (pr : list (str * option str)) : bool :=
  forallb (fun kv => negb (str_eqb (fst kv) s_vertAlign) || is_off (snd kv)
                     || nonempty (words (firstn 3 (ostr (snd kv))))) pr.

Lemma entry_kind : forall k hf,
  dict_get k xml2html_table = Some hf ->
  (hf_container hf, hf_property hf) = (None, None) \/
  (hf_container hf, hf_property hf) = (Some w_span, Some s_style).
Proof.
  intros k hf Hg. apply dict_get_in in Hg.
  pose proof table_ok2 as T. rewrite forallb_forall in T. specialize (T _ Hg).
  unfold entry_ok2 in T. cbn [fst snd] in T.
  destruct (hf_container hf) as [c|]; destruct (hf_property hf) as [p|]; try discriminate T.
  - apply andb_true_iff in T. destruct T as [T1 T2].
    apply str_eqb_eq in T1. apply str_eqb_eq in T2. subst. right. reflexivity.
  - left. reflexivity.
Qed.

Section FormatGen.
  Variable Pb : str -> Prop.

  Definition cp_invP (d : list (cp_key * list str)) : Prop :=
    Forall (fun kv => (fst kv = (None, None) /\ Forall Pb (snd kv)) \/
                      fst kv = (Some w_span, Some s_style)) d.

  Lemma cp_add_invP : forall k v d,
    ((k = (None, None) /\ Pb v) \/ k = (Some w_span, Some s_style)) ->
    cp_invP d -> cp_invP (cp_add k v d).
  Proof.
    intros k v d Hk Hd. induction Hd as [|[k' vs] r Hk' Hr IH]; cbn [cp_add].
    - constructor; [|constructor]. cbn [fst snd].
      destruct Hk as [[Hk Hv]|Hk]; [left|right; exact Hk].
      split; [exact Hk|]. constructor; [exact Hv|constructor].
    - cbn [fst snd] in *. destruct (cp_eqb k k') eqn:E.
      + apply cp_eqb_eq in E. subst k'. constructor; [|exact Hr]. cbn [fst snd].
        destruct Hk' as [[Hk' Hvs]|Hk']; [|right; exact Hk'].
        left. split; [exact Hk'|]. apply Forall_app. split; [exact Hvs|].
        destruct Hk as [[_ Hv]|Hk]; [constructor; [exact Hv|constructor]|].
        rewrite Hk in Hk'. discriminate Hk'.
      + constructor; [|exact IH]. exact Hk'.
  Qed.

  Lemma format_gen : forall pr st,
    (forall k v hf s, In (k, v) pr -> dict_get k xml2html_table = Some hf ->
       is_off v = false -> eval_fexpr (hf_expr hf) k (ostr v) = Ok s ->
       (hf_container hf, hf_property hf) = (None, None) -> Pb s) ->
    format_Pr_into_html pr xml2html_table = Ok st ->
    Forall (fun x => Pb x \/ span_like x) st.
  Proof.
    intros pr st HP H. unfold format_Pr_into_html in H.
    bind_inv H as cp E.
    assert (Hcp : cp_invP cp).
    { eapply (foldM_inv cp_invP); [|constructor|exact E].
      intros d [k v] d' Hin Hd Hs. cbn [fst snd] in Hs.
      destruct (dict_get k xml2html_table) as [hf|] eqn:Eg.
      - destruct (is_off v) eqn:Eoff; [injection Hs as <-; exact Hd|].
        bind_inv Hs as s Ee. injection Hs as <-.
        apply cp_add_invP; [|exact Hd].
        destruct (entry_kind k hf Eg) as [H1|H1]; [left|right; exact H1].
        split; [exact H1|]. eapply HP; eauto.
      - injection Hs as <-. exact Hd. }
    cbv zeta in H. injection H as <-.
    apply Forall_app. split.
    - rewrite Forall_forall. intros x Hx. right.
      apply in_map_iff in Hx. destruct Hx as [kv [<- Hkv]].
      apply sort_by_In in Hkv. apply filter_In in Hkv. destruct Hkv as [Hkv Hne].
      match type of Hkv with
      | In _ (fold_left ?f ?l ?z) =>
          assert (Hcon : Forall (fun kv : str * list str => fst kv = w_span) (fold_left f l z))
      end.
      { apply (fold_left_inv (Forall (fun kv : str * list str => fst kv = w_span))); [|constructor].
        intros d [[c [p|]] vs] Hin Hd; cbn [fst snd]; [|exact Hd].
        apply sort_by_In in Hin. apply filter_In in Hin. destruct Hin as [Hin _].
        unfold cp_invP in Hcp. rewrite Forall_forall in Hcp. specialize (Hcp _ Hin).
        cbn [fst snd] in Hcp. destruct Hcp as [[Hk _]|Hk]; [discriminate Hk|].
        injection Hk as Hc Hp. subst c p. cbn [ostr].
        destruct (dict_get w_span d); apply (dict_set_keys (fun k : str => k = w_span));
          try reflexivity; exact Hd. }
      rewrite Forall_forall in Hcon. specialize (Hcon _ Hkv).
      destruct kv as [k0 items]. cbn [fst snd] in *. subst k0.
      exists (join s_space items). reflexivity.
    - destruct (find (fun kv : cp_key * list str => cp_eqb (fst kv) (None, None)) cp)
        as [[k vs]|] eqn:F; [|constructor].
      apply find_some in F. destruct F as [Hin Hk]. cbn [fst] in Hk. apply cp_eqb_eq in Hk.
      unfold cp_invP in Hcp. rewrite Forall_forall in Hcp. specialize (Hcp _ Hin).
      cbn [fst snd] in Hcp. subst k. destruct Hcp as [[_ Hvs]|Hk]; [|discriminate Hk].
      unfold sort_strs. apply sort_by_Forall.
      eapply Forall_impl; [|exact Hvs]. intros a Ha. left. exact Ha.
  Qed.
End FormatGen.

Lemma vertAlign_entry : forall hf,
  dict_get s_vertAlign xml2html_table = Some hf ->
  hf_expr hf = [FValPrefix 3] /\ hf_container hf = None /\ hf_property hf = None.
Proof.
  intros hf H. vm_compute in H. injection H as <-. repeat split.
Qed.

Lemma eval_prefix3 : forall k val, eval_fexpr [FValPrefix 3] k val = Ok (firstn 3 val).
Proof.
  intros k val. unfold eval_fexpr. cbn [mapM eval_fpart bind concat]. rewrite app_nil_r.
  reflexivity.
Qed.

Lemma format_words : forall pr st,
  fw_okb pr = true -> format_Pr_into_html pr xml2html_table = Ok st -> Forall has_word st.
Proof.
  intros pr st Hok H.
  assert (HF : Forall (fun x => has_word x \/ span_like x) st).
  { apply (format_gen has_word pr st); [|exact H].
    intros k v hf s Hin Hg Hoff He Hcp.
    destruct (str_eqb k s_vertAlign) eqn:Ek.
    - apply str_eqb_eq in Ek. subst k.
      unfold fw_okb in Hok. rewrite forallb_forall in Hok. specialize (Hok _ Hin).
      cbn [fst snd] in Hok. rewrite str_eqb_refl, Hoff in Hok. cbn [negb orb] in Hok.
      destruct (vertAlign_entry hf Hg) as (Hx & _ & _). rewrite Hx, eval_prefix3 in He.
      set (s0 := firstn 3 (ostr v)) in *. clearbody s0.
      injection He as <-. unfold has_word, first_word.
      destruct (words s0) as [|w ws]; [discriminate Hok|].
      exists w. reflexivity.
    - apply dict_get_in in Hg.
      pose proof table_ok as T. rewrite forallb_forall in T. specialize (T _ Hg).
      unfold entry_ok in T. cbn [fst snd] in T. injection Hcp as Hc Hp.
      rewrite Hc, Hp in T. change (s2l "vertAlign"%string) with s_vertAlign in T.
      rewrite Ek in T. apply andb_true_iff in T. destruct T as [T1 T2].
      rewrite (eval_fexpr_val_free _ k (ostr v) [] T1) in He. rewrite He in T2.
      apply tag_okb_ok in T2. destruct T2 as (w & Hw & _). exists w. exact Hw. }
  eapply Forall_impl; [|exact HF]. intros a [Ha|(y & ->)]; [exact Ha|].
  exists w_span. apply first_word_span.
Qed.

(* ... and the condition is necessary *)
Lemma forallb_false : forall {A} (f : A -> bool) l,
  forallb f l = false -> exists x, In x l /\ f x = false.
Proof.
  intros A f. induction l as [|x l IH]; intro H; [discriminate H|].
  cbn [forallb] in H. destruct (f x) eqn:E.
  - destruct (IH H) as (y & Hy & Hf). exists y. split; [right; exact Hy|exact Hf].
  - exists x. split; [left; reflexivity|exact E].
Qed.

Lemma foldM_app_inv : forall {A S} (f : S -> A -> res S) l1 l2 s r,
  foldM f (l1 ++ l2) s = Ok r -> exists m, foldM f l1 s = Ok m /\ foldM f l2 m = Ok r.
Proof.
  intros A S f. induction l1 as [|x l1 IH]; intros l2 s r H.
  - exists s. split; [reflexivity|exact H].
  - cbn [app foldM] in H. bind_inv H as s1 E. destruct (IH _ _ _ H) as (m & H1 & H2).
    exists m. split; [|exact H2]. cbn [foldM]. rewrite E. exact H1.
Qed.

Definition isNN (kv : cp_key * list str) : bool := cp_eqb (fst kv) (None, None).
Definition holds_bare (s0 : str) (d : list (cp_key * list str)) : Prop :=
  exists vs, find isNN d = Some ((None, None), vs) /\ In s0 vs.

Lemma cp_eqb_NN : forall k, cp_eqb k (None, None) = cp_eqb (None, None) k.
Proof. intros [[a|] [b|]]; reflexivity. Qed.

Lemma cp_add_bare_new : forall s0 d, holds_bare s0 (cp_add (None, None) s0 d).
Proof.
  intros s0. induction d as [|[k' vs] r IH]; cbn [cp_add].
  - exists [s0]. split; [reflexivity|left; reflexivity].
  - destruct (cp_eqb (None, None) k') eqn:E.
    + pose proof (cp_eqb_eq _ _ E) as <-. exists (vs ++ [s0]). split; [reflexivity|].
      apply in_or_app. right. left. reflexivity.
    + destruct IH as (vs' & Hf & Hin). exists vs'. split; [|exact Hin].
      cbn [find]. unfold isNN at 1. cbn [fst]. rewrite cp_eqb_NN, E. exact Hf.
Qed.

Lemma cp_add_bare_keep : forall s0 k v d, holds_bare s0 d -> holds_bare s0 (cp_add k v d).
Proof.
  intros s0 k v. induction d as [|[k' vs] r IH]; intros (vs0 & Hf & Hin); [discriminate Hf|].
  cbn [cp_add]. cbn [find] in Hf. unfold isNN at 1 in Hf. cbn [fst] in Hf.
  destruct (cp_eqb k k') eqn:E.
  - destruct (cp_eqb k' (None, None)) eqn:E'.
    + injection Hf as -> ->. exists (vs0 ++ [v]). split.
      * cbn [find]. unfold isNN at 1. cbn [fst]. reflexivity.
      * apply in_or_app. left. exact Hin.
    + exists vs0. split; [|exact Hin]. cbn [find]. unfold isNN at 1. cbn [fst].
      rewrite E'. exact Hf.
  - destruct (cp_eqb k' (None, None)) eqn:E'.
    + injection Hf as -> ->. exists vs0. split; [|exact Hin].
      cbn [find]. unfold isNN at 1. cbn [fst]. reflexivity.
    + destruct (IH (ex_intro _ vs0 (conj Hf Hin))) as (vs1 & Hf1 & Hin1).
      exists vs1. split; [|exact Hin1]. cbn [find]. unfold isNN at 1. cbn [fst].
      rewrite E'. exact Hf1.
Qed.

Lemma format_words_necessary : forall pr st,
  fw_okb pr = false -> format_Pr_into_html pr xml2html_table = Ok st ->
  exists x, In x st /\ first_word x = Err IndexError.
Proof.
  intros pr st Hok H. unfold fw_okb in Hok.
  destruct (forallb_false _ _ Hok) as ([k v] & Hin & Hf). cbn [fst snd] in Hf.
  apply orb_false_iff in Hf. destruct Hf as [Hf Hw].
  apply orb_false_iff in Hf. destruct Hf as [Hk Hoff].
  apply negb_false_iff in Hk. apply str_eqb_eq in Hk. subst k.
  set (s0 := firstn 3 (ostr v)) in *.
  assert (Hs0 : first_word s0 = Err IndexError).
  { unfold first_word. destruct (words s0); [reflexivity|discriminate Hw]. }
  exists s0. split; [|exact Hs0].
  unfold format_Pr_into_html in H. bind_inv H as cp E. cbv zeta in H. injection H as <-.
  apply in_split in Hin. destruct Hin as (l1 & l2 & ->).
  apply foldM_app_inv in E. destruct E as (d1 & _ & E).
  cbn [foldM fst snd] in E.
  assert (Hg : dict_get s_vertAlign xml2html_table
               = Some {| hf_expr := fmt_format_vertAlign; hf_container := None;
                         hf_property := None |}) by reflexivity.
  rewrite Hg, Hoff in E. cbn [hf_expr hf_container hf_property] in E.
  unfold fmt_format_vertAlign in E. rewrite eval_prefix3 in E. cbn [bind] in E.
  fold s0 in E.
  assert (Hcp : holds_bare s0 cp).
  { eapply (foldM_inv (holds_bare s0)); [|apply cp_add_bare_new|exact E].
    intros d [k2 v2] d' _ Hd Hs. cbn [fst snd] in Hs.
    destruct (dict_get k2 xml2html_table) as [hf|].
    - destruct (is_off v2); [injection Hs as <-; exact Hd|].
      bind_inv Hs as s2 Ee. injection Hs as <-. apply cp_add_bare_keep. exact Hd.
    - injection Hs as <-. exact Hd. }
  destruct Hcp as (vs & Hfind & Hvs).
  apply in_or_app. right. change (fun kv : cp_key * list str => cp_eqb (fst kv) (None, None)) with isNN.
  rewrite Hfind. unfold sort_strs. apply sort_by_In. exact Hvs.
Qed.

(* html_close can name every tag of the style  <->  fw_okb *)
Theorem format_words_iff : forall pr st,
  format_Pr_into_html pr xml2html_table = Ok st ->
  (Forall has_word st <-> fw_okb pr = true).
Proof.
  intros pr st H. split.
  - intros HF. destruct (fw_okb pr) eqn:E; [reflexivity|].
    destruct (format_words_necessary pr st E H) as (x & Hx & Hw).
    rewrite Forall_forall in HF. destruct (HF x Hx) as (w & Hw'). rewrite Hw in Hw'.
    discriminate Hw'.
  - intros Hok. exact (format_words pr st Hok H).
Qed.

Theorem styles_words_ok_partial : forall e ks st,
  (forall pr, gather_Pr e ks = Ok pr -> fw_okb pr = true) ->
  (get_run_formatting e ks xml2html_table = Ok st -> Forall has_word st) /\
  (forall ps, get_pStyle e ks = Ok ps -> str_eqb ps s_vertAlign = false ->
   get_paragraph_formatting e ks xml2html_table = Ok st -> Forall has_word st).
Proof.
  intros e ks st Hpr. split.
  - intros H. unfold get_run_formatting in H. bind_inv H as pr E.
    eapply format_words; [|exact H]. apply Hpr. reflexivity.
  - intros ps Hps Hne H. unfold get_paragraph_formatting in H. rewrite Hps in H.
    cbn [bind] in H. eapply format_words; [|exact H].
    unfold fw_okb. cbn [forallb fst snd]. rewrite Hne. reflexivity.
Qed.

(* the hypothesis is satisfiable by a run that does carry a vertAlign *)
Example fw_okb_example :
  fw_okb [(s2l "b"%string, None); (s_vertAlign, Some (s2l "superscript"%string))] = true /\
  fw_okb [(s_vertAlign, None)] = false.
Proof. split; reflexivity. Qed.

(* ================================================================== *)
(* PART 6 — a concrete document (non-vacuity)                           *)
(* ================================================================== *)

(* <w:p> Heading1; bold run "a<b"; hyperlink (r:id -> http://x) with an italic run "x&y";
   a coloured superscript run "z"; a w:sym; an unresolved hyperlink *)
Definition ex_tree : anode :=
  el "p" [ el "pPr" [ elv "pStyle" "Heading1" ];
           el "r" [ el "rPr" [ el "b" [] ]; txt "a<b" ];
           ela "hyperlink" [((Some R, s_id), s2l "rId1"%string)]
             [ el "r" [ el "rPr" [ el "i" [] ]; txt "x&y" ] ];
           el "r" [ el "rPr" [ elv "color" "FF0000"; elv "vertAlign" "superscript" ]; txt "z" ];
           el "r" [ ela "sym" [((Some W, s_font), s2l "Wingdings"%string);
                               ((Some W, s_char), s2l "F0E0"%string)] [] ];
           el "hyperlink" [ el "r" [ el "rPr" [ el "u" [] ]; txt "q" ] ] ].

Definition ex_env : env :=
  {| env_x2h := xml2html_table; env_rels := [(s2l "rId1"%string, s2l "http://x"%string)];
     env_dup := false; env_numtbl := [] |}.

Definition toks_of_collect (v : env) : res (list (list (list tok))) :=
  s <- collect_from v [] ex_tree ;; ps <- pars_at 4 (c_tree s) ;; mapM par_run_toks ps.

Example ex_styles_ok : styles_ok ex_env.
Proof. apply styles_ok_table. reflexivity. Qed.

Example ex_projection :
  exists rs rs',
    toks_of_collect ex_env = Ok [rs] /\ toks_of_collect (plain_env ex_env) = Ok [rs'] /\
    erase [] (concat rs) = concat rs' /\
    render true (concat rs) =
      s2l "<h1><b>a&lt;b</b><a href=""http://x""><i>x&amp;y</i></a>"%string
      ++ s2l "<span style=""color:FF0000""><sup>z</sup></span>"%string
      ++ s2l "<span style=font-family:Wingdings>&#x00E0;</span><u>q</u></h1>"%string /\
    render false (concat rs') =
      s2l "a<b<a href=""http://x"">x&y</a>z"%string
      ++ s2l "<span style=font-family:Wingdings>&#x00E0;</span>q"%string.
Proof.
  eexists. eexists. split; [vm_compute; reflexivity|].
  split; [vm_compute; reflexivity|].
  split; [vm_compute; reflexivity|].
  split; vm_compute; reflexivity.
Qed.

(* a heading, then a table cell with a comment range: same shape, same range keys, but the
   run offsets of the range differ (the heading's tags are run strings of their own) -
   this is why Rst relates only the keys of c_ranges *)
Definition ex_tree2 : anode :=
  el "body" [
    el "p" [ el "pPr" [ elv "pStyle" "Heading2" ]; el "r" [ txt "t" ] ];
    el "tbl" [ el "tr" [ el "tc" [
      el "p" [ ela "commentRangeStart" [((Some W, s_id), s2l "7"%string)] [];
               el "r" [ el "rPr" [ el "b" [] ]; txt "c" ];
               ela "commentRangeEnd" [((Some W, s_id), s2l "7"%string)] [] ] ] ] ] ].

Example ex_ranges_differ :
  exists s sp,
    collect_from ex_env [] ex_tree2 = Ok s /\
    collect_from (plain_env ex_env) [] ex_tree2 = Ok sp /\
    c_ranges s = [(s2l "7"%string, (3, 4))%nat] /\
    c_ranges sp = [(s2l "7"%string, (1, 2))%nat] /\
    map shape_of (c_tree s) = [SL [SL [SL [SP]]]; SL [SL [SL [SP]]]].
Proof.
  eexists. eexists. split; [vm_compute; reflexivity|].
  split; [vm_compute; reflexivity|].
  repeat split; vm_compute; reflexivity.
Qed.

Print Assumptions styles_ok_table.
Print Assumptions styles_ok_plain.
Print Assumptions balanced_wb.
Print Assumptions walk_s.
Print Assumptions walk_sim.
Print Assumptions walk_projects.
Print Assumptions finish_projects.
Print Assumptions collect_projects.
Print Assumptions projection_paragraphs.
Print Assumptions projection_shape.
Print Assumptions plain_succeeds.
Print Assumptions erase_plain_fixed.
Print Assumptions erase_idem.
Print Assumptions styles_words_ok_counterexample.
Print Assumptions styles_words_ok_refuted.
Print Assumptions format_words_iff.
Print Assumptions styles_words_ok_partial.
Print Assumptions ex_styles_ok.
Print Assumptions ex_projection.
Print Assumptions ex_ranges_differ.
