(* SaveFacts.v — C16 "saving round-trips" and C17 "search-and-replace"
   (facts about model/Save.v).

   Proved as stated: save_copies_exact, save_copy_sound, save_written_exact,
   save_names (exists! form; save_names_count is the count_occ form it is
   derived from), save_duplicate_refuted, splitlines_join (its hypothesis
   s <> [] is not used), splitlines_trailing_newline_lost, splitlines_empty,
   replace_node_hit, replace_node_frame, replace_root_frame, interleave_text,
   replace_text_commutes.
   Nothing was found false.  The two placeholder statements of the task are
   replaced by real ones: splitlines_join_trailing_lost / splitlines_join_trailing
   (a single trailing "\n" is dropped, for every s that does not itself end
   in "\n"), and replace_node_frame / replace_root_frame_kids /
   replace_all_frame.  Extras: save_copy_not_overwritten, replace_text_general. *)
From Coq Require Import List NArith ZArith Bool Arith Lia Permutation.
From Coq Require String.
From D2P Require Import Str Err Xml TableTypes Tables Fmt Bullets Merge Collector Walk Iter
     Output Paths Package Content Save.
From D2P Require Import BulletsFacts MergeFacts.
Import ListNotations.
Open Scope N_scope.

(* ================================================================== *)
(* generic helpers                                                      *)
(* ================================================================== *)
Definition str_eq_dec : forall a b : str, {a = b} + {a <> b} := list_eq_dec N.eq_dec.

Definition is_overwritten (f : frec) : bool := mem_str (f_type f) save_overwrite_types.

Lemma mapM_In : forall A B (f : A -> res B) l ys,
  mapM f l = Ok ys -> forall y, In y ys -> exists x, In x l /\ f x = Ok y.
Proof.
  induction l as [|x r IH]; intros ys H y Hy; simpl in H.
  - inversion H; subst. destruct Hy.
  - destruct (f x) as [y0|] eqn:Hx; simpl in H; [|discriminate].
    destruct (mapM f r) as [ys0|] eqn:Hr; simpl in H; [|discriminate].
    inversion H; subst. destruct Hy as [<-|Hy].
    + exists x; split; auto. left; auto.
    + destruct (IH _ eq_refl _ Hy) as [x' [Hin Hf]]. exists x'; split; auto. right; auto.
Qed.

Lemma written_names : forall (roots : frec -> res anode) l ys,
  mapM (fun f => t <- roots f ;; Ok (f_path f, WXml t)) l = Ok ys ->
  map fst ys = map f_path l.
Proof.
  induction l as [|x r IH]; intros ys H; simpl in H.
  - inversion H; reflexivity.
  - destruct (roots x) as [t|]; simpl in H; [|discriminate].
    destruct (mapM (fun f => t0 <- roots f ;; Ok (f_path f, WXml t0)) r) as [ys0|] eqn:Hr;
      simpl in H; [|discriminate].
    inversion H; subst. simpl. f_equal. apply IH; auto.
Qed.

(* ---------- index_members ---------- *)
Lemma index_members_complete : forall a k i n m,
  nth_error a i = Some (n, m) -> In ((k + i)%nat, n) (index_members a k).
Proof.
  induction a as [|[n0 m0] r IH]; intros k i n m H.
  - destruct i; discriminate.
  - destruct i as [|i]; simpl in *.
    + inversion H; subst. left. f_equal. lia.
    + right. replace (k + S i)%nat with (S k + i)%nat by lia. eapply IH; eauto.
Qed.

Lemma index_members_sound : forall a k j n,
  In (j, n) (index_members a k) ->
  exists i m, j = (k + i)%nat /\ nth_error a i = Some (n, m).
Proof.
  induction a as [|[n0 m0] r IH]; intros k j n H; simpl in H.
  - destruct H.
  - destruct H as [H|H].
    + inversion H; subst. exists 0%nat, m0. split; [lia|reflexivity].
    + destruct (IH _ _ _ H) as [i [m [-> Hn]]]. exists (S i), m. split; [lia|exact Hn].
Qed.

Lemma index_members_names : forall a k, map snd (index_members a k) = map fst a.
Proof.
  induction a as [|[n m] r IH]; intros k; simpl; [reflexivity|]. f_equal. apply IH.
Qed.

(* ---------- the shape of the result ---------- *)
Lemma save_with_shape : forall a fs roots out,
  save_with a fs roots = Ok out ->
  exists written,
    mapM (fun f => t <- roots f ;; Ok (f_path f, WXml t)) (filter is_overwritten fs) = Ok written
    /\ out = map (fun ix => (snd ix, WCopy (fst ix)))
               (filter (fun ix => negb (mem_str (snd ix) (map f_path (filter is_overwritten fs))))
                       (index_members a 0%nat))
             ++ written.
Proof.
  intros a fs roots out H. unfold save_with in H. fold is_overwritten in H.
  destruct (mapM (fun f => t <- roots f ;; Ok (f_path f, WXml t)) (filter is_overwritten fs))
    as [written|] eqn:Hw; simpl in H; [|discriminate].
  inversion H; subst. exists written. split; reflexivity.
Qed.

(* ================================================================== *)
(* S1. what is copied                                                   *)
(* ================================================================== *)
Lemma save_copies_exact : forall a fs roots out, save_with a fs roots = Ok out ->
  forall i n m, nth_error a i = Some (n, m) ->
    mem_str n (map f_path (filter (fun f => mem_str (f_type f) save_overwrite_types) fs)) = false ->
    In (n, WCopy i) out.
Proof.
  intros a fs roots out H i n m Hn Hex.
  destruct (save_with_shape _ _ _ _ H) as [written [_ ->]].
  apply in_or_app. left.
  apply in_map_iff. exists (i, n). split; [reflexivity|].
  apply filter_In. split.
  - exact (index_members_complete a 0 i n m Hn).
  - simpl. unfold is_overwritten. rewrite Hex. reflexivity.
Qed.

Lemma save_copy_sound : forall a fs roots out n i,
  save_with a fs roots = Ok out -> In (n, WCopy i) out ->
  exists m, nth_error a i = Some (n, m).
Proof.
  intros a fs roots out n i H Hin.
  destruct (save_with_shape _ _ _ _ H) as [written [Hw ->]].
  apply in_app_or in Hin. destruct Hin as [Hin|Hin].
  - apply in_map_iff in Hin. destruct Hin as [[j n'] [E Hf]]. simpl in E. inversion E; subst.
    apply filter_In in Hf. destruct Hf as [Hf _].
    destruct (index_members_sound _ _ _ _ Hf) as [i' [m [-> Hn]]]. exists m. exact Hn.
  - destruct (mapM_In _ _ _ _ _ Hw _ Hin) as [f [_ Hf]].
    destruct (roots f); simpl in Hf; inversion Hf.
Qed.

(* a copied member is one that is not overwritten *)
Lemma save_copy_not_overwritten : forall a fs roots out n i,
  save_with a fs roots = Ok out -> In (n, WCopy i) out ->
  mem_str n (map f_path (filter (fun f => mem_str (f_type f) save_overwrite_types) fs)) = false.
Proof.
  intros a fs roots out n i H Hin.
  destruct (save_with_shape _ _ _ _ H) as [written [Hw ->]].
  apply in_app_or in Hin. destruct Hin as [Hin|Hin].
  - apply in_map_iff in Hin. destruct Hin as [[j n'] [E Hf]]. simpl in E. inversion E; subst.
    apply filter_In in Hf. destruct Hf as [_ Hf]. simpl in Hf.
    apply negb_true_iff in Hf. exact Hf.
  - destruct (mapM_In _ _ _ _ _ Hw _ Hin) as [f [_ Hf]].
    destruct (roots f); simpl in Hf; inversion Hf.
Qed.

(* ================================================================== *)
(* S2. what is written                                                  *)
(* ================================================================== *)
Lemma save_written_exact : forall a fs roots out, save_with a fs roots = Ok out ->
  exists copied written, out = copied ++ written
    /\ Forall (fun nm => exists i, snd nm = WCopy i) copied
    /\ mapM (fun f => t <- roots f ;; Ok (f_path f, WXml t))
            (filter (fun f => mem_str (f_type f) save_overwrite_types) fs) = Ok written.
Proof.
  intros a fs roots out H.
  destruct (save_with_shape _ _ _ _ H) as [written [Hw ->]].
  eexists; exists written. split; [reflexivity|]. split; [|exact Hw].
  apply Forall_forall. intros x Hx. apply in_map_iff in Hx.
  destruct Hx as [[j n] [<- _]]. exists j. reflexivity.
Qed.

(* ================================================================== *)
(* S3. names                                                            *)
(* ================================================================== *)
Lemma count_occ_filter : forall (f : str -> bool) l x,
  count_occ str_eq_dec (filter f l) x = if f x then count_occ str_eq_dec l x else 0%nat.
Proof.
  induction l as [|y r IH]; intros x; simpl.
  - destruct (f x); reflexivity.
  - destruct (f y) eqn:Hy; simpl.
    + destruct (str_eq_dec y x) as [->|Hne].
      * rewrite IH, Hy. reflexivity.
      * apply IH.
    + rewrite IH. destruct (str_eq_dec y x) as [->|Hne]; [rewrite Hy|]; reflexivity.
Qed.

Lemma copied_names : forall excl a k,
  map fst (map (fun ix : nat * str => (snd ix, WCopy (fst ix)))
               (filter (fun ix => negb (mem_str (snd ix) excl)) (index_members a k)))
  = filter (fun n => negb (mem_str n excl)) (map fst a).
Proof.
  intros excl; induction a as [|[n m] r IH]; intros k; simpl; [reflexivity|].
  destruct (negb (mem_str n excl)); simpl; [f_equal|]; apply IH.
Qed.

Lemma mem_str_false_not_In : forall s l, mem_str s l = false <-> ~ In s l.
Proof.
  intros s l. split.
  - intros H Hin. apply mem_str_In in Hin. congruence.
  - intros H. destruct (mem_str s l) eqn:E; auto. apply mem_str_In in E. contradiction.
Qed.

(* count formulation *)
Lemma save_names_count : forall a fs roots out, save_with a fs roots = Ok out ->
  let content := filter (fun f => mem_str (f_type f) save_overwrite_types) fs in
  NoDup (map f_path content) ->
  (forall p, In p (map f_path content) -> count_occ str_eq_dec (map fst a) p = 1%nat) ->
  Permutation (map fst out) (map fst a).
Proof.
  intros a fs roots out H content Hnd Hone.
  destruct (save_with_shape _ _ _ _ H) as [written [Hw ->]].
  fold is_overwritten in content. fold content. fold content in Hw.
  apply (Permutation_count_occ str_eq_dec). intros x.
  rewrite map_app, count_occ_app, copied_names, (written_names _ _ _ Hw), count_occ_filter.
  destruct (mem_str x (map f_path content)) eqn:Hx; simpl.
  - apply mem_str_In in Hx. rewrite (Hone x Hx).
    apply (proj1 (NoDup_count_occ' str_eq_dec _) Hnd x Hx).
  - apply mem_str_false_not_In in Hx.
    rewrite (proj1 (count_occ_not_In str_eq_dec _ x) Hx). lia.
Qed.

Lemma unique_index_count : forall (l : list str) p,
  (exists! i, nth_error l i = Some p) -> count_occ str_eq_dec l p = 1%nat.
Proof.
  induction l as [|x r IH]; intros p [i [Hi Hu]].
  - destruct i; discriminate.
  - simpl. destruct (str_eq_dec x p) as [->|Hne].
    + f_equal. apply count_occ_not_In. intros Hin.
      apply In_nth_error in Hin. destruct Hin as [j Hj].
      assert (E1 : i = 0%nat) by (apply Hu; reflexivity).
      assert (E2 : i = S j) by (apply Hu; exact Hj).
      congruence.
    + destruct i as [|i]; simpl in Hi; [inversion Hi; congruence|].
      apply IH. exists i. split; auto.
      intros j Hj. specialize (Hu (S j) Hj). congruence.
Qed.

Lemma nth_error_map_fst : forall (a : archive) i p,
  nth_error (map fst a) i = Some p <-> exists m, nth_error a i = Some (p, m).
Proof.
  induction a as [|[n m] r IH]; intros i p.
  - destruct i; simpl; split; try discriminate; intros [? ?]; discriminate.
  - destruct i as [|i]; simpl.
    + split.
      * intros E; inversion E; subst. exists m; reflexivity.
      * intros [m' E]; inversion E; reflexivity.
    + apply IH.
Qed.

Lemma save_names : forall a fs roots out, save_with a fs roots = Ok out ->
  let content := filter (fun f => mem_str (f_type f) save_overwrite_types) fs in
  NoDup (map f_path content) ->
  (forall p, In p (map f_path content) -> exists! i, exists m, nth_error a i = Some (p, m)) ->
  Permutation (map fst out) (map fst a).
Proof.
  intros a fs roots out H content Hnd Hone.
  apply (save_names_count a fs roots out H); auto.
  intros p Hp. apply unique_index_count.
  destruct (Hone p Hp) as [i [Hi Hu]]. exists i. split.
  - apply nth_error_map_fst; exact Hi.
  - intros j Hj. apply Hu. apply nth_error_map_fst; exact Hj.
Qed.

(* two relationships pointing at one content part write that member twice *)
Section Dup.
  Import String.StringSyntax.
  Local Open Scope string_scope.
  Definition dup_archive : archive := [(s2l "d.xml", MRaw 0)].
  Definition dup_frec (id : String.string) : frec :=
    {| f_id := s2l id; f_type := s2l "officeDocument"; f_target := s2l "d.xml"; f_dir := s2l "" |}.
  Definition dup_files : list frec := [dup_frec "rId1"; dup_frec "rId2"].
  Definition dup_out : list (str * wmember) :=
    [(s2l "d.xml", WXml (AX None)); (s2l "d.xml", WXml (AX None))].
End Dup.

Lemma save_duplicate_refuted : exists a fs roots out,
  save_with a fs roots = Ok out /\ ~ NoDup (map fst out) /\ NoDup (map fst a).
Proof.
  exists dup_archive, dup_files, (fun _ => Ok (AX None)), dup_out.
  split; [vm_compute; reflexivity|]. split.
  - vm_compute. intros Hnd. inversion Hnd as [|x l Hnot _]; subst. apply Hnot. left; reflexivity.
  - vm_compute. constructor; [intros []|constructor].
Qed.

(* ================================================================== *)
(* S4. search and replace on one text node                              *)
(* ================================================================== *)
Definition lf : N := 10.
Definition only_lf (s : str) : Prop := forall c, In c s -> is_linebreak c = true -> c = lf.

Lemma splitlines_empty : splitlines [] = [].
Proof. reflexivity. Qed.

Lemma splitlines_trailing_newline_lost : join [lf] (splitlines [120; 10]) = [120].
Proof. vm_compute. reflexivity. Qed.

Lemma only_lf_tail : forall c s, only_lf (c :: s) -> only_lf s.
Proof. intros c s H x Hx. apply H. right; auto. Qed.

Lemma splitlines_go_acc_nonempty : forall s acc,
  acc <> [] -> splitlines_go s acc false <> [].
Proof.
  induction s as [|c s IH]; intros acc Ha; simpl.
  - destruct acc; [congruence|discriminate].
  - destruct (is_linebreak c); [discriminate|]. apply IH. discriminate.
Qed.

Lemma splitlines_go_nonempty : forall s acc, s <> [] -> splitlines_go s acc false <> [].
Proof.
  intros [|c s] acc Hs; [congruence|]. simpl.
  destruct (is_linebreak c); [discriminate|]. apply splitlines_go_acc_nonempty. discriminate.
Qed.

Lemma join_cons_nonempty : forall sep x (l : list str),
  l <> [] -> join sep (x :: l) = x ++ sep ++ join sep l.
Proof. intros sep x [|y r] H; [congruence|reflexivity]. Qed.

Lemma last_cons_nonempty : forall (c : N) s d, s <> [] -> last (c :: s) d = last s d.
Proof. intros c [|y r] d H; [congruence|reflexivity]. Qed.

Lemma splitlines_go_join : forall s acc,
  only_lf s -> (s = [] \/ last s 0 <> lf) ->
  join [lf] (splitlines_go s acc false) = rev acc ++ s.
Proof.
  induction s as [|c s IH]; intros acc Ho Hl.
  - simpl. rewrite app_nil_r. destruct acc as [|x acc]; reflexivity.
  - destruct Hl as [Hl|Hl]; [discriminate|].
    simpl. destruct (is_linebreak c) eqn:Hb.
    + assert (c = lf) by (apply Ho; [left; reflexivity|exact Hb]). subst c.
      assert (Hs : s <> []) by (intros ->; apply Hl; reflexivity).
      rewrite last_cons_nonempty in Hl by exact Hs.
      change (N.eqb lf 13) with false.
      rewrite join_cons_nonempty by (apply splitlines_go_nonempty; exact Hs).
      rewrite (IH [] (only_lf_tail _ _ Ho) (or_intror Hl)). reflexivity.
    + rewrite (IH (c :: acc) (only_lf_tail _ _ Ho)).
      * simpl. rewrite <- app_assoc. reflexivity.
      * destruct s as [|y r]; [left; reflexivity|right]. exact Hl.
Qed.

Lemma splitlines_join : forall s,
  only_lf s -> s <> [] -> last s 0 <> lf -> join [lf] (splitlines s) = s.
Proof.
  intros s Ho _ Hl. unfold splitlines. rewrite splitlines_go_join; auto.
Qed.

(* the general form of D19: a single trailing "\n" is dropped *)
Lemma splitlines_go_join_trailing : forall s acc,
  only_lf s -> (s = [] \/ last s 0 <> lf) ->
  join [lf] (splitlines_go (s ++ [lf]) acc false) = rev acc ++ s.
Proof.
  induction s as [|c s IH]; intros acc Ho Hl.
  - simpl. rewrite app_nil_r. reflexivity.
  - destruct Hl as [Hl|Hl]; [discriminate|].
    simpl. destruct (is_linebreak c) eqn:Hb.
    + assert (c = lf) by (apply Ho; [left; reflexivity|exact Hb]). subst c.
      assert (Hs : s <> []) by (intros ->; apply Hl; reflexivity).
      rewrite last_cons_nonempty in Hl by exact Hs.
      change (N.eqb lf 13) with false.
      rewrite join_cons_nonempty
        by (apply splitlines_go_nonempty; destruct s; [congruence|discriminate]).
      rewrite (IH [] (only_lf_tail _ _ Ho) (or_intror Hl)). reflexivity.
    + rewrite (IH (c :: acc) (only_lf_tail _ _ Ho)).
      * simpl. rewrite <- app_assoc. reflexivity.
      * destruct s as [|y r]; [left; reflexivity|right]. exact Hl.
Qed.

Lemma splitlines_join_trailing_lost : forall s,
  only_lf s -> (s = [] \/ last s 0 <> lf) ->
  join [lf] (splitlines (s ++ [lf])) = s.
Proof.
  intros s Ho Hl. unfold splitlines. rewrite splitlines_go_join_trailing; auto.
Qed.

(* so text ending in one "\n" and the same text without it are indistinguishable
   after splitlines/join *)
Lemma splitlines_join_trailing : forall s,
  only_lf s -> (s = [] \/ last s 0 <> lf) ->
  join [lf] (splitlines (s ++ [lf])) = join [lf] (splitlines s).
Proof.
  intros s Ho Hl. rewrite splitlines_join_trailing_lost by auto.
  unfold splitlines. rewrite splitlines_go_join; auto.
Qed.

(* ---------- replace_node ---------- *)
Definition rkids (old new : str) : list anode -> res (list anode) :=
  fix go (l : list anode) : res (list anode) :=
    match l with
    | [] => Ok []
    | x :: r => a <- replace_node old new x ;; b <- go r ;; Ok (a ++ b)
    end.

Lemma replace_node_AE : forall old new e eks,
  replace_node old new (AE e eks) =
    match e_text e with
    | Some (c :: tx) =>
        if contains old (c :: tx) then
          wuri <- of_opt KeyError (e_wuri e) ;;
          Ok (interleave (br_of e wuri)
                (map (fun l => AE (with_text e l) eks) (splitlines (replace old new (c :: tx)))))
        else eks' <- rkids old new eks ;; Ok [AE e eks']
    | _ => eks' <- rkids old new eks ;; Ok [AE e eks']
    end.
Proof. reflexivity. Qed.

Lemma replace_node_hit : forall old new e eks c tx wuri,
  e_text e = Some (c :: tx) -> contains old (c :: tx) = true -> e_wuri e = Some wuri ->
  replace_node old new (AE e eks) =
    Ok (interleave (br_of e wuri)
          (map (fun l => AE (with_text e l) eks) (splitlines (replace old new (c :: tx))))).
Proof.
  intros old new e eks c tx wuri Ht Hc Hw.
  rewrite replace_node_AE, Ht, Hc, Hw. reflexivity.
Qed.

Fixpoint needle_free (old : str) (t : anode) : bool :=
  match t with
  | AX _ => true
  | AE e ks =>
      negb (match e_text e with Some (c :: tx) => contains old (c :: tx) | _ => false end)
      && forallb (needle_free old) ks
  end.

Lemma replace_node_frame : forall old new k,
  needle_free old k = true -> replace_node old new k = Ok [k].
Proof.
  intros old new k. induction k as [tl|e ks IH] using anode_ind2; intros Hn.
  - reflexivity.
  - cbn [needle_free] in Hn. apply andb_true_iff in Hn. destruct Hn as [Hn Hks].
    apply negb_true_iff in Hn.
    assert (Hgo : rkids old new ks = Ok ks).
    { clear Hn. induction IH as [|k r Hk _ IHr]; [reflexivity|].
      simpl in Hks. apply andb_true_iff in Hks. destruct Hks as [Hk1 Hr1].
      simpl. rewrite (Hk Hk1). simpl. rewrite (IHr Hr1). reflexivity. }
    rewrite replace_node_AE, Hgo.
    destruct (e_text e) as [[|c tx]|]; try reflexivity.
    rewrite Hn. reflexivity.
Qed.

Lemma replace_kids_frame : forall old new ks,
  forallb (needle_free old) ks = true -> replace_kids old new ks = Ok ks.
Proof.
  intros old new ks H. unfold replace_kids.
  assert (Hm : mapM (replace_node old new) ks = Ok (map (fun k => [k]) ks)).
  { induction ks as [|k r IH]; [reflexivity|].
    simpl in H. apply andb_true_iff in H. destruct H as [Hk Hr].
    simpl. rewrite (replace_node_frame _ _ _ Hk). simpl. rewrite (IH Hr). reflexivity. }
  rewrite Hm. simpl. f_equal.
  clear. induction ks as [|k r IH]; [reflexivity|]. simpl. f_equal. exact IH.
Qed.

(* replace_root_text does not look at the root's own text: the needle may
   occur there *)
Lemma replace_root_frame_kids : forall old new e ks,
  forallb (needle_free old) ks = true -> replace_root_text old new (AE e ks) = Ok (AE e ks).
Proof.
  intros old new e ks H. simpl. rewrite (replace_kids_frame _ _ _ H). reflexivity.
Qed.

Lemma replace_root_frame : forall old new t,
  needle_free old t = true -> replace_root_text old new t = Ok t.
Proof.
  intros old new [e ks|tl] H; [|reflexivity].
  simpl in H. apply andb_true_iff in H. destruct H as [_ H].
  apply replace_root_frame_kids; exact H.
Qed.

Lemma replace_all_frame : forall pairs t,
  (forall p, In p pairs -> needle_free (fst p) t = true) -> replace_all pairs t = Ok t.
Proof.
  unfold replace_all. induction pairs as [|p r IH]; intros t H; [reflexivity|].
  simpl. rewrite replace_root_frame by (apply H; left; reflexivity). simpl.
  apply IH. intros q Hq. apply H. right; exact Hq.
Qed.

(* ---------- the visible text of the replacement nodes ---------- *)
Definition node_text (t : anode) : str :=
  match t with
  | AE e _ => if str_eqb (e_local e) s_br then [lf] else ostr (e_text e)
  | AX _ => []
  end.

Lemma interleave_text : forall e wuri eks lines,
  str_eqb (e_local e) s_br = false ->
  concat (map node_text (interleave (br_of e wuri) (map (fun l => AE (with_text e l) eks) lines)))
  = join [lf] lines.
Proof.
  intros e wuri eks lines Hb. induction lines as [|x r IH]; [reflexivity|].
  destruct r as [|y r].
  - simpl. rewrite Hb. simpl. apply app_nil_r.
  - change (concat (map node_text
              (AE (with_text e x) eks :: br_of e wuri ::
               interleave (br_of e wuri) (map (fun l => AE (with_text e l) eks) (y :: r))))
            = x ++ [lf] ++ join [lf] (y :: r)).
    rewrite <- IH. simpl. rewrite Hb. reflexivity.
Qed.

Lemma replace_text_commutes : forall old new e eks c tx wuri nodes,
  str_eqb (e_local e) s_br = false -> e_text e = Some (c :: tx) ->
  contains old (c :: tx) = true -> e_wuri e = Some wuri ->
  only_lf (replace old new (c :: tx)) -> replace old new (c :: tx) <> [] ->
  last (replace old new (c :: tx)) 0 <> lf ->
  replace_node old new (AE e eks) = Ok nodes ->
  concat (map node_text nodes) = replace old new (c :: tx).
Proof.
  intros old new e eks c tx wuri nodes Hb Ht Hc Hw Ho Hne Hl H.
  rewrite (replace_node_hit _ _ _ _ _ _ _ Ht Hc Hw) in H. inversion H; subst nodes.
  rewrite interleave_text by exact Hb.
  apply splitlines_join; assumption.
Qed.

(* without the side conditions: the text is join "\n" (splitlines ...) *)
Lemma replace_text_general : forall old new e eks c tx wuri nodes,
  str_eqb (e_local e) s_br = false -> e_text e = Some (c :: tx) ->
  contains old (c :: tx) = true -> e_wuri e = Some wuri ->
  replace_node old new (AE e eks) = Ok nodes ->
  concat (map node_text nodes) = join [lf] (splitlines (replace old new (c :: tx))).
Proof.
  intros old new e eks c tx wuri nodes Hb Ht Hc Hw H.
  rewrite (replace_node_hit _ _ _ _ _ _ _ Ht Hc Hw) in H. inversion H; subst nodes.
  apply interleave_text; exact Hb.
Qed.

Print Assumptions save_copies_exact.
Print Assumptions save_copy_sound.
Print Assumptions save_copy_not_overwritten.
Print Assumptions save_written_exact.
Print Assumptions save_names_count.
Print Assumptions save_names.
Print Assumptions save_duplicate_refuted.
Print Assumptions splitlines_join.
Print Assumptions splitlines_join_trailing_lost.
Print Assumptions splitlines_join_trailing.
Print Assumptions splitlines_trailing_newline_lost.
Print Assumptions splitlines_empty.
Print Assumptions replace_node_hit.
Print Assumptions replace_node_frame.
Print Assumptions replace_root_frame_kids.
Print Assumptions replace_root_frame.
Print Assumptions replace_all_frame.
Print Assumptions interleave_text.
Print Assumptions replace_text_commutes.
Print Assumptions replace_text_general.
