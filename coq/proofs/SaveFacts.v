(* SaveFacts.v — C16 "saving round-trips" and C17 "search-and-replace"
   (facts about model/Save.v).

   save() writes a part ONCE when several relationships point at it
   (by_path = {x.path: x for x in content_files}): one member per distinct
   path among the rewritten Files, at the position of the first File with
   that path, holding the tree of the LAST such File.

   Proved: save_copies_exact, save_copy_sound, save_copy_not_overwritten
   (statements unchanged by the fix), save_written_exact (new statement: one
   written member per distinct rewritten path, in order of first occurrence,
   whose tree is `roots` of the last File with that path),
   save_written_paths_nodup (no hypothesis), save_names_once_count /
   save_names_once (no distinctness hypothesis on the rewritten Files),
   save_names_once_necessary (the remaining hypothesis is necessary),
   save_names_once_roots / save_names_once_save / replace_docx_names_once
   (the hypothesis is automatic when the save succeeds), save_names_count and
   save_names (old statements, still true, now corollaries),
   save_duplicate_repaired (replaces save_duplicate_refuted, which is false
   after the fix), save_shared_header_example; split_nl_join (only hypothesis:
   no carriage return), split_nl_nonempty, split_nl_empty,
   split_nl_trailing_newline_kept (replaces splitlines_trailing_newline_lost,
   the former finding D19), split_nl_cr_becomes_lf,
   replace_node_hit, replace_node_frame, replace_root_frame, interleave_text,
   replace_text_commutes (only side condition: no carriage return in the
   result), replace_root_frame_kids / replace_all_frame,
   replace_text_general.
   Fix D33 (replace_root_text skips elements that are not w:t / m:t):
   replace_node_hit, replace_text_commutes and replace_text_general have the
   additional hypothesis is_text_like e = true; new: replace_node_skips_invisible,
   replace_node_leaf_invisible, rkids_replace_kids, needle_free_visible /
   replace_node_frame_visible (the stronger frame); the needle_free frame
   lemmas are unchanged. *)
From Coq Require Import List NArith ZArith Bool Arith Lia Permutation.
From Coq Require String.
From D2P Require Import Str Err Xml TableTypes Tables Fmt Bullets Merge Collector Walk Iter
     Output Paths Package Content Save.
From D2P Require Import BulletsFacts MergeFacts.
Import ListNotations.
Open Scope N_scope.

(* ================================================================== *)
(* generic helpers                                                      *)
(* ================================================================== *)
Definition str_eq_dec : forall a b : str, {a = b} + {a <> b} := list_eq_dec N.eq_dec.

Definition is_overwritten (f : frec) : bool := mem_str (f_type f) save_overwrite_types.

Lemma mapM_In : forall A B (f : A -> res B) l ys,
  mapM f l = Ok ys -> forall y, In y ys -> exists x, In x l /\ f x = Ok y.
Proof.
  induction l as [|x r IH]; intros ys H y Hy; simpl in H.
  - inversion H; subst. destruct Hy.
  - destruct (f x) as [y0|] eqn:Hx; simpl in H; [|discriminate].
    destruct (mapM f r) as [ys0|] eqn:Hr; simpl in H; [|discriminate].
    inversion H; subst. destruct Hy as [<-|Hy].
    + exists x; split; auto. left; auto.
    + destruct (IH _ eq_refl _ Hy) as [x' [Hin Hf]]. exists x'; split; auto. right; auto.
Qed.

Lemma mapM_fwd : forall A B (f : A -> res B) l ys,
  mapM f l = Ok ys -> forall x, In x l -> exists y, f x = Ok y /\ In y ys.
Proof.
  induction l as [|x0 r IH]; intros ys H x Hx; [destruct Hx|]. simpl in H.
  destruct (f x0) as [y0|] eqn:Hx0; simpl in H; [|discriminate].
  destruct (mapM f r) as [ys0|] eqn:Hr; simpl in H; [|discriminate].
  inversion H; subst. destruct Hx as [<-|Hx].
  - exists y0. split; [exact Hx0|left; reflexivity].
  - destruct (IH _ eq_refl _ Hx) as [y [Hy Hin]]. exists y. split; [exact Hy|right; exact Hin].
Qed.

Lemma mem_str_false_not_In : forall s l, mem_str s l = false <-> ~ In s l.
Proof.
  intros s l. split.
  - intros H Hin. apply mem_str_In in Hin. congruence.
  - intros H. destruct (mem_str s l) eqn:E; auto. apply mem_str_In in E. contradiction.
Qed.

Lemma mem_str_app : forall s l1 l2, mem_str s (l1 ++ l2) = mem_str s l1 || mem_str s l2.
Proof.
  intros s l1 l2. induction l1 as [|x r IH]; cbn [app mem_str]; [reflexivity|].
  rewrite IH. apply orb_assoc.
Qed.

Lemma mem_str_ext : forall l1 l2, (forall x, In x l1 <-> In x l2) ->
  forall s, mem_str s l1 = mem_str s l2.
Proof.
  intros l1 l2 H s. destruct (mem_str s l1) eqn:E1, (mem_str s l2) eqn:E2; try reflexivity.
  - apply mem_str_In in E1. apply H in E1. apply mem_str_In in E1. congruence.
  - apply mem_str_In in E2. apply H in E2. apply mem_str_In in E2. congruence.
Qed.

(* ---------- index_members ---------- *)
Lemma index_members_complete : forall a k i n m,
  nth_error a i = Some (n, m) -> In ((k + i)%nat, n) (index_members a k).
Proof.
  induction a as [|[n0 m0] r IH]; intros k i n m H.
  - destruct i; discriminate.
  - destruct i as [|i]; simpl in *.
    + inversion H; subst. left. f_equal. lia.
    + right. replace (k + S i)%nat with (S k + i)%nat by lia. eapply IH; eauto.
Qed.

Lemma index_members_sound : forall a k j n,
  In (j, n) (index_members a k) ->
  exists i m, j = (k + i)%nat /\ nth_error a i = Some (n, m).
Proof.
  induction a as [|[n0 m0] r IH]; intros k j n H; simpl in H.
  - destruct H.
  - destruct H as [H|H].
    + inversion H; subst. exists 0%nat, m0. split; [lia|reflexivity].
    + destruct (IH _ _ _ H) as [i [m [-> Hn]]]. exists (S i), m. split; [lia|exact Hn].
Qed.

Lemma index_members_names : forall a k, map snd (index_members a k) = map fst a.
Proof.
  induction a as [|[n m] r IH]; intros k; simpl; [reflexivity|]. f_equal. apply IH.
Qed.

(* ================================================================== *)
(* by_path = {x.path: x for x in content_files}                         *)
(* ================================================================== *)
Definition by_path (content : list frec) : list (str * frec) :=
  fold_left (fun d f => dict_set (f_path f) f d) content [].

(* the LAST File of the list with that path (cf. zread) *)
Fixpoint last_with_path (p : str) (l : list frec) : option frec :=
  match l with
  | [] => None
  | x :: r =>
      match last_with_path p r with
      | Some f => Some f
      | None => if str_eqb (f_path x) p then Some x else None
      end
  end.

Lemma last_with_path_Some : forall p l f,
  last_with_path p l = Some f -> In f l /\ f_path f = p.
Proof.
  induction l as [|x r IH]; intros f H; cbn [last_with_path] in H; [discriminate|].
  destruct (last_with_path p r) as [g|] eqn:Hr.
  - inversion H; subst g. destruct (IH _ eq_refl) as [Hin Hp]. split; [right; exact Hin|exact Hp].
  - destruct (str_eqb (f_path x) p) eqn:E; [|discriminate]. inversion H; subst x.
    split; [left; reflexivity|]. apply str_eqb_eq. exact E.
Qed.

Lemma last_with_path_None : forall p l,
  last_with_path p l = None -> forall g, In g l -> f_path g <> p.
Proof.
  induction l as [|x r IH]; intros H g Hg; [destruct Hg|]. cbn [last_with_path] in H.
  destruct (last_with_path p r) as [g'|] eqn:Hr; [discriminate|].
  destruct (str_eqb (f_path x) p) eqn:E; [discriminate|].
  destruct Hg as [<-|Hg]; [apply str_eqb_neq; exact E|apply IH; auto].
Qed.

(* it really is the last one: no File after it has that path *)
Lemma last_with_path_spec : forall p l f,
  last_with_path p l = Some f ->
  exists l1 l2, l = l1 ++ f :: l2 /\ f_path f = p /\ forall g, In g l2 -> f_path g <> p.
Proof.
  induction l as [|x r IH]; intros f H; cbn [last_with_path] in H; [discriminate|].
  destruct (last_with_path p r) as [g|] eqn:Hr.
  - inversion H; subst g. destruct (IH _ eq_refl) as [l1 [l2 [-> [Hp Hl2]]]].
    exists (x :: l1), l2. split; [reflexivity|]. split; assumption.
  - destruct (str_eqb (f_path x) p) eqn:E; [|discriminate]. inversion H; subst x.
    exists [], r. split; [reflexivity|]. split; [apply str_eqb_eq; exact E|].
    apply last_with_path_None. exact Hr.
Qed.

Lemma last_with_path_In : forall l f, In f l -> exists f', last_with_path (f_path f) l = Some f'.
Proof.
  induction l as [|x r IH]; intros f Hf; [destruct Hf|]. cbn [last_with_path].
  destruct (last_with_path (f_path f) r) as [g|] eqn:Hr; [exists g; reflexivity|].
  destruct Hf as [->|Hf].
  - rewrite str_eqb_refl. exists f; reflexivity.
  - destruct (IH _ Hf) as [f' Hf']. congruence.
Qed.

(* ---------- the keys: distinct paths in order of first occurrence ---------- *)
Lemma dict_set_fst : forall {V} k (v : V) d,
  map fst (dict_set k v d) = if mem_str k (map fst d) then map fst d else map fst d ++ [k].
Proof.
  intros V k v. induction d as [|[k' v'] r IH]; cbn [dict_set map fst mem_str app]; [reflexivity|].
  destruct (str_eqb k k') eqn:E; cbn [map fst orb].
  - apply str_eqb_eq in E. subst k'. reflexivity.
  - rewrite IH. destruct (mem_str k (map fst r)); reflexivity.
Qed.

Lemma dedup_names_ext : forall l s1 s2, (forall x, mem_str x s1 = mem_str x s2) ->
  dedup_names l s1 = dedup_names l s2.
Proof.
  induction l as [|y r IH]; intros s1 s2 H; cbn [dedup_names]; [reflexivity|].
  rewrite (H y). destruct (mem_str y s2).
  - apply IH. exact H.
  - f_equal. apply IH. intros x. cbn [mem_str]. rewrite (H x). reflexivity.
Qed.

Lemma dedup_names_In : forall l seen x,
  In x (dedup_names l seen) <-> In x l /\ mem_str x seen = false.
Proof.
  induction l as [|y r IH]; intros seen x; cbn [dedup_names].
  - split; [intros []|intros [[] _]].
  - destruct (mem_str y seen) eqn:E.
    + rewrite IH. split.
      * intros [Hin Hm]. split; [right; exact Hin|exact Hm].
      * intros [[->|Hin] Hm]; [congruence|]. split; assumption.
    + cbn [In]. rewrite IH. cbn [mem_str]. split.
      * intros [->|[Hin Hm]]; [split; [left; reflexivity|exact E]|].
        apply orb_false_elim in Hm. destruct Hm as [_ Hm]. split; [right; exact Hin|exact Hm].
      * intros [[->|Hin] Hm]; [left; reflexivity|].
        destruct (str_eq_dec y x) as [->|Hne]; [left; reflexivity|]. right.
        split; [exact Hin|]. rewrite Hm, orb_false_r. apply str_eqb_neq. congruence.
Qed.

Lemma dedup_names_NoDup : forall l seen, NoDup (dedup_names l seen).
Proof.
  induction l as [|y r IH]; intros seen; cbn [dedup_names]; [constructor|].
  destruct (mem_str y seen) eqn:E; [apply IH|]. constructor; [|apply IH].
  intros Hin. apply dedup_names_In in Hin. destruct Hin as [_ Hm].
  cbn [mem_str] in Hm. rewrite str_eqb_refl in Hm. discriminate.
Qed.

Lemma dedup_names_nil_In : forall l x, In x (dedup_names l []) <-> In x l.
Proof.
  intros l x. rewrite dedup_names_In. cbn [mem_str]. split; [intros [H _]; exact H|auto].
Qed.

Lemma by_path_keys_gen : forall l (d : list (str * frec)),
  map fst (fold_left (fun d f => dict_set (f_path f) f d) l d)
  = map fst d ++ dedup_names (map f_path l) (map fst d).
Proof.
  induction l as [|x r IH]; intros d; cbn [fold_left map dedup_names].
  - rewrite app_nil_r. reflexivity.
  - rewrite IH, dict_set_fst. destruct (mem_str (f_path x) (map fst d)) eqn:E; [reflexivity|].
    rewrite <- app_assoc. cbn [app]. f_equal. f_equal. apply dedup_names_ext. intros y.
    rewrite mem_str_app. cbn [mem_str]. rewrite orb_false_r. apply orb_comm.
Qed.

Lemma by_path_keys : forall l, map fst (by_path l) = dedup_names (map f_path l) [].
Proof. intros l. unfold by_path. rewrite by_path_keys_gen. reflexivity. Qed.

Lemma by_path_NoDup : forall l, NoDup (map fst (by_path l)).
Proof. intros l. rewrite by_path_keys. apply dedup_names_NoDup. Qed.

Lemma by_path_keys_In : forall l p, In p (map fst (by_path l)) <-> In p (map f_path l).
Proof. intros l p. rewrite by_path_keys. apply dedup_names_nil_In. Qed.

Lemma by_path_mem : forall l p, mem_str p (map fst (by_path l)) = mem_str p (map f_path l).
Proof. intros l p. apply mem_str_ext. intros x. apply by_path_keys_In. Qed.

(* ---------- the values: the last File with that path ---------- *)
Lemma by_path_get_gen : forall l (d : list (str * frec)) p,
  dict_get p (fold_left (fun d f => dict_set (f_path f) f d) l d)
  = match last_with_path p l with Some f => Some f | None => dict_get p d end.
Proof.
  induction l as [|x r IH]; intros d p; cbn [fold_left last_with_path]; [reflexivity|].
  rewrite IH. destruct (last_with_path p r) as [g|]; [reflexivity|].
  rewrite dict_get_set, (str_eqb_sym p (f_path x)).
  destruct (str_eqb (f_path x) p); reflexivity.
Qed.

Lemma by_path_get : forall l p, dict_get p (by_path l) = last_with_path p l.
Proof.
  intros l p. unfold by_path. rewrite by_path_get_gen.
  destruct (last_with_path p l); reflexivity.
Qed.

Lemma in_nodup_dict_get : forall {V} (d : list (str * V)) k v,
  NoDup (map fst d) -> In (k, v) d -> dict_get k d = Some v.
Proof.
  intros V. induction d as [|[k0 v0] r IH]; intros k v Hnd Hin; [destruct Hin|].
  cbn [map fst] in Hnd. inversion Hnd as [|? ? Hnot Hnd']; subst. cbn [dict_get].
  destruct Hin as [E|Hin].
  - inversion E; subst. rewrite str_eqb_refl. reflexivity.
  - destruct (str_eqb k k0) eqn:E; [|apply IH; assumption].
    apply str_eqb_eq in E. subst k0. exfalso. apply Hnot.
    apply in_map_iff. exists (k, v). split; [reflexivity|exact Hin].
Qed.

Lemma dict_get_In : forall {V} (d : list (str * V)) k v, dict_get k d = Some v -> In (k, v) d.
Proof.
  intros V. induction d as [|[k0 v0] r IH]; intros k v H; cbn [dict_get] in H; [discriminate|].
  destruct (str_eqb k k0) eqn:E.
  - apply str_eqb_eq in E. subst k0. inversion H; subst. left; reflexivity.
  - right. apply IH. exact H.
Qed.

Lemma by_path_In : forall l p f, In (p, f) (by_path l) <-> last_with_path p l = Some f.
Proof.
  intros l p f. rewrite <- by_path_get. split.
  - apply in_nodup_dict_get. apply by_path_NoDup.
  - apply dict_get_In.
Qed.

(* ---------- the shape of the result ---------- *)
Definition wxml_of (roots : frec -> res anode) (pf : str * frec) : res (str * wmember) :=
  t <- roots (snd pf) ;; Ok (fst pf, WXml t).

Lemma save_with_shape : forall a fs roots out,
  save_with a fs roots = Ok out ->
  exists written,
    mapM (wxml_of roots) (by_path (filter is_overwritten fs)) = Ok written
    /\ out = map (fun ix => (snd ix, WCopy (fst ix)))
               (filter (fun ix => negb (mem_str (snd ix) (map f_path (filter is_overwritten fs))))
                       (index_members a 0%nat))
             ++ written.
Proof.
  intros a fs roots out H. unfold save_with in H. fold is_overwritten in H.
  fold (by_path (filter is_overwritten fs)) in H. fold (wxml_of roots) in H.
  destruct (mapM (wxml_of roots) (by_path (filter is_overwritten fs)))
    as [written|] eqn:Hw; simpl in H; [|discriminate].
  inversion H; subst. exists written. split; [reflexivity|]. f_equal. f_equal.
  apply filter_ext. intros ix. rewrite by_path_mem. reflexivity.
Qed.

Lemma written_names : forall (roots : frec -> res anode) d ys,
  mapM (wxml_of roots) d = Ok ys -> map fst ys = map fst d.
Proof.
  induction d as [|x r IH]; intros ys H; simpl in H.
  - inversion H; reflexivity.
  - unfold wxml_of at 1 in H. destruct (roots (snd x)) as [t|]; simpl in H; [|discriminate].
    destruct (mapM (wxml_of roots) r) as [ys0|] eqn:Hr; simpl in H; [|discriminate].
    inversion H; subst. simpl. f_equal. apply IH; auto.
Qed.

Lemma written_Forall2 : forall (roots : frec -> res anode) content d ys,
  (forall p f, In (p, f) d -> last_with_path p content = Some f) ->
  mapM (wxml_of roots) d = Ok ys ->
  Forall2 (fun p nm => exists f t, last_with_path p content = Some f /\ roots f = Ok t
                                   /\ nm = (p, WXml t)) (map fst d) ys.
Proof.
  induction d as [|[p f] r IH]; intros ys Hd H; simpl in H.
  - inversion H; constructor.
  - unfold wxml_of at 1 in H. cbn [fst snd] in H.
    destruct (roots f) as [t|] eqn:Ht; simpl in H; [|discriminate].
    destruct (mapM (wxml_of roots) r) as [ys0|] eqn:Hr; simpl in H; [|discriminate].
    inversion H; subst. cbn [map fst]. constructor.
    + exists f, t. split; [apply Hd; left; reflexivity|]. split; [exact Ht|reflexivity].
    + apply IH; [|reflexivity]. intros p' f' Hin. apply Hd. right. exact Hin.
Qed.

(* ================================================================== *)
(* S1. what is copied                                                   *)
(* ================================================================== *)
Lemma save_copies_exact : forall a fs roots out, save_with a fs roots = Ok out ->
  forall i n m, nth_error a i = Some (n, m) ->
    mem_str n (map f_path (filter (fun f => mem_str (f_type f) save_overwrite_types) fs)) = false ->
    In (n, WCopy i) out.
Proof.
  intros a fs roots out H i n m Hn Hex.
  destruct (save_with_shape _ _ _ _ H) as [written [_ ->]].
  apply in_or_app. left.
  apply in_map_iff. exists (i, n). split; [reflexivity|].
  apply filter_In. split.
  - exact (index_members_complete a 0 i n m Hn).
  - simpl. unfold is_overwritten. rewrite Hex. reflexivity.
Qed.

Lemma save_copy_sound : forall a fs roots out n i,
  save_with a fs roots = Ok out -> In (n, WCopy i) out ->
  exists m, nth_error a i = Some (n, m).
Proof.
  intros a fs roots out n i H Hin.
  destruct (save_with_shape _ _ _ _ H) as [written [Hw ->]].
  apply in_app_or in Hin. destruct Hin as [Hin|Hin].
  - apply in_map_iff in Hin. destruct Hin as [[j n'] [E Hf]]. simpl in E. inversion E; subst.
    apply filter_In in Hf. destruct Hf as [Hf _].
    destruct (index_members_sound _ _ _ _ Hf) as [i' [m [-> Hn]]]. exists m. exact Hn.
  - destruct (mapM_In _ _ _ _ _ Hw _ Hin) as [f [_ Hf]]. unfold wxml_of in Hf.
    destruct (roots (snd f)); simpl in Hf; inversion Hf.
Qed.

(* a copied member is one that is not overwritten *)
Lemma save_copy_not_overwritten : forall a fs roots out n i,
  save_with a fs roots = Ok out -> In (n, WCopy i) out ->
  mem_str n (map f_path (filter (fun f => mem_str (f_type f) save_overwrite_types) fs)) = false.
Proof.
  intros a fs roots out n i H Hin.
  destruct (save_with_shape _ _ _ _ H) as [written [Hw ->]].
  apply in_app_or in Hin. destruct Hin as [Hin|Hin].
  - apply in_map_iff in Hin. destruct Hin as [[j n'] [E Hf]]. simpl in E. inversion E; subst.
    apply filter_In in Hf. destruct Hf as [_ Hf]. simpl in Hf.
    apply negb_true_iff in Hf. exact Hf.
  - destruct (mapM_In _ _ _ _ _ Hw _ Hin) as [f [_ Hf]]. unfold wxml_of in Hf.
    destruct (roots (snd f)); simpl in Hf; inversion Hf.
Qed.

(* ================================================================== *)
(* S2. what is written                                                  *)
(* ================================================================== *)
(* one written member per DISTINCT path among the rewritten Files, in order of
   first occurrence (dedup_names _ [] keeps first occurrences), whose tree is
   `roots` of the LAST File with that path *)
Lemma save_written_exact : forall a fs roots out, save_with a fs roots = Ok out ->
  let content := filter (fun f => mem_str (f_type f) save_overwrite_types) fs in
  exists copied written, out = copied ++ written
    /\ Forall (fun nm => exists i, snd nm = WCopy i) copied
    /\ Forall2 (fun p nm => exists f t, last_with_path p content = Some f /\ roots f = Ok t
                                        /\ nm = (p, WXml t))
               (dedup_names (map f_path content) []) written.
Proof.
  intros a fs roots out H content.
  destruct (save_with_shape _ _ _ _ H) as [written [Hw ->]].
  eexists; exists written. split; [reflexivity|]. split.
  - apply Forall_forall. intros x Hx. apply in_map_iff in Hx.
    destruct Hx as [[j n] [<- _]]. exists j. reflexivity.
  - fold is_overwritten in content. fold content in Hw. rewrite <- by_path_keys.
    apply written_Forall2; [|exact Hw]. intros p f Hin. apply by_path_In. exact Hin.
Qed.

(* the two directions, in the form the later files use *)
Lemma save_written_fwd : forall a fs roots out, save_with a fs roots = Ok out ->
  forall f, In f fs -> mem_str (f_type f) save_overwrite_types = true ->
  exists f' t,
    last_with_path (f_path f) (filter (fun f => mem_str (f_type f) save_overwrite_types) fs) = Some f'
    /\ roots f' = Ok t /\ In (f_path f, WXml t) out.
Proof.
  intros a fs roots out H f Hf Hty.
  destruct (save_with_shape _ _ _ _ H) as [written [Hw ->]].
  assert (Hin : In f (filter is_overwritten fs)) by (apply filter_In; split; assumption).
  destruct (last_with_path_In _ _ Hin) as [f' Hf'].
  pose proof (proj2 (by_path_In _ _ _) Hf') as Hb.
  destruct (mapM_fwd _ _ _ _ _ Hw _ Hb) as [y [Hy Hyin]].
  unfold wxml_of in Hy. cbn [fst snd] in Hy.
  destruct (roots f') as [t|] eqn:Ht; simpl in Hy; [|discriminate]. inversion Hy; subst y.
  exists f', t. split; [exact Hf'|]. split; [exact Ht|]. apply in_or_app. right. exact Hyin.
Qed.

Lemma save_written_bwd : forall a fs roots out n t, save_with a fs roots = Ok out ->
  In (n, WXml t) out ->
  exists f,
    last_with_path n (filter (fun f => mem_str (f_type f) save_overwrite_types) fs) = Some f
    /\ roots f = Ok t.
Proof.
  intros a fs roots out n t H Hin.
  destruct (save_with_shape _ _ _ _ H) as [written [Hw ->]].
  apply in_app_or in Hin. destruct Hin as [Hin|Hin].
  - apply in_map_iff in Hin. destruct Hin as [[j n'] [E _]]. discriminate E.
  - destruct (mapM_In _ _ _ _ _ Hw _ Hin) as [[p f] [Hpf Hy]].
    unfold wxml_of in Hy. cbn [fst snd] in Hy.
    destruct (roots f) as [t'|] eqn:Ht; simpl in Hy; [|discriminate]. inversion Hy; subst.
    exists f. split; [|exact Ht]. apply by_path_In. exact Hpf.
Qed.

(* ================================================================== *)
(* S3. names                                                            *)
(* ================================================================== *)
Definition is_written_xml (nm : str * wmember) : bool :=
  match snd nm with WXml _ => true | WCopy _ => false end.

Lemma filter_copied_nil : forall (l : list (nat * str)),
  filter is_written_xml (map (fun ix => (snd ix, WCopy (fst ix))) l) = [].
Proof. induction l as [|x r IH]; [reflexivity|]. simpl. exact IH. Qed.

Lemma filter_written_all : forall (roots : frec -> res anode) d ys,
  mapM (wxml_of roots) d = Ok ys -> filter is_written_xml ys = ys.
Proof.
  induction d as [|x r IH]; intros ys H; simpl in H.
  - inversion H; reflexivity.
  - unfold wxml_of at 1 in H. destruct (roots (snd x)) as [t|]; simpl in H; [|discriminate].
    destruct (mapM (wxml_of roots) r) as [ys0|] eqn:Hr; simpl in H; [|discriminate].
    inversion H; subst. simpl. f_equal. apply IH; auto.
Qed.

(* EVERY archive, every file list: no path is written twice *)
Theorem save_written_paths_nodup : forall a fs roots out, save_with a fs roots = Ok out ->
  NoDup (map fst (filter is_written_xml out)).
Proof.
  intros a fs roots out H.
  destruct (save_with_shape _ _ _ _ H) as [written [Hw ->]].
  rewrite filter_app, filter_copied_nil, (filter_written_all _ _ _ Hw). cbn [app].
  rewrite (written_names _ _ _ Hw). apply by_path_NoDup.
Qed.

Lemma count_occ_filter : forall (f : str -> bool) l x,
  count_occ str_eq_dec (filter f l) x = if f x then count_occ str_eq_dec l x else 0%nat.
Proof.
  induction l as [|y r IH]; intros x; simpl.
  - destruct (f x); reflexivity.
  - destruct (f y) eqn:Hy; simpl.
    + destruct (str_eq_dec y x) as [->|Hne].
      * rewrite IH, Hy. reflexivity.
      * apply IH.
    + rewrite IH. destruct (str_eq_dec y x) as [->|Hne]; [rewrite Hy|]; reflexivity.
Qed.

Lemma copied_names : forall excl a k,
  map fst (map (fun ix : nat * str => (snd ix, WCopy (fst ix)))
               (filter (fun ix => negb (mem_str (snd ix) excl)) (index_members a k)))
  = filter (fun n => negb (mem_str n excl)) (map fst a).
Proof.
  intros excl; induction a as [|[n m] r IH]; intros k; simpl; [reflexivity|].
  destruct (negb (mem_str n excl)); simpl; [f_equal|]; apply IH.
Qed.

(* count formulation, WITHOUT the hypothesis that the rewritten Files have
   pairwise distinct paths *)
Theorem save_names_once_count : forall a fs roots out, save_with a fs roots = Ok out ->
  let content := filter (fun f => mem_str (f_type f) save_overwrite_types) fs in
  (forall p, In p (map f_path content) -> count_occ str_eq_dec (map fst a) p = 1%nat) ->
  Permutation (map fst out) (map fst a).
Proof.
  intros a fs roots out H content Hone.
  destruct (save_with_shape _ _ _ _ H) as [written [Hw ->]].
  fold is_overwritten in content. fold content. fold content in Hw.
  apply (Permutation_count_occ str_eq_dec). intros x.
  rewrite map_app, count_occ_app, copied_names, (written_names _ _ _ Hw), count_occ_filter.
  destruct (mem_str x (map f_path content)) eqn:Hx; simpl.
  - apply mem_str_In in Hx. rewrite (Hone x Hx).
    apply (proj1 (NoDup_count_occ' str_eq_dec _) (by_path_NoDup content) x).
    apply by_path_keys_In. exact Hx.
  - apply mem_str_false_not_In in Hx.
    assert (Hx' : ~ In x (map fst (by_path content))).
    { intros Hin. apply Hx. apply by_path_keys_In. exact Hin. }
    rewrite (proj1 (count_occ_not_In str_eq_dec _ x) Hx'). lia.
Qed.

(* the input's member names, each once *)
Theorem save_names_once : forall a fs roots out, save_with a fs roots = Ok out ->
  let content := filter (fun f => mem_str (f_type f) save_overwrite_types) fs in
  NoDup (map fst a) ->
  (forall p, In p (map f_path content) -> In p (map fst a)) ->
  Permutation (map fst out) (map fst a) /\ NoDup (map fst out).
Proof.
  intros a fs roots out H content Hnd Hin.
  assert (Hp : Permutation (map fst out) (map fst a)).
  { apply (save_names_once_count a fs roots out H). intros p Hp.
    apply (proj1 (NoDup_count_occ' str_eq_dec _) Hnd p). apply Hin. exact Hp. }
  split; [exact Hp|]. apply (Permutation_NoDup (Permutation_sym Hp)). exact Hnd.
Qed.

(* the hypothesis "every rewritten path is a member name" cannot be dropped *)
Theorem save_names_once_necessary : forall a fs roots out, save_with a fs roots = Ok out ->
  let content := filter (fun f => mem_str (f_type f) save_overwrite_types) fs in
  Permutation (map fst out) (map fst a) ->
  forall p, In p (map f_path content) -> In p (map fst a).
Proof.
  intros a fs roots out H content Hp p Hin.
  destruct (save_with_shape _ _ _ _ H) as [written [Hw ->]].
  fold is_overwritten in content. fold content in Hw.
  apply (Permutation_in _ Hp). rewrite map_app. apply in_or_app. right.
  rewrite (written_names _ _ _ Hw). apply by_path_keys_In. exact Hin.
Qed.

(* ... and it is automatic whenever `roots` can only succeed on members of the
   archive: a missing target makes the save fail (KeyError) *)
Theorem save_names_once_roots : forall a fs roots out,
  (forall f t, roots f = Ok t -> In (f_path f) (map fst a)) ->
  save_with a fs roots = Ok out -> NoDup (map fst a) ->
  Permutation (map fst out) (map fst a) /\ NoDup (map fst out).
Proof.
  intros a fs roots out Hroots H Hnd.
  apply (save_names_once a fs roots out H Hnd).
  intros p Hp. apply in_map_iff in Hp. destruct Hp as [f [<- Hf]].
  apply filter_In in Hf. destruct Hf as [Hf Hty].
  destruct (save_written_fwd _ _ _ _ H f Hf Hty) as [f' [t [Hl [Ht _]]]].
  apply last_with_path_Some in Hl. destruct Hl as [_ <-]. exact (Hroots _ _ Ht).
Qed.

Lemma zread_In : forall a n m, zread a n = Some m -> In n (map fst a).
Proof.
  induction a as [|[n0 m0] r IH]; intros n m H; cbn [zread] in H; [discriminate|].
  cbn [map fst]. destruct (zread r n) as [m'|] eqn:Hr.
  - right. exact (IH _ _ Hr).
  - destruct (str_eqb n0 n) eqn:E; [|discriminate]. left. apply str_eqb_eq. exact E.
Qed.

Lemma part_root_member : forall a fs o f t, part_root a fs o f = Ok t -> In (f_path f) (map fst a).
Proof.
  intros a fs o f t H. unfold part_root, member_xml in H.
  destruct (zread a (f_path f)) as [m|] eqn:Hz; [|discriminate]. exact (zread_In _ _ _ Hz).
Qed.

(* DocxReader.save on an archive whose member names are pairwise distinct:
   exactly the input's member names, each once — no further hypothesis *)
Theorem save_names_once_save : forall a o out,
  save a o = Ok out -> NoDup (map fst a) ->
  Permutation (map fst out) (map fst a) /\ NoDup (map fst out).
Proof.
  intros a o out H Hnd. unfold save in H.
  destruct (files a) as [fs|] eqn:Hfs; simpl in H; [|discriminate].
  apply (save_names_once_roots a fs (part_root a fs o) out); auto.
  intros f t. apply part_root_member.
Qed.

Theorem replace_docx_names_once : forall a o pairs out,
  replace_docx a o pairs = Ok out -> NoDup (map fst a) ->
  Permutation (map fst out) (map fst a) /\ NoDup (map fst out).
Proof.
  intros a o pairs out H Hnd. unfold replace_docx in H.
  destruct (files a) as [fs|] eqn:Hfs; simpl in H; [|discriminate].
  refine (save_names_once_roots a fs _ out _ H Hnd).
  intros f t Ht. destruct (part_root a fs o f) as [t0|] eqn:Hp; simpl in Ht; [|discriminate].
  exact (part_root_member _ _ _ _ _ Hp).
Qed.

(* the statements from before the fix are still true (their first hypothesis
   is no longer needed) *)
Lemma save_names_count : forall a fs roots out, save_with a fs roots = Ok out ->
  let content := filter (fun f => mem_str (f_type f) save_overwrite_types) fs in
  NoDup (map f_path content) ->
  (forall p, In p (map f_path content) -> count_occ str_eq_dec (map fst a) p = 1%nat) ->
  Permutation (map fst out) (map fst a).
Proof.
  intros a fs roots out H content _ Hone. exact (save_names_once_count a fs roots out H Hone).
Qed.

Lemma unique_index_count : forall (l : list str) p,
  (exists! i, nth_error l i = Some p) -> count_occ str_eq_dec l p = 1%nat.
Proof.
  induction l as [|x r IH]; intros p [i [Hi Hu]].
  - destruct i; discriminate.
  - simpl. destruct (str_eq_dec x p) as [->|Hne].
    + f_equal. apply count_occ_not_In. intros Hin.
      apply In_nth_error in Hin. destruct Hin as [j Hj].
      assert (E1 : i = 0%nat) by (apply Hu; reflexivity).
      assert (E2 : i = S j) by (apply Hu; exact Hj).
      congruence.
    + destruct i as [|i]; simpl in Hi; [inversion Hi; congruence|].
      apply IH. exists i. split; auto.
      intros j Hj. specialize (Hu (S j) Hj). congruence.
Qed.

Lemma nth_error_map_fst : forall (a : archive) i p,
  nth_error (map fst a) i = Some p <-> exists m, nth_error a i = Some (p, m).
Proof.
  induction a as [|[n m] r IH]; intros i p.
  - destruct i; simpl; split; try discriminate; intros [? ?]; discriminate.
  - destruct i as [|i]; simpl.
    + split.
      * intros E; inversion E; subst. exists m; reflexivity.
      * intros [m' E]; inversion E; reflexivity.
    + apply IH.
Qed.

Lemma save_names : forall a fs roots out, save_with a fs roots = Ok out ->
  let content := filter (fun f => mem_str (f_type f) save_overwrite_types) fs in
  NoDup (map f_path content) ->
  (forall p, In p (map f_path content) -> exists! i, exists m, nth_error a i = Some (p, m)) ->
  Permutation (map fst out) (map fst a).
Proof.
  intros a fs roots out H content Hnd Hone.
  apply (save_names_count a fs roots out H); auto.
  intros p Hp. apply unique_index_count.
  destruct (Hone p Hp) as [i [Hi Hu]]. exists i. split.
  - apply nth_error_map_fst; exact Hi.
  - intros j Hj. apply Hu. apply nth_error_map_fst; exact Hj.
Qed.

(* ---------- two relationships pointing at one content part ---------- *)
(* a checker for Permutation on concrete lists *)
Definition perm_check (l1 l2 : list str) : bool :=
  forallb (fun x => Nat.eqb (count_occ str_eq_dec l1 x) (count_occ str_eq_dec l2 x)) (l1 ++ l2).

Lemma perm_check_sound : forall l1 l2, perm_check l1 l2 = true -> Permutation l1 l2.
Proof.
  intros l1 l2 H. apply (Permutation_count_occ str_eq_dec). intros x.
  destruct (in_dec str_eq_dec x (l1 ++ l2)) as [Hin|Hnot].
  - unfold perm_check in H. rewrite forallb_forall in H. apply Nat.eqb_eq. exact (H x Hin).
  - rewrite (proj1 (count_occ_not_In str_eq_dec l1 x)), (proj1 (count_occ_not_In str_eq_dec l2 x)).
    + reflexivity.
    + intros Hin. apply Hnot. apply in_or_app. right. exact Hin.
    + intros Hin. apply Hnot. apply in_or_app. left. exact Hin.
Qed.

Section Dup.
  Import String.StringSyntax.
  Local Open Scope string_scope.
  Definition dup_path : str := s2l "d.xml".
  Definition dup_archive : archive := [(dup_path, MRaw 0)].
  Definition dup_frec (id : String.string) : frec :=
    {| f_id := s2l id; f_type := s2l "officeDocument"; f_target := s2l "d.xml"; f_dir := s2l "" |}.
  Definition dup_files : list frec := [dup_frec "rId1"; dup_frec "rId2"].
  (* the tree tells which File it was computed from *)
  Definition dup_roots (f : frec) : res anode := Ok (AX (Some (f_id f))).
  (* before the fix: [("d.xml", <rId1>); ("d.xml", <rId2>)] *)
  Definition dup_out : list (str * wmember) := [(s2l "d.xml", WXml (AX (Some (s2l "rId2"))))].

  (* the archive of the Example: word/header1.xml is the target of two
     relationships of word/document.xml *)
  Definition sh_W : str := s2l "W".
  Definition sh_wel (l : String.string) (text : option String.string) (kids : list rnode) : rnode :=
    RE (Some s_w) (Some sh_W) (s2l l) [(Some s_w, sh_W)] [] (option_map s2l text) None kids.
  Definition sh_rel (id ty tg : String.string) : rnode :=
    RE None None (s2l "Relationship") []
       [((None, s_Id), s2l id); ((None, s_Type), s2l ty); ((None, s_Target), s2l tg)]
       None None [].
  Definition sh_rels (ks : list rnode) : rnode :=
    RE None (Some (s2l "t/relationships")) (s2l "Relationships") [] [] None None ks.
  Definition sh_par (t : String.string) : rnode :=
    sh_wel "p" None [sh_wel "r" None [sh_wel "t" (Some t) []]].
  Definition sh_archive : archive :=
    [(s2l "[Content_Types].xml", MRaw 1);
     (s2l "_rels/.rels", MXml (sh_rels [sh_rel "rId1" "t/officeDocument" "word/document.xml"]));
     (s2l "word/_rels/document.xml.rels",
        MXml (sh_rels [sh_rel "rId7" "t/header" "header1.xml";
                       sh_rel "rId8" "t/header" "header1.xml";
                       sh_rel "rId9" "t/image" "media/image1.png"]));
     (s2l "word/document.xml", MXml (sh_wel "document" None [sh_wel "body" None [sh_par "body"]]));
     (s2l "word/header1.xml", MXml (sh_wel "hdr" None [sh_par "head"]));
     (s2l "word/media/image1.png", MRaw 2)].
  Definition sh_opts : opts := {| o_html := false; o_dup := true |}.
  Definition sh_header : str := s2l "word/header1.xml".
End Dup.

(* replaces save_duplicate_refuted (before the fix the member was written once
   per relationship): the path is written exactly once, with the LAST File's tree *)
Lemma save_duplicate_repaired :
  map f_path (filter is_overwritten dup_files) = [dup_path; dup_path]
  /\ save_with dup_archive dup_files dup_roots = Ok dup_out
  /\ count_occ str_eq_dec (map fst dup_out) (dup_path) = 1%nat
  /\ NoDup (map fst dup_out) /\ NoDup (map fst dup_archive).
Proof.
  split; [vm_compute; reflexivity|]. split; [vm_compute; reflexivity|].
  split; [vm_compute; reflexivity|]. split.
  - vm_compute. constructor; [intros []|constructor].
  - vm_compute. constructor; [intros []|constructor].
Qed.

Example save_shared_header_example :
  exists fs out,
    files sh_archive = Ok fs
    /\ count_occ str_eq_dec (map f_path (filter is_overwritten fs)) sh_header = 2%nat
    /\ save sh_archive sh_opts = Ok out
    /\ Permutation (map fst out) (map fst sh_archive)
    /\ count_occ str_eq_dec (map fst out) sh_header = 1%nat.
Proof.
  do 2 eexists.
  split; [vm_compute; reflexivity|]. split; [vm_compute; reflexivity|].
  split; [vm_compute; reflexivity|]. split.
  - apply perm_check_sound. vm_compute. reflexivity.
  - vm_compute. reflexivity.
Qed.

(* ================================================================== *)
(* S4. search and replace on one text node                              *)
(* ================================================================== *)
Definition lf : N := 10.
Definition no_cr (s : str) : Prop := ~ In 13 s.

Lemma no_cr_tail : forall c s, no_cr (c :: s) -> no_cr s.
Proof. intros c s H Hi. apply H. right; exact Hi. Qed.

Lemma join_cons_nonempty : forall sep x (l : list str),
  l <> [] -> join sep (x :: l) = x ++ sep ++ join sep l.
Proof. intros sep x [|y r] H; [congruence|reflexivity]. Qed.

(* re.split never returns the empty list *)
Lemma split_nl_go_nonempty : forall s acc b, split_nl_go s acc b <> [].
Proof.
  induction s as [|c s IH]; intros acc b; simpl; [discriminate|].
  destruct (b && N.eqb c 10); [apply IH|].
  destruct (N.eqb c 10 || N.eqb c 13); [discriminate|apply IH].
Qed.

Lemma split_nl_nonempty : forall s, split_nl s <> [].
Proof. intro s. apply split_nl_go_nonempty. Qed.

Lemma split_nl_empty : split_nl [] = [[]].
Proof. reflexivity. Qed.

Lemma split_nl_go_join : forall s acc,
  no_cr s -> join [lf] (split_nl_go s acc false) = rev acc ++ s.
Proof.
  induction s as [|c s IH]; intros acc Hn.
  - simpl. rewrite app_nil_r. reflexivity.
  - cbn [split_nl_go andb]. destruct (N.eqb c 10) eqn:E10.
    + apply N.eqb_eq in E10. subst c. cbn [orb].
      change (N.eqb 10 13) with false.
      rewrite join_cons_nonempty by apply split_nl_go_nonempty.
      rewrite (IH [] (no_cr_tail _ _ Hn)). reflexivity.
    + destruct (N.eqb c 13) eqn:E13.
      * apply N.eqb_eq in E13. subst c. exfalso. apply Hn. left; reflexivity.
      * cbn [orb]. rewrite (IH (c :: acc) (no_cr_tail _ _ Hn)).
        cbn [rev]. rewrite <- app_assoc. reflexivity.
Qed.

(* splitting at line breaks and joining with "\n" is the identity on every
   text without a carriage return: the empty text and trailing newlines
   included (formerly finding D19: str.splitlines lost a trailing newline) *)
Lemma split_nl_join : forall s, no_cr s -> join [lf] (split_nl s) = s.
Proof. intros s Hn. unfold split_nl. rewrite split_nl_go_join by exact Hn. reflexivity. Qed.

Lemma split_nl_trailing_newline_kept : join [lf] (split_nl [120; 10]) = [120; 10].
Proof. vm_compute. reflexivity. Qed.

(* "a\r\nb\rc": \r\n and \r are one line break each *)
Lemma split_nl_cr_becomes_lf :
  join [lf] (split_nl [97; 13; 10; 98; 13; 99]) = [97; 10; 98; 10; 99].
Proof. vm_compute. reflexivity. Qed.

(* ---------- replace_node ---------- *)
Definition rkids (old new : str) : list anode -> res (list anode) :=
  fix go (l : list anode) : res (list anode) :=
    match l with
    | [] => Ok []
    | x :: r => a <- replace_node old new x ;; b <- go r ;; Ok (a ++ b)
    end.

Lemma replace_node_AE : forall old new e eks,
  replace_node old new (AE e eks) =
    match e_text e with
    | Some (c :: tx) =>
        if (contains old (c :: tx) && is_text_like e)%bool then
          wuri <- of_opt KeyError (e_wuri e) ;;
          Ok (interleave (br_of e wuri)
                (map (fun l => AE (with_text e l) eks) (split_nl (replace old new (c :: tx)))))
        else eks' <- rkids old new eks ;; Ok [AE e eks']
    | _ => eks' <- rkids old new eks ;; Ok [AE e eks']
    end.
Proof. reflexivity. Qed.

(* w:t and m:t are the text-like elements (fix D33: only their text is replaced) *)
Lemma is_text_like_tag_TEXT : forall e,
  str_eqb (e_ptag e) tag_TEXT = true -> is_text_like e = true.
Proof.
  intros e H. apply str_eqb_eq in H. unfold is_text_like. rewrite H. reflexivity.
Qed.

Lemma is_text_like_tag_TEXT_MATH : forall e,
  str_eqb (e_ptag e) tag_TEXT_MATH = true -> is_text_like e = true.
Proof.
  intros e H. apply str_eqb_eq in H. unfold is_text_like. rewrite H. reflexivity.
Qed.

Lemma is_text_like_with_text : forall e l, is_text_like (with_text e l) = is_text_like e.
Proof. reflexivity. Qed.

(* the inner loop of replace_node is replace_kids *)
Lemma rkids_replace_kids : forall old new ks, rkids old new ks = replace_kids old new ks.
Proof.
  intros old new ks. unfold replace_kids. induction ks as [|k r IH]; [reflexivity|].
  cbn [rkids mapM]. change ((fix go (l : list anode) : res (list anode) :=
    match l with
    | [] => Ok []
    | x :: r0 => a <- replace_node old new x ;; b <- go r0 ;; Ok (a ++ b)
    end) r) with (rkids old new r). rewrite IH.
  destruct (replace_node old new k) as [a|]; [|reflexivity]. simpl.
  destruct (mapM (replace_node old new) r) as [xs|]; reflexivity.
Qed.

Lemma replace_node_hit : forall old new e eks c tx wuri,
  e_text e = Some (c :: tx) -> contains old (c :: tx) = true -> is_text_like e = true ->
  e_wuri e = Some wuri ->
  replace_node old new (AE e eks) =
    Ok (interleave (br_of e wuri)
          (map (fun l => AE (with_text e l) eks) (split_nl (replace old new (c :: tx))))).
Proof.
  intros old new e eks c tx wuri Ht Hc Hl Hw.
  rewrite replace_node_AE, Ht, Hc, Hl, Hw. reflexivity.
Qed.

(* text that the extraction does not show (deleted text, field codes, ...) is
   never replaced: only the children are visited (fix D33) *)
Lemma replace_node_skips_invisible : forall old new e eks,
  is_text_like e = false ->
  replace_node old new (AE e eks) = (eks' <- replace_kids old new eks ;; Ok [AE e eks']).
Proof.
  intros old new e eks Hl. rewrite replace_node_AE, Hl, rkids_replace_kids.
  destruct (e_text e) as [[|c tx]|]; try reflexivity.
  rewrite andb_false_r. reflexivity.
Qed.

Lemma replace_node_leaf_invisible : forall old new e,
  is_text_like e = false -> replace_node old new (AE e []) = Ok [AE e []].
Proof. intros old new e Hl. rewrite replace_node_skips_invisible by exact Hl. reflexivity. Qed.

Fixpoint needle_free (old : str) (t : anode) : bool :=
  match t with
  | AX _ => true
  | AE e ks =>
      negb (match e_text e with Some (c :: tx) => contains old (c :: tx) | _ => false end)
      && forallb (needle_free old) ks
  end.

Lemma replace_node_frame : forall old new k,
  needle_free old k = true -> replace_node old new k = Ok [k].
Proof.
  intros old new k. induction k as [tl|e ks IH] using anode_ind2; intros Hn.
  - reflexivity.
  - cbn [needle_free] in Hn. apply andb_true_iff in Hn. destruct Hn as [Hn Hks].
    apply negb_true_iff in Hn.
    assert (Hgo : rkids old new ks = Ok ks).
    { clear Hn. induction IH as [|k r Hk _ IHr]; [reflexivity|].
      simpl in Hks. apply andb_true_iff in Hks. destruct Hks as [Hk1 Hr1].
      simpl. rewrite (Hk Hk1). simpl. rewrite (IHr Hr1). reflexivity. }
    rewrite replace_node_AE, Hgo.
    destruct (e_text e) as [[|c tx]|]; try reflexivity.
    rewrite Hn. reflexivity.
Qed.

(* the stronger frame of fix D33: the needle may occur in text that is not
   shown (any element that is not w:t / m:t) *)
Fixpoint needle_free_visible (old : str) (t : anode) : bool :=
  match t with
  | AX _ => true
  | AE e ks =>
      negb (match e_text e with Some (c :: tx) => contains old (c :: tx) | _ => false end
            && is_text_like e)
      && forallb (needle_free_visible old) ks
  end.

Lemma replace_node_frame_visible : forall old new k,
  needle_free_visible old k = true -> replace_node old new k = Ok [k].
Proof.
  intros old new k. induction k as [tl|e ks IH] using anode_ind2; intros Hn.
  - reflexivity.
  - cbn [needle_free_visible] in Hn. apply andb_true_iff in Hn. destruct Hn as [Hn Hks].
    apply negb_true_iff in Hn.
    assert (Hgo : rkids old new ks = Ok ks).
    { clear Hn. induction IH as [|k r Hk _ IHr]; [reflexivity|].
      simpl in Hks. apply andb_true_iff in Hks. destruct Hks as [Hk1 Hr1].
      simpl. rewrite (Hk Hk1). simpl. rewrite (IHr Hr1). reflexivity. }
    rewrite replace_node_AE, Hgo.
    destruct (e_text e) as [[|c tx]|]; try reflexivity.
    rewrite Hn. reflexivity.
Qed.

Lemma replace_kids_frame : forall old new ks,
  forallb (needle_free old) ks = true -> replace_kids old new ks = Ok ks.
Proof.
  intros old new ks H. unfold replace_kids.
  assert (Hm : mapM (replace_node old new) ks = Ok (map (fun k => [k]) ks)).
  { induction ks as [|k r IH]; [reflexivity|].
    simpl in H. apply andb_true_iff in H. destruct H as [Hk Hr].
    simpl. rewrite (replace_node_frame _ _ _ Hk). simpl. rewrite (IH Hr). reflexivity. }
  rewrite Hm. simpl. f_equal.
  clear. induction ks as [|k r IH]; [reflexivity|]. simpl. f_equal. exact IH.
Qed.

(* replace_root_text does not look at the root's own text: the needle may
   occur there *)
Lemma replace_root_frame_kids : forall old new e ks,
  forallb (needle_free old) ks = true -> replace_root_text old new (AE e ks) = Ok (AE e ks).
Proof.
  intros old new e ks H. simpl. rewrite (replace_kids_frame _ _ _ H). reflexivity.
Qed.

Lemma replace_root_frame : forall old new t,
  needle_free old t = true -> replace_root_text old new t = Ok t.
Proof.
  intros old new [e ks|tl] H; [|reflexivity].
  simpl in H. apply andb_true_iff in H. destruct H as [_ H].
  apply replace_root_frame_kids; exact H.
Qed.

Lemma replace_all_frame : forall pairs t,
  (forall p, In p pairs -> needle_free (fst p) t = true) -> replace_all pairs t = Ok t.
Proof.
  unfold replace_all. induction pairs as [|p r IH]; intros t H; [reflexivity|].
  simpl. rewrite replace_root_frame by (apply H; left; reflexivity). simpl.
  apply IH. intros q Hq. apply H. right; exact Hq.
Qed.

(* ---------- the visible text of the replacement nodes ---------- *)
Definition node_text (t : anode) : str :=
  match t with
  | AE e _ => if str_eqb (e_local e) s_br then [lf] else ostr (e_text e)
  | AX _ => []
  end.

Lemma interleave_text : forall e wuri eks lines,
  str_eqb (e_local e) s_br = false ->
  concat (map node_text (interleave (br_of e wuri) (map (fun l => AE (with_text e l) eks) lines)))
  = join [lf] lines.
Proof.
  intros e wuri eks lines Hb. induction lines as [|x r IH]; [reflexivity|].
  destruct r as [|y r].
  - simpl. rewrite Hb. simpl. apply app_nil_r.
  - change (concat (map node_text
              (AE (with_text e x) eks :: br_of e wuri ::
               interleave (br_of e wuri) (map (fun l => AE (with_text e l) eks) (y :: r))))
            = x ++ [lf] ++ join [lf] (y :: r)).
    rewrite <- IH. simpl. rewrite Hb. reflexivity.
Qed.

Lemma replace_text_commutes : forall old new e eks c tx wuri nodes,
  str_eqb (e_local e) s_br = false -> e_text e = Some (c :: tx) ->
  contains old (c :: tx) = true -> is_text_like e = true -> e_wuri e = Some wuri ->
  no_cr (replace old new (c :: tx)) ->
  replace_node old new (AE e eks) = Ok nodes ->
  concat (map node_text nodes) = replace old new (c :: tx).
Proof.
  intros old new e eks c tx wuri nodes Hb Ht Hc Hl Hw Hn H.
  rewrite (replace_node_hit _ _ _ _ _ _ _ Ht Hc Hl Hw) in H. inversion H; subst nodes.
  rewrite interleave_text by exact Hb.
  apply split_nl_join; exact Hn.
Qed.

(* without the side condition: the text is join "\n" (re.split(\r\n|\r|\n) ...) *)
Lemma replace_text_general : forall old new e eks c tx wuri nodes,
  str_eqb (e_local e) s_br = false -> e_text e = Some (c :: tx) ->
  contains old (c :: tx) = true -> is_text_like e = true -> e_wuri e = Some wuri ->
  replace_node old new (AE e eks) = Ok nodes ->
  concat (map node_text nodes) = join [lf] (split_nl (replace old new (c :: tx))).
Proof.
  intros old new e eks c tx wuri nodes Hb Ht Hc Hl Hw H.
  rewrite (replace_node_hit _ _ _ _ _ _ _ Ht Hc Hl Hw) in H. inversion H; subst nodes.
  apply interleave_text; exact Hb.
Qed.

Print Assumptions save_copies_exact.
Print Assumptions save_copy_sound.
Print Assumptions save_copy_not_overwritten.
Print Assumptions save_written_exact.
Print Assumptions save_written_fwd.
Print Assumptions save_written_bwd.
Print Assumptions last_with_path_spec.
Print Assumptions save_written_paths_nodup.
Print Assumptions save_names_once_count.
Print Assumptions save_names_once.
Print Assumptions save_names_once_necessary.
Print Assumptions save_names_once_roots.
Print Assumptions save_names_once_save.
Print Assumptions replace_docx_names_once.
Print Assumptions save_names_count.
Print Assumptions save_names.
Print Assumptions save_duplicate_repaired.
Print Assumptions save_shared_header_example.
Print Assumptions split_nl_join.
Print Assumptions split_nl_nonempty.
Print Assumptions split_nl_empty.
Print Assumptions split_nl_trailing_newline_kept.
Print Assumptions split_nl_cr_becomes_lf.
Print Assumptions replace_node_hit.
Print Assumptions replace_node_skips_invisible.
Print Assumptions replace_node_leaf_invisible.
Print Assumptions replace_node_frame.
Print Assumptions replace_node_frame_visible.
Print Assumptions replace_root_frame_kids.
Print Assumptions replace_root_frame.
Print Assumptions replace_all_frame.
Print Assumptions interleave_text.
Print Assumptions replace_text_commutes.
Print Assumptions replace_text_general.
