(* BlocksSpec.v — C02 / C05 for a whole part made of paragraphs AND tables.

   A part (w:body / w:document element) whose children are
     - simple paragraphs (FrameFacts.simple_par),
     - flat tables (LineageFacts.flat_tbl) whose filler is inert
       (GridWalk.tbl_fill false),
     - inert other children (w:sectPr, w:bookmarkStart, ... : GridWalk.inert)
   is walked by collect_from.  The final tree, in document order, is a pure
   function (spec_blocks) of a description of the source:

     * every maximal run of consecutive free paragraphs (inert children in
       between do not interrupt a run, a table does) becomes ONE table
       [[ [records of those paragraphs] ]] : one row, one cell;
     * every table becomes the grid table of GridFacts / GridWalk.

   Each record is described by [par_desc]: it points at its source paragraph
   (p_elem = path), carries the lineage of its position, and its tokens are
   exactly the list marker followed by what the children of that paragraph
   emit (text never migrates between paragraphs).

   Contents
     Part 0  small helpers
     Part 1  one simple paragraph, with everything (par_step)
     Part 2  a flat table with inert filler, walked from a clean state:
             the strong description of the source (tspec_n / tspec_d)
     Part 3  the children of the part: runs of paragraphs and tables
     Part 4  blocks_tree_spec
     Part 5  the paragraphs of the final tree; w:p elements of the source;
             blocks_every_paragraph_once (+ merged cells: counterexample and
             partial version)
     Part 6  blocks_text_of_paragraph
     Part 7  examples *)
From Coq Require Import List NArith ZArith Bool Arith Lia.
From D2P Require Import Str Err Xml TableTypes Tables Fmt NumFmt Bullets Merge Collector Walk.
From D2P Require Import ShapeFacts TokFacts FrameFacts BulletsFacts LineageFacts GridFacts
                        GridWalk SeqFacts.
Import ListNotations.
#[local] Open Scope nat_scope.

(* ================================================================== *)
(* PART 0 — helpers                                                     *)
(* ================================================================== *)
(* nothing open, nothing queued *)
Definition clean (s : cst) : Prop := c_open s = [] /\ c_queued s = [].

(* the first three slots of the register are empty: outside every table *)
Definition lin0 (s : cst) : Prop :=
  slot 1 (c_lineage s) = None /\ slot 2 (c_lineage s) = None /\ slot 3 (c_lineage s) = None.

Lemma set_caret_facts' d name s s' :
  1 <= d <= 4 -> Inv s -> set_caret (Some d) name s = Ok s' ->
  Inv s' /\ c_depth s' = d /\ c_open s' = c_open s /\ c_queued s' = c_queued s
  /\ slot d (c_lineage s') = name /\ keepl d (c_lineage s) (c_lineage s').
Proof.
  intros Hd Hi H.
  destruct (set_caret_facts d name s s' Hd Hi H) as (I' & D' & O' & N' & K').
  destruct (set_caret_frame d name s s' H) as ((_ & Q' & _) & _).
  auto 10.
Qed.

(* from the root down to paragraph depth: three empty lists *)
Lemma set_caret_drop3 name s s' :
  c_depth s = 1 -> set_caret (Some 4) name s = Ok s' ->
  c_tree s' = NL [NL [NL []]] :: c_tree s.
Proof.
  destruct s as [t d lin o q r cn]. destruct lin as [[[a b] c] e].
  cbn [c_depth c_tree]. intros -> H. cbn in H. injection H as <-. reflexivity.
Qed.

Lemma unrev_map_NP (ps : list par) : map unrev (map NP ps) = map NP ps.
Proof. induction ps as [|p r IH]; [reflexivity|]. cbn [map unrev]. rewrite IH. reflexivity. Qed.

Lemma unrev_pars (ps : list par) : unrev (NL (map NP ps)) = NL (map NP (rev ps)).
Proof. cbn [unrev]. rewrite unrev_map_NP, map_rev. reflexivity. Qed.

Lemma Forall2_map_r {A B C} (R : A -> C -> Prop) (f : B -> C) : forall l1 l2,
  Forall2 (fun a b => R a (f b)) l1 l2 -> Forall2 R l1 (map f l2).
Proof. induction 1; cbn [map]; constructor; assumption. Qed.

Lemma Forall2_weaken {A B} (R R' : A -> B -> Prop) : forall l1 l2,
  (forall a b, R a b -> R' a b) -> Forall2 R l1 l2 -> Forall2 R' l1 l2.
Proof. intros l1 l2 H. induction 1; constructor; auto. Qed.

(* ================================================================== *)
(* PART 1 — one simple paragraph                                        *)
(* ================================================================== *)
(* The record p extracted for the paragraph element (AE e ks) found at path
   pth, when the first three register slots hold a b c and nothing was
   queued: it points at the element, is not a copy, has the lineage of the
   position, the paragraph style of the element, and its tokens are the list
   marker followed by the contributions of the children, in order. *)
Definition par_desc (v : env) (pth : list nat) (e : einfo) (ks : list anode)
           (a b c : option str) (p : par) : Prop :=
  p_elem p = Some pth /\ p_copy p = false /\
  p_lineage p = (a, b, c, Some (e_local e)) /\
  get_pStyle e ks = Ok (p_style p) /\
  exists bl number ems,
    get_bullet (to_numtable v) (get_bullet_fmt (AE e ks)) number = Ok bl /\
    emit_list v pth ks 0 = Ok ems /\
    toks_of (p_runs p) = raw bl ++ concat ems.

Lemma par_step : forall v e ks path s s',
  simple_par (AE e ks) = true -> Inv s -> c_queued s = [] ->
  walk v path (AE e ks) s = Ok s' ->
  exists s1 p t,
    set_caret (Some 4) (Some (e_local e)) s = Ok s1 /\
    spine_app 4 (NP p) (c_tree s1) = Ok t /\ c_tree s' = t /\ c_depth s' = 4 /\
    keepl 4 (c_lineage s) (c_lineage s') /\ c_open s' = c_open s /\ c_queued s' = [] /\
    par_desc v path e ks (slot 1 (c_lineage s)) (slot 2 (c_lineage s)) (slot 3 (c_lineage s)) p.
Proof.
  intros v e ks path s s' Hsp Hi Hq H.
  destruct (simple_par_core _ _ _ _ _ _ Hsp H) as (s1 & p & t & E1 & Et & Ht & D' & Lp & K).
  destruct (tree_ok_pars _ (proj1 Hi)) as [ps Hps].
  destruct (simple_par_walk _ _ _ _ _ _ _ Hsp Hi H Hps)
    as (p' & Hp' & O' & Q' & _ & _ & El & Cp & St & _ & (bl & number & cs & _ & Ebl & _ & _ & ems & Eems & Tk)).
  assert (Hp1 : pars_at 4 (c_tree s1) = Ok ps).
  { eapply set_caret_pars; [exact Hi| |exact E1|exact Hps]. lia. }
  pose proof (spine_app_NP_pars 3 p (c_tree s1) t ps Et Hp1) as Hp.
  rewrite Ht, Hp in Hp'. injection Hp' as Hpp. apply app_inj_tail in Hpp.
  destruct Hpp as [_ Hpp]. subst p'.
  exists s1, p, t.
  split; [exact E1|]. split; [exact Et|]. split; [exact Ht|]. split; [exact D'|].
  split; [exact K|]. split; [exact O'|]. split; [exact Q'|].
  split; [exact El|]. split; [exact Cp|]. split; [exact Lp|]. split; [exact St|].
  exists bl, number, ems. split; [exact Ebl|]. split; [exact Eems|].
  rewrite Tk, Hq. reflexivity.
Qed.

(* ================================================================== *)
(* PART 2 — a flat table with inert filler, from a clean state          *)
(* ================================================================== *)
(* The description of the source table, as GridWalk.table_spec but with the
   full paragraph description.  nf = true: the paragraphs of a cell newest
   first (as the walk holds them); nf = false: document order. *)
Section Spec.
  Variable v : env.

  Definition prec (lt ltr ltc : str) (path : list nat) (ik : nat * anode) (p : par) : Prop :=
    exists e ks, snd ik = AE e ks /\
      par_desc v (fst ik :: path) e ks (Some lt) (Some ltr) (Some ltc) p.

  Definition cspec (nf : bool) (lt ltr : str) (path : list nat) (ik : nat * anode)
             (c : cellspec) : Prop :=
    exists e ks pr g ps, snd ik = AE e ks /\
      gather_Pr e ks = Ok pr /\ span_of pr = Ok g /\
      cs_span c = span_cols g /\ cs_cont c = is_continuation pr /\
      cs_own c = NL (map NP (if nf then rev ps else ps)) /\
      Forall2 (prec lt ltr (e_local e) (fst ik :: path)) (sel simple_par ks 0) ps.

  Definition rspec (nf : bool) (lt : str) (path : list nat) (ik : nat * anode)
             (r : list cellspec) : Prop :=
    exists e ks, snd ik = AE e ks /\
      Forall2 (cspec nf lt (e_local e) (fst ik :: path)) (sel flat_cell ks 0) r.

  Definition tspec (nf : bool) (path : list nat) (t : anode) (rows : list (list cellspec))
    : Prop :=
    exists e ks, t = AE e ks /\
      Forall2 (rspec nf (e_local e) path) (sel flat_row ks 0) rows.

  Lemma cspec_doc lt ltr path ik c :
    cspec true lt ltr path ik c -> cspec false lt ltr path ik (unrev_spec c).
  Proof.
    intros (e & ks & pr & g & ps & A & B & C & D & E & F & G).
    exists e, ks, pr, g, ps. cbn [unrev_spec cs_span cs_cont cs_own].
    repeat (split; [assumption|]). split; [|exact G].
    rewrite F, unrev_pars, rev_involutive. reflexivity.
  Qed.

  Lemma tspec_doc path t rows :
    tspec true path t rows -> tspec false path t (map (map unrev_spec) rows).
  Proof.
    intros (e & ks & Et & HF). exists e, ks. split; [exact Et|].
    apply Forall2_map_r. eapply Forall2_weaken; [|exact HF].
    intros ik r (e' & ks' & Er & HC). exists e', ks'. split; [exact Er|].
    apply Forall2_map_r. eapply Forall2_weaken; [|exact HC].
    intros jk c Hc. apply cspec_doc. exact Hc.
  Qed.

  (* the strong description implies the one of GridWalk *)
  Lemma tspec_table_spec path t rows : tspec true path t rows -> table_spec path t rows.
  Proof.
    intros (e & ks & Et & HF). exists e, ks. split; [exact Et|].
    eapply Forall2_weaken; [|exact HF].
    intros ik r (e' & ks' & Er & HC). exists e', ks'. split; [exact Er|].
    eapply Forall2_weaken; [|exact HC].
    intros jk c (e2 & ks2 & pr & g & ps & A & B & C & D & E & F & G).
    exists e2, ks2, pr, g, (map NP (rev ps)). repeat (split; [assumption|]).
    rewrite <- map_rev, rev_involutive. apply Forall2_map_r.
    eapply Forall2_weaken; [|exact G].
    intros lk p (e3 & ks3 & El & (P1 & P2 & P3 & _)). exists e3, ks3, p. auto.
  Qed.
End Spec.

Section TLevels.
  Variables (v : env) (old : list node) (lt : str).

  (* ---------------- inside a cell ---------------- *)
  Definition cell_st' (rows cells : list node) (ltr ltc : str) (pars : list par) (s : cst)
    : Prop :=
    Inv s /\ clean s /\ slot 1 (c_lineage s) = Some lt /\ slot 2 (c_lineage s) = Some ltr
    /\ slot 3 (c_lineage s) = Some ltc
    /\ ((pars = [] /\ c_depth s = 3 /\ c_tree s = NL (NL cells :: rows) :: old)
        \/ (c_depth s = 4 /\ c_tree s = NL (NL (NL (map NP pars) :: cells) :: rows) :: old)).

  Lemma cell_par_step' rows cells ltr ltc pars e ks path s s' :
    simple_par (AE e ks) = true -> cell_st' rows cells ltr ltc pars s ->
    walk v path (AE e ks) s = Ok s' ->
    exists p, cell_st' rows cells ltr ltc (p :: pars) s' /\ c_depth s' = 4 /\
      par_desc v path e ks (Some lt) (Some ltr) (Some ltc) p.
  Proof.
    intros Hsp (Hi & (Ho & Hq) & L1 & L2 & L3 & Sh) H.
    destruct (par_step v e ks path s s' Hsp Hi Hq H)
      as (sa & p & t & Ea & Et & Ht & D' & K & O' & Q' & Pd).
    exists p.
    assert (Tt : t = NL (NL (NL (NP p :: map NP pars) :: cells) :: rows) :: old).
    { destruct Sh as [(-> & D & T)|(D & T)].
      - destruct (set_caret_drop1 3 _ s sa D Ea) as (t1 & E1 & T1).
        rewrite T in E1. cbn in E1. injection E1 as <-.
        rewrite T1 in Et. cbn in Et. injection Et as <-. reflexivity.
      - assert (Tu : c_tree sa = c_tree s)
          by (apply (set_caret_up 4 (Some (e_local e)) s sa); [lia|exact Ea]).
        rewrite Tu, T in Et. cbn in Et. injection Et as <-. reflexivity. }
    split.
    - split; [eapply walk_inv; eauto|]. split; [split; [rewrite O'; exact Ho|exact Q']|].
      rewrite (K 1), (K 2), (K 3) by lia. repeat (split; [assumption|]).
      right. split; [exact D'|]. rewrite Ht. exact Tt.
    - split; [exact D'|]. rewrite L1, L2, L3 in Pd. exact Pd.
  Qed.

  Lemma cell_kids' rows cells ltr ltc path : forall ks i s s' pars,
    forallb (fun k => simple_par k || fill1 false k) ks = true ->
    cell_st' rows cells ltr ltc pars s ->
    kids_loop v path ks i s = Ok s' ->
    exists new, cell_st' rows cells ltr ltc (new ++ pars) s' /\
      Forall2 (prec v lt ltr ltc path) (sel simple_par ks i) (rev new) /\
      (c_depth s = 4 \/ existsb simple_par ks = true -> c_depth s' = 4).
  Proof.
    induction ks as [|k r IH]; intros i s s' pars Hq Hs H.
    - cbn [kids_loop] in H. injection H as <-. exists []. split; [exact Hs|].
      split; [constructor|]. intros [D|D]; [exact D|discriminate D].
    - cbn [forallb] in Hq. apply andb_true_iff in Hq. destruct Hq as [Q1 Q2].
      cbn [kids_loop] in H. bind_inv H as s1 E1.
      destruct (simple_par k) eqn:Es.
      + destruct k as [e ks'|tl]; [|discriminate Es].
        destruct (cell_par_step' _ _ _ _ _ _ _ _ _ _ Es Hs E1) as (p & S1 & D1 & Pd).
        destruct (IH (S i) s1 s' (p :: pars) Q2 S1 H) as (new & S' & HF & HD).
        exists (new ++ [p]). rewrite <- app_assoc. split; [exact S'|]. split.
        * cbn [sel]. rewrite Es, rev_unit. constructor; [|exact HF].
          exists e, ks'. cbn [fst snd]. auto.
        * intros _. apply HD. left. exact D1.
      + unfold fill1 in Q1. cbn [orb] in Q1.
        rewrite (inert_walk v k Q1) in E1. injection E1 as <-.
        destruct (IH (S i) s s' pars Q2 Hs H) as (new & S' & HF & HD).
        exists new. split; [exact S'|]. split.
        * cbn [sel]. rewrite Es. exact HF.
        * cbn [existsb]. rewrite Es. cbn [orb]. exact HD.
  Qed.

  (* ---------------- inside a row ---------------- *)
  Definition row_st' (rows : list node) (ltr : str) (cells : list node) (s : cst) : Prop :=
    Inv s /\ clean s /\ slot 1 (c_lineage s) = Some lt /\ slot 2 (c_lineage s) = Some ltr
    /\ slot 3 (c_lineage s) = None
    /\ ((cells = [] /\ c_depth s = 2 /\ c_tree s = NL rows :: old)
        \/ (c_depth s = 3 /\ c_tree s = NL (NL cells :: rows) :: old)).

  Lemma cell_walk' rows ltr cells e ks i rpath s s' :
    flat_cell (AE e ks) = true -> cell_fill false (AE e ks) = true ->
    row_st' rows ltr cells s -> walk v (i :: rpath) (AE e ks) s = Ok s' ->
    exists c cells', cspec v true lt ltr rpath (i, AE e ks) c /\
      row_st' rows ltr cells' s' /\ c_depth s' = 3 /\
      rev cells' = rev cells ++ cell_block (env_dup v) (prev_doc rows) (length (rev cells)) c.
  Proof.
    intros Hf Hq (Hi & (Ho & Hqu) & L1 & L2 & L3 & Sh) H.
    pose proof (flat_cell_depth _ Hf) as Hd.
    cbn [flat_cell] in Hf. apply andb_true_iff in Hf. destruct Hf as [Hf Hex].
    apply andb_true_iff in Hf. destruct Hf as [Htag Hks]. apply str_eqb_eq in Htag.
    cbn [cell_fill] in Hq.
    apply walk_AE_inv in H.
    destruct H as (s1 & body & s2 & b & s3 & s4 & E1 & Eo & Ek & Ec & E5).
    rewrite Hd in E1, E5.
    destruct (set_caret_facts' 3 _ s s1 ltac:(lia) Hi E1) as (I1 & D1 & O1 & Q1 & N1 & K1).
    assert (T1 : c_tree s1 = NL (NL cells :: rows) :: old).
    { destruct Sh as [(-> & D & T)|(D & T)].
      - destruct (set_caret_drop1 2 _ s s1 D E1) as (t1 & Et1 & Tt1).
        rewrite T in Et1. cbn in Et1. injection Et1 as <-. exact Tt1.
      - rewrite (set_caret_up 3 (Some (e_local e)) s s1 ltac:(lia) E1). exact T. }
    assert (C1 : cell_st' rows cells ltr (e_local e) [] s1).
    { split; [exact I1|]. split; [split; [rewrite O1; exact Ho|rewrite Q1; exact Hqu]|].
      rewrite (K1 1), (K1 2) by lia. repeat (split; [assumption|]). left. auto. }
    rewrite no_open_method in Eo by (rewrite Htag; reflexivity). injection Eo as <- <-.
    destruct (cell_kids' rows cells ltr (e_local e) (i :: rpath) ks 0 s1 s3 [] Hq C1 Ek)
      as (new & C3 & HF & HD).
    rewrite app_nil_r in C3. destruct C3 as (I3 & (O3 & Q3) & A1 & A2 & A3 & Sh3).
    assert (D3 : c_depth s3 = 4) by (apply HD; right; exact Hex).
    destruct Sh3 as [(_ & D & _)|(_ & T3)]; [lia|].
    unfold close_tag in Ec. cbv zeta in Ec. rewrite Htag in Ec.
    change (str_eqb tag_TABLE_CELL tag_PARAGRAPH) with false in Ec.
    change (str_eqb tag_TABLE_CELL tag_RUN) with false in Ec.
    change (str_eqb tag_TABLE_CELL tag_TABLE_CELL) with true in Ec. cbv iota in Ec.
    destruct (close_ok_props _ _ _ _ _ _ _ _ T3 Ec) as (pr & g & Epr & Eg).
    destruct (close_cell_step_full v e ks s3 pr g (NL (map NP new)) cells rows old I3 Epr Eg T3
                ltac:(lia))
      as (s4' & Ec' & T4 & D4 & S4).
    rewrite Ec in Ec'. injection Ec' as <-. cbv zeta in T4.
    pose proof (close_table_cell_inv v e ks s3 s4 I3 Ec) as I4.
    pose proof (close_table_cell_lineage _ _ _ _ _ Ec) as K4.
    destruct (set_caret_facts' 3 None s4 s' ltac:(lia) I4 E5) as (I5 & D5 & O5 & Q5 & N5 & K5).
    pose proof (set_caret_up 3 None s4 s' ltac:(lia) E5) as T5.
    destruct S4 as (O4 & Q4 & _).
    exists {| cs_span := span_cols g; cs_cont := is_continuation pr; cs_own := NL (map NP new) |}.
    eexists. split; [|split; [|split; [exact D5|]]].
    - exists e, ks, pr, g, (rev new). cbn [fst snd cs_span cs_cont cs_own].
      rewrite rev_involutive. auto 10.
    - split; [exact I5|]. split.
      { split; [rewrite O5, O4; exact O3|rewrite Q5, Q4; exact Q3]. }
      rewrite (K5 1), (K5 2), (K4 1), (K4 2) by lia.
      split; [exact A1|]. split; [exact A2|]. split; [exact N5|]. right. split; [exact D5|].
      rewrite T5. exact T4.
    - rewrite <- (rev_step (env_dup v)
                    {| cs_span := span_cols g; cs_cont := is_continuation pr;
                       cs_own := NL (map NP new) |}
                    cells rows).
      cbn [cs_span cs_cont cs_own].
      replace (Z.to_nat (Z.of_nat (span_cols g) - 1)) with (Z.to_nat (g - 1))
        by (unfold span_cols; lia).
      reflexivity.
  Qed.

  Lemma row_kids' rows ltr rpath : forall ks i s s' cells,
    forallb (fun k => if flat_cell k then cell_fill false k else fill1 false k) ks = true ->
    row_st' rows ltr cells s -> kids_loop v rpath ks i s = Ok s' ->
    exists specs cells', row_st' rows ltr cells' s' /\
      Forall2 (cspec v true lt ltr rpath) (sel flat_cell ks i) specs /\
      rev cells' = grid_row (env_dup v) (prev_doc rows) specs (rev cells) /\
      (c_depth s = 3 \/ existsb flat_cell ks = true -> c_depth s' = 3).
  Proof.
    induction ks as [|k r IH]; intros i s s' cells Hq Hs H.
    - cbn [kids_loop] in H. injection H as <-. exists [], cells. split; [exact Hs|].
      split; [constructor|]. split; [reflexivity|]. intros [D|D]; [exact D|discriminate D].
    - cbn [forallb] in Hq. apply andb_true_iff in Hq. destruct Hq as [Q1 Q2].
      cbn [kids_loop] in H. bind_inv H as s1 E1.
      destruct (flat_cell k) eqn:Es.
      + destruct k as [e ks'|tl]; [|discriminate Es].
        destruct (cell_walk' rows ltr cells e ks' i rpath s s1 Es Q1 Hs E1)
          as (c & cells1 & Hc & S1 & D1 & R1).
        destruct (IH (S i) s1 s' cells1 Q2 S1 H) as (specs & cells' & S' & HF & R' & HD).
        exists (c :: specs), cells'. split; [exact S'|]. split.
        { cbn [sel]. rewrite Es. constructor; assumption. }
        split.
        { rewrite grid_row_cons, <- R1. exact R'. }
        intros _. apply HD. left. exact D1.
      + unfold fill1 in Q1. cbn [orb] in Q1.
        rewrite (inert_walk v k Q1) in E1. injection E1 as <-.
        destruct (IH (S i) s s' cells Q2 Hs H) as (specs & cells' & S' & HF & R' & HD).
        exists specs, cells'. split; [exact S'|]. split.
        { cbn [sel]. rewrite Es. exact HF. }
        split; [exact R'|].
        cbn [existsb]. rewrite Es. cbn [orb]. exact HD.
  Qed.

  (* ---------------- inside the table ---------------- *)
  Definition tbl_st' (rows : list node) (s : cst) : Prop :=
    Inv s /\ clean s /\ slot 1 (c_lineage s) = Some lt /\ slot 2 (c_lineage s) = None
    /\ slot 3 (c_lineage s) = None
    /\ ((rows = [] /\ c_depth s = 1 /\ c_tree s = old)
        \/ (c_depth s = 2 /\ c_tree s = NL rows :: old)).

  Lemma row_walk' rows e ks i tpath s s' :
    flat_row (AE e ks) = true -> row_fill false (AE e ks) = true ->
    tbl_st' rows s -> walk v (i :: tpath) (AE e ks) s = Ok s' ->
    exists r cells', rspec v true lt tpath (i, AE e ks) r /\
      tbl_st' (NL cells' :: rows) s' /\ c_depth s' = 2 /\
      rev cells' = grid_row (env_dup v) (prev_doc rows) r [].
  Proof.
    intros Hf Hq (Hi & (Ho & Hqu) & L1 & L2 & L3 & Sh) H.
    pose proof (flat_row_depth _ Hf) as Hd.
    cbn [flat_row] in Hf. apply andb_true_iff in Hf. destruct Hf as [Hf Hex].
    apply andb_true_iff in Hf. destruct Hf as [Htag Hks]. apply str_eqb_eq in Htag.
    cbn [row_fill] in Hq.
    assert (Q : quiet_tag (e_ptag e) = true) by (rewrite Htag; reflexivity).
    apply walk_AE_inv in H.
    destruct H as (s1 & body & s2 & b & s3 & s4 & E1 & Eo & Ek & Ec & E5).
    rewrite Hd in E1, E5.
    destruct (set_caret_facts' 2 _ s s1 ltac:(lia) Hi E1) as (I1 & D1 & O1 & Q1 & N1 & K1).
    assert (T1 : c_tree s1 = NL rows :: old).
    { destruct Sh as [(-> & D & T)|(D & T)].
      - destruct (set_caret_drop1 1 _ s s1 D E1) as (t1 & Et1 & Tt1).
        rewrite T in Et1. cbn in Et1. injection Et1 as <-. exact Tt1.
      - rewrite (set_caret_up 2 (Some (e_local e)) s s1 ltac:(lia) E1). exact T. }
    assert (C1 : row_st' rows (e_local e) [] s1).
    { split; [exact I1|]. split; [split; [rewrite O1; exact Ho|rewrite Q1; exact Hqu]|].
      rewrite (K1 1), (K1 3) by lia. repeat (split; [assumption|]). left. auto. }
    rewrite (quiet_open v _ _ e ks body s1 Q) in Eo. injection Eo as <- <-.
    destruct (row_kids' rows (e_local e) (i :: tpath) ks 0 s1 s3 [] Hq C1 Ek)
      as (specs & cells' & C3 & HF & R3 & HD).
    cbn [rev] in R3. destruct C3 as (I3 & (O3 & Q3) & A1 & A2 & A3 & Sh3).
    assert (D3 : c_depth s3 = 3) by (apply HD; right; exact Hex).
    destruct Sh3 as [(_ & D & _)|(_ & T3)]; [lia|].
    rewrite (quiet_close v e ks s3 Q) in Ec. injection Ec as <-.
    destruct (set_caret_facts' 2 None s3 s' ltac:(lia) I3 E5) as (I5 & D5 & O5 & Q5 & N5 & K5).
    pose proof (set_caret_up 2 None s3 s' ltac:(lia) E5) as T5.
    exists specs, cells'. split.
    { exists e, ks. cbn [fst snd]. auto. }
    split; [|split; [exact D5|exact R3]].
    split; [exact I5|]. split; [split; [rewrite O5; exact O3|rewrite Q5; exact Q3]|].
    rewrite (K5 1), (K5 3) by lia. split; [exact A1|]. split; [exact N5|]. split; [exact A3|].
    right. split; [exact D5|]. rewrite T5. exact T3.
  Qed.

  Lemma tbl_kids' tpath : forall ks i s s' rows,
    forallb (fun k => if flat_row k then row_fill false k else fill1 false k) ks = true ->
    tbl_st' rows s -> kids_loop v tpath ks i s = Ok s' ->
    exists rs rows', tbl_st' rows' s' /\
      Forall2 (rspec v true lt tpath) (sel flat_row ks i) rs /\
      rows' = rev (map (fun r => NL (rev r)) (grid (env_dup v) (prev_doc rows) rs)) ++ rows /\
      (c_depth s = 2 \/ existsb flat_row ks = true -> c_depth s' = 2).
  Proof.
    induction ks as [|k r IH]; intros i s s' rows Hq Hs H.
    - cbn [kids_loop] in H. injection H as <-. exists [], rows. split; [exact Hs|].
      split; [constructor|]. split; [reflexivity|]. intros [D|D]; [exact D|discriminate D].
    - cbn [forallb] in Hq. apply andb_true_iff in Hq. destruct Hq as [Q1 Q2].
      cbn [kids_loop] in H. bind_inv H as s1 E1.
      destruct (flat_row k) eqn:Es.
      + destruct k as [e ks'|tl]; [|discriminate Es].
        destruct (row_walk' rows e ks' i tpath s s1 Es Q1 Hs E1)
          as (rw & cells1 & Hr & S1 & D1 & R1).
        destruct (IH (S i) s1 s' (NL cells1 :: rows) Q2 S1 H)
          as (rs & rows' & S' & HF & R' & HD).
        exists (rw :: rs), rows'. split; [exact S'|]. split.
        { cbn [sel]. rewrite Es. constructor; assumption. }
        split.
        { rewrite R'. cbn [grid prev_doc]. cbv zeta. rewrite <- R1. cbn [map rev].
          rewrite rev_involutive, <- app_assoc. reflexivity. }
        intros _. apply HD. left. exact D1.
      + unfold fill1 in Q1. cbn [orb] in Q1.
        rewrite (inert_walk v k Q1) in E1. injection E1 as <-.
        destruct (IH (S i) s s' rows Q2 Hs H) as (rs & rows' & S' & HF & R' & HD).
        exists rs, rows'. split; [exact S'|]. split.
        { cbn [sel]. rewrite Es. exact HF. }
        split; [exact R'|].
        cbn [existsb]. rewrite Es. cbn [orb]. exact HD.
  Qed.
End TLevels.

(* the whole table: one new table at the root, the state is clean and outside
   every table again, the caret is back at the root *)
Theorem tbl_walk_clean : forall v t path s s',
  flat_tbl t = true -> tbl_fill false t = true ->
  Inv s -> clean s -> lin0 s -> walk v path t s = Ok s' ->
  exists rows : list (list cellspec),
    tspec v true path t rows /\
    c_tree s' = NL (rev (map (fun r => NL (rev r)) (grid (env_dup v) None rows))) :: c_tree s /\
    Inv s' /\ clean s' /\ lin0 s' /\ c_depth s' = 1.
Proof.
  intros v t path s s' Hf Hq Hi (Ho & Hqu) (L1 & L2 & L3) H.
  pose proof (flat_tbl_depth t Hf) as Hd.
  destruct t as [e ks|tl]; [|discriminate Hf].
  cbn [flat_tbl] in Hf. apply andb_true_iff in Hf. destruct Hf as [Hf Hex].
  apply andb_true_iff in Hf. destruct Hf as [Htag Hks]. apply str_eqb_eq in Htag.
  cbn [tbl_fill] in Hq.
  assert (Q : quiet_tag (e_ptag e) = true) by (rewrite Htag; reflexivity).
  apply walk_AE_inv in H.
  destruct H as (s1 & body & s2 & b & s3 & s4 & E1 & Eo & Ek & Ec & E5).
  rewrite Hd in E1, E5.
  destruct (set_caret_facts' 1 _ s s1 ltac:(lia) Hi E1) as (I1 & D1 & O1 & Q1 & N1 & K1).
  assert (T1 : c_tree s1 = c_tree s).
  { apply (set_caret_up 1 (Some (e_local e)) s s1); [|exact E1]. destruct Hi as (_ & R & _). lia. }
  assert (C1 : tbl_st' (c_tree s) (e_local e) [] s1).
  { split; [exact I1|]. split; [split; [rewrite O1; exact Ho|rewrite Q1; exact Hqu]|].
    rewrite (K1 2), (K1 3) by lia. repeat (split; [assumption|]). left. auto. }
  rewrite (quiet_open v _ _ e ks body s1 Q) in Eo. injection Eo as <- <-.
  destruct (tbl_kids' v (c_tree s) (e_local e) path ks 0 s1 s3 [] Hq C1 Ek)
    as (rs & rows' & C3 & HF & R3 & HD).
  cbn [prev_doc] in R3. rewrite app_nil_r in R3.
  destruct C3 as (I3 & (O3 & Q3) & A1 & A2 & A3 & Sh3).
  assert (D3 : c_depth s3 = 2) by (apply HD; right; exact Hex).
  destruct Sh3 as [(_ & D & _)|(_ & T3)]; [lia|].
  rewrite (quiet_close v e ks s3 Q) in Ec. injection Ec as <-.
  destruct (set_caret_facts' 1 None s3 s' ltac:(lia) I3 E5) as (I5 & D5 & O5 & Q5 & N5 & K5).
  pose proof (set_caret_up 1 None s3 s' ltac:(lia) E5) as T5.
  exists rs. split; [exists e, ks; auto|].
  split; [rewrite T5, T3, R3; reflexivity|].
  split; [exact I5|]. split; [split; [rewrite O5; exact O3|rewrite Q5; exact Q3]|].
  split; [|exact D5].
  split; [exact N5|]. rewrite (K5 2), (K5 3) by lia. auto.
Qed.

(* ================================================================== *)
(* PART 3 — the children of the part                                    *)
(* ================================================================== *)
(* what one block of the part yields: a paragraph record, or the description
   (document order) of a table *)
Inductive bres := BP (p : par) | BT (rows : list (list cellspec)).

(* the blocks among the children; everything else must be inert *)
Definition is_blk (k : anode) : bool := simple_par k || flat_tbl k.
Definition root_ok (k : anode) : bool :=
  simple_par k || (flat_tbl k && tbl_fill false k) || inert k.

(* block b describes the child ik = (position, element) of the element at path *)
Definition brel (v : env) (path : list nat) (ik : nat * anode) (b : bres) : Prop :=
  match b with
  | BP p => exists e ks, snd ik = AE e ks /\ simple_par (AE e ks) = true /\
              par_desc v (fst ik :: path) e ks None None None p
  | BT rows => simple_par (snd ik) = false /\ flat_tbl (snd ik) = true /\
               tspec v false (fst ik :: path) (snd ik) rows
  end.

(* a finished run of free paragraphs: one table of one row of one cell *)
Definition flush (run : list par) : list node :=
  match run with [] => [] | _ :: _ => [NL [NL [NL (map NP run)]]] end.

(* the table extracted for a description in document order *)
Definition tbl_node (dup : bool) (rows : list (list cellspec)) : node :=
  NL (map NL (grid dup None rows)).

(* THE EXPECTED TREE, in document order.  [run] is the run of free paragraphs
   collected so far (document order).  A paragraph extends the run; a table
   closes it. *)
Fixpoint spec_blocks (dup : bool) (brs : list bres) (run : list par) : list node :=
  match brs with
  | [] => flush run
  | BP p :: r => spec_blocks dup r (run ++ [p])
  | BT rows :: r => flush run ++ tbl_node dup rows :: spec_blocks dup r []
  end.

Lemma flush_ne run : run <> [] -> flush run = [NL [NL [NL (map NP run)]]].
Proof. destruct run; [congruence|reflexivity]. Qed.

Lemma rev_ne {A} (l : list A) : l <> [] -> rev l <> [].
Proof.
  intros H E. apply H. rewrite <- (rev_involutive l), E. reflexivity.
Qed.

(* the state between two children of the part: D is the finished part of the
   tree in document order, run the current run of free paragraphs, newest
   first *)
Definition root_st (D : list node) (run : list par) (s : cst) : Prop :=
  Inv s /\ clean s /\ lin0 s /\
  exists done, unrev_list done = D /\
    ((run = [] /\ c_depth s = 1 /\ c_tree s = done)
     \/ (run <> [] /\ c_depth s = 4 /\ c_tree s = NL [NL [NL (map NP run)]] :: done)).

Lemma root_doc D run s : root_st D run s -> unrev_list (c_tree s) = D ++ flush (rev run).
Proof.
  intros (_ & _ & _ & done & <- & [(-> & _ & T)|(Hr & _ & T)]); rewrite T.
  - cbn [rev flush]. rewrite app_nil_r. reflexivity.
  - rewrite unrev_list_cons. f_equal. rewrite (flush_ne _ (rev_ne _ Hr)).
    cbn [unrev map rev app]. rewrite unrev_map_NP, map_rev. reflexivity.
Qed.

Lemma init_root_st : root_st [] [] init_cst.
Proof.
  split; [exact init_inv|]. split; [split; reflexivity|]. split; [repeat split|].
  exists []. split; [reflexivity|]. left. auto.
Qed.

Lemma root_par_step v D run e ks path s s' :
  simple_par (AE e ks) = true -> root_st D run s -> walk v path (AE e ks) s = Ok s' ->
  exists p, root_st D (p :: run) s' /\ par_desc v path e ks None None None p.
Proof.
  intros Hsp (Hi & (Ho & Hq) & (L1 & L2 & L3) & done & HD & Sh) H.
  destruct (par_step v e ks path s s' Hsp Hi Hq H)
    as (sa & p & t & Ea & Et & Ht & D' & K & O' & Q' & Pd).
  exists p.
  assert (Tt : t = NL [NL [NL (NP p :: map NP run)]] :: done).
  { destruct Sh as [(-> & Dp & T)|(_ & Dp & T)].
    - pose proof (set_caret_drop3 _ s sa Dp Ea) as T1.
      rewrite T1, T in Et. cbn in Et. injection Et as <-. reflexivity.
    - assert (Tu : c_tree sa = c_tree s)
        by (apply (set_caret_up 4 (Some (e_local e)) s sa); [lia|exact Ea]).
      rewrite Tu, T in Et. cbn in Et. injection Et as <-. reflexivity. }
  split.
  - split; [eapply walk_inv; eauto|]. split; [split; [rewrite O'; exact Ho|exact Q']|].
    split; [unfold lin0; rewrite (K 1), (K 2), (K 3) by lia; auto|].
    exists done. split; [exact HD|]. right. split; [discriminate|]. split; [exact D'|].
    rewrite Ht. exact Tt.
  - rewrite L1, L2, L3 in Pd. exact Pd.
Qed.

Lemma unrev_grid_tbl dup rows :
  unrev (NL (rev (map (fun r => NL (rev r)) (grid dup None rows))))
  = tbl_node dup (map (map unrev_spec) rows).
Proof.
  rewrite unrev_tbl. unfold tbl_node. f_equal.
  pose proof (grid_unrev dup rows None) as G. cbn [option_map] in G.
  rewrite <- G, map_map. reflexivity.
Qed.

Lemma root_tbl_step v D run t path s s' :
  flat_tbl t = true -> tbl_fill false t = true -> root_st D run s ->
  walk v path t s = Ok s' ->
  exists rows, tspec v false path t rows /\
    root_st (D ++ flush (rev run) ++ [tbl_node (env_dup v) rows]) [] s'.
Proof.
  intros Hf Hq Hs H. pose proof (root_doc _ _ _ Hs) as Hdoc.
  destruct Hs as (Hi & Hc & Hl & _).
  destruct (tbl_walk_clean v t path s s' Hf Hq Hi Hc Hl H)
    as (rows & Hsp & Ht & I' & C' & L' & D').
  exists (map (map unrev_spec) rows). split; [apply tspec_doc; exact Hsp|].
  split; [exact I'|]. split; [exact C'|]. split; [exact L'|].
  exists (c_tree s'). split; [|left; auto].
  rewrite Ht, unrev_list_cons, Hdoc, unrev_grid_tbl, <- app_assoc. reflexivity.
Qed.

Lemma simple_par_not_tbl k : simple_par k = true -> flat_tbl k = false.
Proof.
  destruct k as [e ks|tl]; [|reflexivity]. cbn [simple_par flat_tbl]. intro H.
  apply andb_true_iff in H. destruct H as [H _]. apply str_eqb_eq in H. rewrite H.
  reflexivity.
Qed.

Lemma inert_not_blk k : inert k = true -> is_blk k = false.
Proof.
  intro H. pose proof (inert_plain k H) as Hp. unfold is_blk.
  destruct k as [e ks|tl]; [|reflexivity].
  apply plain_inline_AE in Hp. destruct Hp as [(Hp & _) _].
  cbn [simple_par]. rewrite Hp. cbn [andb orb].
  destruct (flat_tbl (AE e ks)) eqn:Ef; [|reflexivity].
  pose proof (flat_tbl_depth _ Ef) as Hd.
  rewrite (plain_inline_no_depth _ (inert_plain _ H)) in Hd. discriminate Hd.
Qed.

Lemma root_kids v path : forall ks i s s' D run,
  forallb root_ok ks = true -> root_st D run s -> kids_loop v path ks i s = Ok s' ->
  exists brs D' run', root_st D' run' s' /\
    Forall2 (brel v path) (sel is_blk ks i) brs /\
    D' ++ flush (rev run') = D ++ spec_blocks (env_dup v) brs (rev run).
Proof.
  induction ks as [|k r IH]; intros i s s' D run Hok Hs H.
  - cbn [kids_loop] in H. injection H as <-. exists [], D, run. split; [exact Hs|].
    split; [constructor|reflexivity].
  - cbn [forallb] in Hok. apply andb_true_iff in Hok. destruct Hok as [K1 K2].
    cbn [kids_loop] in H. bind_inv H as s1 E1. cbn [sel]. unfold is_blk at 1.
    destruct (simple_par k) eqn:Es.
    + destruct k as [e ks'|tl]; [|discriminate Es].
      destruct (root_par_step v D run e ks' (i :: path) s s1 Es Hs E1) as (p & S1 & Pd).
      destruct (IH (S i) s1 s' D (p :: run) K2 S1 H) as (brs & D' & run' & S' & HF & HE).
      exists (BP p :: brs), D', run'. split; [exact S'|]. split.
      * cbn [orb]. constructor; [|exact HF]. exists e, ks'. cbn [fst snd]. auto.
      * rewrite HE. reflexivity.
    + unfold root_ok in K1. rewrite Es in K1. cbn [orb] in K1.
      destruct (flat_tbl k) eqn:Ef.
      * cbn [andb orb] in K1 |- *.
        assert (Hq : tbl_fill false k = true).
        { destruct (tbl_fill false k); [reflexivity|]. cbn [orb] in K1.
          pose proof (inert_not_blk k K1) as N. unfold is_blk in N.
          rewrite Es, Ef in N. discriminate N. }
        destruct (root_tbl_step v D run k (i :: path) s s1 Ef Hq Hs E1) as (rows & Ht & S1).
        destruct (IH (S i) s1 s' _ [] K2 S1 H) as (brs & D' & run' & S' & HF & HE).
        exists (BT rows :: brs), D', run'. split; [exact S'|]. split.
        -- constructor; [|exact HF]. cbn [brel fst snd]. auto.
        -- rewrite HE. cbn [spec_blocks rev]. rewrite <- !app_assoc. reflexivity.
      * cbn [andb orb] in K1 |- *.
        rewrite (inert_walk v k K1) in E1. injection E1 as <-.
        exact (IH (S i) s s' D run K2 Hs H).
Qed.

(* ================================================================== *)
(* PART 4 — the tree of the whole part                                  *)
(* ================================================================== *)
(* (1) The part element is w:body or w:document (no depth, no handler); its
   children are simple paragraphs, flat tables with inert filler and inert
   other elements.  There is a description brs of the blocks — one entry per
   paragraph or table child, in document order, each tied to its source
   element by [brel] (p_elem = path of the element, lineage, tokens) — such
   that the final tree in document order is spec_blocks of it:
   one [[ [records] ]] table per maximal run of free paragraphs, one grid
   table per w:tbl. *)
Theorem blocks_tree_spec : forall v e ks path s,
  mem_str (e_ptag e) depth_none_tags = true -> forallb root_ok ks = true ->
  collect_from v path (AE e ks) = Ok s ->
  exists brs,
    Forall2 (brel v path) (sel is_blk ks 0) brs /\
    unrev_list (c_tree s) = spec_blocks (env_dup v) brs [].
Proof.
  intros v e ks path s Hb Hok H. unfold collect_from in H. bind_inv H as s1 E1.
  rewrite (walk_body _ _ _ _ _ Hb) in E1.
  destruct (root_kids v path ks 0 init_cst s1 [] [] Hok init_root_st E1)
    as (brs & D' & run' & S' & HF & HE).
  pose proof (root_doc _ _ _ S') as Hdoc.
  destruct S' as (_ & (O1 & Q1) & _).
  unfold finish in H. rewrite Q1 in H. cbn [bind] in H.
  unfold conclude_paragraph in H. rewrite O1 in H. injection H as <-.
  exists brs. split; [exact HF|]. rewrite Hdoc, HE. reflexivity.
Qed.

(* a w:document element holding one w:body: the same part, one level down *)
Corollary document_tree_spec : forall v e eb ks path s,
  mem_str (e_ptag e) depth_none_tags = true ->
  mem_str (e_ptag eb) depth_none_tags = true -> forallb root_ok ks = true ->
  collect_from v path (AE e [AE eb ks]) = Ok s ->
  exists brs,
    Forall2 (brel v (0 :: path)) (sel is_blk ks 0) brs /\
    unrev_list (c_tree s) = spec_blocks (env_dup v) brs [].
Proof.
  intros v e eb ks path s Hd Hb Hok H.
  apply (blocks_tree_spec v eb ks (0 :: path) s Hb Hok).
  unfold collect_from in H |- *. rewrite (walk_body _ _ _ _ _ Hd) in H.
  cbn [kids_loop] in H.
  destruct (walk v (0 :: path) (AE eb ks) init_cst) as [s1|x]; [|discriminate H].
  exact H.
Qed.

(* ================================================================== *)
(* PART 5 — every paragraph once, in order                              *)
(* ================================================================== *)
(* ---------- the paragraphs of a tree in document order ---------- *)
Fixpoint leaves_par (n : node) : list par :=
  match n with
  | NP p => [p]
  | NL l => concat (map leaves_par l)
  end.
Definition tree_pars (l : list node) : list par := concat (map leaves_par l).

Lemma tree_pars_app a b : tree_pars (a ++ b) = tree_pars a ++ tree_pars b.
Proof. unfold tree_pars. rewrite map_app, concat_app. reflexivity. Qed.

Lemma tree_pars_cons x l : tree_pars (x :: l) = leaves_par x ++ tree_pars l.
Proof. reflexivity. Qed.

Lemma tree_pars_NP ps : tree_pars (map NP ps) = ps.
Proof.
  induction ps as [|p r IH]; [reflexivity|].
  cbn [map]. rewrite tree_pars_cons, IH. reflexivity.
Qed.

Lemma leaves_par_NL l : leaves_par (NL l) = tree_pars l.
Proof. reflexivity. Qed.

(* pars_at reads the (newest-first) tree of the model; it is the list of the
   leaves of the tree in document order *)
Lemma pars_at_unrev : forall d l ps,
  pars_at d l = Ok ps -> ps = tree_pars (unrev_list l).
Proof.
  induction d as [|d IH]; intros l ps H; [discriminate H|].
  unfold unrev_list. rewrite <- map_rev.
  destruct d as [|d'].
  - cbn [pars_at] in H. revert ps H. generalize (rev l) as m.
    induction m as [|a m IHm]; intros ps H.
    + cbn in H. injection H as <-. reflexivity.
    + cbn [mapM] in H. destruct a as [l0|p]; [discriminate H|]. cbn [bind] in H.
      bind_inv H as ys E. injection H as <-.
      cbn [map unrev]. rewrite tree_pars_cons. cbn [leaves_par app].
      rewrite (IHm ys eq_refl). reflexivity.
  - rewrite pars_at_SS in H. bind_inv H as xs E. injection H as <-.
    revert xs E. generalize (rev l) as m.
    induction m as [|a m IHm]; intros xs E.
    + cbn in E. injection E as <-. reflexivity.
    + cbn [mapM] in E. destruct a as [l0|p]; [|discriminate E].
      bind_inv E as y Ey. bind_inv E as ys Eys. injection E as <-.
      cbn [map concat]. rewrite tree_pars_cons, (IHm ys eq_refl). f_equal.
      rewrite (IH l0 y Ey). reflexivity.
Qed.

(* the final tree of a collector can always be read back, and the result is
   the leaves of the document-order tree *)
Lemma collect_pars v path t s :
  collect_from v path t = Ok s -> pars_at 4 (c_tree s) = Ok (tree_pars (unrev_list (c_tree s))).
Proof.
  intro H. pose proof (collect_shape _ _ _ _ H) as T.
  destruct (shape_pars_at 4 1 (c_tree s) eq_refl ltac:(lia) T) as [ps Hps].
  rewrite Hps. f_equal. exact (pars_at_unrev _ _ _ Hps).
Qed.

(* ---------- the paragraphs of the expected tree ---------- *)
Definition bpars (dup : bool) (b : bres) : list par :=
  match b with
  | BP p => [p]
  | BT rows => leaves_par (tbl_node dup rows)
  end.

Lemma tree_pars_flush run : tree_pars (flush run) = run.
Proof.
  destruct run as [|p r]; [reflexivity|]. unfold flush.
  rewrite tree_pars_cons. cbn [tree_pars map concat]. rewrite !app_nil_r.
  rewrite !leaves_par_NL. cbn [tree_pars map concat]. rewrite !app_nil_r.
  rewrite !leaves_par_NL. cbn [tree_pars map concat]. rewrite !app_nil_r.
  rewrite leaves_par_NL. exact (tree_pars_NP (p :: r)).
Qed.

Lemma spec_blocks_pars dup : forall brs run,
  tree_pars (spec_blocks dup brs run) = run ++ concat (map (bpars dup) brs).
Proof.
  induction brs as [|b r IH]; intro run.
  - cbn [spec_blocks map concat]. rewrite tree_pars_flush, app_nil_r. reflexivity.
  - destruct b as [p|rows]; cbn [spec_blocks map concat bpars].
    + rewrite IH, <- app_assoc. reflexivity.
    + rewrite tree_pars_app, tree_pars_flush, tree_pars_cons, IH. reflexivity.
Qed.

(* ---------- the w:p elements of the source, with their paths ---------- *)
(* every element with tag w:p at or below t, in document order; the path of
   an element is the list of child positions from the element up to the root
   of the part, innermost first, followed by the path of the part itself
   (this is how p_elem is made by the walk) *)
Fixpoint wp_paths (path : list nat) (t : anode) : list (list nat) :=
  match t with
  | AX _ => []
  | AE e ks =>
      (if str_eqb (e_ptag e) tag_PARAGRAPH then [path] else [])
      ++ (fix go (l : list anode) (i : nat) : list (list nat) :=
            match l with
            | [] => []
            | k :: r => wp_paths (i :: path) k ++ go r (S i)
            end) ks 0
  end.

Fixpoint wp_kids (path : list nat) (l : list anode) (i : nat) : list (list nat) :=
  match l with
  | [] => []
  | k :: r => wp_paths (i :: path) k ++ wp_kids path r (S i)
  end.

Lemma wp_paths_AE path e ks :
  wp_paths path (AE e ks)
  = (if str_eqb (e_ptag e) tag_PARAGRAPH then [path] else []) ++ wp_kids path ks 0.
Proof.
  cbn [wp_paths]. f_equal. generalize 0 as i.
  induction ks as [|k r IH]; intro i; [reflexivity|]. cbn [wp_kids]. rewrite IH. reflexivity.
Qed.

Lemma wp_plain : forall t, plain_inline t = true -> forall path, wp_paths path t = [].
Proof.
  apply (ShapeFacts.anode_ind'
           (fun t => plain_inline t = true -> forall path, wp_paths path t = [])).
  - reflexivity.
  - intros e ks IH H path. apply plain_inline_AE in H. destruct H as [(Hp & _) Hks].
    rewrite wp_paths_AE, Hp. cbn [app]. generalize 0 as i.
    induction IH as [|k r Hk Hr IHr]; intro i; [reflexivity|].
    cbn [forallb] in Hks. apply andb_true_iff in Hks. destruct Hks as [K1 K2].
    cbn [wp_kids]. rewrite (Hk K1), (IHr K2). reflexivity.
Qed.

Lemma wp_kids_plain path : forall ks i, forallb plain_inline ks = true -> wp_kids path ks i = [].
Proof.
  induction ks as [|k r IH]; intros i H; [reflexivity|].
  cbn [forallb] in H. apply andb_true_iff in H. destruct H as [K1 K2].
  cbn [wp_kids]. rewrite (wp_plain k K1), (IH _ K2). reflexivity.
Qed.

Lemma wp_simple_par t path : simple_par t = true -> wp_paths path t = [path].
Proof.
  destruct t as [e ks|tl]; [|discriminate]. cbn [simple_par]. intro H.
  apply andb_true_iff in H. destruct H as [Ht Hks].
  rewrite wp_paths_AE, Ht, (wp_kids_plain _ _ _ Hks). reflexivity.
Qed.

(* only the selected children contribute *)
Lemma wp_kids_sel (f : anode -> bool) path : forall ks i,
  forallb (fun k => f k || no_par k) ks = true ->
  wp_kids path ks i = concat (map (fun ik => wp_paths (fst ik :: path) (snd ik)) (sel f ks i)).
Proof.
  induction ks as [|k r IH]; intros i H; [reflexivity|].
  cbn [forallb] in H. apply andb_true_iff in H. destruct H as [K1 K2].
  cbn [wp_kids sel]. rewrite (IH _ K2). destruct (f k) eqn:Ef.
  - reflexivity.
  - cbn [orb] in K1. unfold no_par in K1. rewrite (wp_plain k K1). reflexivity.
Qed.

Lemma map_concat_map {A B C} (f : B -> C) (g : A -> list B) (l : list A) :
  map f (concat (map g l)) = concat (map (fun a => map f (g a)) l).
Proof.
  induction l as [|a r IH]; [reflexivity|]. cbn [map concat]. rewrite map_app, IH. reflexivity.
Qed.

Lemma wp_flat_cell t path : flat_cell t = true ->
  wp_paths path t
  = map (fun ik => fst ik :: path) (sel simple_par (kids_of t) 0).
Proof.
  destruct t as [e ks|tl]; [|discriminate]. cbn [flat_cell kids_of]. intro H.
  apply andb_true_iff in H. destruct H as [H _]. apply andb_true_iff in H. destruct H as [Ht Hks].
  apply str_eqb_eq in Ht. rewrite wp_paths_AE, Ht.
  change (str_eqb tag_TABLE_CELL tag_PARAGRAPH) with false. cbn [app].
  rewrite (wp_kids_sel simple_par path ks 0 Hks).
  generalize 0 as i. induction ks as [|k r IH]; intro i; [reflexivity|].
  cbn [forallb] in Hks. apply andb_true_iff in Hks. destruct Hks as [_ K2].
  cbn [sel]. destruct (simple_par k) eqn:Es; [|exact (IH K2 _)].
  cbn [map concat fst snd]. rewrite (wp_simple_par k _ Es), (IH K2). reflexivity.
Qed.

Lemma wp_flat_row t path : flat_row t = true ->
  wp_paths path t
  = concat (map (fun ik => wp_paths (fst ik :: path) (snd ik)) (sel flat_cell (kids_of t) 0)).
Proof.
  destruct t as [e ks|tl]; [|discriminate]. cbn [flat_row kids_of]. intro H.
  apply andb_true_iff in H. destruct H as [H _]. apply andb_true_iff in H. destruct H as [Ht Hks].
  apply str_eqb_eq in Ht. rewrite wp_paths_AE, Ht.
  change (str_eqb tag_TABLE_ROW tag_PARAGRAPH) with false. cbn [app].
  exact (wp_kids_sel flat_cell path ks 0 Hks).
Qed.

Lemma wp_flat_tbl t path : flat_tbl t = true ->
  wp_paths path t
  = concat (map (fun ik => wp_paths (fst ik :: path) (snd ik)) (sel flat_row (kids_of t) 0)).
Proof.
  destruct t as [e ks|tl]; [|discriminate]. cbn [flat_tbl kids_of]. intro H.
  apply andb_true_iff in H. destruct H as [H _]. apply andb_true_iff in H. destruct H as [Ht Hks].
  apply str_eqb_eq in Ht. rewrite wp_paths_AE, Ht.
  change (str_eqb tag_TABLE tag_PARAGRAPH) with false. cbn [app].
  exact (wp_kids_sel flat_row path ks 0 Hks).
Qed.

(* ---------- generic list tools ---------- *)
Lemma sel_facts (f : anode -> bool) : forall ks i,
  Forall (fun ik => f (snd ik) = true /\ i <= fst ik /\ nth_error ks (fst ik - i) = Some (snd ik))
         (sel f ks i).
Proof.
  induction ks as [|k r IH]; intro i; [constructor|].
  assert (R : Forall (fun ik => f (snd ik) = true /\ i <= fst ik
                                /\ nth_error (k :: r) (fst ik - i) = Some (snd ik))
                     (sel f r (S i))).
  { eapply Forall_impl; [|exact (IH (S i))]. intros ik (A & B & C).
    split; [exact A|]. split; [lia|].
    replace (fst ik - i) with (S (fst ik - S i)) by lia. exact C. }
  cbn [sel]. destruct (f k) eqn:Ef; [|exact R].
  constructor; [|exact R]. cbn [fst snd]. rewrite Nat.sub_diag. auto.
Qed.

Lemma Forall2_and_l {A B} (P : A -> Prop) (R : A -> B -> Prop) : forall l1 l2,
  Forall P l1 -> Forall2 R l1 l2 -> Forall2 (fun a b => P a /\ R a b) l1 l2.
Proof.
  intros l1 l2 HP HR. induction HR as [|a b l1 l2 Hab HR IH]; [constructor|].
  inversion HP as [|? ? Pa Pl]; subst. constructor; auto.
Qed.

Lemma Forall2_Forall_r {A B} (R : A -> B -> Prop) (Q : B -> Prop) : forall l1 l2,
  (forall a b, R a b -> Q b) -> Forall2 R l1 l2 -> Forall Q l2.
Proof. intros l1 l2 H. induction 1; constructor; eauto. Qed.

Lemma Forall2_map_eq {A B C} (F : A -> C) (G : B -> C) : forall l1 l2,
  Forall2 (fun a b => F a = G b) l1 l2 -> map F l1 = map G l2.
Proof. induction 1 as [|a b l1 l2 E _ IH]; [reflexivity|]. cbn [map]. rewrite E, IH. reflexivity. Qed.

Lemma Forall2_concat_eq {A B C} (F : A -> list C) (G : B -> list C) : forall l1 l2,
  Forall2 (fun a b => F a = G b) l1 l2 -> concat (map F l1) = concat (map G l2).
Proof. intros l1 l2 H. rewrite (Forall2_map_eq F G l1 l2 H). reflexivity. Qed.

Lemma forallb_sel (f P : anode -> bool) : forall ks i,
  forallb (fun k => negb (f k) || P k) ks = true ->
  Forall (fun ik => P (snd ik) = true) (sel f ks i).
Proof.
  induction ks as [|k r IH]; intros i H; [constructor|].
  cbn [forallb] in H. apply andb_true_iff in H. destruct H as [K1 K2].
  cbn [sel]. destruct (f k); [|exact (IH _ K2)].
  constructor; [exact K1|exact (IH _ K2)].
Qed.

Lemma Forall_concat {A} (Q : A -> Prop) (ll : list (list A)) :
  Forall (Forall Q) ll -> Forall Q (concat ll).
Proof.
  induction 1 as [|l r Hl _ IH]; [constructor|]. cbn [concat]. apply Forall_app. auto.
Qed.

(* ---------- the own paragraphs of a table and the w:p of its source ---------- *)
(* a record made for a source paragraph: not a copy, not a fill *)
Definition is_own (p : par) : bool :=
  negb (p_copy p) && match p_elem p with Some _ => true | None => false end.

Definition cell_pars (c : cellspec) : list par := leaves_par (cs_own c).
Definition row_pars (r : list cellspec) : list par := concat (map cell_pars r).
Definition rows_pars (rows : list (list cellspec)) : list par := concat (map row_pars rows).

Lemma par_desc_own v pth e ks a b c p : par_desc v pth e ks a b c p -> is_own p = true.
Proof. intros (E & C & _). unfold is_own. rewrite E, C. reflexivity. Qed.

Lemma cspec_paths v lt ltr path ik c :
  flat_cell (snd ik) = true -> cspec v false lt ltr path ik c ->
  map p_elem (cell_pars c) = map Some (wp_paths (fst ik :: path) (snd ik))
  /\ Forall (fun p => is_own p = true) (cell_pars c).
Proof.
  intros Hf (e & ks & pr & g & ps & Ek & _ & _ & _ & _ & Eo & HF).
  unfold cell_pars. rewrite Eo, leaves_par_NL, tree_pars_NP.
  rewrite (wp_flat_cell _ _ Hf), Ek. cbn [kids_of]. rewrite map_map. split.
  - symmetry. apply Forall2_map_eq. eapply Forall2_weaken; [|exact HF].
    intros jk p (e' & ks' & _ & (E & _)). symmetry. exact E.
  - eapply Forall2_Forall_r; [|exact HF].
    intros jk p (e' & ks' & _ & Pd). exact (par_desc_own _ _ _ _ _ _ _ _ Pd).
Qed.

Lemma rspec_paths v lt path ik r :
  flat_row (snd ik) = true -> rspec v false lt path ik r ->
  map p_elem (row_pars r) = map Some (wp_paths (fst ik :: path) (snd ik))
  /\ Forall (fun p => is_own p = true) (row_pars r).
Proof.
  intros Hf (e & ks & Ek & HF).
  pose proof (Forall2_and_l _ _ _ _ (sel_facts flat_cell ks 0) HF) as HF'.
  rewrite (wp_flat_row _ _ Hf), Ek. cbn [kids_of]. unfold row_pars. split.
  - rewrite !map_concat_map. symmetry. apply Forall2_concat_eq.
    eapply Forall2_weaken; [|exact HF'].
    intros jk c ((Fc & _) & Hc). symmetry. exact (proj1 (cspec_paths _ _ _ _ _ _ Fc Hc)).
  - apply Forall_concat. apply Forall_map. eapply Forall2_Forall_r; [|exact HF'].
    intros jk c ((Fc & _) & Hc). exact (proj2 (cspec_paths _ _ _ _ _ _ Fc Hc)).
Qed.

Lemma tspec_paths v path t rows :
  flat_tbl t = true -> tspec v false path t rows ->
  map p_elem (rows_pars rows) = map Some (wp_paths path t)
  /\ Forall (fun p => is_own p = true) (rows_pars rows).
Proof.
  intros Hf (e & ks & Ek & HF).
  pose proof (Forall2_and_l _ _ _ _ (sel_facts flat_row ks 0) HF) as HF'.
  rewrite (wp_flat_tbl _ _ Hf), Ek. cbn [kids_of]. unfold rows_pars. split.
  - rewrite !map_concat_map. symmetry. apply Forall2_concat_eq.
    eapply Forall2_weaken; [|exact HF'].
    intros jk r ((Fr & _) & Hr). symmetry. exact (proj1 (rspec_paths _ _ _ _ _ Fr Hr)).
  - apply Forall_concat. apply Forall_map. eapply Forall2_Forall_r; [|exact HF'].
    intros jk r ((Fr & _) & Hr). exact (proj2 (rspec_paths _ _ _ _ _ Fr Hr)).
Qed.

(* ---------- tables without merged cells ---------- *)
Definition cell_unmerged (k : anode) : bool :=
  match k with
  | AE e ks =>
      match gather_Pr e ks with
      | Ok pr => negb (is_continuation pr)
                 && match span_of pr with Ok g => (g <=? 1)%Z | Err _ => false end
      | Err _ => false
      end
  | AX _ => true
  end.
Definition row_unmerged (k : anode) : bool :=
  forallb (fun c => negb (flat_cell c) || cell_unmerged c) (kids_of k).
Definition tbl_unmerged (k : anode) : bool :=
  forallb (fun r => negb (flat_row r) || row_unmerged r) (kids_of k).

Definition plain_cell (c : cellspec) : Prop := cs_span c = 1 /\ cs_cont c = false.

Lemma tspec_unmerged v nf path t rows :
  tbl_unmerged t = true -> tspec v nf path t rows -> Forall (Forall plain_cell) rows.
Proof.
  intros Hu (e & ks & -> & HF). unfold tbl_unmerged in Hu. cbn [kids_of] in Hu.
  pose proof (Forall2_and_l _ _ _ _ (forallb_sel flat_row row_unmerged ks 0 Hu) HF) as HF'.
  eapply Forall2_Forall_r; [|exact HF'].
  intros ik r (Ur & (e' & ks' & Er & HC)). cbv beta in Ur. rewrite Er in Ur.
  unfold row_unmerged in Ur. cbn [kids_of] in Ur.
  pose proof (Forall2_and_l _ _ _ _ (forallb_sel flat_cell cell_unmerged ks' 0 Ur) HC) as HC'.
  eapply Forall2_Forall_r; [|exact HC'].
  intros jk c (Uc & (e2 & ks2 & pr & g & ps & Ec & Epr & Eg & Es & Ect & _)).
  cbv beta in Uc. rewrite Ec in Uc. cbn [cell_unmerged] in Uc. rewrite Epr, Eg in Uc.
  apply andb_true_iff in Uc. destruct Uc as [U1 U2].
  apply negb_true_iff in U1. apply Z.leb_le in U2.
  split; [rewrite Es; unfold span_cols; lia|rewrite Ect; exact U1].
Qed.

Lemma grid_unmerged dup : forall rows prev,
  Forall (Forall plain_cell) rows -> grid dup prev rows = map (map cs_own) rows.
Proof.
  induction rows as [|r rest IH]; intros prev H; [reflexivity|].
  inversion H as [|? ? Hr Hrest]; subst. cbn [grid map]. cbv zeta.
  rewrite (grid_unmerged_row dup prev r Hr), (IH _ Hrest). reflexivity.
Qed.

Lemma tree_pars_own r : tree_pars (map cs_own r) = row_pars r.
Proof. unfold tree_pars, row_pars. rewrite map_map. reflexivity. Qed.

Lemma tbl_node_pars dup rows :
  leaves_par (tbl_node dup rows) = concat (map tree_pars (grid dup None rows)).
Proof.
  unfold tbl_node. rewrite leaves_par_NL. unfold tree_pars at 1. rewrite map_map. reflexivity.
Qed.

Lemma tbl_node_unmerged dup rows :
  Forall (Forall plain_cell) rows -> leaves_par (tbl_node dup rows) = rows_pars rows.
Proof.
  intro H. rewrite tbl_node_pars, (grid_unmerged dup rows None H), map_map.
  unfold rows_pars. f_equal. apply map_ext. intro r. apply tree_pars_own.
Qed.

(* ---------- the blocks of the part ---------- *)
Lemma root_ok_blk ks :
  forallb root_ok ks = true -> forallb (fun k => is_blk k || no_par k) ks = true.
Proof.
  intro H. apply forallb_forall. intros k Hk.
  pose proof (proj1 (forallb_forall _ _) H k Hk) as R. unfold root_ok in R. unfold is_blk.
  destruct (simple_par k); [reflexivity|]. cbn [orb] in R |- *.
  destruct (flat_tbl k); [reflexivity|]. cbn [andb orb] in R |- *.
  exact (inert_plain k R).
Qed.

Lemma wp_part path e ks :
  mem_str (e_ptag e) depth_none_tags = true -> forallb root_ok ks = true ->
  wp_paths path (AE e ks)
  = concat (map (fun ik => wp_paths (fst ik :: path) (snd ik)) (sel is_blk ks 0)).
Proof.
  intros Hb Hok. destruct (depth_none_passive _ Hb) as [Hm _].
  destruct (passive_not_par_run _ Hm) as [Hp _].
  rewrite wp_paths_AE, Hp. cbn [app].
  exact (wp_kids_sel is_blk path ks 0 (root_ok_blk ks Hok)).
Qed.

(* the blocks whose tables are all without merged cells *)
Definition blk_unmerged (k : anode) : bool := negb (flat_tbl k) || tbl_unmerged k.

Lemma brel_paths_unmerged v path ik b :
  blk_unmerged (snd ik) = true -> brel v path ik b ->
  map p_elem (bpars (env_dup v) b) = map Some (wp_paths (fst ik :: path) (snd ik)).
Proof.
  intros Hu Hb. destruct b as [p|rows]; cbn [brel bpars] in *.
  - destruct Hb as (e & ks & Ek & Hsp & (E & _)). rewrite Ek, (wp_simple_par _ _ Hsp).
    cbn [map]. rewrite E. reflexivity.
  - destruct Hb as (_ & Hf & Hs). unfold blk_unmerged in Hu. rewrite Hf in Hu.
    cbn [negb orb] in Hu.
    rewrite (tbl_node_unmerged _ _ (tspec_unmerged _ _ _ _ _ Hu Hs)).
    exact (proj1 (tspec_paths _ _ _ _ Hf Hs)).
Qed.

Lemma forallb_sel_all (f P : anode -> bool) : forall ks i,
  forallb P ks = true -> Forall (fun ik => P (snd ik) = true) (sel f ks i).
Proof.
  induction ks as [|k r IH]; intros i H; [constructor|].
  cbn [forallb] in H. apply andb_true_iff in H. destruct H as [K1 K2].
  cbn [sel]. destruct (f k); [|exact (IH _ K2)].
  constructor; [exact K1|exact (IH _ K2)].
Qed.

(* (2) Tables WITHOUT merged cells (every gridSpan <= 1, no vMerge
   continuation): the records of the final tree, read in document order,
   point at the w:p elements of the part — the free ones and those in table
   cells — in document order, each exactly once: no paragraph is lost,
   duplicated or reordered, and there is no other record. *)
Theorem blocks_every_paragraph_once : forall v e ks path s,
  mem_str (e_ptag e) depth_none_tags = true -> forallb root_ok ks = true ->
  forallb blk_unmerged ks = true ->
  collect_from v path (AE e ks) = Ok s ->
  exists ps, pars_at 4 (c_tree s) = Ok ps /\
    map p_elem ps = map Some (wp_paths path (AE e ks)).
Proof.
  intros v e ks path s Hb Hok Hu H.
  destruct (blocks_tree_spec v e ks path s Hb Hok H) as (brs & HF & Ht).
  exists (tree_pars (unrev_list (c_tree s))). split; [exact (collect_pars _ _ _ _ H)|].
  rewrite Ht, spec_blocks_pars, (wp_part path e ks Hb Hok). cbn [app].
  rewrite !map_concat_map. symmetry. apply Forall2_concat_eq.
  pose proof (Forall2_and_l _ _ _ _ (forallb_sel_all is_blk blk_unmerged ks 0 Hu) HF) as HF'.
  eapply Forall2_weaken; [|exact HF'].
  intros ik b (U & Hbr). symmetry. exact (brel_paths_unmerged v path ik b U Hbr).
Qed.

(* ---------- tables WITH merged cells ---------- *)
(* The statement proposed for merged cells — "the same after removing the
   records with p_copy = true and the fills (p_elem = None)" — is FALSE of the
   model when duplicate_merged_cells is on: the own paragraphs of a vMerge
   continuation cell are dropped, the cell is overwritten by a copy of the
   cell above it (close_table_cell, vertical merge).  Counterexample: the
   2 x 2 table of GridWalk.ex22, whose cell (1,0) is a continuation holding
   the paragraph "B" (path [1;0;1;0;9]%nat): no record points at it. *)
Definition ex_body (ks : list anode) : anode :=
  AE (cx_einfo tag_BODY [98;111;100;121]%N []) ks.

Lemma blocks_every_paragraph_once_counterexample :
  exists v e ks path s ps,
    mem_str (e_ptag e) depth_none_tags = true /\ forallb root_ok ks = true /\
    collect_from v path (AE e ks) = Ok s /\ pars_at 4 (c_tree s) = Ok ps /\
    In [1;0;1;0;9]%nat (wp_paths path (AE e ks)) /\
    ~ In (Some [1;0;1;0;9]%nat) (map p_elem ps) /\
    map p_elem (filter is_own ps) <> map Some (wp_paths path (AE e ks)).
Proof.
  exists (ex_env true), (cx_einfo tag_BODY [98;111;100;121]%N []), [ex22], [9].
  eexists. eexists.
  split; [reflexivity|]. split; [vm_compute; reflexivity|].
  split; [vm_compute; reflexivity|]. split; [vm_compute; reflexivity|].
  split; [vm_compute; auto|].
  split; vm_compute.
  - intros [H|[H|[H|[H|[H|[]]]]]]; discriminate H.
  - discriminate.
Qed.

(* It holds when duplicate_merged_cells is off (a continuation cell keeps its
   own content, the extra columns of a gridSpan are fills), and when it is on
   provided no cell is a vMerge continuation (the extra columns of a gridSpan
   are copies).  [negb dup || ...] keeps the hypothesis one boolean. *)
Definition cell_mergeable (dup : bool) (k : anode) : bool :=
  negb dup ||
  match k with
  | AE e ks => match gather_Pr e ks with Ok pr => negb (is_continuation pr) | Err _ => true end
  | AX _ => true
  end.
Definition row_mergeable (dup : bool) (k : anode) : bool :=
  forallb (fun c => negb (flat_cell c) || cell_mergeable dup c) (kids_of k).
Definition tbl_mergeable (dup : bool) (k : anode) : bool :=
  forallb (fun r => negb (flat_row r) || row_mergeable dup r) (kids_of k).
Definition blk_mergeable (dup : bool) (k : anode) : bool :=
  negb (flat_tbl k) || tbl_mergeable dup k.

(* with duplicate_merged_cells off the hypothesis is void *)
Lemma blk_mergeable_false k : blk_mergeable false k = true.
Proof.
  unfold blk_mergeable. destruct (flat_tbl k); [|reflexivity]. cbn [negb orb].
  unfold tbl_mergeable. apply forallb_forall. intros r _.
  destruct (flat_row r); [|reflexivity]. cbn [negb orb].
  unfold row_mergeable. apply forallb_forall. intros c _.
  destruct (flat_cell c); reflexivity.
Qed.

(* a cell that contributes its own paragraphs first, whatever else follows *)
Definition mcell (dup : bool) (c : cellspec) : Prop :=
  (dup && cs_cont c)%bool = false /\ Forall (fun p => is_own p = true) (cell_pars c).

Lemma tspec_mergeable v path t rows dup :
  tbl_mergeable dup t = true -> tspec v false path t rows -> Forall (Forall (mcell dup)) rows.
Proof.
  intros Hu (e & ks & -> & HF). unfold tbl_mergeable in Hu. cbn [kids_of] in Hu.
  pose proof (Forall2_and_l _ _ _ _ (forallb_sel flat_row (row_mergeable dup) ks 0 Hu) HF) as HF'.
  eapply Forall2_Forall_r; [|exact HF'].
  intros ik r (Ur & (e' & ks' & Er & HC)). cbv beta in Ur. rewrite Er in Ur.
  unfold row_mergeable in Ur. cbn [kids_of] in Ur.
  pose proof (Forall2_and_l _ _ _ _ (forallb_sel flat_cell (cell_mergeable dup) ks' 0 Ur) HC) as HC'.
  eapply Forall2_Forall_r; [|exact HC'].
  intros jk c (Uc & (e2 & ks2 & pr & g & ps & Ec & Epr & _ & _ & Ect & Eo & HP)).
  cbv beta in Uc. rewrite Ec in Uc. unfold cell_mergeable in Uc. rewrite Epr in Uc.
  split.
  - rewrite Ect. destruct dup; [|reflexivity]. cbn [negb orb] in Uc.
    apply negb_true_iff in Uc. rewrite Uc. reflexivity.
  - unfold cell_pars. rewrite Eo, leaves_par_NL, tree_pars_NP.
    eapply Forall2_Forall_r; [|exact HP].
    intros lk p (e3 & ks3 & _ & Pd). exact (par_desc_own _ _ _ _ _ _ _ _ Pd).
Qed.

Lemma filter_all {A} (f : A -> bool) l : Forall (fun a => f a = true) l -> filter f l = l.
Proof. induction 1 as [|a r Ha _ IH]; [reflexivity|]. cbn [filter]. rewrite Ha, IH. reflexivity. Qed.

Lemma filter_concat_map {A B} (f : B -> bool) (g : A -> list B) (l : list A) :
  filter f (concat (map g l)) = concat (map (fun a => filter f (g a)) l).
Proof.
  induction l as [|a r IH]; [reflexivity|]. cbn [map concat]. rewrite filter_app, IH. reflexivity.
Qed.

Lemma copy_not_own : forall n, filter is_own (leaves_par (copy_node n)) = [].
Proof.
  induction n as [p|l IH] using TokFacts.node_ind'; [reflexivity|].
  cbn [copy_node]. rewrite leaves_par_NL. unfold tree_pars. rewrite map_map, filter_concat_map.
  induction IH as [|x r Hx _ IHr]; [reflexivity|]. cbn [map concat]. rewrite Hx, IHr. reflexivity.
Qed.

Lemma filler_not_own dup res : filter is_own (leaves_par (filler dup res)) = [].
Proof. unfold filler. destruct dup; [apply copy_not_own|reflexivity]. Qed.

Lemma repeat_filler_not_own dup res : forall n,
  filter is_own (tree_pars (repeat (filler dup res) n)) = [].
Proof.
  induction n as [|n IH]; [reflexivity|]. cbn [repeat]. rewrite tree_pars_cons, filter_app.
  rewrite filler_not_own, IH. reflexivity.
Qed.

Lemma grid_row_own_pars dup prev : forall cells acc,
  Forall (mcell dup) cells ->
  filter is_own (tree_pars (grid_row dup prev cells acc))
  = filter is_own (tree_pars acc) ++ row_pars cells.
Proof.
  induction cells as [|c r IH]; intros acc H.
  - cbn [grid_row]. unfold row_pars. cbn [map concat]. rewrite app_nil_r. reflexivity.
  - inversion H as [|? ? [Hc Ho] Hr]; subst.
    rewrite grid_row_cons, (IH _ Hr), tree_pars_app, filter_app, <- app_assoc. f_equal.
    unfold row_pars. cbn [map concat]. f_equal.
    unfold cell_block. rewrite tree_pars_cons, filter_app, repeat_filler_not_own, app_nil_r.
    assert (R : cell_res dup prev (length acc) c = cs_own c).
    { unfold cell_res. rewrite Hc. reflexivity. }
    rewrite R. exact (filter_all _ _ Ho).
Qed.

Lemma grid_own_pars dup : forall rows prev,
  Forall (Forall (mcell dup)) rows ->
  filter is_own (concat (map tree_pars (grid dup prev rows))) = rows_pars rows.
Proof.
  induction rows as [|r rest IH]; intros prev H; [reflexivity|].
  inversion H as [|? ? Hr Hrest]; subst. cbn [grid map concat]. cbv zeta.
  rewrite filter_app, (IH _ Hrest), (grid_row_own_pars dup prev r [] Hr). reflexivity.
Qed.

Lemma brel_paths_mergeable v path ik b :
  blk_mergeable (env_dup v) (snd ik) = true -> brel v path ik b ->
  map p_elem (filter is_own (bpars (env_dup v) b))
  = map Some (wp_paths (fst ik :: path) (snd ik)).
Proof.
  intros Hu Hb. destruct b as [p|rows]; cbn [brel bpars] in *.
  - destruct Hb as (e & ks & Ek & Hsp & Pd). rewrite Ek, (wp_simple_par _ _ Hsp).
    cbn [filter]. rewrite (par_desc_own _ _ _ _ _ _ _ _ Pd). destruct Pd as (E & _).
    cbn [map]. rewrite E. reflexivity.
  - destruct Hb as (_ & Hf & Hs). unfold blk_mergeable in Hu. rewrite Hf in Hu.
    cbn [negb orb] in Hu.
    rewrite tbl_node_pars, (grid_own_pars _ _ None (tspec_mergeable _ _ _ _ _ Hu Hs)).
    exact (proj1 (tspec_paths _ _ _ _ Hf Hs)).
Qed.

(* (2, merged cells) keeping only the records made for a source paragraph
   (not a copy, not a fill), they point at the w:p elements of the part in
   document order, each exactly once *)
Theorem blocks_every_paragraph_once_partial : forall v e ks path s,
  mem_str (e_ptag e) depth_none_tags = true -> forallb root_ok ks = true ->
  forallb (blk_mergeable (env_dup v)) ks = true ->
  collect_from v path (AE e ks) = Ok s ->
  exists ps, pars_at 4 (c_tree s) = Ok ps /\
    map p_elem (filter is_own ps) = map Some (wp_paths path (AE e ks)).
Proof.
  intros v e ks path s Hb Hok Hu H.
  destruct (blocks_tree_spec v e ks path s Hb Hok H) as (brs & HF & Ht).
  exists (tree_pars (unrev_list (c_tree s))). split; [exact (collect_pars _ _ _ _ H)|].
  rewrite Ht, spec_blocks_pars, (wp_part path e ks Hb Hok). cbn [app].
  rewrite filter_concat_map, !map_concat_map. symmetry. apply Forall2_concat_eq.
  pose proof (Forall2_and_l _ _ _ _
                (forallb_sel_all is_blk (blk_mergeable (env_dup v)) ks 0 Hu) HF) as HF'.
  eapply Forall2_weaken; [|exact HF'].
  intros ik b (U & Hbr). symmetry. exact (brel_paths_mergeable v path ik b U Hbr).
Qed.

(* with duplicate_merged_cells off, for every such part *)
Corollary blocks_every_paragraph_once_nodup : forall v e ks path s,
  env_dup v = false ->
  mem_str (e_ptag e) depth_none_tags = true -> forallb root_ok ks = true ->
  collect_from v path (AE e ks) = Ok s ->
  exists ps, pars_at 4 (c_tree s) = Ok ps /\
    map p_elem (filter is_own ps) = map Some (wp_paths path (AE e ks)).
Proof.
  intros v e ks path s Hd Hb Hok H.
  apply (blocks_every_paragraph_once_partial v e ks path s Hb Hok); [|exact H].
  rewrite Hd. apply forallb_forall. intros k _. apply blk_mergeable_false.
Qed.

(* ================================================================== *)
(* PART 6 — text never migrates between paragraphs                      *)
(* ================================================================== *)
(* the element reached from t by the child positions [steps], outermost
   first *)
Fixpoint elem_at (t : anode) (steps : list nat) : option anode :=
  match steps with
  | [] => Some t
  | i :: r =>
      match t with
      | AE _ ks => match nth_error ks i with Some k => elem_at k r | None => None end
      | AX _ => None
      end
  end.

(* What every record of the output must satisfy, relative to the part [root]
   found at [path]:
   - a record that points at a source element (p_elem = Some pth) points at
     a simple paragraph of the part, and its tokens are exactly that
     paragraph's own contributions: the list marker, then what its children
     emit, in order (copies made for merged cells included);
   - a record that points nowhere (the fill of a merged cell) has no runs. *)
Definition rec_ok (v : env) (path : list nat) (root : anode) (p : par) : Prop :=
  match p_elem p with
  | None => p_runs p = [] /\ p_hstyle p = []
  | Some pth =>
      exists steps e ks,
        pth = rev steps ++ path /\ elem_at root steps = Some (AE e ks) /\
        simple_par (AE e ks) = true /\ get_pStyle e ks = Ok (p_style p) /\
        exists bl number ems,
          get_bullet (to_numtable v) (get_bullet_fmt (AE e ks)) number = Ok bl /\
          emit_list v pth ks 0 = Ok ems /\
          toks_of (p_runs p) = raw bl ++ concat ems
  end.

Lemma par_desc_rec_ok v pth e ks a b c p :
  simple_par (AE e ks) = true -> par_desc v pth e ks a b c p -> rec_ok v pth (AE e ks) p.
Proof.
  intros Hsp (E & _ & _ & St & Tk). unfold rec_ok. rewrite E.
  exists [], e, ks. cbn [rev app elem_at]. auto.
Qed.

Lemma rec_ok_lift v path e ks i t p :
  nth_error ks i = Some t -> rec_ok v (i :: path) t p -> rec_ok v path (AE e ks) p.
Proof.
  intros Hn. unfold rec_ok. destruct (p_elem p) as [pth|]; [|auto].
  intros (steps & e' & ks' & Ep & Ea & R). exists (i :: steps), e', ks'.
  split; [cbn [rev]; rewrite <- app_assoc; exact Ep|].
  split; [cbn [elem_at]; rewrite Hn; exact Ea|exact R].
Qed.

Lemma rec_ok_copy v path root p :
  rec_ok v path root p ->
  rec_ok v path root {| p_elem := p_elem p; p_copy := true; p_hstyle := p_hstyle p;
                        p_style := p_style p; p_lineage := p_lineage p; p_runs := p_runs p;
                        p_listpos := p_listpos p |}.
Proof. intro H. exact H. Qed.

Definition node_ok (Q : par -> Prop) (n : node) : Prop := Forall Q (leaves_par n).

Lemma node_ok_NL Q l : node_ok Q (NL l) <-> Forall (node_ok Q) l.
Proof.
  unfold node_ok. rewrite leaves_par_NL. unfold tree_pars. split.
  - induction l as [|x r IH]; intro H; [constructor|].
    cbn [map concat] in H. apply Forall_app in H. destruct H as [H1 H2].
    constructor; [exact H1|exact (IH H2)].
  - intro H. apply Forall_concat. apply Forall_map. exact H.
Qed.

Section GridOk.
  Variable Q : par -> Prop.
  Hypothesis Qcopy : forall p,
    Q p -> Q {| p_elem := p_elem p; p_copy := true; p_hstyle := p_hstyle p;
                p_style := p_style p; p_lineage := p_lineage p; p_runs := p_runs p;
                p_listpos := p_listpos p |}.
  Hypothesis Qblank : Q new_empty_par.

  Lemma copy_node_ok : forall n, node_ok Q n -> node_ok Q (copy_node n).
  Proof.
    induction n as [p|l IH] using TokFacts.node_ind'; intro H.
    - unfold node_ok in *. cbn [copy_node leaves_par] in *.
      inversion H as [|? ? Hp _]; subst. constructor; [apply Qcopy; exact Hp|constructor].
    - cbn [copy_node]. apply node_ok_NL in H. apply node_ok_NL. apply Forall_map.
      clear - IH H. induction IH as [|x r Hx _ IHr]; [constructor|].
      inversion H as [|? ? Hx' Hr']; subst. constructor; auto.
  Qed.

  Lemma blank_cell_ok : node_ok Q blank_cell.
  Proof. unfold node_ok. cbn. constructor; [exact Qblank|constructor]. Qed.

  Definition prev_ok (prev : option (list node)) : Prop :=
    match prev with Some p => Forall (node_ok Q) p | None => True end.

  Lemma cell_res_ok dup prev j c :
    prev_ok prev -> node_ok Q (cs_own c) -> node_ok Q (cell_res dup prev j c).
  Proof.
    intros Hp Hc. unfold cell_res. destruct (dup && cs_cont c)%bool; [|exact Hc].
    destruct prev as [p|]; [|exact Hc].
    destruct (nth_error p j) as [src|] eqn:E; [|exact Hc].
    apply copy_node_ok. apply nth_error_In in E.
    exact (proj1 (Forall_forall _ _) Hp src E).
  Qed.

  Lemma grid_row_ok dup prev : forall cells acc,
    prev_ok prev -> Forall (fun c => node_ok Q (cs_own c)) cells -> Forall (node_ok Q) acc ->
    Forall (node_ok Q) (grid_row dup prev cells acc).
  Proof.
    induction cells as [|c r IH]; intros acc Hp Hc Ha; [exact Ha|].
    inversion Hc as [|? ? H1 H2]; subst. rewrite grid_row_cons. apply IH; [exact Hp|exact H2|].
    apply Forall_app. split; [exact Ha|].
    pose proof (cell_res_ok dup prev (length acc) c Hp H1) as R.
    unfold cell_block. constructor; [exact R|].
    apply Forall_forall. intros x Hx. apply repeat_spec in Hx. subst x.
    unfold filler. destruct dup; [apply copy_node_ok; exact R|exact blank_cell_ok].
  Qed.

  Lemma grid_ok dup : forall rows prev,
    prev_ok prev -> Forall (Forall (fun c => node_ok Q (cs_own c))) rows ->
    Forall (Forall (node_ok Q)) (grid dup prev rows).
  Proof.
    induction rows as [|r rest IH]; intros prev Hp H; [constructor|].
    inversion H as [|? ? Hr Hrest]; subst. cbn [grid]. cbv zeta.
    pose proof (grid_row_ok dup prev r [] Hp Hr (Forall_nil _)) as R.
    constructor; [exact R|]. apply IH; [exact R|exact Hrest].
  Qed.

  Lemma tbl_node_ok dup rows :
    Forall (Forall (fun c => node_ok Q (cs_own c))) rows -> node_ok Q (tbl_node dup rows).
  Proof.
    intro H. unfold tbl_node. apply node_ok_NL. apply Forall_map.
    eapply Forall_impl; [|exact (grid_ok dup rows None I H)].
    intros r Hr. apply node_ok_NL. exact Hr.
  Qed.
End GridOk.

Lemma cspec_rec_ok v lt ltr path ik c :
  cspec v false lt ltr path ik c -> node_ok (rec_ok v (fst ik :: path) (snd ik)) (cs_own c).
Proof.
  intros (e & ks & pr & g & ps & Ek & _ & _ & _ & _ & Eo & HF).
  unfold node_ok. rewrite Eo, leaves_par_NL, tree_pars_NP, Ek.
  pose proof (Forall2_and_l _ _ _ _ (sel_facts simple_par ks 0) HF) as HF'.
  eapply Forall2_Forall_r; [|exact HF'].
  intros jk p ((Hsp & _ & Hn) & (e' & ks' & Ej & Pd)).
  rewrite Nat.sub_0_r in Hn. apply (rec_ok_lift v _ e ks (fst jk) (snd jk) p Hn).
  rewrite Ej in Hsp |- *. exact (par_desc_rec_ok _ _ _ _ _ _ _ _ Hsp Pd).
Qed.

Lemma node_ok_impl (Q Q' : par -> Prop) n : (forall p, Q p -> Q' p) -> node_ok Q n -> node_ok Q' n.
Proof. intros H. unfold node_ok. apply Forall_impl. exact H. Qed.

Lemma rspec_rec_ok v lt path ik r :
  rspec v false lt path ik r ->
  Forall (fun c => node_ok (rec_ok v (fst ik :: path) (snd ik)) (cs_own c)) r.
Proof.
  intros (e & ks & Ek & HF). rewrite Ek.
  pose proof (Forall2_and_l _ _ _ _ (sel_facts flat_cell ks 0) HF) as HF'.
  eapply Forall2_Forall_r; [|exact HF'].
  intros jk c ((_ & _ & Hn) & Hc). rewrite Nat.sub_0_r in Hn.
  eapply node_ok_impl; [|exact (cspec_rec_ok _ _ _ _ _ _ Hc)].
  intros p. exact (rec_ok_lift v _ e ks (fst jk) (snd jk) p Hn).
Qed.

Lemma tspec_rec_ok v path t rows :
  tspec v false path t rows ->
  Forall (Forall (fun c => node_ok (rec_ok v path t) (cs_own c))) rows.
Proof.
  intros (e & ks & -> & HF).
  pose proof (Forall2_and_l _ _ _ _ (sel_facts flat_row ks 0) HF) as HF'.
  eapply Forall2_Forall_r; [|exact HF'].
  intros jk r ((_ & _ & Hn) & Hr). rewrite Nat.sub_0_r in Hn.
  eapply Forall_impl; [|exact (rspec_rec_ok _ _ _ _ _ Hr)].
  intros c. apply node_ok_impl. intros p.
  exact (rec_ok_lift v _ e ks (fst jk) (snd jk) p Hn).
Qed.

Lemma rec_ok_blank v path root : rec_ok v path root new_empty_par.
Proof. unfold rec_ok. cbn. auto. Qed.

(* (3) Every record of the final tree that points at a source element points
   at a simple paragraph of the part, and its tokens are exactly that
   paragraph's own contributions (list marker, then the emissions of its
   children in order); the records that point nowhere carry no text.  So text
   never migrates between paragraphs and nothing is emitted that does not
   derive from the part.  No hypothesis on merged cells is needed: the copies
   made for merged cells carry the text of the paragraph they point at. *)
Theorem blocks_text_of_paragraph : forall v e ks path s ps,
  mem_str (e_ptag e) depth_none_tags = true -> forallb root_ok ks = true ->
  collect_from v path (AE e ks) = Ok s -> pars_at 4 (c_tree s) = Ok ps ->
  Forall (rec_ok v path (AE e ks)) ps.
Proof.
  intros v e ks path s ps Hb Hok H Hps.
  destruct (blocks_tree_spec v e ks path s Hb Hok H) as (brs & HF & Ht).
  rewrite (pars_at_unrev _ _ _ Hps), Ht, spec_blocks_pars. cbn [app].
  apply Forall_concat. apply Forall_map.
  pose proof (Forall2_and_l _ _ _ _ (sel_facts is_blk ks 0) HF) as HF'.
  eapply Forall2_Forall_r; [|exact HF'].
  intros ik b ((_ & _ & Hn) & Hbr). rewrite Nat.sub_0_r in Hn.
  destruct b as [p|rows]; cbn [brel bpars] in *.
  - destruct Hbr as (e' & ks' & Ek & Hsp & Pd). constructor; [|constructor].
    apply (rec_ok_lift v _ e ks (fst ik) (snd ik) p Hn). rewrite Ek.
    exact (par_desc_rec_ok _ _ _ _ _ _ _ _ Hsp Pd).
  - destruct Hbr as (_ & _ & Hs).
    eapply (node_ok_impl (rec_ok v (fst ik :: path) (snd ik))).
    { intros p. exact (rec_ok_lift v _ e ks (fst ik) (snd ik) p Hn). }
    apply tbl_node_ok; [intros p Hp; exact (rec_ok_copy _ _ _ _ Hp)|apply rec_ok_blank|].
    exact (tspec_rec_ok _ _ _ _ Hs).
Qed.

(* ================================================================== *)
(* PART 7 — examples                                                    *)
(* ================================================================== *)
(* <w:sectPr/> : an inert child of the body *)
Definition ex_sect : anode :=
  AE (cx_einfo [119;58;115;101;99;116;80;114]%N [115;101;99;116;80;114]%N []) [].

(* a 2 x 2 table whose first row is one cell with gridSpan = 2:
     row 0:  [ A, gridSpan = 2 ]
     row 1:  [ B ] [ C, D ]                                              *)
Definition ex22g : anode :=
  ex_tbl_of
    [ex_tr [ex_tc [ex_tcPr [ex_gridSpan2]; ex_par [65%N]]];
     ex_tr [ex_tc [ex_par [66%N]];
            ex_tc [ex_par [67%N]; ex_par [68%N]]]].

Definition ex_body_e : einfo := cx_einfo tag_BODY [98;111;100;121]%N [].

(* body = paragraph P, the table, paragraph Q, paragraph R, sectPr *)
Definition ex_part : anode :=
  ex_body [ex_par [80%N]; ex22g; ex_par [81%N]; ex_par [82%N]; ex_sect].

(* a view of the final tree: per table, per row, per cell, the
   (p_elem, p_copy, characters) of the records *)
Definition chars (p : par) : list N :=
  concat (map (fun t => match t with TTxt c => [c] | TRaw c => [c] | _ => [] end)
              (toks_of (p_runs p))).
Fixpoint nview (n : node) : list (option (list nat) * bool * list N) :=
  match n with
  | NP p => [(p_elem p, p_copy p, chars p)]
  | NL l => concat (map nview l)
  end.
Definition tview (n : node) : list (list (list (option (list nat) * bool * list N))) :=
  match n with
  | NL rows => map (fun r => match r with NL cells => map nview cells | NP _ => [] end) rows
  | NP _ => []
  end.

Example ex_part_hypotheses :
  mem_str tag_BODY depth_none_tags = true /\
  forallb root_ok (kids_of ex_part) = true /\
  forallb (blk_mergeable true) (kids_of ex_part) = true /\
  forallb (blk_mergeable false) (kids_of ex_part) = true /\
  forallb blk_unmerged (kids_of ex_part) = false /\
  wp_paths [9] ex_part
  = [[0;9]; [1;0;0;1;9]; [0;0;1;1;9]; [0;1;1;1;9]; [1;1;1;1;9]; [2;9]; [3;9]].
Proof. repeat split; vm_compute; reflexivity. Qed.

(* duplicate_merged_cells = True: the free paragraph P alone in a table of its
   own, the grid table (the merged column repeats A as a copy), and ONE table
   for the run Q, R *)
Example ex_part_dup_true :
  exists s, collect_from (ex_env true) [9] ex_part = Ok s /\
    map tview (unrev_list (c_tree s))
    = [ [ [ [(Some [0;9], false, [80%N])] ] ];
        [ [ [(Some [1;0;0;1;9], false, [65%N])]; [(Some [1;0;0;1;9], true, [65%N])] ];
          [ [(Some [0;0;1;1;9], false, [66%N])];
            [(Some [0;1;1;1;9], false, [67%N]); (Some [1;1;1;1;9], false, [68%N])] ] ];
        [ [ [(Some [2;9], false, [81%N]); (Some [3;9], false, [82%N])] ] ] ].
Proof. eexists. split; vm_compute; reflexivity. Qed.

(* duplicate_merged_cells = False: the merged column is one empty paragraph *)
Example ex_part_dup_false :
  exists s, collect_from (ex_env false) [9] ex_part = Ok s /\
    map tview (unrev_list (c_tree s))
    = [ [ [ [(Some [0;9], false, [80%N])] ] ];
        [ [ [(Some [1;0;0;1;9], false, [65%N])]; [(None, false, [])] ];
          [ [(Some [0;0;1;1;9], false, [66%N])];
            [(Some [0;1;1;1;9], false, [67%N]); (Some [1;1;1;1;9], false, [68%N])] ] ];
        [ [ [(Some [2;9], false, [81%N]); (Some [3;9], false, [82%N])] ] ] ].
Proof. eexists. split; vm_compute; reflexivity. Qed.

(* the theorems applied to the example, for both settings at once *)
Example ex_part_tree : forall d s,
  collect_from (ex_env d) [9] ex_part = Ok s ->
  exists p0 rows p2 p3,
    unrev_list (c_tree s)
    = [NL [NL [NL [NP p0]]]; tbl_node d rows; NL [NL [NL [NP p2; NP p3]]]] /\
    p_elem p0 = Some [0;9] /\ p_elem p2 = Some [2;9] /\ p_elem p3 = Some [3;9] /\
    p_lineage p0 = (None, None, None, Some [112%N]) /\
    tspec (ex_env d) false [1;9] ex22g rows.
Proof.
  intros d s H.
  destruct ex_part_hypotheses as (Hb & Hok & _).
  destruct (blocks_tree_spec (ex_env d) ex_body_e (kids_of ex_part) [9] s Hb Hok H) as (brs & HF & Ht).
  change (sel is_blk (kids_of ex_part) 0)
    with [(0, ex_par [80%N]); (1, ex22g); (2, ex_par [81%N]); (3, ex_par [82%N])] in HF.
  inversion HF as [|ik0 b0 l0 r0 B0 HF0]; subst.
  inversion HF0 as [|ik1 b1 l1 r1 B1 HF1]; subst.
  inversion HF1 as [|ik2 b2 l2 r2 B2 HF2]; subst.
  inversion HF2 as [|ik3 b3 l3 r3 B3 HF3]; subst.
  inversion HF3; subst. clear HF HF0 HF1 HF2 HF3.
  destruct b0 as [p0|x]; [|destruct B0 as (B0 & _); discriminate B0].
  destruct b1 as [x|rows].
  { destruct B1 as (e1 & ks1 & E1 & B1 & _). cbn [snd] in E1. rewrite <- E1 in B1.
    vm_compute in B1. discriminate B1. }
  destruct b2 as [p2|x]; [|destruct B2 as (B2 & _); discriminate B2].
  destruct b3 as [p3|x]; [|destruct B3 as (B3 & _); discriminate B3].
  destruct B0 as (e0 & ks0 & E0 & _ & (P0 & _ & L0 & _)). cbn [snd] in E0. injection E0 as <- <-.
  destruct B1 as (_ & _ & T1).
  destruct B2 as (e2 & ks2 & _ & _ & (P2 & _)).
  destruct B3 as (e3 & ks3 & _ & _ & (P3 & _)).
  exists p0, rows, p2, p3. cbn [fst snd] in *.
  split; [exact Ht|]. auto 10.
Qed.

Example ex_part_every_paragraph_once : forall d s,
  collect_from (ex_env d) [9] ex_part = Ok s ->
  exists ps, pars_at 4 (c_tree s) = Ok ps /\
    map p_elem (filter is_own ps)
    = map Some [[0;9]; [1;0;0;1;9]; [0;0;1;1;9]; [0;1;1;1;9]; [1;1;1;1;9]; [2;9]; [3;9]].
Proof.
  intros d s H.
  destruct ex_part_hypotheses as (Hb & Hok & Mt & Mf & _ & W).
  rewrite <- W.
  apply (blocks_every_paragraph_once_partial (ex_env d) ex_body_e (kids_of ex_part) [9] s Hb Hok);
    [|exact H].
  destruct d; [exact Mt|exact Mf].
Qed.

(* a part whose table has no merged cells: the unrestricted order theorem *)
Definition ex22p : anode :=
  ex_tbl_of
    [ex_tr [ex_tc [ex_par [65%N]]; ex_tc [ex_tcPr []; ex_par [66%N]]];
     ex_tr [ex_tc [ex_par [67%N]]; ex_tc [ex_par [68%N]; ex_par [69%N]]]].
Definition ex_part_plain : anode :=
  ex_body [ex_sect; ex22p; ex_par [80%N]; ex_sect; ex_par [81%N]; ex22p].

Example ex_part_plain_once : forall d s,
  collect_from (ex_env d) [9] ex_part_plain = Ok s ->
  exists ps, pars_at 4 (c_tree s) = Ok ps /\
    map p_elem ps
    = map Some [[0;0;0;1;9]; [1;1;0;1;9]; [0;0;1;1;9]; [0;1;1;1;9]; [1;1;1;1;9];
                [2;9]; [4;9];
                [0;0;0;5;9]; [1;1;0;5;9]; [0;0;1;5;9]; [0;1;1;5;9]; [1;1;1;5;9]].
Proof.
  intros d s H.
  assert (W : wp_paths [9] ex_part_plain
              = [[0;0;0;1;9]; [1;1;0;1;9]; [0;0;1;1;9]; [0;1;1;1;9]; [1;1;1;1;9];
                 [2;9]; [4;9];
                 [0;0;0;5;9]; [1;1;0;5;9]; [0;0;1;5;9]; [0;1;1;5;9]; [1;1;1;5;9]])
    by (vm_compute; reflexivity).
  rewrite <- W.
  apply (blocks_every_paragraph_once (ex_env d) ex_body_e (kids_of ex_part_plain) [9] s);
    [reflexivity| | |exact H];
    vm_compute; reflexivity.
Qed.

(* how free paragraphs are grouped: an inert child (sectPr) between P and Q
   does not interrupt the run, the table does; so [[ [P; Q] ]], the grid
   table, [[ [R] ]] *)
Example ex_grouping : forall d,
  exists s, collect_from (ex_env d) [9]
              (ex_body [ex_par [80%N]; ex_sect; ex_par [81%N]; ex22p; ex_sect; ex_par [82%N]])
            = Ok s /\
    map tview (unrev_list (c_tree s))
    = [ [ [ [(Some [0;9], false, [80%N]); (Some [2;9], false, [81%N])] ] ];
        [ [ [(Some [0;0;0;3;9], false, [65%N])]; [(Some [1;1;0;3;9], false, [66%N])] ];
          [ [(Some [0;0;1;3;9], false, [67%N])];
            [(Some [0;1;1;3;9], false, [68%N]); (Some [1;1;1;3;9], false, [69%N])] ] ];
        [ [ [(Some [5;9], false, [82%N])] ] ] ].
Proof. intros [|]; eexists; split; vm_compute; reflexivity. Qed.

(* the records of the example carry the text of the paragraph they point at *)
Example ex_part_text : forall d s ps,
  collect_from (ex_env d) [9] ex_part = Ok s -> pars_at 4 (c_tree s) = Ok ps ->
  Forall (rec_ok (ex_env d) [9] ex_part) ps.
Proof.
  intros d s ps H Hps. destruct ex_part_hypotheses as (Hb & Hok & _).
  exact (blocks_text_of_paragraph (ex_env d) ex_body_e (kids_of ex_part) [9] s ps Hb Hok H Hps).
Qed.

Print Assumptions par_step.
Print Assumptions tbl_walk_clean.
Print Assumptions root_kids.
Print Assumptions blocks_tree_spec.
Print Assumptions document_tree_spec.
Print Assumptions pars_at_unrev.
Print Assumptions blocks_every_paragraph_once.
Print Assumptions blocks_every_paragraph_once_counterexample.
Print Assumptions blocks_every_paragraph_once_partial.
Print Assumptions blocks_every_paragraph_once_nodup.
Print Assumptions blocks_text_of_paragraph.
Print Assumptions ex_part_hypotheses.
Print Assumptions ex_part_dup_true.
Print Assumptions ex_part_dup_false.
Print Assumptions ex_part_tree.
Print Assumptions ex_part_every_paragraph_once.
Print Assumptions ex_part_plain_once.
Print Assumptions ex_grouping.
Print Assumptions ex_part_text.
