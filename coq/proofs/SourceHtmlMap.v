(* SourceHtmlMap.v — iterators.get_html_map AS TRANSLATED FROM THE SOURCE TEXT with the heap
   embedding (gen/SourceHeapViews.v) does not modify its argument (C20: "The html map is computed
   without modifying its argument"): it works on a copy.deepcopy of the argument, every in-place
   assignment `tables_Ndeep[i]...[k] = ...` lands in that copy, and the result is a string. *)
From Coq Require Import List NArith ZArith Bool Arith Lia.
From D2P Require Import Str Err PyVal PyHeap SourceHeapViews SourceFresh.
Import ListNotations.

(* blocks that keep the heap *)
Definition bkeep {S} (b : hb S) : Prop :=
  forall h, match b h with HNx _ h' => h' = h | HRt _ h' => h' = h | HEx _ _ => True end.
Lemma bkeep_binde : forall {A S} (m : hm A) (k : A -> hb S) (P : A -> Prop),
  hpure m P -> (forall a, bkeep (k a)) -> bkeep (hbinde m k).
Proof.
  unfold bkeep, hbinde; intros. destruct (m h) eqn:E; auto.
  apply H in E. destruct E as [-> _]. apply H0.
Qed.
Lemma bkeep_bindo : forall {S T} (b : hb S) (k : S -> hb T),
  bkeep b -> (forall s, bkeep (k s)) -> bkeep (hbindo b k).
Proof.
  unfold bkeep, hbindo; intros. specialize (H h). destruct (b h) eqn:E; auto.
  subst. apply H0.
Qed.
Lemma bkeep_hnx : forall {S} (s : S), bkeep (hnx s).
Proof. unfold bkeep, hnx; auto. Qed.
Lemma bkeep_hrt : forall {S} v, bkeep (S:=S) (hrt v).
Proof. unfold bkeep, hrt; auto. Qed.
Lemma bkeep_hex : forall {S} e, bkeep (S:=S) (hex e).
Proof. unfold bkeep, hex; auto. Qed.
Lemma bkeep_for_go : forall {S} (body : pv -> S -> hb S),
  (forall x s, bkeep (body x s)) -> forall l s, bkeep (hfor_go body l s).
Proof.
  induction l; simpl; intros.
  - apply bkeep_hnx.
  - apply bkeep_bindo; auto.
Qed.
Lemma bkeep_for : forall {S} it (body : pv -> S -> hb S) s,
  (forall x s, bkeep (body x s)) -> bkeep (hy_for it body s).
Proof.
  intros. unfold hy_for. eapply bkeep_binde; [apply hpure_items|]. intros; apply bkeep_for_go; auto.
Qed.
Lemma hpure_fn_keep : forall {S} (b : hb S), bkeep b -> hpure (hfn_result b) anyv.
Proof.
  unfold bkeep, hpure, hfn_result, anyv; intros. specialize (H h).
  destruct (b h); inversion H0; subst; auto.
Qed.
Lemma hpure_enumerate : forall x, hpure (hy_enumerate x) anyv.
Proof.
  intros. unfold hy_enumerate. eapply hpure_bind; [apply hpure_items|]. intros; apply hpure_ret; exact I.
Qed.
Lemma hpure_unpack2 : forall x, hpure (hy_unpack2 x) anyv.
Proof.
  intros. unfold hy_unpack2. eapply hpure_bind; [apply hpure_items|]. intros l _.
  destruct l as [|a [|b [|c r]]]; try (intros ? ? ? H; discriminate). apply hpure_ret; exact I.
Qed.
Lemma hpure_any : forall {A} (m : hm A) P, hpure m P -> hpure m anyv.
Proof. intros. eapply hpure_weaken; eauto. intros; exact I. Qed.

Ltac bk IH :=
  repeat first
    [ apply bkeep_hnx | apply bkeep_hrt | apply bkeep_hex
    | apply bkeep_for; intros
    | apply bkeep_bindo; [|intros]
    | match goal with |- bkeep (if ?c then _ else _) => destruct c end
    | match goal with |- bkeep (match ?p with (_, _) => _ end) => destruct p end
    | eapply bkeep_binde;
        [ first [ apply hpure_lift_any | apply hpure_truth | apply hpure_enumerate
                | apply hpure_unpack2 | apply hpure_items | apply (hpure_ret _ anyv I)
                | apply IH ] | intros ] ].

Lemma enum_hpure : forall fuel x d, hpure (S_HV_enum_at_depth fuel x d) anyv.
Proof.
  induction fuel; intros x d.
  - intros h r h' H; discriminate.
  - cbn [S_HV_enum_at_depth]. apply hpure_fn_keep.
    eapply bkeep_binde; [apply hpure_lift_any|]. intros t1.
    eapply bkeep_binde; [apply hpure_truth|]. intros t2.
    destruct t2.
    + eapply bkeep_binde.
      { eapply hpure_any. eapply hpure_bind; [apply hpure_enumerate|]. intros t3 _.
        eapply hpure_comp with (R := anyv) (P := anyv); [apply hpure_items| |].
        - intros; apply hpure_halways.
        - intros. eapply hpure_bind; [apply hpure_unpack2|]. intros [t5 t6] _.
          eapply hpure_bind; [apply (hpure_ret _ anyv I)|]. intros ? _.
          eapply hpure_bind; [apply (hpure_ret _ anyv I)|]. intros ? _.
          apply hpure_ret. repeat constructor. }
      intros t7. bk IHfuel.
    + bk IHfuel.
Qed.

Theorem hv_enum_at_depth_pure : forall fuel x d h v h',
  S_HV_enum_at_depth fuel x d h = HOk v h' -> h' = h.
Proof. intros. apply enum_hpure in H. tauto. Qed.
(* ================= copy.deepcopy ================= *)
(* a value that is not a reference into the old region [0, n0) *)
Definition vok (n0 len : nat) (v : pv) : Prop :=
  match v with VRef b => (n0 <= b /\ b < len)%nat | _ => True end.
(* every cell of the new region is a list whose references stay in the new region *)
Definition closed (n0 : nat) (hc : heap) : Prop :=
  forall a, (n0 <= a)%nat -> (a < length hc)%nat ->
    exists l, h_get a hc = Some (HList l) /\ Forall (vok n0 (length hc)) l.

Lemma vok_mono : forall n0 len len' v, (len <= len')%nat -> vok n0 len v -> vok n0 len' v.
Proof. destruct v; simpl; auto. lia. Qed.
Lemma Forall_vok_mono : forall n0 len len' l, (len <= len')%nat ->
  Forall (vok n0 len) l -> Forall (vok n0 len') l.
Proof. intros. eapply Forall_impl; [|exact H0]. intros; eapply vok_mono; eauto. Qed.

Lemma closed_alloc : forall n0 hc l, closed n0 hc -> Forall (vok n0 (S (length hc))) l ->
  closed n0 (hc ++ [HList l]).
Proof.
  intros n0 hc l C F a Ha Hl. rewrite app_length in *. simpl in *.
  destruct (Nat.eq_dec a (length hc)) as [->|Hne].
  - exists l. split; [apply h_get_app_new|]. rewrite Nat.add_1_r; auto.
  - destruct (C a Ha) as (l0 & G & F0); [lia|]. exists l0. split; [apply h_get_app1; auto|].
    eapply Forall_vok_mono; [|exact F0]. lia.
Qed.

Lemma closed_set : forall n0 hc a l, closed n0 hc -> Forall (vok n0 (length hc)) l ->
  closed n0 (h_set a (HList l) hc).
Proof.
  intros n0 hc a l C F b Hb Hl. rewrite h_set_length in *.
  destruct (Nat.eq_dec a b) as [->|Hne].
  - exists l. split; [apply h_get_set_same; auto|auto].
  - rewrite h_get_set_other by auto. apply C; auto.
Qed.

Lemma extends_length : forall h h', extends h h' -> (length h <= length h')%nat.
Proof. intros h h' [e ->]. rewrite app_length. lia. Qed.

Definition copy_res (n0 : nat) (x v : pv) (hc' : heap) : Prop :=
  match x with VRef _ => exists b, v = VRef b /\ (n0 <= b /\ b < length hc')%nat | _ => v = x end.

Lemma copy_res_vok : forall n0 x v hc', copy_res n0 x v hc' -> vok n0 (length hc') v.
Proof.
  unfold copy_res; intros. destruct x; subst; simpl; auto.
  destruct H as (b & -> & Hb). exact Hb.
Qed.

Lemma deepcopy_closed : forall n0 fuel x hc v hc',
  hy_deepcopy fuel x hc = HOk v hc' -> closed n0 hc -> (n0 <= length hc)%nat ->
  extends hc hc' /\ closed n0 hc' /\ copy_res n0 x v hc'.
Proof.
  induction fuel; intros x hc v hc' H C L.
  - discriminate.
  - cbn [hy_deepcopy] in H.
    destruct x; try (unfold hret in H; inversion H; subst; split; [apply extends_refl|split; [auto|reflexivity]]).
    destruct (h_get a hc) as [[l|]|] eqn:G; try discriminate.
    set (go := fix go (l : list pv) : hm (list pv) :=
                 match l with
                 | [] => hret []
                 | x :: r => hbind (hy_deepcopy fuel x) (fun x' => hbind (go r) (fun r' => hret (x' :: r')))
                 end) in *.
    assert (GO : forall l hc r hc', go l hc = HOk r hc' -> closed n0 hc -> (n0 <= length hc)%nat ->
                 extends hc hc' /\ closed n0 hc' /\ Forall (vok n0 (length hc')) r).
    { clear - IHfuel. induction l; intros hc r hc' H C L.
      - simpl in H. unfold hret in H. inversion H; subst. split; [apply extends_refl|split; auto].
      - simpl in H. unfold hbind in H.
        destruct (hy_deepcopy fuel a hc) as [x' h1|] eqn:E1; [|discriminate].
        apply IHfuel in E1; auto. destruct E1 as (X1 & C1 & R1).
        pose proof (extends_length _ _ X1) as L1.
        destruct (go l h1) as [r' h2|] eqn:E2; [|discriminate].
        apply IHl in E2; auto; [|lia]. destruct E2 as (X2 & C2 & F2).
        unfold hret in H. inversion H; subst.
        split; [eapply extends_trans; eauto|split; auto].
        constructor; auto. apply copy_res_vok in R1.
        eapply vok_mono; [|exact R1]. apply extends_length; auto. }
    unfold hbind in H. destruct (go l hc) as [r h1|] eqn:E; [|discriminate].
    apply GO in E; auto. destruct E as (X1 & C1 & F1).
    rewrite hy_new_list_eq in H. inversion H; subst.
    split; [apply extends_app; auto|split].
    + apply closed_alloc; auto. eapply Forall_vok_mono; [|exact F1]. lia.
    + simpl. exists (length h1). split; auto. rewrite app_length; simpl.
      pose proof (extends_length _ _ X1). lia.
Qed.

Lemma closed_init : forall h, closed (length h) h.
Proof. intros h a H1 H2. lia. Qed.

(* copy.deepcopy allocates, modifies nothing *)
Theorem hy_deepcopy_extends : forall fuel x h v h',
  hy_deepcopy fuel x h = HOk v h' -> extends h h'.
Proof.
  intros. apply (deepcopy_closed (length h)) in H; [tauto|apply closed_init|lia].
Qed.
(* ================= get_html_map, loop by loop ================= *)
Open Scope pyh_scope.
Definition hm_body1 (root : pv) : pv -> pv -> hb pv := fun t3 v_par_text =>
        '(t4, t5) <~ hy_unpack2 t3 ;;;
        '(t6, t7, t8, t9) <~ hy_unpack4v t4 ;;;
        v_i <~ hret t6 ;;;
        v_j <~ hret t7 ;;;
        v_k <~ hret t8 ;;;
        v_m <~ hret t9 ;;;
        v_paragraph <~ hret t5 ;;;
        t10 <~ hy_join (VStr ([]%N (*  *))) v_paragraph ;;;
        let v_par_text := t10 in
        t11 <~ hy_str (VTuple [v_i; v_j; v_k; v_m]) ;;;
        t12 <~ hy_new_list [t11; v_par_text] ;;;
        t13 <~ hy_join (VStr ([32]%N (*   *))) t12 ;;;
        t14 <~ hy_index root v_i ;;;
        t15 <~ hy_index t14 v_j ;;;
        t16 <~ hy_index t15 v_k ;;;
        _ <~ hy_setitem t16 v_m t13 ;;;
        hnx v_par_text.
Definition hm_body2 (root : pv) : pv -> pv -> hb pv := fun t18 v_cell_strs =>
        '(t19, t20) <~ hy_unpack2 t18 ;;;
        '(t21, t22, t23) <~ hy_unpack3 t19 ;;;
        v_i <~ hret t21 ;;;
        v_j <~ hret t22 ;;;
        v_k <~ hret t23 ;;;
        v_cell <~ hret t20 ;;;
        t25 <~ ( hy_comp v_cell halways (fun v_x =>  t24 <~h S_HV_str v_x ;;; hret [t24])) ;;;
        let v_cell_strs := (VTuple t25) in
        t29 <~ ( hy_comp v_cell_strs halways (fun v_x =>  t26 <~h S_HV_str v_x ;;; t27 <~h hlift (py_add (VStr ([60;112;114;101;62]%N (* <pre> *))) t26) ;;; t28 <~h hlift (py_add t27 (VStr ([60;47;112;114;101;62]%N (* </pre> *)))) ;;; hret [t28])) ;;;
        t30 <~ hy_new_list t29 ;;;
        t31 <~ hy_join (VStr ([]%N (*  *))) t30 ;;;
        t32 <~ hy_index root v_i ;;;
        t33 <~ hy_index t32 v_j ;;;
        _ <~ hy_setitem t33 v_k t31 ;;;
        hnx v_cell_strs.
Definition hm_body3 (root : pv) : pv -> unit -> hb unit := fun t35 'tt =>
        '(t36, t37) <~ hy_unpack2 t35 ;;;
        '(t38, t39) <~ hy_unpack2 t36 ;;;
        v_i <~ hret t38 ;;;
        v_j <~ hret t39 ;;;
        v_row <~ hret t37 ;;;
        t43 <~ ( hy_comp v_row halways (fun v_x =>  t40 <~h S_HV_str v_x ;;; t41 <~h hlift (py_add (VStr ([60;116;100;62]%N (* <td> *))) t40) ;;; t42 <~h hlift (py_add t41 (VStr ([60;47;116;100;62]%N (* </td> *)))) ;;; hret [t42])) ;;;
        t44 <~ hy_new_list t43 ;;;
        t45 <~ hy_join (VStr ([]%N (*  *))) t44 ;;;
        t46 <~ hy_index root v_i ;;;
        _ <~ hy_setitem t46 v_j t45 ;;;
        hnx tt.
Definition hm_body4 (root : pv) : pv -> unit -> hb unit := fun t48 'tt =>
        '(t49, t50) <~ hy_unpack2 t48 ;;;
        t51 <~ hy_unpack1 t49 ;;;
        v_i <~ hret t51 ;;;
        v_table <~ hret t50 ;;;
        t55 <~ ( hy_comp v_table halways (fun v_x =>  t52 <~h S_HV_str v_x ;;; t53 <~h hlift (py_add (VStr ([60;116;114;62]%N (* <tr> *))) t52) ;;; t54 <~h hlift (py_add t53 (VStr ([60;47;116;114;62]%N (* </tr> *)))) ;;; hret [t54])) ;;;
        t56 <~ hy_join (VStr ([]%N (*  *))) (VTuple t55) ;;;
        _ <~ hy_setitem root v_i t56 ;;;
        hnx tt.
Definition hm_tail (root : pv) : hb unit :=
    t60 <~ ( hy_comp root halways (fun v_x =>  t57 <~h S_HV_str v_x ;;; t58 <~h hlift (py_add (VStr ([60;116;97;98;108;101;32;98;111;114;100;101;114;61;34;49;34;62]%N (* <table border=?1?> *))) t57) ;;; t59 <~h hlift (py_add t58 (VStr ([60;47;116;97;98;108;101;62]%N (* </table> *)))) ;;; hret [t59])) ;;;
    t61 <~ hy_new_list t60 ;;;
    t62 <~ hy_join (VStr ([]%N (*  *))) t61 ;;;
    let v_tables_ := t62 in
    t63 <~ hlift (py_add (VStr ([60;104;116;109;108;62;60;98;111;100;121;62]%N (* <html><body> *))) v_tables_) ;;;
    t64 <~ hlift (py_add t63 (VStr ([60;47;98;111;100;121;62;60;47;104;116;109;108;62]%N (* </body></html> *)))) ;;;
    hrt t64.
Definition hm_from4 (fuel : nat) (root : pv) : hb unit :=
    t47 <~ S_HV_enum_at_depth fuel root (VInt (1)%Z) ;;;
    'tt <~~ hy_for t47 (hm_body4 root) tt ;;;
    hm_tail root.
Definition hm_from3 (fuel : nat) (root : pv) : hb unit :=
    t34 <~ S_HV_enum_at_depth fuel root (VInt (2)%Z) ;;;
    'tt <~~ hy_for t34 (hm_body3 root) tt ;;;
    hm_from4 fuel root.
Definition hm_from2 (fuel : nat) (root : pv) : hb unit :=
    t17 <~ S_HV_enum_at_depth fuel root (VInt (3)%Z) ;;;
    v_cell_strs <~~ hy_for t17 (hm_body2 root) VNone ;;;
    hm_from3 fuel root.
Definition hm_from1 (fuel : nat) (x root : pv) : hb unit :=
    t2 <~ S_HV_enum_at_depth fuel x (VInt (4)%Z) ;;;
    v_par_text <~~ hy_for t2 (hm_body1 root) VNone ;;;
    hm_from2 fuel root.
Definition hm_all (fuel : nat) (x : pv) : hm pv :=
  hfn_result (S:=unit) (t1 <~ hy_deepcopy fuel x ;;; hm_from1 fuel x t1).
Close Scope pyh_scope.

Lemma get_html_map_eq : forall fuel x, S_HV_get_html_map fuel x = hm_all fuel x.
Proof. reflexivity. Qed.

(* ================= small facts ================= *)
Lemma list_set_nth : forall {A} (l : list A) p v l', list_set l p v = Some l' ->
  forall q, nth_error l' q = if Nat.eqb q p then Some v else nth_error l q.
Proof.
  induction l; intros p v l' H q; simpl in H; try discriminate.
  destruct p.
  - inversion H; subst. destruct q; reflexivity.
  - destruct (list_set l p v) eqn:E; [|discriminate]. inversion H; subst.
    destruct q; simpl; auto; eapply IHl; eauto.
Qed.
Lemma list_set_Forall : forall {A} (P : A -> Prop) l p v l', list_set l p v = Some l' ->
  Forall P l -> P v -> Forall P l'.
Proof.
  induction l; intros p v l' H F Pv; simpl in H; try discriminate.
  inversion F; subst. destruct p.
  - inversion H; subst. constructor; auto.
  - destruct (list_set l p v) eqn:E; [|discriminate]. inversion H; subst.
    constructor; auto. eapply IHl; eauto.
Qed.

Lemma hy_setitem_inv : forall t i v hc u hc', hy_setitem t i v hc = HOk u hc' ->
  exists a l p l', t = VRef a /\ h_get a hc = Some (HList l) /\ list_set l p v = Some l'
                   /\ hc' = h_set a (HList l') hc.
Proof.
  unfold hy_setitem; intros. destruct t; try discriminate.
  destruct (h_get a hc) as [[l|]|] eqn:G; try discriminate.
  destruct (int_like i); [|discriminate].
  destruct (norm_index (length l) z); [|discriminate].
  destruct (list_set l n v) eqn:L; [|discriminate].
  inversion H; subst. exists a, l, n, l0. auto.
Qed.

Lemma hy_index_inv : forall x i hc v hc', hy_index x i hc = HOk v hc' ->
  hc' = hc /\ exists l p, hy_items x hc = HOk l hc /\ nth_error l p = Some v.
Proof.
  unfold hy_index, hbind; intros. destruct (hy_items x hc) as [l h1|] eqn:E; [|discriminate].
  pose proof (hy_items_pure _ _ _ _ E); subst h1.
  destruct (int_like i); [|discriminate].
  destruct (norm_index (length l) z); [|discriminate].
  destruct (nth_error l n) eqn:N; [|discriminate].
  unfold hret in H. inversion H; subst. split; auto. exists l, n; auto.
Qed.

Lemma norm_index_nat : forall len n, (n < len)%nat -> norm_index len (Z.of_nat n) = Some n.
Proof.
  intros. unfold norm_index.
  destruct (Z.leb_spec 0 (Z.of_nat n)); [|lia].
  destruct (Z.ltb_spec (Z.of_nat n) (Z.of_nat len)); [|lia].
  rewrite Nat2Z.id. reflexivity.
Qed.
Lemma hy_index_nat : forall x hc l n v, hy_items x hc = HOk l hc -> nth_error l n = Some v ->
  hy_index x (VInt (Z.of_nat n)) hc = HOk v hc.
Proof.
  intros. unfold hy_index, hbind. rewrite H. change (int_like (VInt (Z.of_nat n))) with (Some (Z.of_nat n)). cbv iota.
  rewrite norm_index_nat by (apply nth_error_Some; congruence). rewrite H0. reflexivity.
Qed.

(* a non-reference that can be indexed: a non-empty tuple or list VALUE; also every value that is
   neither a reference nor an empty tuple / list *)
Definition bad (v : pv) : Prop :=
  match v with
  | VRef _ => False
  | VTuple l | VList l => match l with [] => False | _ => True end
  | _ => True
  end.
Definition isref (v : pv) : Prop := exists a, v = VRef a.

Lemma items_nonref_bad : forall x hc l hc' p v, hy_items x hc = HOk l hc' -> nth_error l p = Some v ->
  ~ isref x -> bad x.
Proof.
  intros. destruct x; simpl in *; try discriminate; auto.
  - inversion H; subst. destruct l; auto. destruct p; discriminate.
  - inversion H; subst. destruct l; auto. destruct p; discriminate.
  - apply H1. eexists; eauto.
Qed.
Lemma ref_dec : forall v, isref v \/ ~ isref v.
Proof. destruct v; try (right; intros [a Ha]; discriminate). left; eexists; eauto. Qed.
Lemma bad_not_ref : forall v, bad v -> ~ isref v.
Proof. intros v B [a ->]. exact B. Qed.

Lemma hpure_unpack1 : forall x, hpure (hy_unpack1 x) anyv.
Proof.
  intros. unfold hy_unpack1. eapply hpure_bind; [apply hpure_items|]. intros l _.
  destruct l as [|a [|b r]]; try (intros ? ? ? H; discriminate). apply hpure_ret; exact I.
Qed.
Lemma hpure_unpack3 : forall x, hpure (hy_unpack3 x) anyv.
Proof.
  intros. unfold hy_unpack3. eapply hpure_bind; [apply hpure_items|]. intros l _.
  destruct l as [|a [|b [|c [|d r]]]]; try (intros ? ? ? H; discriminate). apply hpure_ret; exact I.
Qed.
Lemma hpure_unpack4v : forall x, hpure (hy_unpack4v x) anyv.
Proof.
  intros. unfold hy_unpack4v. eapply hpure_bind; [apply hpure_items|]. intros l _.
  unfold hy_unpack4.
  destruct l as [|a [|b [|c [|d [|e r]]]]]; try (intros ? ? ? H; discriminate). apply hpure_ret; exact I.
Qed.
Lemma hpure_str : forall v, hpure (hy_str v) isstr.
Proof.
  intros. unfold hy_str.
  destruct v; try (apply hpure_lift; intros r0 Ha; exact (py_str_isstr _ _ Ha)).
  destruct (ints_of l) as [[|z [|z' zs]]|]; try (apply hpure_ret; eexists; eauto).
  intros ? ? ? H; discriminate.
Qed.
(* the comprehensions of get_html_map: strings, heap untouched *)
Lemma hpure_comp_str0 : forall it,
  hpure (hy_comp it halways (fun v_x => hbind (S_HV_str v_x) (fun t => hret [t]))) (Forall isstr).
Proof.
  intros. eapply hpure_comp with (R := anyv); [apply hpure_items| |].
  - intros; apply hpure_halways.
  - intros. eapply hpure_bind; [apply str_hpure|]. intros t Ht. apply hpure_ret. repeat constructor; auto.
Qed.
Lemma hpure_comp_str2 : forall it a b,
  hpure (hy_comp it halways (fun v_x => hbind (S_HV_str v_x) (fun t =>
           hbind (hlift (py_add (VStr a) t)) (fun t' =>
           hbind (hlift (py_add t' (VStr b))) (fun t'' => hret [t''])))))
        (Forall isstr).
Proof.
  intros. eapply hpure_comp with (R := anyv); [apply hpure_items| |].
  - intros; apply hpure_halways.
  - intros. eapply hpure_bind; [apply str_hpure|]. intros t Ht.
    eapply hpure_bind; [apply hpure_lift; intros r Hr; exact (py_add_str_l _ _ _ Hr)|]. intros t' [s' ->].
    eapply hpure_bind; [apply hpure_lift; intros r Hr; exact (py_add_str_l _ _ _ Hr)|]. intros t'' Ht''.
    apply hpure_ret. repeat constructor; auto.
Qed.

Lemma postb_weaken : forall {S} (P Q : heap -> Prop) (o : hout S),
  postb P o -> (forall hc, P hc -> Q hc) -> postb Q o.
Proof. intros. destruct o; simpl in *; auto. Qed.

(* ================= doomed states ================= *)
(* D1: the root cell holds, at position n, a non-reference that is not an empty tuple / list *)
Definition D1 (root : pv) (n : nat) (hc : heap) : Prop :=
  exists r l b, root = VRef r /\ h_get r hc = Some (HList l) /\ nth_error l n = Some b /\ bad b.
(* D2: the root cell holds, at position n, a list that holds such a value at position n' *)
Definition D2 (root : pv) (n c n' : nat) (hc : heap) : Prop :=
  exists r l lc b, root = VRef r /\ h_get r hc = Some (HList l) /\ nth_error l n = Some (VRef c)
    /\ h_get c hc = Some (HList lc) /\ nth_error lc n' = Some b /\ bad b.

(* properties kept by allocation and by storing a string into a list *)
Definition stable (P : heap -> Prop) : Prop :=
  (forall hc ex, P hc -> P (hc ++ ex)) /\
  (forall hc a l p s l', P hc -> h_get a hc = Some (HList l) -> list_set l p (VStr s) = Some l' ->
     P (h_set a (HList l') hc)).

Lemma set_get_cases : forall hc a l l' r lr,
  h_get a hc = Some (HList l) -> h_get r hc = Some (HList lr) ->
  h_get r (h_set a (HList l') hc) = Some (HList (if Nat.eqb r a then l' else lr))
  /\ (Nat.eqb r a = true -> lr = l).
Proof.
  intros. destruct (Nat.eqb_spec r a).
  - subst. split; [apply h_get_set_same; eapply h_get_lt; eauto|]. intros _. congruence.
  - split; [rewrite h_get_set_other by auto; auto|discriminate].
Qed.

Lemma bad_str : forall s, bad (VStr s).
Proof. intros; exact I. Qed.

Lemma D1_stable : forall root n, stable (D1 root n).
Proof.
  intros root n. split.
  - intros hc ex (r & l & b & -> & G & N & B). exists r, l, b. repeat split; auto. apply h_get_app1; auto.
  - intros hc a l p s l' (r & lr & b & -> & G & N & B) Ga LS.
    destruct (set_get_cases hc a l l' r lr Ga G) as [G' Heq].
    destruct (Nat.eqb r a) eqn:Era.
    + specialize (Heq eq_refl). subst lr.
      pose proof (list_set_nth _ _ _ _ LS n) as Hn.
      destruct (Nat.eqb n p).
      * exists r, l', (VStr s). repeat split; auto.
      * exists r, l', b. repeat split; auto. congruence.
    + exists r, lr, b. repeat split; auto.
Qed.

Lemma D21_stable : forall root n c n', stable (fun hc => D2 root n c n' hc \/ D1 root n hc).
Proof.
  intros root n c n'. split.
  - intros hc ex [(r & l & lc & b & -> & G & N & Gc & Nc & B)|H].
    + left. exists r, l, lc, b. repeat split; auto; apply h_get_app1; auto.
    + right. apply D1_stable; auto.
  - intros hc a l p s l' [(r & lr & lc & b & -> & G & N & Gc & Nc & B)|H] Ga LS.
    2:{ right. eapply D1_stable; eauto. }
    destruct (set_get_cases hc a l l' r lr Ga G) as [G' Heq].
    destruct (set_get_cases hc a l l' c lc Ga Gc) as [Gc' Heqc].
    (* the root cell after the store *)
    assert (R : exists lr', h_get r (h_set a (HList l') hc) = Some (HList lr') /\
                 (nth_error lr' n = Some (VRef c) \/ exists s', nth_error lr' n = Some (VStr s'))).
    { destruct (Nat.eqb r a).
      - specialize (Heq eq_refl). subst lr. exists l'. split; auto.
        pose proof (list_set_nth _ _ _ _ LS n) as Hn. destruct (Nat.eqb n p).
        + right; eauto. + left; congruence.
      - exists lr. split; auto. }
    destruct R as (lr' & Gr' & [Nr|[s' Nr]]).
    2:{ right. exists r, lr', (VStr s'). repeat split; auto. }
    left. destruct (Nat.eqb c a).
    + specialize (Heqc eq_refl). subst lc.
      pose proof (list_set_nth _ _ _ _ LS n') as Hn. destruct (Nat.eqb n' p).
      * exists r, lr', l', (VStr s). repeat split; auto.
      * exists r, lr', l', b. repeat split; auto. congruence.
    + exists r, lr', lc, b. repeat split; auto.
Qed.

(* ================= the loop bodies keep every stable property ================= *)
Ltac st_pure lem :=
  apply postb_binde; let a := fresh "t" in let h1 := fresh "h1" in let E := fresh "E" in
  intros a h1 E; apply lem in E; destruct E as [-> ?].
Tactic Notation "st_pas" constr(lem) "as" simple_intropattern(pat) :=
  apply postb_binde; let a := fresh "t" in let h1 := fresh "h1" in let E := fresh "E" in
  intros a h1 E; apply lem in E; destruct E as [-> pat].
Ltac st_ret :=
  apply postb_binde; let a := fresh "t" in let h1 := fresh "h1" in let E := fresh "E" in
  intros a h1 E; unfold hret in E; injection E as <- <-.
Ltac st_new :=
  apply postb_binde; let a := fresh "t" in let h1 := fresh "h1" in let E := fresh "E" in
  intros a h1 E; rewrite hy_new_list_eq in E; injection E as <- <-.

Lemma body1_stable : forall P root t s hc, stable P -> P hc -> postb P (hm_body1 root t s hc).
Proof.
  intros P root t s hc [SA SS] HP. unfold hm_body1.
  st_pure hpure_unpack2. destruct t0 as [t4 t5].
  st_pure hpure_unpack4v. destruct t0 as [[[t6 t7] t8] t9].
  do 5 st_ret.
  st_pas hpure_join as [s10 ->].
  st_pas hpure_str as [s11 ->].
  st_new.
  st_pas hpure_join as [s13 ->].
  st_pure hpure_index. st_pure hpure_index. st_pure hpure_index.
  apply postb_binde; intros u h1 E. apply hy_setitem_inv in E.
  destruct E as (a & l & p & l' & -> & G & LS & ->).
  simpl. eapply SS; eauto.
Qed.

Lemma body2_stable : forall P root t s hc, stable P -> P hc -> postb P (hm_body2 root t s hc).
Proof.
  intros P root t s hc [SA SS] HP. unfold hm_body2.
  st_pure hpure_unpack2. destruct t0 as [t19 t20].
  st_pure hpure_unpack3. destruct t0 as [[t21 t22] t23].
  do 4 st_ret.
  st_pure hpure_comp_str0.
  st_pure hpure_comp_str2.
  st_new.
  st_pas hpure_join as [s31 ->].
  st_pure hpure_index. st_pure hpure_index.
  apply postb_binde; intros u h1 E. apply hy_setitem_inv in E.
  destruct E as (a & l & p & l' & -> & G & LS & ->).
  simpl. eapply SS; eauto.
Qed.

Lemma body3_stable : forall P root t s hc, stable P -> P hc -> postb P (hm_body3 root t s hc).
Proof.
  intros P root t [] hc [SA SS] HP. unfold hm_body3.
  st_pure hpure_unpack2. destruct t0 as [t36 t37].
  st_pure hpure_unpack2. destruct t0 as [t38 t39].
  do 3 st_ret.
  st_pure hpure_comp_str2.
  st_new.
  st_pas hpure_join as [s45 ->].
  st_pure hpure_index.
  apply postb_binde; intros u h1 E. apply hy_setitem_inv in E.
  destruct E as (a & l & p & l' & -> & G & LS & ->).
  simpl. eapply SS; eauto.
Qed.

(* ================= the good states ================= *)
Definition rootok (n0 len : nat) (root : pv) : Prop :=
  match root with VRef r => (n0 <= r /\ r < len)%nat | v => ~ bad v end.
Definition Good (h : heap) (root : pv) (hc : heap) : Prop :=
  extends h hc /\ closed (length h) hc /\ rootok (length h) (length hc) root.

Lemma isstr_vok : forall n0 len v, isstr v -> vok n0 len v.
Proof. intros n0 len v [s ->]. exact I. Qed.
Lemma rootok_mono : forall n0 len len' v, (len <= len')%nat -> rootok n0 len v -> rootok n0 len' v.
Proof. destruct v; simpl; auto. lia. Qed.

Lemma good_alloc : forall h root hc l, Good h root hc -> Forall isstr l -> Good h root (hc ++ [HList l]).
Proof.
  intros h root hc l (X & C & R) F. split; [apply extends_app; auto|split].
  - apply closed_alloc; auto. eapply Forall_impl; [|exact F]. intros; apply isstr_vok; auto.
  - eapply rootok_mono; [|exact R]. rewrite app_length; lia.
Qed.
Lemma good_set : forall h root hc a l p s l', Good h root hc ->
  (length h <= a)%nat -> h_get a hc = Some (HList l) -> list_set l p (VStr s) = Some l' ->
  Good h root (h_set a (HList l') hc).
Proof.
  intros h root hc a l p s l' (X & C & R) La G LS.
  pose proof (h_get_lt _ _ _ G) as Lt.
  split; [apply extends_set; auto|split].
  - apply closed_set; auto. destruct (C a La Lt) as (l0 & G0 & F0).
    assert (l0 = l) by congruence. subst l0.
    eapply list_set_Forall; eauto. exact I.
  - rewrite h_set_length. auto.
Qed.

Lemma closed_index : forall n0 hc x i v hc', closed n0 hc -> vok n0 (length hc) x ->
  hy_index x i hc = HOk v hc' ->
  hc' = hc /\ ((~ isref x /\ bad x) \/
               (exists c l p, x = VRef c /\ (n0 <= c)%nat /\ h_get c hc = Some (HList l)
                              /\ nth_error l p = Some v /\ vok n0 (length hc) v)).
Proof.
  intros n0 hc x i v hc' C V H. apply hy_index_inv in H. destruct H as (-> & l & p & I & N).
  split; auto. destruct (ref_dec x) as [[c ->]|NR].
  - right. simpl in V. destruct (C c) as (l0 & G0 & F0); try tauto.
    unfold hy_items in I. rewrite G0 in I. inversion I; subst l0.
    exists c, l, p. repeat split; auto; try tauto.
    rewrite Forall_forall in F0. apply F0. eapply nth_error_In; eauto.
  - left. split; auto. eapply items_nonref_bad; eauto.
Qed.

Definition InvA h root hc : Prop := Good h root hc \/ exists n c n', D2 root n c n' hc \/ D1 root n hc.
Definition InvB h root hc : Prop := Good h root hc \/ exists n, D1 root n hc.

Lemma rootok_vok : forall n0 len root, rootok n0 len root -> vok n0 len root.
Proof. destruct root; simpl; auto. Qed.
Lemma rootok_bad : forall n0 len root, rootok n0 len root -> ~ isref root -> ~ bad root.
Proof. destruct root; simpl; auto; intros; exfalso; apply H0; eexists; eauto. Qed.

Ltac st_set :=
  apply postb_binde; let u := fresh "u" in let h1 := fresh "h1" in let E := fresh "E" in
  intros u h1 E; apply hy_setitem_inv in E;
  let a := fresh "a" in let l := fresh "l" in let p := fresh "p" in let l' := fresh "l'" in
  let G := fresh "G" in let LS := fresh "LS" in
  destruct E as (a & l & p & l' & -> & G & LS & ->).
Ltac st_set_fail :=
  apply postb_binde; let u := fresh "u" in let h1 := fresh "h1" in let E := fresh "E" in
  intros u h1 E; apply hy_setitem_inv in E;
  let a := fresh "a" in let l := fresh "l" in let p := fresh "p" in let l' := fresh "l'" in
  let G := fresh "G" in let LS := fresh "LS" in
  destruct E as (a & l & p & l' & EQ & G & LS & _); exfalso.

Lemma body1_good : forall h root t s hc, Good h root hc -> postb (InvA h root) (hm_body1 root t s hc).
Proof.
  intros h root t s hc HG. unfold hm_body1.
  st_pure hpure_unpack2. destruct t0 as [t4 t5].
  st_pure hpure_unpack4v. destruct t0 as [[[t6 t7] t8] t9].
  do 5 st_ret.
  st_pas hpure_join as [s10 ->].
  st_pas hpure_str as [s11 ->].
  st_new.
  st_pas hpure_join as [s13 ->].
  assert (HG' : Good h root (hc ++ [HList [VStr s11; VStr s10]])).
  { apply good_alloc; auto. repeat constructor; eexists; eauto. }
  clear HG. set (hc' := hc ++ [HList [VStr s11; VStr s10]]) in *.
  destruct HG' as (X & C & R).
  apply postb_binde; intros t14 h1 E14.
  eapply closed_index in E14; eauto; [|eapply rootok_vok; eauto].
  destruct E14 as (-> & [[NR B]|(r & l & p & -> & Lr & Gr & Nr & V14)]).
  { exfalso. eapply rootok_bad; eauto. }
  apply postb_binde; intros t15 h1 E15.
  eapply closed_index in E15; eauto.
  destruct E15 as (-> & [[NR B]|(c & lc & p' & -> & Lc & Gc & Nc & V15)]).
  { (* the root holds an indexable value at position p: doomed (D1) *)
    assert (D : D1 (VRef r) p hc') by (exists r, l, t14; auto).
    st_pure hpure_index. st_set. simpl. right. exists p, 0%nat, 0%nat. right.
    eapply D1_stable; eauto. }
  apply postb_binde; intros t16 h1 E16.
  eapply closed_index in E16; eauto.
  destruct E16 as (-> & [[NR B]|(c2 & lc2 & p'' & -> & Lc2 & Gc2 & Nc2 & V16)]).
  { assert (D : D2 (VRef r) p c p' hc') by (exists r, l, lc, t15; repeat split; auto).
    st_set. simpl. right. exists p, c, p'.
    eapply (D21_stable (VRef r) p c p'); eauto. }
  st_set. simpl. left. simpl in V16. eapply good_set; eauto; [split; auto|tauto].
Qed.

Lemma body2_good : forall h root t s hc, Good h root hc -> postb (InvB h root) (hm_body2 root t s hc).
Proof.
  intros h root t s hc HG. unfold hm_body2.
  st_pure hpure_unpack2. destruct t0 as [t19 t20].
  st_pure hpure_unpack3. destruct t0 as [[t21 t22] t23].
  do 4 st_ret.
  st_pas hpure_comp_str0 as F25.
  st_pas hpure_comp_str2 as F29.
  st_new.
  st_pas hpure_join as [s31 ->].
  assert (HG' : Good h root (hc ++ [HList t1])) by (apply good_alloc; auto).
  clear HG. set (hc' := hc ++ [HList t1]) in *.
  destruct HG' as (X & C & R).
  apply postb_binde; intros t32 h1 E32.
  eapply closed_index in E32; eauto; [|eapply rootok_vok; eauto].
  destruct E32 as (-> & [[NR B]|(r & l & p & -> & Lr & Gr & Nr & V32)]).
  { exfalso. eapply rootok_bad; eauto. }
  apply postb_binde; intros t33 h1 E33.
  eapply closed_index in E33; eauto.
  destruct E33 as (-> & [[NR B]|(c & lc & p' & -> & Lc & Gc & Nc & V33)]).
  { assert (D : D1 (VRef r) p hc') by (exists r, l, t32; auto).
    st_set. simpl. right. exists p. eapply D1_stable; eauto. }
  st_set. simpl. left. simpl in V33. eapply good_set; eauto; [split; auto|tauto].
Qed.

Lemma body3_good : forall h root t s hc, Good h root hc -> postb (Good h root) (hm_body3 root t s hc).
Proof.
  intros h root t [] hc HG. unfold hm_body3.
  st_pure hpure_unpack2. destruct t0 as [t36 t37].
  st_pure hpure_unpack2. destruct t0 as [t38 t39].
  do 3 st_ret.
  st_pas hpure_comp_str2 as F43.
  st_new.
  st_pas hpure_join as [s45 ->].
  assert (HG' : Good h root (hc ++ [HList t0])) by (apply good_alloc; auto).
  clear HG. set (hc' := hc ++ [HList t0]) in *.
  destruct HG' as (X & C & R).
  apply postb_binde; intros t46 h1 E46.
  eapply closed_index in E46; eauto; [|eapply rootok_vok; eauto].
  destruct E46 as (-> & [[NR B]|(r & l & p & -> & Lr & Gr & Nr & V46)]).
  { exfalso. eapply rootok_bad; eauto. }
  st_set. simpl. simpl in V46. eapply good_set; eauto; [split; auto|tauto].
Qed.

Lemma body4_good : forall h root t s hc, Good h root hc -> postb (Good h root) (hm_body4 root t s hc).
Proof.
  intros h root t [] hc HG. unfold hm_body4.
  st_pure hpure_unpack2. destruct t0 as [t49 t50].
  st_pure hpure_unpack1.
  do 2 st_ret.
  st_pas hpure_comp_str2 as F55.
  st_pas hpure_join as [s56 ->].
  st_set. simpl. destruct HG as (X & C & R). simpl in R.
  eapply good_set; eauto; [split; auto|tauto].
Qed.

(* ================= what enum_at_depth yields ================= *)
Open Scope pyh_scope.
Definition en_inner (v_i : pv) : pv -> list pv -> hb (list pv) := fun t16 v_acc_ =>
  '(t17, t18) <~ hy_unpack2 t16 ;;;
  v_j <~ hret t17 ;;;
  v_y <~ hret t18 ;;;
  t19 <~ hy_items v_j ;;;
  let v_acc_ := v_acc_ ++ [(VTuple [(VTuple ([v_i] ++ t19)); v_y])] in
  hnx v_acc_.
Definition en_outer (rec : pv -> hm pv) : pv -> list pv -> hb (list pv) := fun t12 v_acc_ =>
  '(t13, t14) <~ hy_unpack2 t12 ;;;
  v_i <~ hret t13 ;;;
  v_x <~ hret t14 ;;;
  t15 <~ rec v_x ;;;
  v_acc_ <~~ hy_for t15 (en_inner v_i) v_acc_ ;;;
  hnx v_acc_.
Definition en_branch (rec : pv -> hm pv) (v : pv) : hm pv :=
  hfn_result (S:=unit) (
    t11 <~ hy_enumerate v ;;;
    v_acc_ <~~ hy_for t11 (en_outer rec) [] ;;;
    hrt (VTuple v_acc_)).
Definition en_branch' (rec : pv -> hm pv) (v : pv) : hm pv :=
  hfn_result (S:=unit) (
    '(v_acc_, v_msg, v_nested) <~~ (
      t11 <~ hy_enumerate v ;;;
      v_acc_ <~~ hy_for t11 (en_outer rec) [] ;;;
      hnx (v_acc_, VNone, v)) ;;;
    hrt (VTuple v_acc_)).
Definition en_branch'' (rec : pv -> hm pv) (v : pv) : hm pv :=
  hfn_result (S:=unit) (
    '(v_acc_, v_msg, v_nested) <~~ (
      '(v_acc_, v_msg, v_nested) <~~ (
        t11 <~ hy_enumerate v ;;;
        v_acc_ <~~ hy_for t11 (en_outer rec) [] ;;;
        hnx (v_acc_, VNone, v)) ;;;
      hnx (v_acc_, v_msg, v_nested)) ;;;
    hrt (VTuple v_acc_)).
Close Scope pyh_scope.

Lemma en_branch_eq : forall rec v h, en_branch' rec v h = en_branch rec v h.
Proof.
  intros. unfold en_branch', en_branch, hfn_result, hbindo, hbinde.
  destruct (hy_enumerate v h); auto.
  destruct (hy_for a (en_outer rec) [] h0); reflexivity.
Qed.
Lemma enum2_eq : forall f v h,
  S_HV_enum_at_depth (S f) v (VInt 2) h = en_branch (fun x => S_HV_enum_at_depth f x (VInt 1)) v h.
Proof. intros. rewrite <- en_branch_eq. reflexivity. Qed.
Lemma en_branch_eq2 : forall rec v h, en_branch'' rec v h = en_branch rec v h.
Proof.
  intros. unfold en_branch'', en_branch, hfn_result, hbindo, hbinde.
  destruct (hy_enumerate v h); auto.
  destruct (hy_for a (en_outer rec) [] h0); reflexivity.
Qed.
Lemma enum3_eq : forall f v h,
  S_HV_enum_at_depth (S f) v (VInt 3) h = en_branch (fun x => S_HV_enum_at_depth f x (VInt 2)) v h.
Proof. intros. rewrite <- en_branch_eq2. reflexivity. Qed.

Lemma hbinde_nx_inv : forall {A S} (m : hm A) (k : A -> hb S) hc s h',
  hbinde m k hc = HNx s h' -> exists a h1, m hc = HOk a h1 /\ k a h1 = HNx s h'.
Proof. unfold hbinde; intros. destruct (m hc); [eauto|discriminate]. Qed.
Lemma hbindo_nx_inv : forall {S T} (b : hb S) (k : S -> hb T) hc s h',
  hbindo b k hc = HNx s h' -> exists s1 h1, b hc = HNx s1 h1 /\ k s1 h1 = HNx s h'.
Proof. unfold hbindo; intros. destruct (b hc); try discriminate; eauto. Qed.

Definition grows (body : pv -> list pv -> hb (list pv)) : Prop :=
  forall x acc hc acc' h', body x acc hc = HNx acc' h' -> h' = hc /\ forall e, In e acc -> In e acc'.

Lemma for_go_grows : forall body, grows body ->
  forall l acc hc acc' h', hfor_go body l acc hc = HNx acc' h' -> h' = hc /\ forall e, In e acc -> In e acc'.
Proof.
  intros body G. induction l; simpl; intros acc hc acc' h' H.
  - unfold hnx in H. inversion H; subst; auto.
  - apply hbindo_nx_inv in H. destruct H as (s1 & h1 & E & H).
    apply G in E. destruct E as [-> I1]. apply IHl in H. destruct H as [-> I2]. auto.
Qed.

Lemma for_go_hit : forall body (Q : list pv -> Prop) hc x, grows body ->
  (forall acc acc', (forall e, In e acc -> In e acc') -> Q acc -> Q acc') ->
  (forall acc acc' h', body x acc hc = HNx acc' h' -> Q acc') ->
  forall l, In x l -> forall acc acc' h', hfor_go body l acc hc = HNx acc' h' -> Q acc'.
Proof.
  intros body Q hc x G Qup HQ. induction l; simpl; intros HI acc acc' h' H; [tauto|].
  apply hbindo_nx_inv in H. destruct H as (s1 & h1 & E & H).
  pose proof (G _ _ _ _ _ E) as [-> I1]. destruct HI as [->|HI].
  - apply HQ in E. apply (for_go_grows _ G) in H. destruct H as [_ I2]. eapply Qup; eauto.
  - eapply IHl; eauto.
Qed.

Lemma unpack2_inv : forall t hc p h1, hy_unpack2 t hc = HOk p h1 ->
  h1 = hc /\ hy_items t hc = HOk [fst p; snd p] hc.
Proof.
  unfold hy_unpack2, hbind; intros. destruct (hy_items t hc) as [l h2|] eqn:E; [|discriminate].
  pose proof (hy_items_pure _ _ _ _ E); subst h2.
  destruct l as [|a [|b [|c r]]]; try discriminate. unfold hret in H. inversion H; subst. auto.
Qed.

Lemma en_inner_inv : forall v_i t16 acc hc acc' h', en_inner v_i t16 acc hc = HNx acc' h' ->
  h' = hc /\ exists js y jl, hy_items t16 hc = HOk [js; y] hc /\ hy_items js hc = HOk jl hc
                             /\ acc' = acc ++ [VTuple [VTuple (v_i :: jl); y]].
Proof.
  unfold en_inner; intros.
  apply hbinde_nx_inv in H. destruct H as ([t17 t18] & h1 & E & H).
  apply unpack2_inv in E. destruct E as [-> E]. simpl in E.
  apply hbinde_nx_inv in H. destruct H as (a1 & h1 & E1 & H). unfold hret in E1. injection E1 as <- <-.
  apply hbinde_nx_inv in H. destruct H as (a1 & h1 & E1 & H). unfold hret in E1. injection E1 as <- <-.
  apply hbinde_nx_inv in H. destruct H as (jl & h1 & E1 & H).
  pose proof (hy_items_pure _ _ _ _ E1); subst h1.
  unfold hnx in H. inversion H; subst. split; auto. exists t17, t18, jl. auto.
Qed.

Lemma en_inner_grows : forall v_i, grows (en_inner v_i).
Proof.
  intros v_i x acc hc acc' h' H. apply en_inner_inv in H.
  destruct H as (-> & js & y & jl & _ & _ & ->). split; auto. intros; apply in_or_app; auto.
Qed.

Lemma en_outer_inv : forall rec t12 acc hc acc' h', (forall x, hpure (rec x) anyv) ->
  en_outer rec t12 acc hc = HNx acc' h' ->
  exists i x t15 sub, hy_items t12 hc = HOk [i; x] hc /\ rec x hc = HOk t15 hc /\
    hy_items t15 hc = HOk sub hc /\ hfor_go (en_inner i) sub acc hc = HNx acc' h'.
Proof.
  unfold en_outer; intros rec t12 acc hc acc' h' RP H.
  apply hbinde_nx_inv in H. destruct H as ([t13 t14] & h1 & E & H).
  apply unpack2_inv in E. destruct E as [-> E]. simpl in E.
  apply hbinde_nx_inv in H. destruct H as (a1 & h1 & E1 & H). unfold hret in E1. injection E1 as <- <-.
  apply hbinde_nx_inv in H. destruct H as (a1 & h1 & E1 & H). unfold hret in E1. injection E1 as <- <-.
  apply hbinde_nx_inv in H. destruct H as (t15 & h1 & E1 & H).
  pose proof (RP _ _ _ _ E1) as [-> _].
  apply hbindo_nx_inv in H. destruct H as (s1 & h1 & EF & H).
  unfold hnx in H. inversion H; subst.
  unfold hy_for in EF. apply hbinde_nx_inv in EF. destruct EF as (sub & h1 & EI & EF).
  pose proof (hy_items_pure _ _ _ _ EI); subst h1.
  exists t13, t14, t15, sub. auto.
Qed.

Lemma en_outer_grows : forall rec, (forall x, hpure (rec x) anyv) -> grows (en_outer rec).
Proof.
  intros rec RP x acc hc acc' h' H. apply en_outer_inv in H; auto.
  destruct H as (i & x0 & t15 & sub & _ & _ & _ & H).
  eapply for_go_grows; eauto. apply en_inner_grows.
Qed.

Lemma hbinde_rt_inv : forall {A S} (m : hm A) (k : A -> hb S) hc v h',
  hbinde m k hc = HRt v h' -> exists a h1, m hc = HOk a h1 /\ k a h1 = HRt v h'.
Proof. unfold hbinde; intros. destruct (m hc); [eauto|discriminate]. Qed.
Lemma hbindo_rt_inv : forall {S T} (b : hb S) (k : S -> hb T) hc v h',
  hbindo b k hc = HRt v h' -> b hc = HRt v h' \/ exists s1 h1, b hc = HNx s1 h1 /\ k s1 h1 = HRt v h'.
Proof. unfold hbindo; intros. destruct (b hc); try discriminate; [right; eexists; eexists; split; [reflexivity|exact H]|left; inversion H; reflexivity]. Qed.
Definition no_rt {S} (body : pv -> S -> hb S) : Prop :=
  forall x s hc v h', body x s hc <> HRt v h'.
Lemma for_go_no_rt : forall {S} (body : pv -> S -> hb S), no_rt body ->
  forall l s hc v h', hfor_go body l s hc <> HRt v h'.
Proof.
  intros S body NR. induction l; simpl; intros s hc v h' H.
  - discriminate.
  - apply hbindo_rt_inv in H. destruct H as [H|(s1 & h1 & _ & H)].
    + eapply NR; eauto. + eapply IHl; eauto.
Qed.
Lemma hy_for_no_rt : forall {S} (body : pv -> S -> hb S) it, no_rt body ->
  forall s hc v h', hy_for it body s hc <> HRt v h'.
Proof.
  intros S body it NR s hc v h' H. unfold hy_for in H. apply hbinde_rt_inv in H.
  destruct H as (l & h1 & _ & H). eapply for_go_no_rt; eauto.
Qed.
Lemma en_inner_no_rt : forall v_i, no_rt (en_inner v_i).
Proof.
  intros v_i x s hc v h' H. unfold en_inner in H.
  apply hbinde_rt_inv in H. destruct H as ([t17 t18] & h1 & _ & H).
  apply hbinde_rt_inv in H. destruct H as (a1 & h2 & _ & H).
  apply hbinde_rt_inv in H. destruct H as (a2 & h3 & _ & H).
  apply hbinde_rt_inv in H. destruct H as (a3 & h4 & _ & H). discriminate.
Qed.
Lemma en_outer_no_rt : forall rec, no_rt (en_outer rec).
Proof.
  intros rec x s hc v h' H. unfold en_outer in H.
  apply hbinde_rt_inv in H. destruct H as ([t13 t14] & h1 & _ & H).
  apply hbinde_rt_inv in H. destruct H as (a1 & h2 & _ & H).
  apply hbinde_rt_inv in H. destruct H as (a2 & h3 & _ & H).
  apply hbinde_rt_inv in H. destruct H as (a3 & h4 & _ & H).
  apply hbindo_rt_inv in H. destruct H as [H|(s1 & h5 & _ & H)]; [|discriminate].
  eapply hy_for_no_rt; [apply en_inner_no_rt|eauto].
Qed.

Lemma enum_go_In : forall l n x z, nth_error l n = Some x ->
  In (VTuple [VInt (z + Z.of_nat n); x]) (enum_go z l).
Proof.
  induction l; intros n x z H; destruct n; simpl in *; try discriminate.
  - inversion H; subst. left. rewrite Z.add_0_r. reflexivity.
  - right. replace (z + Z.pos (Pos.of_succ_nat n))%Z with ((z + 1) + Z.of_nat n)%Z by lia.
    apply IHl; auto.
Qed.

Lemma en_branch_contains : forall rec v hc r h' l n x,
  (forall x, hpure (rec x) anyv) ->
  en_branch rec v hc = HOk r h' -> hy_items v hc = HOk l hc -> nth_error l n = Some x ->
  exists out t15 sub, r = VTuple out /\ rec x hc = HOk t15 hc /\ hy_items t15 hc = HOk sub hc /\
    forall js y jl, In (VTuple [js; y]) sub -> hy_items js hc = HOk jl hc ->
      In (VTuple [VTuple (VInt (Z.of_nat n) :: jl); y]) out.
Proof.
  intros rec v hc r h' l n x RP H I N. unfold en_branch in H.
  apply fn_binde_inv in H. destruct H as (t11 & h1 & E & H).
  unfold hy_enumerate, hbind in E. rewrite I in E. unfold hret in E. injection E as <- <-.
  unfold hfn_result in H.
  destruct (hbindo _ _ hc) as [s h2|v0 h2|] eqn:EB; try discriminate.
  { unfold hbindo in EB. destruct (hy_for _ _ _ hc); try discriminate. }
  inversion H; subst v0 h2; clear H.
  unfold hbindo in EB. destruct (hy_for _ _ _ hc) as [out h2|v1 h2|] eqn:EF; try discriminate.
  2:{ exfalso. eapply hy_for_no_rt; [apply en_outer_no_rt|eauto]. }
  unfold hrt in EB. inversion EB; subst r h'; clear EB.
  unfold hy_for, hbinde in EF. simpl hy_items in EF. cbv iota beta in EF.
  exists out.
  refine (for_go_hit (en_outer rec)
            (fun out => exists t15 sub, VTuple out = VTuple out /\ rec x hc = HOk t15 hc /\
               hy_items t15 hc = HOk sub hc /\
               forall js y jl, In (VTuple [js; y]) sub -> hy_items js hc = HOk jl hc ->
                 In (VTuple [VTuple (VInt (Z.of_nat n) :: jl); y]) out)
            hc (VTuple [VInt (Z.of_nat n); x]) (en_outer_grows rec RP) _ _
            (enum_go 0 l) (enum_go_In l n x 0%Z N) [] out h2 EF).
  - intros acc acc' Hi (t15 & sub & _ & E1 & E2 & E3). exists t15, sub. repeat split; auto. intros; apply Hi; eapply E3; eauto.
  - intros acc acc' h3 HB. apply en_outer_inv in HB; auto.
    destruct HB as (i & x0 & t15 & sub & E0 & E1 & E2 & E3).
    simpl in E0. injection E0 as <- <-.
    exists t15, sub. repeat split; auto. intros js y jl Hin Hj.
    refine (for_go_hit (en_inner (VInt (Z.of_nat n)))
              (fun out => In (VTuple [VTuple (VInt (Z.of_nat n) :: jl); y]) out)
              hc (VTuple [js; y]) (en_inner_grows _) _ _ sub Hin acc acc' h3 E3).
    + intros; auto.
    + intros a1 a2 h4 HB. apply en_inner_inv in HB.
      destruct HB as (-> & js' & y' & jl' & E4 & E5 & ->).
      simpl in E4. injection E4 as <- <-. rewrite Hj in E5. injection E5 as <-.
      apply in_or_app. right. left. reflexivity.
Qed.

(* depth 1 on a non-empty tuple / list value: the first item is ((0,), y) *)
Open Scope pyh_scope.
Definition en1_body : pv -> hm (list pv) := fun t4 =>
  '(t5, t6) <~h hy_unpack2 t4 ;;; v_i <~h hret t5 ;;; v_x_1 <~h hret t6 ;;;  hret [(VTuple [(VTuple [v_i]); v_x_1])].
Definition en1 (v : pv) : hm pv :=
  hfn_result (S:=unit) (
      t7 <~ (t3 <~h hy_enumerate v ;;; hy_comp t3 halways en1_body) ;;;
      t8 <~ hy_items (VTuple t7) ;;;
      hrt (VTuple ([] ++ t8))).
Close Scope pyh_scope.
Lemma enum1_eq : forall f v, S_HV_enum_at_depth (S f) v (VInt 1) = en1 v.
Proof. reflexivity. Qed.

Lemma bad_items : forall b hc l h1, bad b -> hy_items b hc = HOk l h1 -> exists y l', l = y :: l'.
Proof.
  intros. destruct b; simpl in *; try discriminate; try contradiction;
  inversion H0; subst; destruct l; try contradiction; eauto.
Qed.

Lemma enum_bad_1 : forall f b hc r h', bad b ->
  S_HV_enum_at_depth f b (VInt 1) hc = HOk r h' ->
  exists y rest, r = VTuple (VTuple [VTuple [VInt 0]; y] :: rest).
Proof.
  intros f b hc r h' B H. destruct f; [discriminate|]. rewrite enum1_eq in H. unfold en1 in H.
  apply fn_binde_inv in H. destruct H as (t7 & h1 & E & H).
  apply fn_binde_inv in H. destruct H as (t8 & h2 & E8 & H).
  simpl in E8. injection E8 as <- <-. unfold hfn_result, hrt in H. simpl in H. injection H as <- <-.
  unfold hbind in E. destruct (hy_enumerate b hc) as [t3 h3|] eqn:EE; [|discriminate].
  unfold hy_enumerate, hbind in EE. destruct (hy_items b hc) as [l h4|] eqn:EI; [|discriminate].
  destruct (bad_items _ _ _ _ B EI) as (y & l' & ->).
  unfold hret in EE. injection EE as <- <-.
  unfold hy_comp, hbind in E. simpl hy_items in E. cbv iota beta in E.
  simpl enum_go in E. simpl hcomp_go in E. unfold halways at 1, hret at 1 in E.
  unfold en1_body at 1, hy_unpack2 at 1, hbind at 1 2 in E. simpl in E.
  unfold hbind in E. destruct (hcomp_go halways en1_body (enum_go 1 l') h4); [|discriminate].
  unfold hret in E. injection E as <- <-. eauto.
Qed.

(* ================= the doomed states are fatal ================= *)
Lemma postb_for_hit : forall {S} (body : pv -> S -> hb S) (J K : heap -> Prop) e,
  (forall x s hc, J hc -> postb J (body x s hc)) ->
  (forall x s hc, K hc -> postb K (body x s hc)) ->
  (forall s hc, J hc -> postb K (body e s hc)) ->
  forall l, In e l -> forall s hc, J hc -> postb K (hfor_go body l s hc).
Proof.
  intros S body J K e HJ HK HE. induction l; simpl; intros HI s hc Jh; [tauto|].
  destruct HI as [->|HI].
  - eapply postb_bindo; [apply HE; auto|]. intros. apply postb_for; auto.
  - eapply postb_bindo; [apply HJ; auto|]. intros. apply IHl; auto.
Qed.

Lemma items_ref : forall r hc l, h_get r hc = Some (HList l) -> hy_items (VRef r) hc = HOk l hc.
Proof. intros. unfold hy_items. rewrite H. reflexivity. Qed.

(* an entry ((n, 0), y) of the depth-2 enumeration when the root holds a bad value at n *)
Lemma enum2_hits : forall fuel root n hc t h1, D1 root n hc ->
  S_HV_enum_at_depth fuel root (VInt 2) hc = HOk t h1 ->
  exists out y, t = VTuple out /\ In (VTuple [VTuple [VInt (Z.of_nat n); VInt 0]; y]) out.
Proof.
  intros fuel root n hc t h1 (r & l & b & -> & G & N & B) E.
  pose proof (enum_hpure _ _ _ _ _ _ E) as [-> _].
  destruct fuel as [|f1]; [discriminate|]. rewrite enum2_eq in E.
  eapply en_branch_contains in E; [|intros; apply enum_hpure|apply items_ref; eauto|eauto].
  destruct E as (out & t15 & sub & -> & E1 & E2 & E3).
  destruct (enum_bad_1 _ _ _ _ _ B E1) as (y & rest & ->).
  simpl in E2. injection E2 as <-.
  exists out, y. split; auto.
  apply (E3 (VTuple [VInt 0]) y [VInt 0%Z]); [left; reflexivity|reflexivity].
Qed.

(* an entry ((n, n', 0), y) of the depth-3 enumeration in a D2 state *)
Lemma enum3_hits : forall fuel root n c n' hc t h1, D2 root n c n' hc ->
  S_HV_enum_at_depth fuel root (VInt 3) hc = HOk t h1 ->
  exists out y, t = VTuple out /\
    In (VTuple [VTuple [VInt (Z.of_nat n); VInt (Z.of_nat n'); VInt 0]; y]) out.
Proof.
  intros fuel root n c n' hc t h1 (r & l & lc & b & -> & G & N & Gc & Nc & B) E.
  pose proof (enum_hpure _ _ _ _ _ _ E) as [-> _].
  destruct fuel as [|f1]; [discriminate|]. rewrite enum3_eq in E.
  eapply en_branch_contains in E; [|intros; apply enum_hpure|apply items_ref; eauto|eauto].
  destruct E as (out & t15 & sub & -> & E1 & E2 & E3).
  assert (D : D1 (VRef c) n' hc) by (exists c, lc, b; auto).
  destruct (enum2_hits _ _ _ _ _ _ D E1) as (out2 & y & -> & Hin).
  simpl in E2. injection E2 as <-.
  exists out, y. split; auto.
  apply (E3 (VTuple [VInt (Z.of_nat n'); VInt 0]) y [VInt (Z.of_nat n'); VInt 0%Z]); auto.
Qed.

Ltac st_unpack2c :=
  apply postb_binde; let a := fresh "p" in let h1 := fresh "h1" in let E := fresh "E" in
  intros a h1 E; unfold hy_unpack2, hy_unpack3, hbind in E; simpl in E; unfold hret in E;
  injection E as <- <-.

Lemma D1_index : forall r n hc, D1 (VRef r) n hc ->
  exists b, bad b /\ hy_index (VRef r) (VInt (Z.of_nat n)) hc = HOk b hc.
Proof.
  intros r n hc (r' & l & b & Er & G & N & B). injection Er as <-.
  exists b. split; auto. eapply hy_index_nat; eauto. apply items_ref; auto.
Qed.

(* loop 3 in a D1 state: the iteration (n, 0) fails *)
Lemma loop3_doomed : forall fuel root n hc t h1 s, D1 root n hc ->
  S_HV_enum_at_depth fuel root (VInt 2) hc = HOk t h1 ->
  postb (fun _ => False) (hy_for t (hm_body3 root) s hc).
Proof.
  intros fuel root n hc t h1 s D E.
  destruct (enum2_hits _ _ _ _ _ _ D E) as (out & y & -> & Hin).
  unfold hy_for. apply postb_binde. intros l h2 EI. simpl in EI. injection EI as <- <-.
  eapply (postb_for_hit (hm_body3 root) (D1 root n) (fun _ => False)); eauto.
  - intros. apply body3_stable; auto. apply D1_stable.
  - intros. contradiction.
  - clear. intros [] hc D. unfold hm_body3.
    st_unpack2c. st_unpack2c. do 3 st_ret.
    st_pas hpure_comp_str2 as F43.
    st_new.
    st_pas hpure_join as [s45 ->].
    apply (proj1 (D1_stable root n)) with (ex := [HList t]) in D.
    destruct D as (r & l & b & -> & G & N & B).
    assert (D : D1 (VRef r) n (hc ++ [HList t])) by (exists r, l, b; auto).
    destruct (D1_index _ _ _ D) as (b' & B' & EI).
    apply postb_binde; intros t46 h1 E46. rewrite EI in E46. injection E46 as <- <-.
    apply postb_binde; intros u h1 ES. apply hy_setitem_inv in ES.
    destruct ES as (a & ? & ? & ? & -> & _). contradiction.
Qed.

(* loop 2 in a D2 state: the iteration (n, n', 0) fails unless the state has become D1 *)
Lemma loop2_doomed : forall fuel root n c n' hc t h1 s, D2 root n c n' hc ->
  S_HV_enum_at_depth fuel root (VInt 3) hc = HOk t h1 ->
  postb (D1 root n) (hy_for t (hm_body2 root) s hc).
Proof.
  intros fuel root n c n' hc t h1 s D E.
  destruct (enum3_hits _ _ _ _ _ _ _ _ D E) as (out & y & -> & Hin).
  unfold hy_for. apply postb_binde. intros l h2 EI. simpl in EI. injection EI as <- <-.
  eapply (postb_for_hit (hm_body2 root) (fun hc => D2 root n c n' hc \/ D1 root n hc) (D1 root n)); eauto.
  - intros. apply body2_stable; auto. apply D21_stable.
  - intros. apply body2_stable; auto. apply D1_stable.
  - clear. intros s hc D. unfold hm_body2.
    st_unpack2c. st_unpack2c. do 4 st_ret.
    st_pas hpure_comp_str0 as F25.
    st_pas hpure_comp_str2 as F29.
    st_new.
    st_pas hpure_join as [s31 ->].
    apply (proj1 (D21_stable root n c n')) with (ex := [HList t0]) in D.
    destruct D as [D|D].
    + destruct D as (r & l & lc & b & -> & G & N & Gc & Nc & B).
      apply postb_binde; intros t32 h1 E32.
      rewrite (hy_index_nat _ _ _ _ _ (items_ref _ _ _ G) N) in E32. injection E32 as <- <-.
      apply postb_binde; intros t33 h1 E33.
      rewrite (hy_index_nat _ _ _ _ _ (items_ref _ _ _ Gc) Nc) in E33. injection E33 as <- <-.
      apply postb_binde; intros u h1 ES. apply hy_setitem_inv in ES.
      destruct ES as (a & ? & ? & ? & -> & _). contradiction.
    + st_pure hpure_index. st_pure hpure_index. st_set. simpl. eapply D1_stable; eauto.
Qed.

(* ================= the whole function ================= *)
(* postcondition of a block that ends by returning *)
Definition postr {S} (Q : pv -> heap -> Prop) (o : hout S) : Prop :=
  match o with HNx _ _ => False | HRt v h' => Q v h' | HEx _ _ => True end.
Lemma postr_binde : forall {A S} (m : hm A) (k : A -> hb S) Q hc,
  (forall a h1, m hc = HOk a h1 -> postr Q (k a h1)) -> postr Q (hbinde m k hc).
Proof. intros. unfold hbinde. destruct (m hc); simpl; auto. Qed.
Lemma postr_bindo : forall {S T} (b : hb S) (k : S -> hb T) (P : heap -> Prop) Q hc,
  postb P (b hc) -> (forall s h1, P h1 -> postr Q (k s h1)) -> postr Q (hbindo b k hc).
Proof. intros. unfold hbindo. destruct (b hc); simpl in *; auto. contradiction. Qed.

Ltac rt_pure lem :=
  apply postr_binde; let a := fresh "t" in let h1 := fresh "h1" in let E := fresh "E" in
  intros a h1 E; apply lem in E; destruct E as [-> ?].
Tactic Notation "rt_pas" constr(lem) "as" simple_intropattern(pat) :=
  apply postr_binde; let a := fresh "t" in let h1 := fresh "h1" in let E := fresh "E" in
  intros a h1 E; apply lem in E; destruct E as [-> pat].

Section Whole.
Variable h : heap.
Let Q : pv -> heap -> Prop := fun v h' => extends h h' /\ isstr v.

Lemma tail_good : forall root hc, Good h root hc -> postr Q (hm_tail root hc).
Proof.
  intros root hc HG. unfold hm_tail.
  rt_pas hpure_comp_str2 as F60.
  apply postr_binde; intros t61 h1 E; rewrite hy_new_list_eq in E; injection E as <- <-.
  rt_pas hpure_join as [s62 ->].
  rt_pas (hpure_lift (py_add (VStr [60;104;116;109;108;62;60;98;111;100;121;62]%N) (VStr s62)) isstr
            (fun a Ha => py_add_str_l _ _ _ Ha)) as [s63 ->].
  rt_pas (hpure_lift (py_add (VStr s63) (VStr [60;47;98;111;100;121;62;60;47;104;116;109;108;62]%N)) isstr
            (fun a Ha => py_add_str_l _ _ _ Ha)) as S64.
  unfold hrt; simpl. split; auto.
  apply extends_app. destruct HG; auto.
Qed.

Lemma from4_good : forall fuel root hc, Good h root hc -> postr Q (hm_from4 fuel root hc).
Proof.
  intros fuel root hc HG. unfold hm_from4.
  rt_pure enum_hpure.
  eapply postr_bindo with (P := Good h root).
  - apply postb_hy_for; auto. intros; apply body4_good; auto.
  - intros [] h1 HG1. apply tail_good; auto.
Qed.

Lemma from3_good : forall fuel root hc, Good h root hc -> postr Q (hm_from3 fuel root hc).
Proof.
  intros fuel root hc HG. unfold hm_from3.
  rt_pure enum_hpure.
  eapply postr_bindo with (P := Good h root).
  - apply postb_hy_for; auto. intros; apply body3_good; auto.
  - intros [] h1 HG1. apply from4_good; auto.
Qed.

Lemma from3_doomed : forall fuel root n hc, D1 root n hc -> postr Q (hm_from3 fuel root hc).
Proof.
  intros fuel root n hc D. unfold hm_from3.
  apply postr_binde; intros t34 h1 E. pose proof (enum_hpure _ _ _ _ _ _ E) as [-> _].
  eapply postr_bindo with (P := fun _ => False).
  - eapply loop3_doomed; eauto.
  - intros; contradiction.
Qed.

Lemma from2_good : forall fuel root hc, Good h root hc -> postr Q (hm_from2 fuel root hc).
Proof.
  intros fuel root hc HG. unfold hm_from2.
  rt_pure enum_hpure.
  eapply postr_bindo with (P := InvB h root).
  - apply postb_hy_for; [|left; auto]. intros x s hc0 [G|[n D]].
    + apply body2_good; auto.
    + eapply postb_weaken; [apply body2_stable; [apply (D1_stable root n)|exact D]|].
      intros; right; eauto.
  - intros s h1 [G|[n D]].
    + apply from3_good; auto.
    + eapply from3_doomed; eauto.
Qed.

Lemma from2_doomed : forall fuel root n c n' hc, D2 root n c n' hc \/ D1 root n hc ->
  postr Q (hm_from2 fuel root hc).
Proof.
  intros fuel root n c n' hc D. unfold hm_from2.
  apply postr_binde; intros t17 h1 E. pose proof (enum_hpure _ _ _ _ _ _ E) as [-> _].
  eapply postr_bindo with (P := D1 root n).
  - destruct D as [D|D].
    + eapply loop2_doomed; eauto.
    + apply postb_hy_for; auto. intros. apply body2_stable; auto. apply D1_stable.
  - intros s h1 D1'. eapply from3_doomed; eauto.
Qed.

Lemma from1_good : forall fuel x root hc, Good h root hc -> postr Q (hm_from1 fuel x root hc).
Proof.
  intros fuel x root hc HG. unfold hm_from1.
  rt_pure enum_hpure.
  eapply postr_bindo with (P := InvA h root).
  - apply postb_hy_for; [|left; auto]. intros x0 s hc0 [G|(n & c & n' & D)].
    + apply body1_good; auto.
    + eapply postb_weaken; [apply body1_stable; [apply (D21_stable root n c n')|exact D]|].
      intros hc1 H1; right; exists n, c, n'; exact H1.
  - intros s h1 [G|(n & c & n' & D)].
    + apply from2_good; auto.
    + eapply from2_doomed; eauto.
Qed.

(* a non-empty tuple / list VALUE as argument: the copy is the value itself and the last loop
   cannot assign into it *)
Lemma stable_true : stable (fun _ => True).
Proof. split; auto. Qed.

Lemma from4_badroot : forall fuel root hc, bad root -> postr Q (hm_from4 fuel root hc).
Proof.
  intros fuel root hc B. unfold hm_from4.
  apply postr_binde; intros t47 h1 E. pose proof (enum_hpure _ _ _ _ _ _ E) as [-> _].
  destruct (enum_bad_1 _ _ _ _ _ B E) as (y & rest & ->).
  eapply postr_bindo with (P := fun _ => False); [|intros; contradiction].
  unfold hy_for. apply postb_binde. intros l h2 EI. simpl in EI. injection EI as <- <-.
  cbn [hfor_go]. eapply postb_bindo with (P := fun _ => False); [|intros; contradiction].
  unfold hm_body4.
  st_unpack2c.
  apply postb_binde; intros t51 h1 E1. unfold hy_unpack1, hbind in E1; simpl in E1; unfold hret in E1;
    injection E1 as <- <-.
  do 2 st_ret.
  st_pas hpure_comp_str2 as F55.
  st_pas hpure_join as [s56 ->].
  apply postb_binde; intros u h1 ES. apply hy_setitem_inv in ES.
  destruct ES as (a & ? & ? & ? & -> & _). contradiction.
Qed.

Lemma from1_badroot : forall fuel x root hc, bad root -> postr Q (hm_from1 fuel x root hc).
Proof.
  intros fuel x root hc B. unfold hm_from1.
  apply postr_binde; intros t2 h1 _.
  eapply postr_bindo with (P := fun _ => True).
  { apply postb_hy_for; auto. intros. apply body1_stable; auto. apply stable_true. }
  intros s1 h2 _. unfold hm_from2.
  apply postr_binde; intros t17 h3 _.
  eapply postr_bindo with (P := fun _ => True).
  { apply postb_hy_for; auto. intros. apply body2_stable; auto. apply stable_true. }
  intros s2 h4 _. unfold hm_from3.
  apply postr_binde; intros t34 h5 _.
  eapply postr_bindo with (P := fun _ => True).
  { apply postb_hy_for; auto. intros. apply body3_stable; auto. apply stable_true. }
  intros [] h6 _. apply from4_badroot; auto.
Qed.

Lemma bad_dec : forall v, bad v \/ ~ bad v.
Proof. destruct v; simpl; auto; destruct l; auto. Qed.

Lemma hm_all_ok : forall fuel x v h', hm_all fuel x h = HOk v h' -> extends h h' /\ isstr v.
Proof.
  intros fuel x v h' H. unfold hm_all in H.
  assert (P : postr Q (hbinde (hy_deepcopy fuel x) (fun t1 => hm_from1 fuel x t1) h)).
  { apply postr_binde. intros t1 h1 E.
    apply (deepcopy_closed (length h)) in E; [|apply closed_init|lia].
    destruct E as (X & C & R).
    destruct (ref_dec x) as [[a ->]|NR].
    - simpl in R. destruct R as (b & -> & Hb). apply from1_good. split; [auto|split; auto].
    - assert (t1 = x) by (destruct x; simpl in R; auto; exfalso; apply NR; eexists; eauto). subst t1.
      destruct (bad_dec x) as [B|NB].
      + apply from1_badroot; auto.
      + apply from1_good. split; [auto|split; auto].
        destruct x; simpl; auto. exfalso; apply NR; eexists; eauto. }
  unfold hfn_result in H. destruct (hbinde _ _ h); simpl in P; try contradiction; try discriminate.
  inversion H; subst. exact P.
Qed.
End Whole.

(* get_html_map: no cell that existed before the call is modified, whatever the argument, and the
   result is a string *)
Theorem hv_get_html_map_keeps_argument : forall fuel x h v h',
  S_HV_get_html_map fuel x h = HOk v h' ->
  extends h h' /\ exists s, v = VStr s.
Proof. intros. rewrite get_html_map_eq in H. apply hm_all_ok in H. exact H. Qed.

(* in particular every cell reachable from the argument reads the same afterwards *)
Theorem hv_get_html_map_argument_unchanged : forall fuel x h v h' a,
  S_HV_get_html_map fuel x h = HOk v h' -> (a < length h)%nat -> h_get a h' = h_get a h.
Proof.
  intros. apply hv_get_html_map_keeps_argument in H. destruct H as [[ex ->] _].
  unfold h_get. apply nth_error_app1; auto.
Qed.

Print Assumptions hv_enum_at_depth_pure.
Print Assumptions hy_deepcopy_extends.
Print Assumptions hv_get_html_map_keeps_argument.
Print Assumptions hv_get_html_map_argument_unchanged.
