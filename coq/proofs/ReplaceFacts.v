(* ReplaceFacts.v — C17 search-and-replace at paragraph level, C16 re-extraction
   after save (facts about model/Save.v on top of FrameFacts / SaveFacts). *)
From Coq Require Import List NArith ZArith Bool Arith Lia.
From Coq Require String.
From D2P Require Import Str Err Xml TableTypes Tables Fmt NumFmt Bullets Merge Collector Walk Iter
     Output Paths Package Content Save.
From D2P Require Import BulletsFacts TokFacts ShapeFacts FrameFacts MergeFacts SaveFacts.
Import ListNotations.
Open Scope N_scope.

(* ================================================================== *)
(* 0. an explicit description of what an inline element's open handler  *)
(*    appends (FrameFacts only shows that such a description exists)    *)
(* ================================================================== *)
Definition note_ref_emit (kind : str) (e : einfo) : res (list tok * bool) :=
  id <- attr_w_req e s_id ;; Ok (raw (s_dashes ++ kind ++ id ++ s_dashes), true).

Definition image_ref_emit (v : env) (rid : res str) : res (list tok * bool) :=
  match rid with
  | Err KeyError => Ok ([], true)
  | Err x => Err x
  | Ok id =>
      match dict_get id (env_rels v) with
      | None => Ok ([], true)
      | Some img => Ok (raw (s_dashes ++ img ++ s_dashes), true)
      end
  end.

(* [mtext] is the itertext of the element (only m:oMath looks at it) and
   [body] the text below a hyperlink *)
Definition open_emit (v : env) (e : einfo) (ks : list anode) (body : list tok) (mtext : str)
  : res (list tok * bool) :=
  let tg := e_ptag e in
  if str_eqb tg tag_RUN then
    st <- get_run_formatting e ks (env_x2h v) ;; Ok ([], true)
  else if (str_eqb tg tag_TEXT || str_eqb tg tag_TEXT_MATH)%bool then
    Ok (map TTxt (ostr (e_text e)), true)
  else if str_eqb tg tag_MATH then
    Ok (TOpen s_latex :: map TTxt mtext ++ [TClose s_latex], false)
  else if str_eqb tg tag_BR then Ok ([TRaw 10], true)
  else if str_eqb tg tag_SYM then
    font <- attr_w e s_font ;;
    chr <- attr_w e s_char ;;
    match ostr chr with
    | [] => Ok ([], true)
    | _ :: tl =>
        Ok (TOpen (s_span_font ++ ostr_or_None font)
            :: raw ([38; 35; 120; 48] ++ tl ++ [59]) ++ [TClose s_span], true)
    end
  else if str_eqb tg tag_HYPERLINK then
    match attr_r_req e s_id with
    | Err KeyError => Ok (body, false)
    | Err x => Err x
    | Ok rid =>
        match dict_get rid (env_rels v) with
        | None => Ok (body, false)
        | Some link =>
            match attr_w e s_anchor with
            | Err KeyError => Ok (body, false)
            | Err x => Err x
            | Ok anchor =>
                let link' := match link, anchor with
                             | _ :: _, Some (a :: r) => link ++ 35 :: a :: r
                             | _, _ => link
                             end in
                Ok (link_toks link' body, false)
            end
        end
    end
  else if str_eqb tg tag_FORM_CHECKBOX then
    x <- get_checkBox_entry e ks ;; Ok (raw x, true)
  else if str_eqb tg tag_FORM_DDLIST then
    x <- get_ddList_entry e ks ;; Ok (map TTxt x, true)
  else if str_eqb tg tag_FOOTNOTE_REFERENCE then note_ref_emit s_footnote e
  else if str_eqb tg tag_ENDNOTE_REFERENCE then note_ref_emit s_endnote e
  else if str_eqb tg tag_IMAGE then image_ref_emit v (attr_r_req e s_embed)
  else if str_eqb tg tag_IMAGE_ALT then
    match attr_plain e s_descr with
    | None => Ok ([], true)
    | Some d => Ok (raw s_alt_prefix ++ map TTxt d ++ [TRaw 60], true)
    end
  else if str_eqb tg tag_IMAGEDATA then image_ref_emit v (attr_r_req e s_id)
  else if str_eqb tg tag_TAB then Ok ([TRaw 9], true)
  else Ok ([], true).

Ltac rb_exact :=
  first [ apply realizes_b_insert | apply realizes_b_add_code | apply realizes_b_add_text
        | apply realizes_b_commence_run | apply realizes_b_id | apply realizes_b_err ].

(* destruct the state-independent scrutinee shared by handler and description *)
Ltac rbe_step :=
  cbv beta iota;
  match goal with
  | |- realizes_b (fun s => bind ?c _) (bind ?c _) =>
      let x := fresh "x" in
      destruct c as [?|x]; cbn [bind]; [|apply realizes_b_err]
  | |- realizes_b (fun s => if ?c then _ else _) (if ?c then _ else _) => destruct c
  | |- realizes_b (fun s => match ?c with _ => _ end) (match ?c with _ => _ end) => destruct c
  | |- realizes_b _ _ => rb_exact
  end.

Lemma note_ref_realizes_emit v kind e : realizes_b (note_ref v kind e) (note_ref_emit kind e).
Proof. unfold note_ref, note_ref_emit. repeat rbe_step. Qed.

Lemma image_ref_realizes_emit v rid : realizes_b (image_ref v rid) (image_ref_emit v rid).
Proof. unfold image_ref, image_ref_emit. repeat rbe_step. Qed.

Lemma open_tag_realizes_emit v path e ks body :
  inline_tag (e_ptag e) ->
  realizes_b (open_tag v path (AE e ks) e ks body)
             (open_emit v e ks body (itertext (AE e ks))).
Proof.
  intros (Hp & _ & Hfn & Hen & Hcs & Hce).
  unfold open_tag, open_emit, note_label. cbv zeta. rewrite Hp, Hfn, Hen, Hcs, Hce.
  destruct (str_eqb (e_ptag e) tag_RUN); [repeat rbe_step|].
  destruct (str_eqb (e_ptag e) tag_TEXT || str_eqb (e_ptag e) tag_TEXT_MATH)%bool;
    [repeat rbe_step|].
  destruct (str_eqb (e_ptag e) tag_MATH); [repeat rbe_step|].
  destruct (str_eqb (e_ptag e) tag_BR); [repeat rbe_step|].
  destruct (str_eqb (e_ptag e) tag_SYM); [repeat rbe_step|].
  destruct (str_eqb (e_ptag e) tag_HYPERLINK); [repeat rbe_step|].
  destruct (str_eqb (e_ptag e) tag_FORM_CHECKBOX); [repeat rbe_step|].
  destruct (str_eqb (e_ptag e) tag_FORM_DDLIST); [repeat rbe_step|].
  destruct (str_eqb (e_ptag e) tag_FOOTNOTE_REFERENCE); [apply note_ref_realizes_emit|].
  destruct (str_eqb (e_ptag e) tag_ENDNOTE_REFERENCE); [apply note_ref_realizes_emit|].
  destruct (str_eqb (e_ptag e) tag_IMAGE); [apply image_ref_realizes_emit|].
  destruct (str_eqb (e_ptag e) tag_IMAGE_ALT); [repeat rbe_step|].
  destruct (str_eqb (e_ptag e) tag_IMAGEDATA); [apply image_ref_realizes_emit|].
  destruct (str_eqb (e_ptag e) tag_TAB); [repeat rbe_step|].
  repeat rbe_step.
Qed.

(* the unfolding equation of [emit] at an inline element *)
Definition emit_AE_rhs (v : env) (path : list nat) (e : einfo) (ks : list anode) : res (list tok) :=
  body <- (if str_eqb (e_ptag e) tag_HYPERLINK then below_loop v path ks O else Ok []) ;;
  r <- open_emit v e ks body (itertext (AE e ks)) ;;
  em2 <- (if snd r then emit_kids v path ks O else Ok []) ;;
  Ok (fst r ++ em2).

Lemma emit_AE v path e ks :
  plain_inline (AE e ks) = true -> emit v path (AE e ks) = emit_AE_rhs v path e ks.
Proof.
  intro Hpl. rewrite emit_is_emit_of. apply realizes_emit_of.
  pose proof (plain_inline_no_depth _ Hpl) as Hd.
  apply plain_inline_AE in Hpl. destruct Hpl as [Htag Hks].
  pose proof (plain_kids_realizable v ks Hks) as HF.
  unfold emit_AE_rhs.
  destruct (if str_eqb (e_ptag e) tag_HYPERLINK then below_loop v path ks O else Ok [])
    as [body|x] eqn:Eb; cbn [bind].
  2:{ intros s p rest Ho. rewrite walk_AE. cbv zeta. rewrite Hd.
      cbn [set_caret bind]. rewrite Eb. reflexivity. }
  pose proof (open_tag_realizes_emit v path e ks body Htag) as Hro.
  pose proof (close_tag_realizes v e ks Htag) as Hc.
  pose proof (kids_loop_realizes v path ks HF O) as Hk.
  destruct (open_emit v e ks body (itertext (AE e ks))) as [[em1 b]|x]; cbn [bind fst snd].
  2:{ intros s p rest Ho. rewrite walk_AE. cbv zeta. rewrite Hd.
      cbn [set_caret bind]. rewrite Eb. cbn [bind]. rewrite (Hro s p rest Ho). reflexivity. }
  intros s p rest Ho. rewrite walk_AE. cbv zeta. rewrite Hd.
  cbn [set_caret bind]. rewrite Eb. cbn [bind].
  destruct (Hro s p rest Ho) as (rs1 & E1 & T1). rewrite E1. cbn [bind].
  destruct b.
  - specialize (Hk (set_open (with_runs p rs1 :: rest) s) (with_runs p rs1) rest eq_refl).
    destruct (emit_kids v path ks O) as [em2|x]; cbn [bind].
    + destruct Hk as (rs2 & E2 & T2). rewrite E2. cbn [bind].
      destruct (Hc (set_open (with_runs (with_runs p rs1) rs2 :: rest)
                      (set_open (with_runs p rs1 :: rest) s))
                   (with_runs (with_runs p rs1) rs2) rest eq_refl) as (rs3 & E3 & T3).
      rewrite E3. cbn [bind]. exists rs3. split; [destruct s; reflexivity|].
      rewrite T3. cbn [p_runs with_runs]. rewrite T2. cbn [p_runs with_runs].
      rewrite T1, app_nil_r, app_assoc. reflexivity.
    + rewrite Hk. reflexivity.
  - destruct (Hc (set_open (with_runs p rs1 :: rest) s) (with_runs p rs1) rest eq_refl)
      as (rs3 & E3 & T3).
    cbn [bind]. rewrite E3. cbn [bind]. exists rs3. split; [destruct s; reflexivity|].
    rewrite T3. cbn [p_runs with_runs]. rewrite T1, !app_nil_r. reflexivity.
Qed.
